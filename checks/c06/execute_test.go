package c06

// The real ExecutionEngine.Execute on a one-subgraph engine (the subgraph is a
// RoundTripper that records what it is sent), used for the categories that the
// replayed admission sequence cannot see because they live in Execute's own
// glue: request documents with several operations.

import (
	"context"
	"fmt"
	"io"
	"net/http"
	"strings"

	"github.com/jensneuse/abstractlogger"

	"verif/internal/vk"

	"github.com/wundergraph/graphql-go-tools/execution/engine"
	"github.com/wundergraph/graphql-go-tools/execution/graphql"
	"github.com/wundergraph/graphql-go-tools/v2/pkg/engine/datasource/graphql_datasource"
	"github.com/wundergraph/graphql-go-tools/v2/pkg/engine/plan"
	"github.com/wundergraph/graphql-go-tools/v2/pkg/engine/resolve"
)

type rtFunc func(*http.Request) (*http.Response, error)

func (f rtFunc) RoundTrip(r *http.Request) (*http.Response, error) { return f(r) }

type bufWriter struct{ buf []byte }

func (w *bufWriter) Write(p []byte) (int, error) { w.buf = append(w.buf, p...); return len(p), nil }
func (w *bufWriter) Flush() error                { return nil }
func (w *bufWriter) Complete()                   {}
func (w *bufWriter) Heartbeat() error            { return nil }
func (w *bufWriter) Error(b []byte)              { w.buf = append(w.buf, b...) }

// realEngine is one ExecutionEngine over one schema.
type realEngine struct {
	eng    *engine.ExecutionEngine
	cancel context.CancelFunc
	sent   []string
}

// execSDL extends the schema of a case by a field without arguments and a
// field with a String argument (for the other operations of a document).
func execSDL(sdl string) string {
	if !strings.HasPrefix(sdl, "type Query { ") {
		panic("harness: unexpected schema layout: " + sdl)
	}
	return "type Query { free: String others(arg: String): String otheri(arg: Int): String " + strings.TrimPrefix(sdl, "type Query { ")
}

func newRealEngine(sdl string) (*realEngine, error) {
	re := &realEngine{}
	client := &http.Client{Transport: rtFunc(func(r *http.Request) (*http.Response, error) {
		b, _ := io.ReadAll(r.Body)
		re.sent = append(re.sent, string(b))
		return &http.Response{StatusCode: 200, Header: http.Header{}, Body: io.NopCloser(strings.NewReader(`{"data":{"probe":"ok","free":"ok","others":"ok","otheri":"ok"}}`))}, nil
	})}
	ctx, cancel := context.WithCancel(context.Background())
	re.cancel = cancel
	sub := graphql_datasource.NewGraphQLSubscriptionClient(ctx, graphql_datasource.WithUpgradeClient(client), graphql_datasource.WithStreamingClient(client))
	factory, err := graphql_datasource.NewFactory(ctx, client, sub)
	if err != nil {
		return nil, err
	}
	sc, err := graphql_datasource.NewSchemaConfiguration(sdl, nil)
	if err != nil {
		return nil, err
	}
	cc, err := graphql_datasource.NewConfiguration(graphql_datasource.ConfigurationInput{Fetch: &graphql_datasource.FetchConfiguration{URL: "http://sub", Method: "POST"}, SchemaConfiguration: sc})
	if err != nil {
		return nil, err
	}
	ds, err := plan.NewDataSourceConfiguration[graphql_datasource.Configuration]("sub", factory,
		&plan.DataSourceMetadata{RootNodes: []plan.TypeField{{TypeName: "Query", FieldNames: []string{"probe", "free", "others", "otheri"}}}}, cc)
	if err != nil {
		return nil, err
	}
	schema, err := graphql.NewSchemaFromString(sdl)
	if err != nil {
		return nil, err
	}
	conf := engine.NewConfiguration(schema)
	conf.AddDataSource(ds)
	conf.SetFieldConfigurations(plan.FieldConfigurations{
		{TypeName: "Query", FieldName: "probe", Arguments: plan.ArgumentsConfigurations{{Name: "arg", SourceType: plan.FieldArgumentSource}}},
		{TypeName: "Query", FieldName: "others", Arguments: plan.ArgumentsConfigurations{{Name: "arg", SourceType: plan.FieldArgumentSource}}},
		{TypeName: "Query", FieldName: "otheri", Arguments: plan.ArgumentsConfigurations{{Name: "arg", SourceType: plan.FieldArgumentSource}}},
	})
	re.eng, err = engine.NewExecutionEngine(ctx, abstractlogger.NoopLogger, conf, resolve.ResolverOptions{MaxConcurrency: 4})
	return re, err
}

func (re *realEngine) close() { re.cancel() }

// execResult is what Execute did with one request.
type execResult struct {
	Accepted bool // Execute returned nil and the subgraph was asked
	Msg      string
	Sent     string
	Panic    bool
}

func (e execResult) String() string {
	if e.Accepted {
		return "accepted, subgraph request " + e.Sent
	}
	return fmt.Sprintf("rejected: %q", e.Msg)
}

// execute: variables == "" means no variables member.
func (re *realEngine) execute(query, operationName, variables string) (res execResult) {
	defer func() {
		if p := recover(); p != nil {
			res = execResult{Msg: fmt.Sprint("panic: ", p), Panic: true}
		}
	}()
	re.sent = re.sent[:0]
	req := &graphql.Request{Query: query, OperationName: operationName}
	if variables != "" {
		req.Variables = []byte(variables)
	}
	w := &bufWriter{}
	if err := re.eng.Execute(context.Background(), req, w); err != nil {
		return execResult{Msg: err.Error()}
	}
	if len(re.sent) == 0 {
		return execResult{Msg: "Execute returned nil but the subgraph was not asked; response " + string(w.buf)}
	}
	return execResult{Accepted: true, Sent: re.sent[0]}
}

// ---------------------------------------------------------------- documents with several operations

const (
	cMultiOp = "the verdict for the executed operation does not depend on the other operations of the request document"
	cExecute = "ExecutionEngine.Execute gives the verdict of the replayed admission sequence"
)

// multiDoc is one request document built around the judged operation.
type multiDoc struct {
	Shape    string // fingerprint site
	Query    string
	Selected string // operationName
	Base     string // which single-operation baseline it must equal: judged | other | free
}

// multiDocs: the menu of documents for a single-variable case.
func multiDocs(gc *gctx) (judged, other, free string, docs []multiDoc) {
	judged = "query Judged(" + strings.TrimPrefix(gc.query, "query(")
	// the same variable name with a different type
	if gc.vars[0].T.base() == "String" {
		other = "query Other($" + gc.vars[0].Name + ": Int!) { otheri(arg: $" + gc.vars[0].Name + ") }"
	} else {
		other = "query Other($" + gc.vars[0].Name + ": String!) { others(arg: $" + gc.vars[0].Name + ") }"
	}
	free = "query Free { free }"
	// the fingerprint site is the position of the executed operation and the kind
	// of its companion, not the particular document
	const (
		first    = "executed operation is the first of the document; "
		notFirst = "executed operation is not the first of the document; "
		compFree = "the other operation declares no variables"
		compDecl = "the other operation declares a variable of the same name with another type"
	)
	docs = []multiDoc{
		{notFirst + compFree, free + " " + judged, "Judged", "judged"},
		{first + compFree, judged + " " + free, "Judged", "judged"},
		{first + compDecl, judged + " " + other, "Judged", "judged"},
		{notFirst + compDecl, other + " " + judged, "Judged", "judged"},
		{notFirst + compDecl, judged + " " + other, "Other", "other"},
		{first + compDecl, other + " " + judged, "Other", "other"},
		{"executed operation declares no variables and is the first of the document", free + " " + judged, "Free", "free"},
		{"executed operation declares no variables and is not the first of the document", judged + " " + free, "Free", "free"},
	}
	return
}

func execDiff(base, got execResult) string {
	switch {
	case base.Accepted && !got.Accepted, !base.Accepted && !got.Accepted && base.Msg != got.Msg:
		return "rejected although accepted as a single-operation document, or rejected with another message"
	case !base.Accepted && got.Accepted:
		return "accepted although rejected as a single-operation document"
	case base.Accepted && base.Sent != got.Sent:
		return "same verdict, different subgraph request"
	}
	return ""
}

// multiOpCase runs one single-variable case through ExecutionEngine.Execute as
// a single-operation document and inside every document of the menu, and
// records every difference. seamAdm is the verdict of the replayed sequence.
func multiOpCase(run *vk.Run, re *realEngine, c *tcase, seamAdm admission) {
	judged, other, free, docs := multiDocs(c.gc)
	vars := c.varsJSON()
	base := map[string]execResult{
		"judged": re.execute(judged, "Judged", vars),
		"other":  re.execute(other, "Other", vars),
		"free":   re.execute(free, "Free", vars),
	}
	in := c.replay()
	in.MultiOp = true
	run.Count("multi_operation_cases", 1)
	run.Eval(1)
	run.Count("execute_calls", 3)
	if base["judged"].Accepted {
		run.Count("multi_operation_cases_accepted_as_single_operation", 1)
	} else {
		run.Count("multi_operation_cases_rejected_as_single_operation", 1)
	}
	// the real Execute against the replayed sequence (anonymous single operation)
	if seamAdm.Stage != "panic" && !base["judged"].Panic {
		run.Count("execute_compared_with_replayed_sequence", 1)
		d := ""
		switch {
		case seamAdm.Accepted && !base["judged"].Accepted:
			d = "Execute rejects what the replayed sequence accepts"
		case !seamAdm.Accepted && base["judged"].Accepted:
			d = "Execute accepts what the replayed sequence rejects"
		case !seamAdm.Accepted && seamAdm.Msg != base["judged"].Msg:
			d = "same verdict, different message"
		}
		if d != "" {
			run.Violate(vk.Violation{Clause: cExecute, Site: "single-operation document", Class: d,
				Detail: fmt.Sprintf("%s | operation %s | replayed sequence: accepted=%v stage=%q msg=%q | Execute: %s", c.describe(), judged, seamAdm.Accepted, seamAdm.Stage, seamAdm.Msg, base["judged"]), Input: in})
		}
	}
	for _, d := range docs {
		got := re.execute(d.Query, d.Selected, vars)
		run.Count("multi_operation_documents", 1)
		run.Count("execute_calls", 1)
		if diff := execDiff(base[d.Base], got); diff != "" {
			run.Violate(vk.Violation{Clause: cMultiOp, Site: d.Shape, Class: diff,
				Detail: fmt.Sprintf("schema: %s | document: %s | operationName: %s | variables: %s | as a single-operation document: %s | in this document: %s",
					strings.ReplaceAll(strings.TrimSpace(execSDL(c.gc.sdlE)), "\n", " "), d.Query, d.Selected, orNone(vars), base[d.Base], got), Input: in})
		}
		run.Outcome(fmt.Sprintf("multiop|%s|%v", d.Base, got.Accepted))
	}
}

// multiOps: every case of a small single-variable space through the menu of
// multi-operation documents. One engine per schema (group).
func multiOps(run *vk.Run, o *oracles, cfg spaceCfg) {
	sp := newSpace(cfg)
	run.Bound("multi_operation_space", fmt.Sprintf("every single-variable case of positions %v, list depth <= %d, deviation budget %d, through ExecutionEngine.Execute as single-operation document and in 8 two-operation documents (variable-free operation before / after, operation declaring the same variable with another type before / after, each operation selected in turn by operationName)", cfg.Ctxs, cfg.MaxDepth, cfg.Budget))
	var re *realEngine
	var reFor *gctx
	defer func() {
		if re != nil {
			re.close()
		}
	}()
	var n int64
	sp.forEachSingle(func(ref caseRef, c *tcase) bool {
		if !run.Mine(int64(ref.gi)) {
			return true
		}
		if n++; n%64 == 0 && run.Expired() {
			return false
		}
		if reFor != c.gc {
			if re != nil {
				re.close()
			}
			var err error
			re, err = newRealEngine(execSDL(c.gc.sdlE))
			if err != nil {
				panic(fmt.Sprintf("harness: cannot build an engine for %s: %v", c.gc.sdlE, err))
			}
			reFor = c.gc
		}
		adm := admit(o.eng.get(c.gc.sdlE), c.gc.query, c.varsJSON(), nil)
		multiOpCase(run, re, c, adm)
		return true
	})
}
