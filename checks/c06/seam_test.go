package c06

// The seam (the engine's admission path for variables, driven through exported
// APIs exactly as ExecutionEngine.Execute does) and the second oracle
// (gqlparser validator.VariableValues).

import (
	"verif/internal/engineseam"

	"bytes"
	"encoding/json"
	"fmt"
	"runtime/debug"
	"strings"

	"github.com/vektah/gqlparser/v2"
	gast "github.com/vektah/gqlparser/v2/ast"
	"github.com/vektah/gqlparser/v2/validator"

	"github.com/wundergraph/graphql-go-tools/execution/graphql"
	"github.com/wundergraph/graphql-go-tools/v2/pkg/astnormalization"
	"github.com/wundergraph/graphql-go-tools/v2/pkg/operationreport"
	"github.com/wundergraph/graphql-go-tools/v2/pkg/variablesvalidation"
)

// admission is what the engine did with one request.
type admission struct {
	Accepted bool
	Stage    string // stage that rejected: normalize | validate | extract | remap | variables | panic
	Msg      string // error text of the rejection
	// verdict and message of the direct VariablesValidator run with
	// DisableExposingVariablesContent on the same (normalized) inputs; Ran is
	// false when an earlier stage rejected.
	HiddenRan      bool
	HiddenAccepted bool
	HiddenMsg      string
	FinalVars      string // variables JSON after normalization
	PanicSite      string // first repository frame below the panic
	// the same step on the long-lived validator instances that are re-used for
	// every request of the process (ReuseRan is false when no validator ran)
	ReuseRan            bool
	ReuseAccepted       bool
	ReuseMsg            string
	ReuseHiddenAccepted bool
	ReuseHiddenMsg      string
}

// reusePair are the long-lived validator instances: one with and one without
// DisableExposingVariablesContent. They see every request the fresh instances see.
type reusePair struct {
	exposed, hidden *variablesvalidation.VariablesValidator
}

func newReusePair() *reusePair {
	return &reusePair{
		exposed: variablesvalidation.NewVariablesValidator(variablesvalidation.VariablesValidatorOptions{}),
		hidden:  variablesvalidation.NewVariablesValidator(variablesvalidation.VariablesValidatorOptions{DisableExposingVariablesContent: true}),
	}
}

// panicSite extracts the function of the first repository frame after the panic call.
func panicSite(stack string) string {
	lines := strings.Split(stack, "\n")
	seen := false
	for _, l := range lines {
		if strings.HasPrefix(l, "panic(") {
			seen = true
			continue
		}
		if seen && strings.HasPrefix(l, "github.com/wundergraph/graphql-go-tools/") {
			if i := strings.LastIndex(l, "("); i > 0 {
				l = l[:i]
			}
			return strings.TrimPrefix(l, "github.com/wundergraph/graphql-go-tools/")
		}
	}
	return "unknown frame"
}

type engineSchemas struct{ m map[string]*graphql.Schema }

func newEngineSchemas() engineSchemas { return engineSchemas{m: map[string]*graphql.Schema{}} }
func newGqSchemas() gqSchemas {
	return gqSchemas{m: map[string]*gast.Schema{}, q: map[string]*gast.OperationDefinition{}}
}

func (e *engineSchemas) get(sdl string) *graphql.Schema {
	if s, ok := e.m[sdl]; ok {
		return s
	}
	s, err := graphql.NewSchemaFromString(sdl)
	if err != nil {
		panic(fmt.Sprintf("harness: engine rejects the generated schema: %v\n%s", err, sdl))
	}
	if len(e.m) > 4096 {
		e.m = map[string]*graphql.Schema{}
	}
	e.m[sdl] = s
	return s
}

// admit replays, step by step, what ExecutionEngine.Execute
// (execution/engine/execution_engine.go) does with a request before planning.
// variables == "" means the request has no "variables" member.
// ru (optional) are the re-used validator instances; they run after the fresh ones.
func admit(schema *graphql.Schema, query, variables string, ru *reusePair) (adm admission) {
	defer func() {
		if p := recover(); p != nil {
			adm = admission{Accepted: false, Stage: "panic", Msg: fmt.Sprint(p), PanicSite: panicSite(string(debug.Stack()))}
		}
	}()
	return admitNoRecover(schema, query, variables, ru)
}

func graphqlNew(sdl string) (*graphql.Schema, error) { return graphql.NewSchemaFromString(sdl) }

func admitNoRecover(schema *graphql.Schema, query, variables string, ru *reusePair) (adm admission) {
	op := &graphql.Request{Query: query}
	if variables != "" {
		op.Variables = json.RawMessage(variables)
	}
	// 1. normalize without variable extraction
	res, err := op.Normalize(schema, seamFirst...)
	if err != nil {
		return admission{Stage: "normalize", Msg: err.Error()}
	} else if !res.Successful {
		return admission{Stage: "normalize", Msg: res.Errors.Error()}
	}
	// 2. validate the operation
	if vr, err := op.ValidateForSchema(schema); err != nil {
		return admission{Stage: "validate", Msg: err.Error()}
	} else if !vr.Valid {
		return admission{Stage: "validate", Msg: vr.Errors.Error()}
	}
	// 3. normalize again: variable extraction, list coercion, default extraction
	res, err = op.Normalize(schema, seamSecond...)
	if err != nil {
		return admission{Stage: "extract", Msg: err.Error()}
	} else if !res.Successful {
		return admission{Stage: "extract", Msg: res.Errors.Error()}
	}
	// 4. remap variable names
	var remapReport operationreport.Report
	remap := astnormalization.NewVariablesMapper().NormalizeOperation(op.Document(), schema.Document(), &remapReport)
	if remapReport.HasErrors() {
		return admission{Stage: "remap", Msg: remapReport.Error()}
	}
	adm.FinalVars = string(op.Variables)
	// 5. validate the variables
	adm.Accepted = true
	// mirrors ExecutionEngine.Execute (kept in step with /repo: since fix 670b72e
	// absent or null variables are validated like {})
	if validated, ok := seam.VariablesToValidate([]byte(op.Variables)); ok {
		v := variablesvalidation.NewVariablesValidator(variablesvalidation.VariablesValidatorOptions{})
		if err := v.ValidateWithRemap(op.Document(), schema.Document(), validated, remap); err != nil {
			adm.Accepted = false
			adm.Stage = "variables"
			adm.Msg = err.Error()
		}
		// the same step with content exposure disabled
		h := variablesvalidation.NewVariablesValidator(variablesvalidation.VariablesValidatorOptions{DisableExposingVariablesContent: true})
		adm.HiddenRan = true
		if err := h.ValidateWithRemap(op.Document(), schema.Document(), validated, remap); err != nil {
			adm.HiddenMsg = err.Error()
		} else {
			adm.HiddenAccepted = true
		}
		// the same inputs on the re-used instances
		if ru != nil {
			adm.ReuseRan = true
			if err := ru.exposed.ValidateWithRemap(op.Document(), schema.Document(), validated, remap); err != nil {
				adm.ReuseMsg = err.Error()
			} else {
				adm.ReuseAccepted = true
			}
			if err := ru.hidden.ValidateWithRemap(op.Document(), schema.Document(), validated, remap); err != nil {
				adm.ReuseHiddenMsg = err.Error()
			} else {
				adm.ReuseHiddenAccepted = true
			}
		}
	}
	return adm
}

// ---------------------------------------------------------------- second oracle

type gqSchemas struct {
	m map[string]*gast.Schema
	q map[string]*gast.OperationDefinition
}

func (g *gqSchemas) get(sdl, query string) (*gast.Schema, *gast.OperationDefinition) {
	key := sdl + "\x00" + query
	s, ok := g.m[sdl]
	if op, ok2 := g.q[key]; ok && ok2 {
		return s, op
	}
	if !ok {
		var err error
		s, err = gqlparser.LoadSchema(&gast.Source{Name: "c06", Input: sdl})
		if err != nil {
			panic(fmt.Sprintf("harness: gqlparser rejects the generated schema: %v\n%s", err, sdl))
		}
		if len(g.m) > 4096 {
			g.m = map[string]*gast.Schema{}
			g.q = map[string]*gast.OperationDefinition{}
		}
		g.m[sdl] = s
	}
	doc, errs := gqlparser.LoadQuery(s, query)
	if len(errs) > 0 {
		panic(fmt.Sprintf("harness: gqlparser rejects the generated operation: %v\n%s\n%s", errs, sdl, query))
	}
	g.q[key] = doc.Operations[0]
	return s, doc.Operations[0]
}

// gqVerdict: "accept", "reject", "panic" and the message.
func gqVerdict(s *gast.Schema, op *gast.OperationDefinition, variables string) (verdict, msg string) {
	defer func() {
		if p := recover(); p != nil {
			verdict, msg = "panic", fmt.Sprint(p)
		}
	}()
	m := map[string]any{}
	if variables != "" {
		d := json.NewDecoder(bytes.NewReader([]byte(variables)))
		d.UseNumber()
		if err := d.Decode(&m); err != nil {
			return "panic", "decode: " + err.Error()
		}
	}
	if _, err := validator.VariableValues(s, op, m); err != nil {
		return "reject", err.Error()
	}
	return "accept", ""
}

// gqScalarComplaint reports whether a gqlparser rejection is about a scalar
// leaf (where gqlparser is known to be unreliable, DESIGN.md 2.4 R3).
func gqScalarComplaint(msg string) bool {
	return strings.Contains(msg, "cannot use ")
}

// The engine's admission sequence is read from the tree under test (see
// internal/engineseam) instead of being copied here.
var seam, seamFirst, seamSecond = engineseam.Must()
