package c06

// Type-directed value families and the case space. Everything is a
// deterministic, ordered (simplest first), complete enumeration below explicit
// bounds - no sampling.

import (
	"fmt"
	"sort"
	"strings"
)

// gval is one member of a value family.
type gval struct {
	Absent bool
	J      *jv
	// Tags describe what is special about the value relative to the plainest
	// valid one ("single value for list", "null item", "wrong kind: string" ...);
	// they only serve to classify false rejections and to pick samples - the
	// verdict always comes from the label.
	Tags []string
}

func (g gval) text() string {
	if g.Absent {
		return "<absent>"
	}
	return g.J.String()
}

func tagged(j *jv, tags ...string) gval { return gval{J: j, Tags: tags} }

func (g gval) plus(j *jv, tags ...string) gval {
	t := append(append([]string{}, g.Tags...), tags...)
	return gval{J: j, Tags: t}
}

func tagClass(tags []string) string {
	if len(tags) == 0 {
		return "plain valid value"
	}
	seen := map[string]bool{}
	var u []string
	for _, t := range tags {
		if !seen[t] {
			seen[t] = true
			u = append(u, t)
		}
	}
	sort.Strings(u)
	return strings.Join(u, " + ")
}

// Distinctive tokens: every string / number of >= 4 bytes planted in a value
// doubles as a sentinel for the "never echo variable content" clause.
const (
	tokInt    = "7731"
	tokInt2   = "7732"
	tokStr    = "strZq9"
	tokID     = "idZq9"
	tokEnumNo = "PURPLEZq9"
	tokAny    = "anyZq9"
	unkKey    = "zzUnk"
)

type genCfg struct {
	u         universe
	pairItems bool // lists: also [ok, x] and [null, ok] (position sensitivity)
	// combos: lists of 2-3 items drawn in every order from {null, plain item, item
	// that needs single-value-to-list coercion (itself or inside), wrong item}
	// wherever the item type has something to coerce. 0 none; 1 length 2 over the
	// full alphabet and length 3 over {null, plain, first coercion item}; 2 both
	// lengths over the full alphabet
	combos    int
	double    bool // input objects at the probed position: also every pair of field deviations
	topBudget int  // budget of the probed position
}

// minValid is the plainest valid value of a type (never null unless nothing else is possible).
func (g *genCfg) minValid(t *typ) *jv {
	if t.isList() {
		return jarr(g.minValid(t.Elem))
	}
	d := g.u[t.Name]
	switch d.Kind {
	case kEnum:
		return jstr(d.Values[0].Name)
	case kInput:
		if d.OneOf {
			return jobj(d.Fields[0].Name, g.minValid(d.Fields[0].T))
		}
		o := &jv{K: jObj}
		for _, f := range d.Fields {
			if f.T.NonNull && f.Default == "" {
				o.O = append(o.O, jkv{f.Name, g.minValid(f.T)})
			}
		}
		return o
	}
	switch t.Name {
	case "Int":
		return jnum(tokInt)
	case "Float":
		return jnum("77.25")
	case "String":
		return jstr(tokStr)
	case "Boolean":
		return jbool(true)
	case "ID":
		return jstr(tokID)
	}
	return jnum(tokInt) // custom scalar
}

// literal renders the plainest valid GraphQL literal of a type (for defaults).
func (g *genCfg) literal(t *typ) string {
	if t.isList() {
		return "[" + g.literal(t.Elem) + "]"
	}
	d := g.u[t.Name]
	switch d.Kind {
	case kEnum:
		return d.Values[1].Name
	case kInput:
		if d.OneOf {
			return "{" + d.Fields[0].Name + ": " + g.literal(d.Fields[0].T) + "}"
		}
		var parts []string
		for _, f := range d.Fields {
			if f.T.NonNull && f.Default == "" {
				parts = append(parts, f.Name+": "+g.literal(f.T))
			}
		}
		return "{" + strings.Join(parts, ", ") + "}"
	}
	switch t.Name {
	case "Int":
		return "8842"
	case "Float":
		return "88.5"
	case "String":
		return `"dfltZq9"`
	case "Boolean":
		return "false"
	case "ID":
		return `"dfltIdZq9"`
	}
	return "8842"
}

// leaves is the family of a named non-input type; budget < 1 gives the reduced family.
func (g *genCfg) leaves(name string, budget int) []gval {
	obj := tagged(jobj("kx", jnum("1")), "wrong kind: object")
	var full, reduced []gval
	d := g.u[name]
	if d.Kind == kEnum {
		full = []gval{
			tagged(jstr(d.Values[0].Name)),
			tagged(jstr(tokEnumNo), "unknown enum value"),
			tagged(jstr("HIDDEN"), "inaccessible enum value"),
			tagged(jstr(strings.ToLower(d.Values[0].Name)), "enum value in lower case"),
			tagged(jnum(tokInt), "wrong kind: number"),
			tagged(jbool(true), "wrong kind: boolean"),
			obj,
		}
		reduced = full[:2]
	} else {
		switch name {
		case "Int":
			full = []gval{
				tagged(jnum(tokInt)),
				tagged(jnum("0"), "zero"),
				tagged(jnum("2147483647"), "max Int"),
				tagged(jnum("-2147483648"), "min Int"),
				tagged(jnum(tokInt+".5"), "fractional number"),
				tagged(jnum("2147483648"), "2^31"),
				tagged(jnum("-2147483649"), "-2^31-1"),
				tagged(jnum("1e40"), "1e40"),
				tagged(jnum(tokInt+".0"), "integral with fraction syntax"),
				tagged(jnum("1e3"), "integral with exponent syntax"),
				tagged(jstr(tokInt), "wrong kind: numeric string"),
				tagged(jbool(true), "wrong kind: boolean"),
				obj,
			}
			reduced = []gval{full[0], full[10]}
		case "Float":
			full = []gval{
				tagged(jnum("77.25")),
				tagged(jnum(tokInt), "integer for Float"),
				tagged(jnum("-0.5"), "negative"),
				tagged(jnum("1e3"), "exponent syntax"),
				tagged(jnum("1e40"), "1e40"),
				tagged(jnum("1e400"), "not finite as float64"),
				tagged(jstr("77.25"), "wrong kind: numeric string"),
				tagged(jbool(true), "wrong kind: boolean"),
				obj,
			}
			reduced = []gval{full[0], full[6]}
		case "String":
			full = []gval{
				tagged(jstr(tokStr)),
				tagged(jstr(""), "empty string"),
				tagged(jnum(tokInt), "wrong kind: number"),
				tagged(jbool(true), "wrong kind: boolean"),
				obj,
			}
			reduced = []gval{full[0], full[2]}
		case "Boolean":
			full = []gval{
				tagged(jbool(true)),
				tagged(jbool(false), "false"),
				tagged(jstr("true"), "wrong kind: string"),
				tagged(jnum("1"), "wrong kind: number"),
				tagged(jnum("0"), "wrong kind: number"),
				obj,
			}
			reduced = []gval{full[0], full[2]}
		case "ID":
			full = []gval{
				tagged(jstr(tokID)),
				tagged(jnum(tokInt), "integer for ID"),
				tagged(jstr(tokInt), "numeric string for ID"),
				tagged(jnum(tokInt+".5"), "fractional number"),
				tagged(jnum(tokInt+".0"), "integral with fraction syntax"),
				tagged(jnum("9007199254740993"), "beyond 2^53"),
				tagged(jbool(true), "wrong kind: boolean"),
				obj,
			}
			reduced = []gval{full[0], full[6]}
		default: // custom scalar
			full = []gval{
				tagged(jnum(tokInt)),
				tagged(jstr(tokAny), "string for custom scalar"),
				tagged(jbool(true), "boolean for custom scalar"),
				tagged(jnum("77.5"), "fraction for custom scalar"),
				tagged(jobj("kx", jnum("1")), "object for custom scalar"),
			}
			reduced = full[:2]
		}
	}
	if budget < 1 {
		return reduced
	}
	return full
}

// objects is the deviation family of an input object type: the minimal valid
// object, the fully populated one, and every single-field deviation.
func (g *genCfg) objects(d *namedType, budget int) []gval {
	t := named(d.Name)
	base := g.minValid(t)
	out := []gval{tagged(base)}
	if budget < 0 {
		return out
	}
	if d.OneOf {
		for i, f := range d.Fields {
			if i > 0 {
				out = append(out, tagged(jobj(f.Name, g.minValid(f.T)), "oneOf member "+f.Name))
			}
		}
		out = append(out,
			tagged(jobj(), "empty object"),
			tagged(jobj(d.Fields[0].Name, g.minValid(d.Fields[0].T), d.Fields[1].Name, g.minValid(d.Fields[1].T)), "two oneOf members"),
			tagged(jobj(d.Fields[0].Name, jnull()), "null oneOf member"),
			tagged(jobj(d.Fields[0].Name, jnull(), d.Fields[1].Name, g.minValid(d.Fields[1].T)), "two oneOf members, one null"),
			tagged(jobj(unkKey, jnum(tokInt)), "unknown field only"),
			tagged(jobj(d.Fields[0].Name, g.minValid(d.Fields[0].T), unkKey, jnum(tokInt)), "unknown field"),
		)
		for _, f := range d.Fields {
			for _, x := range g.values(f.T, budget-1) {
				if len(x.Tags) == 0 {
					continue
				}
				out = append(out, x.plus(jobj(f.Name, x.J), "in oneOf member "+f.Name))
			}
		}
	} else {
		full := &jv{K: jObj}
		for _, f := range d.Fields {
			full.O = append(full.O, jkv{f.Name, g.minValid(f.T)})
		}
		if len(full.O) != len(base.O) {
			out = append(out, tagged(full, "all fields given"))
		}
		// devs[i]: every deviation of field i from the base object (J == nil: field removed)
		devs := make([][]gval, len(d.Fields))
		for i, f := range d.Fields {
			if _, has := base.get(f.Name); has {
				devs[i] = append(devs[i], gval{Tags: []string{"field " + f.Name + " absent"}})
			}
			devs[i] = append(devs[i], tagged(jnull(), "field "+f.Name+" null"))
			for _, x := range g.values(f.T, budget-1) {
				if _, has := base.get(f.Name); has && len(x.Tags) == 0 {
					continue // that is the base object
				}
				devs[i] = append(devs[i], x.plus(x.J, "in field "+f.Name))
			}
			for _, x := range devs[i] {
				out = append(out, gval{J: base.with(f.Name, x.J), Tags: x.Tags})
			}
		}
		if g.double && budget == g.topBudget {
			for i := range d.Fields {
				for j := i + 1; j < len(d.Fields); j++ {
					for _, x := range devs[i] {
						for _, y := range devs[j] {
							o := base.with(d.Fields[i].Name, x.J).with(d.Fields[j].Name, y.J)
							out = append(out, gval{J: o, Tags: append(append([]string{}, x.Tags...), y.Tags...)})
						}
					}
				}
			}
		}
		out = append(out, tagged(base.with(unkKey, jnum(tokInt)), "unknown field"))
	}
	out = append(out,
		tagged(jstr(tokStr), "wrong kind: string"),
		tagged(jnum(tokInt), "wrong kind: number"),
		tagged(jbool(true), "wrong kind: boolean"),
	)
	return out
}

// values is the family of non-null, present values for a type.
func (g *genCfg) values(t *typ, budget int) []gval {
	if !t.isList() {
		d := g.u[t.Name]
		var out []gval
		if d.Kind == kInput {
			out = g.objects(d, budget)
		} else {
			out = g.leaves(t.Name, budget)
		}
		// a list where a single value is expected
		out = append(out, tagged(jarr(g.minValid(t)), "list for single"))
		return out
	}
	inner := g.values(t.Elem, budget)
	ok := g.minValid(t.Elem)
	out := []gval{tagged(jarr(ok))}
	out = append(out, tagged(jarr(), "empty list"))
	out = append(out, tagged(jarr(jnull()), "null item"))
	for i, x := range inner {
		if i == 0 && len(x.Tags) == 0 {
			continue
		}
		out = append(out, x.plus(jarr(x.J), "as list item"))
	}
	if g.pairItems {
		out = append(out, tagged(jarr(jnull(), ok), "null item first of two"))
		out = append(out, tagged(jarr(ok, jnull()), "null item second of two"))
		for _, x := range inner {
			if len(x.Tags) == 0 {
				continue
			}
			out = append(out, x.plus(jarr(ok, x.J), "as second list item"))
		}
	}
	// single values (legal coercion to a list of one)
	for _, x := range inner {
		if x.J.K == jArr {
			continue
		}
		out = append(out, x.plus(x.J, "single value for list"))
	}
	out = append(out, g.itemCombos(t)...)
	return out
}

// coercionItems: values of type e that are valid only because a single value
// is coerced to a list, at the top of the value or one level inside it.
func (g *genCfg) coercionItems(e *typ) []gval {
	var out []gval
	if e.isList() {
		if single := g.minValid(e.Elem); single.K != jArr {
			out = append(out, tagged(single, "item needing coercion"))
		}
		if in := g.coercionItems(e.Elem); len(in) > 0 {
			out = append(out, tagged(jarr(in[0].J), "item needing inner coercion"))
		}
		return out
	}
	d := g.u[e.Name]
	if d == nil || d.Kind != kInput || d.OneOf {
		return nil
	}
	for _, f := range d.Fields {
		if f.T.isList() {
			if single := g.minValid(f.T.Elem); single.K != jArr {
				out = append(out, tagged(g.minValid(e).with(f.Name, single), "item needing inner coercion"))
				break
			}
		}
	}
	return out
}

// itemCombos: see genCfg.combos.
func (g *genCfg) itemCombos(t *typ) []gval {
	if g.combos == 0 {
		return nil
	}
	co := g.coercionItems(t.Elem)
	if len(co) == 0 {
		return nil
	}
	wrong := tagged(jbool(true), "item of wrong kind")
	if t.base() == "Boolean" {
		wrong = tagged(jstr("wrongZq9"), "item of wrong kind")
	}
	small := []gval{tagged(jnull(), "item null"), tagged(g.minValid(t.Elem), "item plain"), co[0]}
	full := append(append([]gval{}, small...), co[1:]...)
	if t.base() != "Any" { // nothing is of the wrong kind for the custom scalar
		full = append(full, wrong)
	}
	var out []gval
	emit := func(items ...gval) {
		a := &jv{K: jArr}
		tags := []string{"several items"}
		for _, it := range items {
			a.A = append(a.A, it.J)
			tags = append(tags, it.Tags...)
		}
		out = append(out, gval{J: a, Tags: tags})
	}
	for _, a := range full {
		for _, b := range full {
			emit(a, b)
		}
	}
	three := small
	if g.combos >= 2 {
		three = full
	}
	for _, a := range three {
		for _, b := range three {
			for _, c := range three {
				emit(a, b, c)
			}
		}
	}
	return out
}

// ---------------------------------------------------------------- wrappers

// wrappers returns every wrapper pattern over base up to maxDepth list levels,
// every nullability pattern, ordered by (depth, number of non-nulls).
func wrappers(base string, maxDepth int) []*typ {
	var out []*typ
	cur := []*typ{named(base)}
	for d := 0; d <= maxDepth; d++ {
		var level []*typ
		for _, t := range cur {
			level = append(level, t, nonNull(t))
		}
		sort.SliceStable(level, func(i, j int) bool {
			return strings.Count(level[i].String(), "!") < strings.Count(level[j].String(), "!")
		})
		out = append(out, level...)
		var next []*typ
		for _, t := range level {
			next = append(next, listOf(t))
		}
		cur = next
	}
	return out
}

// ---------------------------------------------------------------- case space

// slot describes how one variable of a case is built: the probed type sits
// either directly in the variable (ctx "top") or in field "fld" of a generated
// input object that is reached from the variable in different ways.
type slot struct {
	Ctx     string `json:"ctx"`            // top | field | listfield | nested
	Type    string `json:"type"`           // probed type, e.g. "[[Int!]]"
	Default bool   `json:"default"`        // variable default (ctx top) or input field default (other ctx)
	Value   string `json:"value"`          // JSON text of the VARIABLE's value, "" = variable absent
	Name    string `json:"name,omitempty"` // variable name; "" = xa, xb, ...
}

var ctxOrder = []string{"top", "field", "listfield", "nested"}

// build turns a slot into the universe extension, the variable definition and
// the provided value. i is the variable index (type names must not clash).
func (g *genCfg) build(u universe, s slot, i int) (varDef, *jv, error) {
	t := parseTyp(s.Type)
	name := s.Name
	if name == "" {
		name = "x" + string(rune('a'+i))
	}
	vd := varDef{Name: name}
	box := fmt.Sprintf("Box%d", i)
	outer := fmt.Sprintf("Outer%d", i)
	if s.Ctx != "top" {
		fd := fieldDef{Name: "fld", T: t}
		if s.Default {
			fd.Default = (&genCfg{u: u}).literal(t)
		}
		u[box] = &namedType{Name: box, Kind: kInput, Fields: []fieldDef{fd, {Name: "pad", T: parseTyp("Int")}}}
	}
	switch s.Ctx {
	case "top":
		vd.T = t
		if s.Default {
			vd.Default = (&genCfg{u: u}).literal(t)
		}
	case "field":
		vd.T = parseTyp(box + "!")
	case "listfield":
		vd.T = parseTyp("[" + box + "!]")
	case "nested":
		u[outer] = &namedType{Name: outer, Kind: kInput, Fields: []fieldDef{{Name: "box", T: parseTyp(box)}, {Name: "pad", T: parseTyp("Int")}}}
		vd.T = parseTyp(outer)
	default:
		return vd, nil, fmt.Errorf("unknown ctx %q", s.Ctx)
	}
	if s.Value == "" {
		return vd, nil, nil
	}
	v, err := parseJV(s.Value)
	return vd, v, err
}

// embed places a probed value x (possibly absent) into the variable value for a
// context. okBox is the plainest valid value of the generated Box type.
func embed(ctx string, x gval, okBox *jv) []gval {
	switch ctx {
	case "top":
		return []gval{x}
	}
	boxv := jobj()
	if !x.Absent {
		boxv = jobj("fld", x.J)
	}
	switch ctx {
	case "field":
		return []gval{{J: boxv, Tags: x.Tags}}
	case "listfield":
		return []gval{
			{J: jarr(boxv), Tags: x.Tags},
			{J: jarr(okBox, boxv), Tags: append(append([]string{}, x.Tags...), "second object of list")},
		}
	case "nested":
		return []gval{{J: jobj("box", boxv), Tags: x.Tags}}
	}
	return nil
}

// group is one (context, probed type, default) combination = one schema + operation.
type group struct {
	Ctx     string
	T       *typ
	Default bool
}

var baseTypes = []string{"Int", "Float", "String", "Boolean", "ID", "Color", "Any", "In", "One"}

func groups(ctxs []string, maxDepth, farDepth int) []group {
	var out []group
	for _, ctx := range ctxs {
		for d := 0; d <= maxDepth; d++ {
			if (ctx == "listfield" || ctx == "nested") && d > farDepth {
				continue
			}
			for _, b := range baseTypes {
				for _, t := range wrappers(b, maxDepth) {
					if t.listDepth() != d {
						continue
					}
					for _, def := range []bool{false, true} {
						out = append(out, group{ctx, t, def})
					}
				}
			}
		}
	}
	return out
}

// probes is the family of the probed position: absent, null, and every present value.
func (g *genCfg) probes(t *typ, budget int) []gval {
	out := []gval{
		{Absent: true, Tags: []string{"absent"}},
		tagged(jnull(), "null"),
	}
	g.topBudget = budget
	return append(out, g.values(t, budget)...)
}
