package c06

import "fmt"

// labelSelfTest pins the label to the worked examples of the GraphQL
// specification (Input Coercion tables of 3.10 Input Objects incl. OneOf, 3.11
// List, 3.12 Non-Null, scalars 3.5). A mismatch is an infrastructure error of
// the check, never a verdict about the repository.
func labelSelfTest() error {
	u := baseUniverse()
	u["Ex"] = &namedType{Name: "Ex", Kind: kInput, Fields: []fieldDef{{Name: "a", T: parseTyp("String")}, {Name: "b", T: parseTyp("Int!")}}}
	u["ExOne"] = &namedType{Name: "ExOne", Kind: kInput, OneOf: true, Fields: []fieldDef{{Name: "a", T: parseTyp("String")}, {Name: "b", T: parseTyp("Int")}}}
	u["Dfl"] = &namedType{Name: "Dfl", Kind: kInput, Fields: []fieldDef{{Name: "d", T: parseTyp("Int!"), Default: "5"}, {Name: "n", T: parseTyp("Int"), Default: "5"}}}
	type ex struct {
		typ, dflt, val string // val "" = variable absent
		want           string // ok | err | amb
	}
	exs := []ex{
		// 3.11 list table
		{"[Int]", "", `[1,2,3]`, "ok"}, {"[Int]", "", `[1,"b",true]`, "err"}, {"[Int]", "", `1`, "ok"}, {"[Int]", "", `null`, "ok"},
		{"[[Int]]", "", `[[1],[2,3]]`, "ok"}, {"[[Int]]", "", `[1,2,3]`, "amb"}, {"[[Int]]", "", `1`, "ok"}, {"[[Int]]", "", `null`, "ok"},
		// 3.12 non-null
		{"String!", "", `null`, "err"}, {"String!", "", ``, "err"}, {"String", "", ``, "ok"}, {"String!", `"d"`, ``, "ok"}, {"String!", `"d"`, `null`, "err"},
		{"[Int!]", "", `[1,null]`, "err"}, {"[Int]!", "", `[null]`, "ok"}, {"[Int!]!", "", `[]`, "ok"},
		// 3.10 input object table
		{"Ex", "", `{"a":"abc","b":123}`, "ok"}, {"Ex", "", `{"a":null,"b":123}`, "ok"}, {"Ex", "", `{"b":123}`, "ok"},
		{"Ex", "", `"abc123"`, "err"}, {"Ex", "", `{"a":"abc","b":"123"}`, "err"}, {"Ex", "", `{"a":"abc"}`, "err"},
		{"Ex", "", `{"b":null}`, "err"}, {"Ex", "", `{"b":123,"c":"xyz"}`, "err"},
		// defaults of input fields: absent uses the default, explicit null does not
		{"Dfl", "", `{}`, "ok"}, {"Dfl", "", `{"d":null}`, "err"}, {"Dfl", "", `{"n":null}`, "ok"}, {"Dfl", "", `{"d":1}`, "ok"},
		// OneOf table
		{"ExOne", "", `{"a":"abc","b":123}`, "err"}, {"ExOne", "", `{"a":null,"b":123}`, "err"}, {"ExOne", "", `{"a":null,"b":null}`, "err"},
		{"ExOne", "", `{"a":null}`, "err"}, {"ExOne", "", `{"b":123}`, "ok"}, {"ExOne", "", `{"b":"123"}`, "err"}, {"ExOne", "", `{"a":"abc"}`, "ok"},
		{"ExOne", "", `{}`, "err"}, {"ExOne", "", `{"c":"xyz"}`, "err"},
		// scalars 3.5 (the unambiguous pairs)
		{"Int", "", `1`, "ok"}, {"Int", "", `-2147483648`, "ok"}, {"Int", "", `2147483647`, "ok"}, {"Int", "", `2147483648`, "err"}, {"Int", "", `1.5`, "err"},
		{"Int", "", `1e40`, "err"}, {"Int", "", `"1"`, "err"}, {"Int", "", `true`, "err"}, {"Int", "", `1.0`, "amb"}, {"Int", "", `1e3`, "amb"},
		{"Float", "", `1`, "ok"}, {"Float", "", `1.5`, "ok"}, {"Float", "", `"1.5"`, "err"}, {"Float", "", `true`, "err"}, {"Float", "", `1e400`, "amb"},
		{"String", "", `"s"`, "ok"}, {"String", "", `1`, "err"}, {"String", "", `true`, "err"},
		{"Boolean", "", `true`, "ok"}, {"Boolean", "", `"true"`, "err"}, {"Boolean", "", `1`, "err"},
		{"ID", "", `"4"`, "ok"}, {"ID", "", `4`, "ok"}, {"ID", "", `4.5`, "err"}, {"ID", "", `true`, "err"}, {"ID", "", `{"a":1}`, "err"}, {"ID", "", `4.0`, "amb"},
		{"Color", "", `"RED"`, "ok"}, {"Color", "", `"PURPLE"`, "err"}, {"Color", "", `"HIDDEN"`, "err"}, {"Color", "", `1`, "err"}, {"Color", "", `"red"`, "err"},
		{"Any", "", `{"a":[1]}`, "ok"}, {"Any", "", `"x"`, "ok"},
		{"Int", "", `[1]`, "err"}, {"[Int]", "", `[[1]]`, "err"},
	}
	for _, e := range exs {
		vd := varDef{Name: "v", T: parseTyp(e.typ), Default: e.dflt}
		var p provided
		if e.val != "" {
			j, err := parseJV(e.val)
			if err != nil {
				return err
			}
			p = provided{{"v", j}}
		}
		l := coerceVariables(u, []varDef{vd}, p)
		got := "ok"
		if !l.coercible() {
			got = "err"
		} else if !l.judged() {
			got = "amb"
		}
		if got != e.want {
			return fmt.Errorf("label self-test: $v: %s = %q <- %q: label says %s (%s), the specification says %s", e.typ, e.dflt, e.val, got, labelText(l), e.want)
		}
	}
	return nil
}
