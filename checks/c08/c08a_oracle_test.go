package c08

// Part (a) of C08 - the oracle. Everything here is computed from the planSpec
// (what was planned) and from the shape of the resulting fetch tree; nothing is
// taken from the intermediate state of the code under test.

import (
	"fmt"
	"sort"
	"strconv"
	"strings"

	"github.com/wundergraph/graphql-go-tools/v2/pkg/engine/resolve"
)

const (
	clauseOnce   = "every planned request appears exactly once in the execution order"
	clauseOrder  = "a request is issued only after every request whose results it reads has completed"
	clauseRewire = "dependants of a de-duplicated or merged request depend on the surviving request"
	clausePanic  = "postprocessing does not panic"
	clauseTerm   = "postprocessing terminates"
	clauseReuse  = "the fetch tree of a plan does not depend on the plans the Processor processed before"
)

const maxID = 8 // ids are < 8 so that id sets fit into a uint8

// expectation is the reference model of the legitimate rewriting between the
// planned fetch list and the tree: de-duplication keeps the first of every
// group of identical requests (raw order) and its dependants wait for the kept
// one; a nested request that declares no dependency waits for every request
// that provides a prefix of its response path.
type expectation struct {
	all          uint8        // ids in the plan
	present      uint8        // ids that survive de-duplication
	rep          [maxID]int   // id -> id of the kept identical request
	edges        [maxID]uint8 // edges[f]: ids (representatives) f has to wait for; only for present f
	implied      [maxID]uint8 // subset of edges that is implied by nesting, not declared
	viaDup       [maxID]uint8 // subset of edges whose declared target was a removed duplicate
	nEdges       int
	cyclic       bool // declared + implied dependencies contradict each other: not a plan
	inconsistent bool // identical requests with different dependencies: not a plan
}

func bit(id int) uint8 { return uint8(1) << uint(id) }

func expect(ps *planSpec) *expectation {
	e := &expectation{}
	for i := range e.rep {
		e.rep[i] = -1
	}
	for _, f := range ps.Fetches {
		e.all |= bit(f.ID)
	}
	// de-duplication: first of each identical group in raw order is kept
	for i, id := range ps.Order {
		if e.rep[id] != -1 {
			continue
		}
		e.rep[id] = id
		e.present |= bit(id)
		fi := ps.fetch(id)
		for _, jd := range ps.Order[i+1:] {
			fj := ps.fetch(jd)
			if e.rep[jd] == -1 && fj.Same == fi.Same && fj.Path == fi.Path && fj.Kind == fi.Kind {
				e.rep[jd] = id
			}
		}
	}
	mapped := func(f *fetchSpec) (m uint8, viaDup uint8) {
		for _, d := range f.Deps {
			if e.all&bit(d) == 0 {
				continue
			}
			m |= bit(e.rep[d])
			if e.rep[d] != d {
				viaDup |= bit(e.rep[d])
			}
		}
		return
	}
	for i := range ps.Fetches {
		f := &ps.Fetches[i]
		m, via := mapped(f)
		if e.rep[f.ID] == f.ID {
			e.edges[f.ID] = m
			e.viaDup[f.ID] = via
		} else {
			km, _ := mapped(ps.fetch(e.rep[f.ID]))
			if km != m {
				e.inconsistent = true
			}
		}
	}
	// implied nested dependencies
	for i := range ps.Fetches {
		f := &ps.Fetches[i]
		if e.present&bit(f.ID) == 0 || e.edges[f.ID] != 0 || pathMenu[f.Path].RP == "" {
			continue
		}
		for j := range ps.Fetches {
			g := &ps.Fetches[j]
			if g.ID == f.ID || e.present&bit(g.ID) == 0 {
				continue
			}
			if pathImplies[g.Path][f.Path] {
				e.implied[f.ID] |= bit(g.ID)
			}
		}
		e.edges[f.ID] |= e.implied[f.ID]
	}
	var deps [maxN]uint8
	for id := 0; id < maxID; id++ {
		if e.present&bit(id) == 0 {
			continue
		}
		if e.edges[id]&bit(id) != 0 || id >= maxN {
			e.cyclic = true
			return e
		}
		deps[id] = e.edges[id]
		for m := e.edges[id]; m != 0; m &= m - 1 {
			e.nEdges++
		}
	}
	if !acyclic(&deps, e.present) {
		e.cyclic = true
	}
	return e
}

// ---------------------------------------------------------------------------
// tree analysis

type leafInfo struct {
	ids       uint8 // planned ids this leaf executes (several for a merged multi entity fetch)
	fetchID   int
	finalDeps []int
	kinds     []resolve.FetchTreeNodeKind // kinds[k]: kind of the ancestor at depth k (root = depth 0)
	idx       []int                       // idx[k]: index of the child of that ancestor that leads to the leaf
	before    uint16                      // formulation B: leaves (by index) complete before this one starts
	multi     bool
}

type treeInfo struct {
	leaves    []leafInfo
	malformed string
	foreign   []int // fetch ids that were never planned
	shape     string
}

func analyzeTree(root *resolve.FetchTreeNode) *treeInfo {
	ti := &treeInfo{}
	var sb strings.Builder
	var kinds []resolve.FetchTreeNodeKind
	var idx []int
	var walk func(n *resolve.FetchTreeNode, before uint16) uint16
	walk = func(n *resolve.FetchTreeNode, before uint16) uint16 {
		if n == nil {
			if ti.malformed == "" {
				ti.malformed = "nil node"
			}
			sb.WriteString("nil")
			return 0
		}
		switch n.Kind {
		case resolve.FetchTreeNodeKindSingle:
			if n.Item == nil || n.Item.Fetch == nil {
				if ti.malformed == "" {
					ti.malformed = "Single node without fetch"
				}
				sb.WriteString("?")
				return 0
			}
			if len(n.ChildNodes) != 0 && ti.malformed == "" {
				ti.malformed = "Single node with children"
			}
			if len(ti.leaves) >= 16 {
				if ti.malformed == "" {
					ti.malformed = "more than 16 leaves"
				}
				return 0
			}
			li := leafInfo{kinds: append([]resolve.FetchTreeNodeKind(nil), kinds...), idx: append([]int(nil), idx...), before: before}
			deps := n.Item.Fetch.Dependencies()
			li.fetchID = deps.FetchID
			li.finalDeps = deps.DependsOnFetchIDs
			var covered []int
			if m, ok := n.Item.Fetch.(*resolve.MultiEntityFetch); ok {
				li.multi = true
				covered = m.MergedFetchIDs
				sb.WriteString("M[")
				for i, id := range covered {
					if i > 0 {
						sb.WriteByte('+')
					}
					sb.WriteString(strconv.Itoa(id))
				}
				sb.WriteString("]")
				in := false
				for _, id := range covered {
					if id == m.FetchID {
						in = true
					}
				}
				if !in && ti.malformed == "" {
					ti.malformed = "multi entity fetch id not among its merged ids"
				}
			} else {
				covered = []int{deps.FetchID}
				sb.WriteString(strconv.Itoa(deps.FetchID))
			}
			for _, id := range covered {
				if id < 0 || id >= maxID {
					ti.foreign = append(ti.foreign, id)
					continue
				}
				if li.ids&bit(id) != 0 && ti.malformed == "" {
					ti.malformed = "multi entity fetch lists an id twice"
				}
				li.ids |= bit(id)
			}
			ti.leaves = append(ti.leaves, li)
			return uint16(1) << uint(len(ti.leaves)-1)
		case resolve.FetchTreeNodeKindSequence, resolve.FetchTreeNodeKindParallel:
			seq := n.Kind == resolve.FetchTreeNodeKindSequence
			if seq {
				sb.WriteString("S(")
			} else {
				sb.WriteString("P(")
			}
			if n.Item != nil && n.Item.Fetch != nil && ti.malformed == "" {
				ti.malformed = string(n.Kind) + " node carries a fetch item that is never executed"
			}
			var under uint16
			acc := before
			depth := len(kinds)
			kinds = append(kinds, n.Kind)
			idx = append(idx, 0)
			for i, c := range n.ChildNodes {
				if i > 0 {
					sb.WriteByte(',')
				}
				idx[depth] = i
				m := walk(c, acc)
				under |= m
				if seq {
					acc |= m
				}
			}
			kinds = kinds[:depth]
			idx = idx[:depth]
			sb.WriteString(")")
			return under
		default:
			if ti.malformed == "" {
				ti.malformed = "node of kind " + string(n.Kind)
			}
			sb.WriteString("?" + string(n.Kind))
			return 0
		}
	}
	if root == nil {
		ti.shape = "nil"
		return ti
	}
	walk(root, 0)
	ti.shape = sb.String()
	return ti
}

// signature renders everything the executor sees of the organised tree: the
// shape and the dependency ids of every leaf (used to compare a reused
// Processor with a fresh one).
func (ti *treeInfo) signature() string {
	var sb strings.Builder
	sb.WriteString(ti.shape)
	for i := range ti.leaves {
		l := &ti.leaves[i]
		deps := append([]int(nil), l.finalDeps...)
		sort.Ints(deps)
		fmt.Fprintf(&sb, " %d<%v", l.fetchID, deps)
	}
	if ti.malformed != "" {
		sb.WriteString(" malformed: " + ti.malformed)
	}
	return sb.String()
}

// treePrecedes is formulation A: the lowest common ancestor of the two leaves
// is a Sequence node and a's branch comes before b's.
func treePrecedes(a, b *leafInfo) bool {
	for k := 0; k < len(a.idx) && k < len(b.idx); k++ {
		if a.idx[k] != b.idx[k] {
			return a.kinds[k] == resolve.FetchTreeNodeKindSequence && a.idx[k] < b.idx[k]
		}
	}
	return false
}

// simulateExecutor is formulation C: the loader's semantics (resolveSerial runs
// the children one after the other, resolveParallel starts all of them and waits
// for all) explored over EVERY interleaving of start/finish events. It returns,
// per leaf, the set of leaves that were observed unfinished at some moment at
// which the leaf could start.
func simulateExecutor(root *resolve.FetchTreeNode, nLeaves int) []uint16 {
	// leaves are numbered in the same pre-order as analyzeTree
	type nodeT struct {
		kind     resolve.FetchTreeNodeKind
		children []int
		leaf     int
		under    uint16
	}
	var nodes []nodeT
	next := 0
	var build func(n *resolve.FetchTreeNode) int
	build = func(n *resolve.FetchTreeNode) int {
		me := len(nodes)
		nodes = append(nodes, nodeT{kind: n.Kind, leaf: -1})
		if n.Kind == resolve.FetchTreeNodeKindSingle {
			nodes[me].leaf = next
			nodes[me].under = 1 << uint(next)
			next++
			return me
		}
		for _, c := range n.ChildNodes {
			ci := build(c)
			nodes[me].children = append(nodes[me].children, ci)
			nodes[me].under |= nodes[ci].under
		}
		return me
	}
	build(root)
	// startable(node, finished): leaves under node that the executor may start
	// now, given the set of finished leaves (started-but-unfinished ones are
	// filtered by the caller).
	var startable func(n int, finished uint16) uint16
	startable = func(n int, finished uint16) uint16 {
		nd := &nodes[n]
		switch nd.kind {
		case resolve.FetchTreeNodeKindSingle:
			return nd.under
		case resolve.FetchTreeNodeKindParallel:
			var m uint16
			for _, c := range nd.children {
				m |= startable(c, finished)
			}
			return m
		default: // Sequence: the first child that is not completely finished
			for _, c := range nd.children {
				if nodes[c].under&^finished != 0 {
					return startable(c, finished)
				}
			}
			return 0
		}
	}
	unfinishedAtStart := make([]uint16, nLeaves)
	all := uint16(1)<<uint(nLeaves) - 1
	seen := map[uint32]bool{}
	var dfs func(started, finished uint16)
	dfs = func(started, finished uint16) {
		key := uint32(started)<<16 | uint32(finished)
		if seen[key] {
			return
		}
		seen[key] = true
		can := startable(0, finished) &^ started
		for l := 0; l < nLeaves; l++ {
			b := uint16(1) << uint(l)
			if can&b != 0 {
				unfinishedAtStart[l] |= all &^ finished &^ b
				dfs(started|b, finished)
			}
			if started&b != 0 && finished&b == 0 {
				dfs(started, finished|b)
			}
		}
	}
	dfs(0, 0)
	return unfinishedAtStart
}

// ---------------------------------------------------------------------------
// verdict

type failure struct {
	clause string
	site   string
	detail string
}

type judgement struct {
	failures     []failure
	edgesChecked int
	oracleSplit  string // formulations A/B/C disagree: harness defect, nothing is judged
}

func organiser(mode int) string { return modeNames[mode] }

// judge compares the tree with the expectation.
func judge(ps *planSpec, e *expectation, root *resolve.FetchTreeNode, ti *treeInfo, withSimulation bool) *judgement {
	j := &judgement{}
	org := organiser(ps.Mode)
	fail := func(clause, site, format string, a ...any) {
		j.failures = append(j.failures, failure{clause: clause, site: org + ": " + site, detail: fmt.Sprintf(format, a...)})
	}
	if root == nil {
		if e.present != 0 {
			fail(clauseOnce, "no fetch tree", "Process left Response.Fetches nil although %d requests were planned", len(ps.Fetches))
		}
		return j
	}
	if ti.malformed != "" {
		fail(clauseOnce, "malformed tree", "tree %s: %s", ti.shape, ti.malformed)
		return j
	}
	// exactly once
	leafOf := [maxID]int{}
	for i := range leafOf {
		leafOf[i] = -1
	}
	for _, id := range ti.foreign {
		fail(clauseOnce, "unknown request id in tree", "tree %s contains fetch id %d that was never planned", ti.shape, id)
	}
	onceOK := len(ti.foreign) == 0
	for li := range ti.leaves {
		for _, id := range bitsOf(ti.leaves[li].ids) {
			switch {
			case e.all&bit(id) == 0:
				fail(clauseOnce, "unknown request id in tree", "tree %s contains fetch id %d that was never planned", ti.shape, id)
				onceOK = false
			case e.present&bit(id) == 0:
				fail(clauseOnce, "removed duplicate still in tree", "tree %s still contains request %d although it is identical to the earlier request %d", ti.shape, id, e.rep[id])
				onceOK = false
			case leafOf[id] != -1:
				fail(clauseOnce, "request duplicated", "tree %s executes request %d more than once", ti.shape, id)
				onceOK = false
			default:
				leafOf[id] = li
			}
		}
	}
	for _, id := range bitsOf(e.present) {
		if leafOf[id] == -1 {
			fail(clauseOnce, "request missing", "tree %s does not contain planned request %d", ti.shape, id)
			onceOK = false
		}
	}
	if !onceOK {
		return j
	}
	// cross-validation of the three formulations of "x completes before y starts"
	n := len(ti.leaves)
	var sim []uint16
	if withSimulation {
		sim = simulateExecutor(root, n)
	}
	for x := 0; x < n; x++ {
		for y := 0; y < n; y++ {
			if x == y {
				continue
			}
			a := treePrecedes(&ti.leaves[x], &ti.leaves[y])
			b := ti.leaves[y].before&(1<<uint(x)) != 0
			if a != b {
				j.oracleSplit = fmt.Sprintf("tree %s leaves %d,%d: LCA rule says %v, predecessor walk says %v", ti.shape, x, y, a, b)
				return j
			}
			if sim != nil {
				c := sim[y]&(1<<uint(x)) == 0
				if a != c {
					j.oracleSplit = fmt.Sprintf("tree %s leaves %d,%d: LCA rule says %v, executor simulation says %v", ti.shape, x, y, a, c)
					return j
				}
			}
		}
	}
	// precedence of every dependency edge
	for _, f := range bitsOf(e.present) {
		lf := leafOf[f]
		for _, d := range bitsOf(e.edges[f]) {
			j.edgesChecked++
			ld := leafOf[d]
			kind := "declared dependency"
			switch {
			case e.implied[f]&bit(d) != 0:
				kind = "nested dependency implied by the response path"
			case e.viaDup[f]&bit(d) != 0:
				kind = "dependency on a de-duplicated request"
			}
			if ld == lf {
				fail(clauseOrder, "request merged with its own dependency ("+kind+")", "tree %s: request %d reads the result of request %d but both are sent as ONE merged request", ti.shape, f, d)
				continue
			}
			if !treePrecedes(&ti.leaves[ld], &ti.leaves[lf]) {
				how := "their lowest common ancestor is a Parallel node, so they run concurrently"
				if treePrecedes(&ti.leaves[lf], &ti.leaves[ld]) {
					how = "the tree runs them in the opposite order"
				}
				fail(clauseOrder, kind, "tree %s: request %d reads the result of request %d (%s) but %d does not tree-precede %d: %s", ti.shape, f, d, kind, d, f, how)
			}
		}
	}
	// dependency fields after de-duplication / merging
	idOfLeaf := map[int]bool{}
	for li := range ti.leaves {
		idOfLeaf[ti.leaves[li].fetchID] = true
	}
	for li := range ti.leaves {
		l := &ti.leaves[li]
		have := map[int]bool{}
		dangling := false
		for _, d := range l.finalDeps {
			have[d] = true
			if d == l.fetchID {
				fail(clauseRewire, "request depends on itself", "tree %s: request %d lists itself in DependsOnFetchIDs %v", ti.shape, l.fetchID, l.finalDeps)
			} else if !idOfLeaf[d] {
				dangling = true
				fail(clauseRewire, "dangling dependency id", "tree %s: request %d lists DependsOnFetchIDs %v but no request with id %d is in the tree (removed duplicates and merged requests must be replaced by the surviving id)", ti.shape, l.fetchID, l.finalDeps, d)
			}
		}
		if dangling {
			continue // the missing surviving id is the other face of the dangling one
		}
		for _, m := range bitsOf(l.ids) {
			for _, d := range bitsOf(e.edges[m]) {
				if leafOf[d] == li {
					continue // already reported above
				}
				want := ti.leaves[leafOf[d]].fetchID
				if !have[want] {
					fail(clauseRewire, "dependency id lost", "tree %s: request %d (executing planned request %d) must depend on request %d (surviving id %d) but lists DependsOnFetchIDs %v", ti.shape, l.fetchID, m, d, want, l.finalDeps)
				}
			}
		}
	}
	return j
}

func (j *judgement) clauses() []string {
	set := map[string]bool{}
	for _, f := range j.failures {
		set[f.clause] = true
	}
	var out []string
	for c := range set {
		out = append(out, c)
	}
	sort.Strings(out)
	return out
}
