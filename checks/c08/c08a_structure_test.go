package c08

// Part (a) of C08 - structure, exhaustive over dependency graphs: drives the
// enumeration through postprocess.NewProcessor(opts...).Process and records the
// verdicts.

import (
	"fmt"
	"os"
	"runtime/debug"
	"sort"
	"strconv"
	"strings"
	"sync/atomic"
	"syscall"
	"time"

	"github.com/wundergraph/graphql-go-tools/v2/pkg/engine/plan"
	"github.com/wundergraph/graphql-go-tools/v2/pkg/engine/postprocess"

	"verif/internal/vk"
)

// setMapDesc switches the iteration order of the map range loops of package
// postprocess (ascending / descending keys). It is installed by
// c08a_maporder_test.go when the check is built with the map-order overlay.
var setMapDesc func(desc bool)

func infra(format string, a ...any) {
	fmt.Fprintf(os.Stderr, "c08: INFRA "+format+"\n", a...)
	os.Exit(3)
}

// ---------------------------------------------------------------------------
// one case

type caseResult struct {
	skipped  string // "" or why the plan is not a plan (not run)
	panicked bool
	panicMsg string
	panicAt  string
	tree     *treeInfo
	jud      *judgement
	exp      *expectation
}

func (c *caseResult) failures() []failure {
	if c.panicked {
		return []failure{{clause: clausePanic, site: c.panicAt, detail: c.panicMsg}}
	}
	if c.jud == nil {
		return nil
	}
	return c.jud.failures
}

// repoFrame extracts the innermost frame of the code under test from a stack.
func repoFrame(stack string) string {
	for _, ln := range strings.Split(stack, "\n") {
		if strings.HasPrefix(ln, "github.com/wundergraph/graphql-go-tools/") {
			if i := strings.LastIndex(ln, "("); i > 0 {
				ln = ln[:i]
			}
			return strings.TrimPrefix(ln, "github.com/wundergraph/graphql-go-tools/")
		}
	}
	return "unknown frame"
}

var progress atomic.Int64
var currentCase atomic.Pointer[planSpec]

const reusedSuffix = " [Processor reused]"

// evaluate runs one plan through Process and judges the tree. When ps.Before
// is not empty, ONE Processor first processes those plans and then the plan
// under judgement, whose tree is in addition compared with the tree a fresh
// Processor builds (freshSig; "" = compute it here).
func evaluate(ps *planSpec, withSimulation bool, freshSig string) (res *caseResult) {
	res = &caseResult{}
	e := expect(ps)
	res.exp = e
	if e.inconsistent {
		res.skipped = "identical requests with different dependencies"
		return
	}
	if e.cyclic {
		res.skipped = "declared and implied dependencies form a cycle"
		return
	}
	for i := range ps.Before {
		if be := expect(&ps.Before[i]); be.inconsistent || be.cyclic {
			res.skipped = "an earlier plan of the history is not a plan"
			return
		}
	}
	reused := len(ps.Before) > 0
	if reused && freshSig == "" {
		solo := ps.clone()
		solo.Before = nil
		fr := evaluate(solo, false, "")
		if fr.panicked || fr.tree == nil {
			res.skipped = "no tree from a fresh Processor to compare with"
			return
		}
		freshSig = fr.tree.signature()
	}
	earlier := make([]*plan.SynchronousResponsePlan, len(ps.Before))
	for i := range ps.Before {
		earlier[i] = buildPlan(&ps.Before[i])
	}
	p := buildPlan(ps)
	if setMapDesc != nil {
		setMapDesc(ps.MapDesc)
	}
	suffix := ""
	if reused {
		suffix = reusedSuffix
	}
	currentCase.Store(ps)
	progress.Add(1)
	func() {
		defer func() {
			if r := recover(); r != nil {
				res.panicked = true
				st := string(debug.Stack())
				res.panicAt = organiser(ps.Mode) + ": " + repoFrame(st) + suffix
				res.panicMsg = fmt.Sprintf("Process panicked: %v\n%s", r, clipStr(st, 1800))
			}
		}()
		proc := postprocess.NewProcessor(processorOptions(ps.Mode)...)
		for _, ep := range earlier {
			proc.Process(ep)
		}
		proc.Process(p)
	}()
	progress.Add(1)
	if res.panicked {
		return
	}
	if p.Response.RawFetches != nil {
		res.jud = &judgement{failures: []failure{{clause: clauseOnce, site: organiser(ps.Mode) + ": raw fetches not consumed" + suffix, detail: "Response.RawFetches is not nil after Process"}}}
		return
	}
	res.tree = analyzeTree(p.Response.Fetches)
	res.jud = judge(ps, e, p.Response.Fetches, res.tree, withSimulation)
	if reused {
		for i := range res.jud.failures {
			res.jud.failures[i].site += suffix
		}
		if sig := res.tree.signature(); sig != freshSig && res.jud.oracleSplit == "" {
			res.jud.failures = append(res.jud.failures, failure{clause: clauseReuse, site: organiser(ps.Mode) + ": tree differs from the tree of a fresh Processor",
				detail: fmt.Sprintf("after %d earlier plan(s) the Processor builds %s, a fresh Processor builds %s (shape, then fetch id<dependency ids)", len(ps.Before), sig, freshSig)})
		}
	}
	return
}

func clipStr(s string, n int) string {
	if len(s) > n {
		return s[:n] + "..."
	}
	return s
}

// ---------------------------------------------------------------------------
// shrinking and classification

func stillFails(ps *planSpec, clause, siteTail string) bool {
	r := evaluate(ps, false, "")
	for _, f := range r.failures() {
		if f.clause == clause && siteSuffix(f.site) == siteTail {
			return true
		}
	}
	return false
}

// siteSuffix drops the organiser prefix ("waves+multi: ") of a site.
func siteSuffix(site string) string {
	if i := strings.Index(site, ": "); i >= 0 {
		return site[i+2:]
	}
	return site
}

func removeFetch(ps *planSpec, id int) *planSpec {
	c := ps.clone()
	c.Fetches = c.Fetches[:0]
	for _, f := range ps.Fetches {
		if f.ID == id {
			continue
		}
		var deps []int
		for _, d := range f.Deps {
			if d != id {
				deps = append(deps, d)
			}
		}
		f.Deps = deps
		if f.Same == id {
			f.Same = f.ID
			for _, g := range ps.Fetches { // keep the identity group together under a surviving tag
				if g.ID != id && g.ID != f.ID && g.Same == id && g.ID < f.ID {
					f.Same = g.ID
				}
			}
		}
		c.Fetches = append(c.Fetches, f)
	}
	c.Order = c.Order[:0]
	for _, o := range ps.Order {
		if o != id {
			c.Order = append(c.Order, o)
		}
	}
	return c
}

// simplerPlans returns the one-step simplifications of the fetches / raw order
// of one plan (Before, Mode, MapDesc untouched), most drastic first.
func simplerPlans(ps *planSpec) []*planSpec {
	var out []*planSpec
	// every fetch at the root, implied nested dependencies declared explicitly
	if e := expect(ps); !e.cyclic && !e.inconsistent {
		c := ps.clone()
		decorated := false
		for i := range c.Fetches {
			f := &c.Fetches[i]
			if f.Path != 0 {
				decorated = true
			}
			f.Path = 0
			if imp := e.implied[e.rep[f.ID]]; imp != 0 {
				f.Deps = bitsOf(imp) // also for a removed duplicate: same dependencies as the kept request
			}
		}
		if decorated {
			out = append(out, c)
		}
	}
	if len(ps.Fetches) > 1 {
		for _, f := range ps.Fetches {
			out = append(out, removeFetch(ps, f.ID))
		}
	}
	for i := range ps.Fetches {
		for k := range ps.Fetches[i].Deps {
			c := ps.clone()
			c.Fetches[i].Deps = append(append([]int{}, ps.Fetches[i].Deps[:k]...), ps.Fetches[i].Deps[k+1:]...)
			out = append(out, c)
		}
	}
	for i := range ps.Fetches {
		if ps.Fetches[i].Path != 0 {
			c := ps.clone()
			c.Fetches[i].Path = 0
			out = append(out, c)
		}
		if ps.Fetches[i].Kind != kindPlain {
			c := ps.clone()
			c.Fetches[i].Kind = kindPlain
			out = append(out, c)
		}
		if ps.Fetches[i].Same != ps.Fetches[i].ID {
			c := ps.clone()
			c.Fetches[i].Same = c.Fetches[i].ID
			out = append(out, c)
		}
	}
	byID := append([]int(nil), ps.Order...)
	sort.Ints(byID)
	if !equalInts(byID, ps.Order) {
		c := ps.clone()
		c.Order = byID
		out = append(out, c)
	}
	return out
}

// shrink greedily simplifies a failing case while the same clause fails at the
// same site (organiser prefix ignored): drop earlier plans of the history, drop
// requests, drop dependency edges, simplify decorations, mode and raw order -
// of the plan under judgement and of the earlier plans.
func shrink(ps *planSpec, clause, siteTail string) *planSpec {
	cur := ps.clone()
	budget := 600 // evaluations
	for changed := true; changed && budget > 0; {
		changed = false
		var cands []*planSpec
		for i := range cur.Before {
			c := cur.clone()
			c.Before = append(c.Before[:i], c.Before[i+1:]...)
			cands = append(cands, c)
		}
		for _, sp := range simplerPlans(cur) {
			sp.Before = cur.clone().Before
			cands = append(cands, sp)
		}
		for i := range cur.Before {
			for _, sp := range simplerPlans(&cur.Before[i]) {
				c := cur.clone()
				sp.Before = nil
				c.Before[i] = *sp
				cands = append(cands, c)
			}
		}
		if cur.Mode&modeMulti != 0 {
			c := cur.clone()
			c.Mode &^= modeMulti
			cands = append(cands, c)
		}
		if cur.MapDesc {
			c := cur.clone()
			c.MapDesc = false
			cands = append(cands, c)
		}
		for _, c := range cands {
			budget--
			if stillFails(c, clause, siteTail) {
				cur = c
				changed = true
				break
			}
			if budget <= 0 {
				break
			}
		}
	}
	return cur
}

// classOf is the structural class of a (shrunk) plan: its decorated DAG up to
// relabelling of the fetch ids; raw order and mode are not part of it.
func classOf(ps *planSpec) string {
	if len(ps.Before) == 0 {
		return classOfFetches(ps)
	}
	var parts []string
	for i := range ps.Before {
		parts = append(parts, classOfFetches(&ps.Before[i]))
	}
	return "after [" + strings.Join(parts, "] then [") + "] on one Processor: " + classOfFetches(ps)
}

func classOfFetches(ps *planSpec) string {
	var ids []int
	deps := map[int][]int{}
	deco := map[int]string{}
	group := map[string]int{}
	for _, f := range ps.Fetches {
		ids = append(ids, f.ID)
		deps[f.ID] = f.Deps
		key := fmt.Sprintf("%d/%d/%d", f.Same, f.Path, f.Kind)
		group[key]++
	}
	for _, f := range ps.Fetches {
		var d []string
		if f.Path != 0 {
			d = append(d, "@"+pathMenu[f.Path].Name)
		}
		if f.Kind != kindPlain {
			d = append(d, kindNames[f.Kind])
		}
		if group[fmt.Sprintf("%d/%d/%d", f.Same, f.Path, f.Kind)] > 1 {
			d = append(d, "dup")
		}
		if len(d) > 0 {
			deco[f.ID] = "(" + strings.Join(d, ",") + ")"
		}
	}
	return fmt.Sprintf("%d requests: %s", len(ids), canonicalDAGClass(ids, deps, deco))
}

// ---------------------------------------------------------------------------
// tier configuration

type tierCfg struct {
	maxN            int
	allOrdersUpTo   int
	pathMenuSize    [maxN + 1]int  // paths family: size of the path menu prefix at N (0 = family not run at N)
	multiAtN        [maxN + 1]bool // multi family run at N
	kindMenuSize    [maxN + 1]int  // multi family: size of the kind menu prefix at N (0 = no product of kinds at N)
	fixedKinds      [maxN + 1]int  // multi family, fixed kind schemes (fetches with dependencies are entity fetches): bit 0 = all on data source s1, bit 1 = data source by id parity
	multiSchemes    [maxN + 1]int  // multi family: 1 = all fetches at the root, 2 = also "entity fetches nested at a"
	dedupMaxBase    int            // dedup family: base DAGs on <= this many ids (+1 identical copy)
	mapDescUpTo     int            // descending map order explored for plans with <= this many requests
	byIDOnlyAtN     [maxN + 1]bool // at N only the raw order "by id" (the enumeration is over LABELLED DAGs, so every relative position of ids and dependencies still occurs)
	lightAboveEdges [maxN + 1]int  // at N, DAGs with more dependency edges than this run only family paths in mode waves (0 = no such restriction)
	histVariantsN   int            // histories on one Processor: pool = DAGs on <= this many ids in three variants (plain, entity fetches, nested sources) ...
	histPlainN      int            // ... plus the plain plans of the DAGs on <= this many ids; every ordered pair of the pool
	histTriplesN    int            // every ordered triple of the plain plans of the DAGs on <= this many ids (0 = none)
	simulateUpTo    int            // executor simulation (formulation C) for plans with <= this many requests
}

var quickCfg = tierCfg{
	maxN:            6,
	allOrdersUpTo:   4,
	pathMenuSize:    [maxN + 1]int{0, 4, 4, 4, 3, 1, 1},
	multiAtN:        [maxN + 1]bool{false, true, true, true, true, true, true},
	kindMenuSize:    [maxN + 1]int{0, 3, 3, 3, 2, 0, 0},
	fixedKinds:      [maxN + 1]int{0, 0, 0, 0, 2, 2, 2},
	multiSchemes:    [maxN + 1]int{0, 2, 2, 2, 1, 1, 1},
	dedupMaxBase:    3,
	mapDescUpTo:     4,
	simulateUpTo:    4,
	byIDOnlyAtN:     [maxN + 1]bool{false, false, false, false, false, false, true},
	lightAboveEdges: [maxN + 1]int{0, 0, 0, 0, 0, 0, 6},
	histVariantsN:   3,
	histPlainN:      3,
	histTriplesN:    0,
}

var thoroughCfg = tierCfg{
	maxN:          6,
	allOrdersUpTo: 4,
	pathMenuSize:  [maxN + 1]int{0, 6, 6, 6, 5, 3, 1},
	multiAtN:      [maxN + 1]bool{false, true, true, true, true, true, true},
	kindMenuSize:  [maxN + 1]int{0, 4, 4, 4, 3, 2, 0},
	fixedKinds:    [maxN + 1]int{0, 0, 0, 0, 0, 2, 2},
	multiSchemes:  [maxN + 1]int{0, 2, 2, 2, 2, 1, 1},
	dedupMaxBase:  4,
	mapDescUpTo:   4,
	simulateUpTo:  5,
	histVariantsN: 3,
	histPlainN:    4,
	histTriplesN:  3,
}

// ---------------------------------------------------------------------------
// the exploration

type explorer struct {
	run *vk.Run
	cfg *tierCfg

	shapes  map[uint64]struct{}
	sampled map[string]bool
	// freshSig: signature of the tree a fresh Processor builds for the plan that
	// runCase is about to judge after a history (set by exploreHistories)
	freshSig string
	// batched counters
	evals, states, transitions, traces int64
	counters                           map[string]int64
	failingPlans                       int
	shrunk                             int
}

func (x *explorer) flush() {
	x.run.Eval(x.evals)
	x.run.AddStates(x.states, x.transitions, x.traces)
	x.evals, x.states, x.transitions, x.traces = 0, 0, 0, 0
	for k, v := range x.counters {
		if v != 0 {
			x.run.Count(k, v)
			x.counters[k] = 0
		}
	}
}

const maxShrunkPerShard = 400

// structureBudgetShare: see checkStructure.
const structureBudgetShare = 0.6

// runCase evaluates one plan, records it and returns the tree shape ("" when
// the plan was not run or has no tree).
func (x *explorer) runCase(ps *planSpec) string {
	r := evaluate(ps, len(ps.Fetches) <= x.cfg.simulateUpTo, x.freshSig)
	if r.skipped != "" {
		x.counters["not_a_plan: "+r.skipped]++
		return ""
	}
	x.evals++
	x.states++
	x.counters["plans "+ps.Family+" "+modeNames[ps.Mode]]++
	if r.jud != nil && r.jud.oracleSplit != "" {
		x.counters["oracle_split"]++
		x.run.Note("oracle_split (harness defect, case not judged): %s | %s", r.jud.oracleSplit, ps.String())
		return ""
	}
	shape := ""
	if r.tree != nil {
		shape = r.tree.shape
		h := vk.Hash(shape)
		if _, ok := x.shapes[h]; !ok {
			x.shapes[h] = struct{}{}
			x.run.Outcome(shape)
		}
		for i := range r.tree.leaves {
			if r.tree.leaves[i].multi {
				x.counters["trees_with_merged_multi_fetch"]++
				break
			}
		}
	}
	if r.jud != nil {
		x.transitions += int64(r.jud.edgesChecked)
		x.traces++
		if r.exp.present != r.exp.all {
			x.counters["plans_with_removed_duplicate"]++
		}
		for id := 0; id < maxID; id++ {
			if r.exp.implied[id] != 0 {
				x.counters["plans_with_implied_nested_dependency"]++
				break
			}
		}
	}
	fs := r.failures()
	if len(fs) == 0 {
		if r.jud != nil && r.jud.edgesChecked >= 2 && len(ps.Fetches) >= 3 {
			class := ps.Family + " " + modeNames[ps.Mode]
			if !x.sampled[class] {
				x.sampled[class] = true
				x.run.Sample(class, map[string]any{"plan": ps.String(), "tree": shape, "dependency_edges_checked": r.jud.edgesChecked})
			}
		}
		return shape
	}
	x.failingPlans++
	x.counters["failing_plans"]++
	done := map[string]bool{}
	for _, f := range fs {
		key := f.clause + "\x00" + siteSuffix(f.site)
		if done[key] {
			continue
		}
		done[key] = true
		if x.shrunk >= maxShrunkPerShard {
			x.counters["failures_not_recorded_after_cap"]++
			continue
		}
		x.shrunk++
		x.report(ps, f)
	}
	return shape
}

// report shrinks the failing plan for this (clause, site) and records the violation.
func (x *explorer) report(ps *planSpec, f failure) {
	small := shrink(ps, f.clause, siteSuffix(f.site))
	r := evaluate(small, false, "")
	site, detail := f.site, f.detail
	for _, g := range r.failures() {
		if g.clause == f.clause && siteSuffix(g.site) == siteSuffix(f.site) {
			site, detail = g.site, g.detail
			break
		}
	}
	x.run.Violate(vk.Violation{
		Clause: f.clause,
		Site:   site,
		Class:  classOf(small),
		Detail: "plan: " + small.String() + "\nobserved: " + detail + "\n(first seen on: " + ps.String() + ")",
		Input:  small,
	})
}

func checkStructure(run *vk.Run) {
	cfg := &quickCfg
	if run.Thorough() {
		cfg = &thoroughCfg
	}
	x := &explorer{run: run, cfg: cfg, shapes: map[uint64]struct{}{}, sampled: map[string]bool{}, counters: map[string]int64{}}

	run.Rule("part (a): every labelled dependency DAG on N fetch ids (N <= max_n; unique layered enumeration checked against a brute-force enumeration for N <= 4 and against OEIS A003024), as a flat plan of *resolve.SingleFetch, through postprocess.NewProcessor(opts).Process. Raw fetch-list order: every permutation for N <= all_orders_up_to_n, else topological / reversed / by id. Families: 'paths' = every assignment of (response path, merge path) from the path menu to the fetches, modes waves and schedule (EnableScheduleFetches); 'multi' = every assignment of fetch kinds (plain / entity fetches on two data sources; for the largest N a fixed scheme: fetches with dependencies are entity fetches, data source by id parity) under one or two path schemes, modes waves+multi and schedule+multi (EnableMultiFetch; without it the fetch kind does not influence the tree); 'dedup' = base DAG plus one byte-identical copy of one fetch whose dependants choose the original, the copy or both. Schedule modes run with ascending and descending map iteration order in package postprocess. 'history' = ONE Processor processes two plans (every ordered pair of a pool of small plans; thorough also every ordered triple of the smallest) in sequence, in all four modes: the last tree is judged by the oracle and must equal the tree a fresh Processor builds for the same plan. Fetch ids are labels of the enumeration, i.e. every assignment of ids to the nodes of every DAG occurs (ids not in topological order included). At the largest N of the quick tier only the raw order by id is used and DAGs with more than waves_only_above_edges edges run only the waves mode. A distinct outcome is a distinct fetch-tree shape (Sequence/Parallel nesting with fetch ids).")
	run.Assume(
		"tree semantics are those of resolve.Loader: resolveSerial runs children in order, resolveParallel runs them concurrently and waits for all (read in loader.go; three formulations of 'x completes before y starts' - LCA rule, predecessor walk, exhaustive executor simulation - are compared on every tree)",
		"expected dependency edges = declared DependsOnFetchIDs (a removed duplicate is replaced by the kept identical request) + for a nested request without declared dependencies every request whose (response path + merge path) is a segment-wise prefix of its response path",
		"path/kind assignments whose implied nested dependencies contradict the declared DAG (cycle) are not plans and are not run (counted as not_a_plan)",
		"map iteration order inside package postprocess is pinned by the build overlay to ascending or descending keys (both explored), not to every permutation",
		"non-termination is detected by a watchdog on consumed CPU time (60 s of process CPU time without finishing one plan that normally takes microseconds)",
	)
	run.Bound("max_n", cfg.maxN)
	run.Bound("all_orders_up_to_n", cfg.allOrdersUpTo)
	run.Bound("path_menu_size_per_n", cfg.pathMenuSize)
	run.Bound("kind_menu_size_per_n", cfg.kindMenuSize)
	run.Bound("multi_fixed_kind_schemes_per_n", cfg.fixedKinds)
	run.Bound("multi_path_schemes_per_n", cfg.multiSchemes)
	run.Bound("dedup_base_max_n", cfg.dedupMaxBase)
	run.Bound("descending_map_order_up_to_n", cfg.mapDescUpTo)
	run.Bound("raw_order_by_id_only_at_n", cfg.byIDOnlyAtN)
	run.Bound("waves_only_above_edges_per_n", cfg.lightAboveEdges)
	run.Bound("history_pool_variants_up_to_n", cfg.histVariantsN)
	run.Bound("history_pairs_plain_up_to_n", cfg.histPlainN)
	run.Bound("history_triples_plain_up_to_n", cfg.histTriplesN)
	run.Bound("executor_simulation_up_to_n", cfg.simulateUpTo)
	var menuText []string
	for _, p := range pathMenu {
		menuText = append(menuText, fmt.Sprintf("%s=(ResponsePath %q, MergePath %v)", p.Name, p.RP, p.MP))
	}
	run.Bound("path_menu", menuText)
	run.Bound("kind_menu", kindNames)
	run.Bound("map_order_controlled", setMapDesc != nil)

	if run.Replay != "" {
		var probe struct {
			Part string `json:"part"`
		}
		if err := run.ReplayInput(&probe); err != nil {
			infra("cannot read replay input: %v", err)
		}
		if probe.Part != "a" {
			return // an input of part (b)
		}
		var ps planSpec
		if err := run.ReplayInput(&ps); err != nil {
			infra("cannot read replay input: %v", err)
		}
		fmt.Printf("replaying: %s\n", ps.String())
		x.runCase(&ps)
		x.flush()
		return
	}

	if msg := selfCheckEnumerator(); msg != "" {
		infra("DAG enumerator self-check: %s", msg)
	}
	stop := startWatchdog(run)
	defer stop()
	if setMapDesc != nil {
		defer setMapDesc(false)
	}
	// Share of the shard's deadline (VERIF_DEADLINE_S) that part (a) may use;
	// lower it when part (b) needs a guaranteed share. The largest N comes last,
	// so a cut only shortens the N = max_n sweep (recorded as a cap).
	budget := time.Duration(0)
	if d, err := strconv.Atoi(os.Getenv("VERIF_DEADLINE_S")); err == nil && d > 0 {
		budget = time.Duration(float64(d)*structureBudgetShare) * time.Second
	}
	// Every plan is short-lived garbage and the live heap is tiny: collect when
	// the heap reaches 192 MiB instead of after every few MiB.
	defer debug.SetGCPercent(debug.SetGCPercent(-1))
	defer debug.SetMemoryLimit(debug.SetMemoryLimit(192 << 20))

	var caseIndex int64
	expired := x.exploreHistories()
	for n := 1; n <= cfg.maxN && !expired; n++ {
		var count int64
		enumDAGs(n, func(d *dag) bool {
			count++
			idx := caseIndex
			caseIndex++
			if !run.Mine(idx) {
				return true
			}
			if run.Expired() {
				expired = true
				return false
			}
			if structureBudgetShare < 1 && budget > 0 && run.Elapsed() > budget {
				run.Cap("part (a) used its share of the deadline")
				expired = true
				return false
			}
			x.exploreDAG(d)
			if x.evals >= 4096 {
				x.flush()
			}
			return true
		})
		if !expired {
			if count != numLabelledDAGs[n] {
				infra("enumerated %d DAGs on %d nodes, expected %d", count, n, numLabelledDAGs[n])
			}
			if run.Shard() == 0 {
				run.Count(fmt.Sprintf("dags_n%d", n), count)
				run.Note("shard 0 finished N=%d (%d DAGs enumerated, 1/%d of them explored here) after %.1f s wall, %.1f s CPU", n, count, run.NShards(), run.Elapsed().Seconds(), cpuSeconds())
			}
		} else {
			run.Note("deadline reached inside N=%d after %d of %d DAGs (shard %d)", n, count, numLabelledDAGs[n], run.Shard())
		}
	}
	x.flush()
	if !entityDocsUnchanged() || string(reprVariables[0].Value) != "[$$0$$]" {
		infra("Process modified the shared read-only entity documents: harness assumption broken")
	}
}

// exploreDAG runs every family on one DAG.
func (x *explorer) exploreDAG(d *dag) {
	n := d.n
	var orders [][]int
	switch {
	case n <= x.cfg.allOrdersUpTo:
		orders = allPerms(n)
	case x.cfg.byIDOnlyAtN[n]:
		orders = [][]int{allPerms(n)[0]}
	default:
		orders = threeOrders(d)
	}
	light := false
	if max := x.cfg.lightAboveEdges[n]; max > 0 {
		edges := 0
		for f := 0; f < n; f++ {
			for m := d.deps[f]; m != 0; m &= m - 1 {
				edges++
			}
		}
		light = edges > max
	}
	ps := &planSpec{Part: "a", Fetches: make([]fetchSpec, n)}
	for f := 0; f < n; f++ {
		ps.Fetches[f] = fetchSpec{ID: f, Deps: bitsOf(d.deps[f]), Same: f}
	}
	descs := []bool{false}
	if setMapDesc != nil && n <= x.cfg.mapDescUpTo {
		descs = []bool{false, true}
	}
	// runOrdersAndModes: all raw orders x the given modes (x map orders for the
	// schedule modes); compares the shapes across raw orders.
	runOrdersAndModes := func(modes []int) {
		var first [8]string
		var have [8]bool
		for _, o := range orders {
			ps.Order = o
			for _, m := range modes {
				for _, desc := range descs {
					if desc && m&modeSchedule == 0 {
						continue
					}
					ps.Mode, ps.MapDesc = m, desc
					shape := x.runCase(ps)
					if shape == "" {
						continue
					}
					k := m * 2
					if desc {
						k++
					}
					if !have[k] {
						have[k], first[k] = true, shape
					} else if first[k] != shape {
						x.counters["info_shape_depends_on_raw_order"]++
					}
					if desc && have[k-1] && first[k-1] != first[k] {
						x.counters["info_shape_depends_on_map_order"]++
					}
				}
			}
		}
	}

	// family "paths"
	if size := x.cfg.pathMenuSize[n]; size > 0 {
		ps.Family = "paths"
		forEachAssignment(n, size, func(v []uint8) bool {
			for f := 0; f < n; f++ {
				ps.Fetches[f].Path = int(v[f])
				ps.Fetches[f].Kind = kindPlain
			}
			if light {
				runOrdersAndModes([]int{0})
			} else {
				runOrdersAndModes([]int{0, modeSchedule})
			}
			return true
		})
	}

	// family "multi"
	if x.cfg.multiAtN[n] && !light {
		ps.Family = "multi"
		// Without EnableMultiFetch the kind of a fetch has no influence on the
		// organisation of the tree (covered by family "paths"), so only the two
		// merging modes are run here.
		multiModes := []int{modeMulti, modeSchedule | modeMulti}
		withKinds := func() {
			// scheme 1: everything at the root; scheme 2: entity fetches nested at "a"
			for scheme := 0; scheme < x.cfg.multiSchemes[n]; scheme++ {
				nested := false
				for f := 0; f < n; f++ {
					ps.Fetches[f].Path = 0
					if scheme == 1 && ps.Fetches[f].Kind != kindPlain {
						ps.Fetches[f].Path = 1
						nested = true
					}
				}
				if scheme == 1 && !nested {
					continue
				}
				runOrdersAndModes(multiModes)
			}
		}
		if size := x.cfg.kindMenuSize[n]; size > 0 {
			forEachAssignment(n, size, func(v []uint8) bool {
				plain := true
				for f := 0; f < n; f++ {
					ps.Fetches[f].Kind = int(v[f])
					if v[f] != 0 {
						plain = false
					}
				}
				if plain {
					return true // covered by family "paths" (all root)
				}
				withKinds()
				return true
			})
		}
		// fixed kind schemes: requests with dependencies are entity fetches,
		// (bit 0) all on one data source, (bit 1) data source by id parity
		for fixed := 0; fixed < 2; fixed++ {
			if x.cfg.fixedKinds[n]&(1<<fixed) == 0 {
				continue
			}
			any := false
			for f := 0; f < n; f++ {
				ps.Fetches[f].Kind = kindPlain
				if d.deps[f] != 0 {
					any = true
					ps.Fetches[f].Kind = kindBatchS1
					if fixed == 1 && f%2 == 1 {
						ps.Fetches[f].Kind = kindBatchS2
					}
				}
			}
			if any {
				withKinds()
			}
		}
	}

	// family "dedup": base DAG d on n ids + one identical copy (id n) of one fetch
	if n <= x.cfg.dedupMaxBase {
		x.exploreDedup(d)
	}
}

func (x *explorer) exploreDedup(d *dag) {
	n := d.n
	total := n + 1
	var orders [][]int
	if total <= x.cfg.allOrdersUpTo {
		orders = allPerms(total)
	}
	descs := []bool{false}
	if setMapDesc != nil && total <= x.cfg.mapDescUpTo {
		descs = []bool{false, true}
	}
	for orig := 0; orig < n; orig++ {
		var dependants []int
		for f := 0; f < n; f++ {
			if d.deps[f]&bit(orig) != 0 {
				dependants = append(dependants, f)
			}
		}
		// every dependant refers to the original (0), the copy (1) or both (2)
		forEachAssignment(len(dependants), 3, func(choice []uint8) bool {
			// paths: the duplicated request and its copy share a path; menu {root, a}
			forEachAssignment(n, 2, func(pv []uint8) bool {
				ps := &planSpec{Part: "a", Family: "dedup", Fetches: make([]fetchSpec, total)}
				for f := 0; f < n; f++ {
					ps.Fetches[f] = fetchSpec{ID: f, Deps: bitsOf(d.deps[f]), Same: f, Path: int(pv[f])}
				}
				ps.Fetches[n] = fetchSpec{ID: n, Deps: bitsOf(d.deps[orig]), Same: orig, Path: int(pv[orig])}
				for i, f := range dependants {
					var deps []int
					for _, dd := range ps.Fetches[f].Deps {
						if dd != orig {
							deps = append(deps, dd)
						}
					}
					switch choice[i] {
					case 0:
						deps = append(deps, orig)
					case 1:
						deps = append(deps, n)
					default:
						deps = append(deps, orig, n)
					}
					sort.Ints(deps)
					ps.Fetches[f].Deps = deps
				}
				os := orders
				if os == nil {
					// topological / reversed / by id of the extended DAG
					ext := dag{n: total}
					for f := 0; f < total; f++ {
						for _, dd := range ps.Fetches[f].Deps {
							ext.deps[f] |= bit(dd)
						}
					}
					os = threeOrders(&ext)
				}
				for _, o := range os {
					ps.Order = o
					for _, m := range []int{0, modeSchedule} {
						for _, desc := range descs {
							if desc && m&modeSchedule == 0 {
								continue
							}
							ps.Mode, ps.MapDesc = m, desc
							x.runCase(ps)
						}
					}
				}
				return true
			})
			return true
		})
	}
}

// exploreHistories: ONE Processor processes two (three) plans in sequence; the
// last plan's tree is judged by the oracle and compared with the tree a fresh
// Processor builds for the same plan.
func (x *explorer) exploreHistories() (expired bool) {
	type entry struct {
		ps    planSpec
		plain bool
		n     int
	}
	var pool []entry
	for n := 1; n <= x.cfg.histPlainN || n <= x.cfg.histVariantsN; n++ {
		enumDAGs(n, func(d *dag) bool {
			mk := func() planSpec {
				ps := planSpec{Part: "a", Family: "history", Fetches: make([]fetchSpec, n), Order: allPerms(n)[0]}
				for f := 0; f < n; f++ {
					ps.Fetches[f] = fetchSpec{ID: f, Deps: bitsOf(d.deps[f]), Same: f}
				}
				return ps
			}
			pool = append(pool, entry{ps: mk(), plain: true, n: n})
			if n > x.cfg.histVariantsN {
				return true
			}
			// variant: fetches with dependencies are entity fetches on one data source
			ent := mk()
			any := false
			for f := 0; f < n; f++ {
				if d.deps[f] != 0 {
					ent.Fetches[f].Kind = kindBatchS1
					any = true
				}
			}
			if any {
				pool = append(pool, entry{ps: ent, n: n})
			}
			// variant: fetches without dependencies, except the one with the lowest id, are nested at "a"
			nest := mk()
			first, any := true, false
			for f := 0; f < n; f++ {
				if d.deps[f] == 0 {
					if !first {
						nest.Fetches[f].Path = 1
						any = true
					}
					first = false
				}
			}
			if e := expect(&nest); any && !e.cyclic {
				pool = append(pool, entry{ps: nest, n: n})
			}
			return true
		})
	}
	if x.run.Shard() == 0 {
		x.run.Count("history_pool_plans", int64(len(pool)))
	}
	type sigKey struct {
		j, mode int
		desc    bool
	}
	fresh := map[sigKey]string{}
	modes := []int{0, modeSchedule, modeMulti, modeSchedule | modeMulti}
	var idx int64
	runHistory := func(before []int, j int) bool {
		mine := x.run.Mine(idx)
		idx++
		if !mine {
			return true
		}
		if x.run.Expired() {
			return false
		}
		ps := pool[j].ps.clone()
		for _, b := range before {
			ps.Before = append(ps.Before, *pool[b].ps.clone())
		}
		for _, m := range modes {
			for _, desc := range []bool{false, true} {
				if desc && (m&modeSchedule == 0 || setMapDesc == nil) {
					continue
				}
				ps.Mode, ps.MapDesc = m, desc
				k := sigKey{j, m, desc}
				sig, ok := fresh[k]
				if !ok {
					solo := ps.clone()
					solo.Before = nil
					if r := evaluate(solo, false, ""); r.tree != nil && !r.panicked {
						sig = r.tree.signature()
					} else {
						sig = "no tree"
					}
					fresh[k] = sig
				}
				x.freshSig = sig
				x.runCase(ps)
				x.freshSig = ""
			}
		}
		if x.evals >= 4096 {
			x.flush()
		}
		return true
	}
	for i := range pool {
		for j := range pool {
			if !runHistory([]int{i}, j) {
				return true
			}
		}
	}
	if t := x.cfg.histTriplesN; t > 0 {
		var small []int
		for i := range pool {
			if pool[i].plain && pool[i].n <= t {
				small = append(small, i)
			}
		}
		for _, a := range small {
			for _, b := range small {
				for _, c := range small {
					if !runHistory([]int{a, b}, c) {
						return true
					}
				}
			}
		}
	}
	x.flush()
	return false
}

// ---------------------------------------------------------------------------
// non-termination watchdog (CPU time, not wall-clock)

func cpuSeconds() float64 {
	var ru syscall.Rusage
	if err := syscall.Getrusage(syscall.RUSAGE_SELF, &ru); err != nil {
		return 0
	}
	return float64(ru.Utime.Sec+ru.Stime.Sec) + float64(ru.Utime.Usec+ru.Stime.Usec)/1e6
}

const watchdogCPUSeconds = 60

func startWatchdog(run *vk.Run) (stop func()) {
	done := make(chan struct{})
	go func() {
		last := progress.Load()
		since := cpuSeconds()
		for {
			select {
			case <-done:
				return
			case <-time.After(2 * time.Second):
			}
			now := progress.Load()
			if now != last || now%2 == 0 { // even: not inside Process
				last, since = now, cpuSeconds()
				continue
			}
			if cpuSeconds()-since < watchdogCPUSeconds {
				continue
			}
			ps := currentCase.Load()
			run.Violate(vk.Violation{
				Clause: clauseTerm,
				Site:   organiser(ps.Mode) + ": Process still running",
				Class:  classOf(ps),
				Detail: fmt.Sprintf("Process did not return after %d s of CPU time on plan: %s", watchdogCPUSeconds, ps.String()),
				Input:  ps.clone(),
			})
			run.Cap("shard stopped by the non-termination watchdog")
			run.Finish()
			os.Exit(0)
		}
	}()
	return func() { close(done) }
}
