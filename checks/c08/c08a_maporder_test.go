//go:build !nooverlay

package c08

// The driver's build overlay (check.json: overlay.maporder) rewrites every
// `range m` over a map in package postprocess into vsync.RangeMap(m, site), so
// that the iteration order is ascending by key, or descending when MapDesc says
// so. Without the overlay (plain `go vet` / `go test`) build with `-tags nooverlay`:
// the map order is then the runtime's and only one order is run
// (bound map_order_controlled=false), or pass
// -overlay /verif/.build/overlay/C08/overlay.json.

import "github.com/wundergraph/graphql-go-tools/v2/pkg/vsync"

var mapDescNow bool

func init() {
	vsync.MapDesc = func(site string) bool { return mapDescNow }
	setMapDesc = func(desc bool) { mapDescNow = desc }
}
