package c08

// Part (b) of C08: runtime. For planner-produced plans of the federation
// laboratory, EVERY completion order of the subgraph requests is executed on the
// real engine (requests are parked by the simulator's gate, a synctest bubble
// gives exact quiescence, DFS over "which parked request answers next"). The
// multiset of request bodies and the response must not depend on the order: a
// fetch that was prepared before a dependency was merged would carry different
// (or no) representations.

import (
	"context"
	"fmt"
	"sort"
	"strings"
	"testing"
	"testing/synctest"

	"github.com/vektah/gqlparser/v2"
	gast "github.com/vektah/gqlparser/v2/ast"

	"github.com/wundergraph/graphql-go-tools/execution/engine"
	"github.com/wundergraph/graphql-go-tools/execution/graphql"

	"verif/internal/fedlab"
	"verif/internal/fedorders"
	"verif/internal/refexec"
	"verif/internal/vk"
)

type rtFamily struct {
	name   string
	u      *fedlab.Universe
	schema *gast.Schema
	layout *fedlab.Layout
	ops    []*fedlab.Op
}

func rtFamilies(run *vk.Run) []*rtFamily {
	core, abs, req := fedlab.SCore(), fedlab.SAbs(), fedlab.SReq()
	fams := []*rtFamily{
		{name: "S-core", u: fedlab.SCoreUniverse(core), layout: fedlab.ByType(core, 3, func(r fedlab.FieldRef) int {
			switch {
			case r.Type == "Product" || r.Field == "topProducts":
				return 1
			case r.Field == "reviews" || r.Field == "nick" || r.Field == "greeting" || r.Field == "friends":
				return 2
			}
			return 0
		}, "base3")},
		{name: "S-abs", u: fedlab.SAbsUniverse(abs), layout: fedlab.ByType(abs, 2, func(r fedlab.FieldRef) int {
			if r.Type == "Book" || r.Field == "search" {
				return 1
			}
			return 0
		}, "base2")},
		{name: "S-req", u: fedlab.SReqUniverse(req), layout: fedlab.ByType(req, 3, func(r fedlab.FieldRef) int {
			switch r.String() {
			case "Item.shipping", "Item.volume", "Item.summary", "Query.boxes", "Box.size", "Box.content":
				return 1
			case "Item.weight", "Item.dims", "Maker.label":
				return 2
			}
			return 0
		}, "base3")},
	}
	for _, f := range fams {
		s, err := gqlparser.LoadSchema(&gast.Source{Input: f.u.S.SDL()})
		if err != nil {
			panic(err)
		}
		f.schema = s
		f.ops = fedlab.GenOps(fedlab.GenConfig{Schema: s, Widths: vk.Pick(run, []int{1, 2, 1}, []int{2, 2, 1}), ArgMenu: func(t, fl string) [][]fedlab.ArgUse {
			switch t + "." + fl {
			case "Query.user":
				return [][]fedlab.ArgUse{{{Name: "id", Value: `"u1"`}}}
			case "Query.item":
				return [][]fedlab.ArgUse{{{Name: "id", Value: `"i1"`}}}
			case "Query.node":
				return [][]fedlab.ArgUse{{{Name: "id", Value: `"b1"`}}}
			}
			return nil
		}}, "query")
	}
	return fams
}

type rtObs struct {
	resp string
	reqs string
	err  string
}

type rtWriter struct{ buf []byte }

func (w *rtWriter) Write(p []byte) (int, error) { w.buf = append(w.buf, p...); return len(p), nil }
func (w *rtWriter) Flush() error                { return nil }
func (w *rtWriter) Complete()                   {}
func (w *rtWriter) Heartbeat() error            { return nil }
func (w *rtWriter) Error([]byte)                {}

func rtExec(lab *fedlab.Lab, q string) rtObs {
	lab.Sim.Reset()
	w := &rtWriter{}
	err := lab.Engine.Execute(context.Background(), &graphql.Request{Query: q}, w)
	o := rtObs{}
	if err != nil {
		o.err = err.Error()
		return o
	}
	m, derr := refexec.DecodeObject(w.buf)
	if derr != nil {
		o.resp = "INVALID JSON " + string(w.buf)
	} else {
		if es, ok := m["errors"].([]any); ok {
			var ss []string
			for _, e := range es {
				ss = append(ss, refexec.Canon(e))
			}
			sort.Strings(ss)
			m["errors"] = ss
		}
		o.resp = refexec.Canon(m)
	}
	// identical requests that are in flight together are legitimately shared by
	// the subgraph single flight (C11), so requests are compared as a set
	set := map[string]bool{}
	for _, r := range lab.Sim.Log() {
		set[r.Canon()] = true
	}
	var rs []string
	for r := range set {
		rs = append(rs, r)
	}
	sort.Strings(rs)
	o.reqs = strings.Join(rs, "\n")
	return o
}

const (
	rtClauseOrder = "the final response does not depend on the completion order of concurrently running requests"
	rtClauseReq   = "a subgraph request is issued only after every request whose results it reads has completed and been merged"
	rtClauseOnce  = "every planned request appears exactly once in the execution order"
)

func checkRuntime(t *testing.T, run *vk.Run) {
	maxOrders := vk.Pick(run, 24, 720)
	run.Bound("b.max_completion_orders_per_operation", maxOrders)
	var rin *struct {
		Part    string   `json:"part"`
		Family  string   `json:"family"`
		Op      string   `json:"op"`
		Options []string `json:"options"`
		Order   []int    `json:"order"`
	}
	if run.Replay != "" {
		rin = &struct {
			Part    string   `json:"part"`
			Family  string   `json:"family"`
			Op      string   `json:"op"`
			Options []string `json:"options"`
			Order   []int    `json:"order"`
		}{}
		if err := run.ReplayInput(rin); err != nil || rin.Part != "b" {
			return
		}
	}
	optionSets := [][]string{nil, {"schedule"}, {"multifetch"}, {"schedule", "multifetch"}}
	synctest.Test(t, func(t *testing.T) {
		var caseNo int64
		for _, f := range rtFamilies(run) {
			for _, oset := range optionSets {
				oset := oset
				lab, err := fedlab.NewLab(f.layout, f.u, fedlab.LabOptions{Configure: func(conf *engine.Configuration) {
					for _, o := range oset {
						switch o {
						case "schedule":
							conf.EnableScheduleFetches()
						case "multifetch":
							conf.EnableMultiFetch()
						}
					}
				}})
				if err != nil {
					t.Fatalf("lab: %v", err)
				}
				for _, op := range f.ops {
					q := op.String()
					caseNo++
					if rin != nil {
						if rin.Family != f.name || rin.Op != q || strings.Join(rin.Options, ",") != strings.Join(oset, ",") {
							continue
						}
					} else if !run.Mine(caseNo) {
						continue
					}
					if run.Expired() {
						// leave the bubble cleanly: the engine's background goroutines
						// (heartbeat / ping loops) end with the lab
						lab.Close()
						synctest.Wait()
						return
					}
					// canonical run: no gate
					base := rtExec(lab, q)
					synctest.Wait()
					if base.err != "" {
						run.Count("b.engine_error", 1)
						continue
					}
					if strings.Count(base.reqs, "\n") < 1 {
						continue // a single request: no order to explore
					}
					orders := 0
					maxInFlight := 1
					judge := func(x *fedorders.Exec) {
						orders++
						for _, c := range x.Counts {
							if c > maxInFlight {
								maxInFlight = c
							}
						}
						got, _ := x.Obs.(rtObs)
						var clause, site, detail string
						switch {
						case x.Stuck:
							clause, site, detail = rtClauseOrder, "execution wedged with no request in flight", ""
						case got.err != base.err:
							clause, site, detail = rtClauseOrder, "engine error depends on the completion order", got.err
						case got.reqs != base.reqs:
							clause, site = rtClauseReq, "request bodies depend on the completion order"
							if len(strings.Split(got.reqs, "\n")) != len(strings.Split(base.reqs, "\n")) {
								clause, site = rtClauseOnce, "set of distinct requests depends on the completion order"
							}
							detail = fmt.Sprintf("requests in this order:\n%s\nrequests in the canonical run:\n%s", got.reqs, base.reqs)
						case got.resp != base.resp:
							clause, site = rtClauseOrder, "response depends on the completion order"
							detail = fmt.Sprintf("this order: %s\ncanonical: %s", got.resp, base.resp)
						}
						if rin != nil {
							fmt.Printf("order %v counts %v\n%s\n", x.Choices, x.Counts, got.resp)
						}
						if clause != "" {
							run.Violate(vk.Violation{Clause: clause, Site: site, Class: f.name + " options{" + strings.Join(oset, ",") + "}",
								Detail: fmt.Sprintf("operation %s\ncompletion order (choice indices) %v of %v parked\n%s", q, x.Choices, x.Counts, detail),
								Input:  map[string]any{"part": "b", "family": f.name, "op": q, "options": oset, "order": x.Choices}})
						}
					}
					if rin != nil {
						x := fedorders.RunOne(lab.Sim, rin.Order, func() any { return rtExec(lab, q) })
						run.Eval(1)
						run.AddStates(1, 1, 1)
						judge(x)
						continue
					}
					execs, points, capped := fedorders.Explore(lab.Sim, maxOrders, func() any { return rtExec(lab, q) }, judge)
					run.Eval(int64(execs))
					run.AddStates(int64(points)+1, int64(points), int64(execs))
					run.Count("b.executions", int64(execs))
					if maxInFlight > 1 {
						run.Count("b.operations_with_concurrent_requests", 1)
					}
					if capped {
						run.Cap(fmt.Sprintf("b: more than %d completion orders for some operation", maxOrders))
					}
					if run.Outcome(fmt.Sprintf("b|%s|%v|%s|orders=%d", f.name, oset, q, execs)) {
						run.Sample(fmt.Sprintf("runtime/%s/%v/inflight=%d", f.name, oset, maxInFlight), map[string]any{"operation": q, "options": oset, "completion_orders": execs, "max_requests_in_flight": maxInFlight})
					}
				}
				lab.Close()
				synctest.Wait()
			}
		}
	})
}
