package c08

// Part (a) of C08 - the synthetic flat plan: planSpec (JSON-able, what a replay
// file carries) and its translation into a plan.SynchronousResponsePlan with
// RawFetches of *resolve.SingleFetch.

import (
	"fmt"
	"strconv"
	"strings"

	"github.com/wundergraph/graphql-go-tools/v2/pkg/ast"
	"github.com/wundergraph/graphql-go-tools/v2/pkg/astparser"
	"github.com/wundergraph/graphql-go-tools/v2/pkg/astprinter"
	"github.com/wundergraph/graphql-go-tools/v2/pkg/engine/plan"
	"github.com/wundergraph/graphql-go-tools/v2/pkg/engine/postprocess"
	"github.com/wundergraph/graphql-go-tools/v2/pkg/engine/resolve"
)

// fetchSpec is one planned fetch.
type fetchSpec struct {
	ID   int   `json:"id"`
	Deps []int `json:"deps"` // declared DependsOnFetchIDs
	Path int   `json:"path"` // index into pathMenu
	Kind int   `json:"kind"` // kindPlain ...
	Same int   `json:"same"` // content tag: fetches with equal Same (and Path, Kind) are byte-identical requests; normally == ID
}

const (
	modeSchedule = 1 // postprocess.EnableScheduleFetches()
	modeMulti    = 2 // postprocess.EnableMultiFetch()
)

var modeNames = []string{"waves", "schedule", "waves+multi", "schedule+multi"}

// planSpec is one case: a DAG with decorations, a raw order and a mode.
type planSpec struct {
	Part    string      `json:"part"` // "a"
	Family  string      `json:"family"`
	Fetches []fetchSpec `json:"fetches"`
	Order   []int       `json:"order"` // ids in RawFetches order
	Mode    int         `json:"mode"`
	MapDesc bool        `json:"map_desc"` // map range loops of package postprocess iterate in descending key order
	// Before: plans that the SAME postprocess.Processor processed (in this
	// order) before this plan; empty = a fresh Processor. Only Fetches and Order
	// of these are used.
	Before []planSpec `json:"before,omitempty"`
}

func (ps *planSpec) fetch(id int) *fetchSpec {
	for i := range ps.Fetches {
		if ps.Fetches[i].ID == id {
			return &ps.Fetches[i]
		}
	}
	return nil
}

func (ps *planSpec) fetchesString() string {
	var b strings.Builder
	fmt.Fprintf(&b, "raw order=%v fetches:", ps.Order)
	for _, f := range ps.Fetches {
		fmt.Fprintf(&b, " {id=%d dependsOn=%v path=%s", f.ID, f.Deps, pathMenu[f.Path].Name)
		if f.Kind != kindPlain {
			fmt.Fprintf(&b, " kind=%s", kindNames[f.Kind])
		}
		if f.Same != f.ID {
			fmt.Fprintf(&b, " identical-to=%d", f.Same)
		}
		b.WriteString("}")
	}
	return b.String()
}

func (ps *planSpec) String() string {
	var b strings.Builder
	fmt.Fprintf(&b, "family=%s mode=%s", ps.Family, modeNames[ps.Mode])
	if ps.MapDesc {
		b.WriteString(" maporder=desc")
	}
	for i := range ps.Before {
		fmt.Fprintf(&b, " | plan %d processed earlier by the same Processor: %s", i+1, ps.Before[i].fetchesString())
	}
	if len(ps.Before) > 0 {
		b.WriteString(" | plan under judgement:")
	}
	b.WriteString(" " + ps.fetchesString())
	return b.String()
}

func (ps *planSpec) clone() *planSpec {
	c := *ps
	c.Fetches = make([]fetchSpec, len(ps.Fetches))
	for i, f := range ps.Fetches {
		f.Deps = append([]int(nil), f.Deps...)
		c.Fetches[i] = f
	}
	c.Order = append([]int(nil), ps.Order...)
	c.Before = nil
	for i := range ps.Before {
		c.Before = append(c.Before, *ps.Before[i].clone())
	}
	return &c
}

func processorOptions(mode int) []postprocess.ProcessorOption {
	var opts []postprocess.ProcessorOption
	if mode&modeSchedule != 0 {
		opts = append(opts, postprocess.EnableScheduleFetches())
	}
	if mode&modeMulti != 0 {
		opts = append(opts, postprocess.EnableMultiFetch())
	}
	return opts
}

// ---------------------------------------------------------------------------
// shared read-only material

type entityDoc struct {
	doc     *ast.Document
	printed []byte
}

const maxTag = 16

var (
	entityDocs    [maxTag]entityDoc
	entityInputs  = map[string]*[maxTag]string{"s1": {}, "s2": {}}
	plainInputs   [maxTag]string
	fetchPaths    [][]resolve.FetchItemPathElement
	reprVariables = []resolve.SubgraphVariable{{Name: "representations", Value: []byte("[$$0$$]")}}
)

func entitySource(tag int) string {
	return `query($representations: [_Any!]!){_entities(representations: $representations){... on T {__typename f` + strconv.Itoa(tag) + `}}}`
}

func init() {
	for tag := 0; tag < maxTag; tag++ {
		doc, report := astparser.ParseGraphqlDocumentString(entitySource(tag))
		if report.HasErrors() {
			panic("c08: cannot parse entity document: " + report.Error())
		}
		printed, err := astprinter.PrintString(&doc)
		if err != nil {
			panic(err)
		}
		entityDocs[tag] = entityDoc{doc: &doc, printed: []byte(printed)}
		plainInputs[tag] = `{"method":"POST","url":"http://plain","body":{"query":"{q` + strconv.Itoa(tag) + `}"}}`
		for ds, arr := range entityInputs {
			arr[tag] = `{"method":"POST","url":"http://` + ds + `","body":{"query":"` + printed + `","variables":{"representations":[$$0$$]}}}`
		}
	}
	for _, p := range pathMenu {
		var fp []resolve.FetchItemPathElement
		for i := 0; i < len(p.rpSegs); i++ {
			if p.rpSegs[i] == "@" {
				continue
			}
			if i+1 < len(p.rpSegs) && p.rpSegs[i+1] == "@" {
				fp = append(fp, resolve.ArrayPath(p.rpSegs[i]))
			} else {
				fp = append(fp, resolve.ObjectPath(p.rpSegs[i]))
			}
		}
		fetchPaths = append(fetchPaths, fp)
	}
}

// entityDocsUnchanged re-prints the shared documents: the harness assumes that
// Process only reads them.
func entityDocsUnchanged() bool {
	for tag := range entityDocs {
		printed, err := astprinter.PrintString(entityDocs[tag].doc)
		if err != nil || printed != string(entityDocs[tag].printed) {
			return false
		}
	}
	return true
}

// buildPlan creates a fresh plan (Process mutates everything it is given).
func buildPlan(ps *planSpec) *plan.SynchronousResponsePlan {
	raw := make([]*resolve.FetchItem, 0, len(ps.Order))
	for _, id := range ps.Order {
		raw = append(raw, buildFetch(ps.fetch(id)))
	}
	return &plan.SynchronousResponsePlan{
		Response: &resolve.GraphQLResponse{
			RawFetches: raw,
			Data:       &resolve.Object{},
			Info:       &resolve.GraphQLResponseInfo{OperationType: ast.OperationTypeQuery},
		},
	}
}

func buildFetch(fs *fetchSpec) *resolve.FetchItem {
	p := &pathMenu[fs.Path]
	f := &resolve.SingleFetch{
		FetchDependencies: resolve.FetchDependencies{
			FetchID:           fs.ID,
			DependsOnFetchIDs: append([]int(nil), fs.Deps...),
		},
	}
	if len(p.MP) > 0 {
		f.PostProcessing.MergePath = append([]string(nil), p.MP...)
	}
	ds := kindDS(fs.Kind)
	f.Info = &resolve.FetchInfo{DataSourceID: ds, DataSourceName: ds, OperationType: ast.OperationTypeQuery}
	if fs.Kind == kindPlain {
		f.Input = plainInputs[fs.Same]
	} else {
		// entity fetch with the planner artifact the multi-fetch stage consumes
		// (SubgraphOperation) and an eagerly printed input, the same combination as
		// buildMergeMember in the repository's create_multi_fetch_test.go.
		f.Input = entityInputs[ds][fs.Same]
		op := &resolve.SubgraphOperation{
			Document:  entityDocs[fs.Same].doc,
			Variables: reprVariables,
			Envelope:  resolve.SubgraphRequestEnvelope{Method: "POST", URL: "http://" + ds},
		}
		op.SetPrintedQuery(entityDocs[fs.Same].printed)
		f.SubgraphOperation = op
		f.Variables = resolve.NewVariables(resolve.NewResolvableObjectVariable(&resolve.Object{}))
		f.SetTemplateOutputToNullOnVariableNull = true
		f.PostProcessing.SelectResponseDataPath = []string{"data", "_entities"}
		f.PostProcessing.SelectResponseErrorsPath = []string{"errors"}
		if fs.Kind == kindSingleS1 {
			f.RequiresEntityFetch = true
		} else {
			f.RequiresEntityBatchFetch = true
		}
	}
	item := &resolve.FetchItem{Fetch: f, ResponsePath: p.RP}
	if len(fetchPaths[fs.Path]) > 0 {
		item.FetchPath = append([]resolve.FetchItemPathElement(nil), fetchPaths[fs.Path]...)
	}
	if p.RP != "" {
		item.ResponsePathElements = append([]string(nil), p.rpSegs...)
	}
	return item
}
