// Package c08 checks property C08 "Fetch execution respects data dependencies
// under every schedule" (DESIGN.md section 3, C08).
//
//	part (a) structure, exhaustive over dependency graphs: c08a_*_test.go, checkStructure
//	part (b) runtime, exhaustive over completion orders:    (to be added next to it)
package c08

import (
	"testing"

	"verif/internal/vk"
)

func TestCheck(t *testing.T) {
	run := vk.Start("C08", "model_checking")
	defer run.Finish()
	// Replay files carry {"part":"a"|"b", ...}; every part ignores the inputs of the other.
	checkStructure(run)
	checkRuntime(t, run)
}
