package c08

// Part (a) of C08 - enumeration side: every labelled dependency DAG on n fetch
// ids, raw fetch-list orders, the path menu and the fetch-kind menu.
// Nothing in this file touches the code under test.

import (
	"fmt"
	"sort"
	"strings"
)

const maxN = 6

// dag is a labelled dependency DAG: deps[f] is the bit set of fetch ids that
// fetch f declares in DependsOnFetchIDs.
type dag struct {
	n    int
	deps [maxN]uint8
}

// numLabelledDAGs is OEIS A003024 (number of acyclic digraphs on n labelled
// nodes); the enumerator is checked against it.
var numLabelledDAGs = [maxN + 1]int64{1, 1, 3, 25, 543, 29281, 3781503}

// enumDAGs yields every labelled DAG on n nodes exactly once. The
// representation is unique: an ordered partition of the ids into layers
// (layer = length of the longest dependency chain below the node); a node of
// layer k>0 depends on a non-empty subset of layer k-1 and on any subset of the
// layers below k-1. Subsets are enumerated in increasing numeric order
// (simplest first). yield returns false to stop.
func enumDAGs(n int, yield func(d *dag) bool) {
	full := uint8(1<<n - 1)
	var d dag
	d.n = n
	var layer func(assigned, prev uint8) bool
	// assign the dependency sets of the members of one layer
	var assign func(members []int, i int, assigned, prev, next uint8) bool
	assign = func(members []int, i int, assigned, prev, next uint8) bool {
		if i == len(members) {
			return layer(assigned|next, next)
		}
		v := members[i]
		older := assigned &^ prev
		for a := uint8(0); ; {
			a = (a - prev) & prev // next non-empty subset of prev, increasing
			if a == 0 {
				break
			}
			for b := uint8(0); ; {
				d.deps[v] = a | b
				if !assign(members, i+1, assigned, prev, next) {
					return false
				}
				b = (b - older) & older
				if b == 0 {
					break
				}
			}
		}
		return true
	}
	layer = func(assigned, prev uint8) bool {
		rem := full &^ assigned
		if rem == 0 {
			return yield(&d)
		}
		for l := uint8(0); ; {
			l = (l - rem) & rem
			if l == 0 {
				break
			}
			members := make([]int, 0, n)
			for v := 0; v < n; v++ {
				if l&(1<<v) != 0 {
					members = append(members, v)
				}
			}
			if assigned == 0 {
				for _, v := range members {
					d.deps[v] = 0
				}
				if !layer(l, l) {
					return false
				}
				continue
			}
			if !assign(members, 0, assigned, prev, l) {
				return false
			}
		}
		return true
	}
	if n == 0 {
		return
	}
	layer(0, 0)
}

// acyclic reports whether the dependency relation given as bit sets over ids
// (only ids in present count) has no cycle.
func acyclic(deps *[maxN]uint8, present uint8) bool {
	done := uint8(0)
	for done != present {
		progress := false
		for v := 0; v < maxN; v++ {
			bit := uint8(1) << v
			if present&bit == 0 || done&bit != 0 {
				continue
			}
			if deps[v]&present&^done == 0 {
				done |= bit
				progress = true
			}
		}
		if !progress {
			return false
		}
	}
	return true
}

// bruteForceDAGs enumerates every digraph on n <= 4 labelled nodes and keeps the
// acyclic ones: the independent reference for enumDAGs.
func bruteForceDAGs(n int) map[[maxN]uint8]bool {
	out := map[[maxN]uint8]bool{}
	type pair struct{ f, d int }
	var pairs []pair
	for f := 0; f < n; f++ {
		for d := 0; d < n; d++ {
			if f != d {
				pairs = append(pairs, pair{f, d})
			}
		}
	}
	present := uint8(1<<n - 1)
	for m := 0; m < 1<<len(pairs); m++ {
		var deps [maxN]uint8
		for i, p := range pairs {
			if m&(1<<i) != 0 {
				deps[p.f] |= 1 << p.d
			}
		}
		if acyclic(&deps, present) {
			out[deps] = true
		}
	}
	return out
}

// selfCheckEnumerator compares enumDAGs with the brute-force reference for
// n <= 4 (set equality, no duplicates) and returns an error text or "".
func selfCheckEnumerator() string {
	for n := 1; n <= 4; n++ {
		ref := bruteForceDAGs(n)
		seen := map[[maxN]uint8]bool{}
		dup := false
		enumDAGs(n, func(d *dag) bool {
			if seen[d.deps] {
				dup = true
			}
			seen[d.deps] = true
			return true
		})
		if dup {
			return fmt.Sprintf("enumDAGs(%d) yields a DAG twice", n)
		}
		if int64(len(seen)) != numLabelledDAGs[n] || len(ref) != len(seen) {
			return fmt.Sprintf("enumDAGs(%d) yields %d DAGs, brute force %d, A003024 %d", n, len(seen), len(ref), numLabelledDAGs[n])
		}
		for k := range ref {
			if !seen[k] {
				return fmt.Sprintf("enumDAGs(%d) misses %v", n, k)
			}
		}
	}
	return ""
}

// ---------------------------------------------------------------------------
// raw orders

var permCache = map[int][][]int{}

// allPerms returns every permutation of 0..n-1 in lexicographic order.
func allPerms(n int) [][]int {
	if p, ok := permCache[n]; ok {
		return p
	}
	var out [][]int
	cur := make([]int, 0, n)
	used := make([]bool, n)
	var rec func()
	rec = func() {
		if len(cur) == n {
			out = append(out, append([]int(nil), cur...))
			return
		}
		for v := 0; v < n; v++ {
			if !used[v] {
				used[v] = true
				cur = append(cur, v)
				rec()
				cur = cur[:len(cur)-1]
				used[v] = false
			}
		}
	}
	rec()
	permCache[n] = out
	return out
}

// topoOrder returns the topological order of the declared DAG that takes the
// smallest ready id first.
func topoOrder(d *dag) []int {
	out := make([]int, 0, d.n)
	done := uint8(0)
	for len(out) < d.n {
		for v := 0; v < d.n; v++ {
			bit := uint8(1) << v
			if done&bit == 0 && d.deps[v]&^done == 0 {
				done |= bit
				out = append(out, v)
				break
			}
		}
	}
	return out
}

// threeOrders: topological, reversed topological, by id (duplicates removed).
func threeOrders(d *dag) [][]int {
	t := topoOrder(d)
	r := make([]int, len(t))
	for i, v := range t {
		r[len(t)-1-i] = v
	}
	id := make([]int, d.n)
	for i := range id {
		id[i] = i
	}
	out := [][]int{t}
	for _, o := range [][]int{r, id} {
		dup := false
		for _, p := range out {
			if equalInts(p, o) {
				dup = true
			}
		}
		if !dup {
			out = append(out, o)
		}
	}
	return out
}

func equalInts(a, b []int) bool {
	if len(a) != len(b) {
		return false
	}
	for i := range a {
		if a[i] != b[i] {
			return false
		}
	}
	return true
}

// ---------------------------------------------------------------------------
// path menu: where a fetch reads its parent object (response path) and where it
// merges its result (merge path).

type pathOpt struct {
	Name     string
	RP       string   // FetchItem.ResponsePath
	MP       []string // PostProcessing.MergePath
	rpSegs   []string
	provided []string // rpSegs ++ MP: the path below which this fetch provides data
}

func mkPath(name, rp string, mp ...string) pathOpt {
	p := pathOpt{Name: name, RP: rp, MP: mp}
	if rp != "" {
		p.rpSegs = strings.Split(rp, ".")
	}
	p.provided = append(append([]string{}, p.rpSegs...), mp...)
	return p
}

// The menu is ordered simplest first. No segment is a string prefix of another
// segment, so the segment-wise prefix rule of the oracle and the string prefix
// rule of add_missing_nested_dependencies.go cannot disagree by accident of
// naming.
var pathMenu = []pathOpt{
	mkPath("root", ""),              // 0 root fetch merged at the root: provides everything below ""
	mkPath("a", "a"),                // 1 nested fetch on object a
	mkPath("a.b", "a.b"),            // 2 nested deeper
	mkPath("root>a", "", "a"),       // 3 root fetch merged under a: provides a
	mkPath("a.@.c>d", "a.@.c", "d"), // 4 nested below a list, with a merge path
	mkPath("e", "e"),                // 5 unrelated branch
}

// pathImplies[g][f]: a fetch at menu entry f that declares no dependency reads
// the object at its response path, hence the data provided by a fetch at menu
// entry g, iff g's provided path is a segment-wise prefix of f's response path
// (a proper prefix when g has no merge path: two fetches at the same response
// path merging into the same object do not read from each other).
var pathImplies [][]bool

func init() {
	pathImplies = make([][]bool, len(pathMenu))
	for g := range pathMenu {
		pathImplies[g] = make([]bool, len(pathMenu))
		for f := range pathMenu {
			pg, pf := pathMenu[g], pathMenu[f]
			if pf.RP == "" {
				continue
			}
			if len(pg.provided) > len(pf.rpSegs) {
				continue
			}
			if len(pg.MP) == 0 && len(pg.provided) == len(pf.rpSegs) {
				continue
			}
			ok := true
			for i := range pg.provided {
				if pg.provided[i] != pf.rpSegs[i] {
					ok = false
				}
			}
			pathImplies[g][f] = ok
		}
	}
}

// ---------------------------------------------------------------------------
// fetch kinds (multi-fetch family)

const (
	kindPlain    = 0 // root-style fetch with a static input: never a merge candidate
	kindBatchS1  = 1 // entity batch fetch on data source s1 (merge candidate)
	kindBatchS2  = 2 // entity batch fetch on data source s2
	kindSingleS1 = 3 // entity (single object) fetch on data source s1
)

var kindNames = []string{"plain", "batch@s1", "batch@s2", "entity@s1"}

func kindDS(k int) string {
	switch k {
	case kindBatchS1, kindSingleS1:
		return "s1"
	case kindBatchS2:
		return "s2"
	}
	return "plain"
}

// forEachAssignment calls fn with every vector in {0..base-1}^n (first
// component slowest), the all-zero vector first.
func forEachAssignment(n, base int, fn func(v []uint8) bool) {
	v := make([]uint8, n)
	for {
		if !fn(v) {
			return
		}
		i := n - 1
		for i >= 0 {
			v[i]++
			if int(v[i]) < base {
				break
			}
			v[i] = 0
			i--
		}
		if i < 0 {
			return
		}
	}
}

func bitsOf(m uint8) []int {
	var out []int
	for v := 0; v < 8; v++ {
		if m&(1<<v) != 0 {
			out = append(out, v)
		}
	}
	return out
}

// canonicalDAGClass returns a string that is equal for isomorphic (relabelled)
// decorated DAGs: the smallest rendering over all relabelings of the nodes.
// nodes: ids in use; deps: declared dependencies; deco: per-id decoration text.
func canonicalDAGClass(ids []int, deps map[int][]int, deco map[int]string) string {
	n := len(ids)
	if n == 0 {
		return "empty"
	}
	best := ""
	for _, p := range allPerms(n) {
		// ids[i] gets new label p[i]
		lab := map[int]int{}
		for i, id := range ids {
			lab[id] = p[i]
		}
		parts := make([]string, n)
		for _, id := range ids {
			var ds []int
			for _, d := range deps[id] {
				if l, ok := lab[d]; ok {
					ds = append(ds, l)
				}
			}
			sort.Ints(ds)
			parts[lab[id]] = fmt.Sprintf("%d%s<%v", lab[id], deco[id], ds)
		}
		s := strings.Join(parts, " ")
		if best == "" || s < best {
			best = s
		}
	}
	return best
}
