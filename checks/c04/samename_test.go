package c04

import (
	"fmt"
	"strings"

	"verif/internal/opgen"
)

// Same-name family: one field NAME on several types with different argument
// requirements (none / nullable / non-null with default / required). Every
// ordered pair of two such types selected in one operation, in four placements
// (sibling inline fragments on the interface, on the union, two different
// branches, two named fragments), every combination of "argument given /
// omitted". Label by construction: valid iff the required argument is given
// wherever the type with the required argument is selected; judged only where
// gqlparser agrees (as everywhere in this check).
const sdl4 = `
schema { query: Q }
type Q { pet: Pet any: Any cat: Cat bird: Bird fish: Fish dog: Dog }
interface Pet { name: String }
type Cat implements Pet { name: String nick: String }
type Bird implements Pet { name: String nick(len: Int): String }
type Fish implements Pet { name: String nick(len: Int! = 3): String }
type Dog implements Pet { name: String nick(len: Int!): String }
union Any = Cat | Bird | Fish | Dog
`

type sameNameType struct {
	name, root, req string
	hasArg, needed  bool
}

var sameNameTypes = []sameNameType{
	{"Cat", "cat", "no argument", false, false},
	{"Bird", "bird", "nullable argument", true, false},
	{"Fish", "fish", "non-null argument with default", true, false},
	{"Dog", "dog", "required argument", true, true},
}

func (c *checker) sameNameFamily(l *lab, unit *int64) {
	sel := func(given bool) string {
		if given {
			return "nick(len: 1)"
		}
		return "nick"
	}
	for _, a := range sameNameTypes {
		for _, b := range sameNameTypes {
			if a.name == b.name {
				continue
			}
			for _, ga := range []bool{false, true} {
				for _, gb := range []bool{false, true} {
					if (ga && !a.hasArg) || (gb && !b.hasArg) {
						continue
					}
					valid := (!a.needed || ga) && (!b.needed || gb)
					sa, sb := sel(ga), sel(gb)
					docs := []struct{ placement, q string }{
						{"sibling inline fragments on the interface", fmt.Sprintf("{ pet { ... on %s { %s } ... on %s { %s } } }", a.name, sa, b.name, sb)},
						{"sibling inline fragments on the union", fmt.Sprintf("{ any { ... on %s { %s } ... on %s { %s } } }", a.name, sa, b.name, sb)},
						{"two different branches", fmt.Sprintf("{ %s { %s } %s { %s } }", a.root, sa, b.root, sb)},
						{"two named fragments", fmt.Sprintf("{ pet { ...FA ...FB } } fragment FA on %s { %s } fragment FB on %s { %s }", a.name, sa, b.name, sb)},
					}
					for _, d := range docs {
						*unit++
						if !c.run.Mine(*unit) {
							continue
						}
						c.sameNameCase(l, d.q, valid, a, b, ga, gb, d.placement)
					}
				}
			}
		}
	}
}

func (c *checker) sameNameCase(l *lab, q string, valid bool, a, b sameNameType, ga, gb bool, placement string) {
	run := c.run
	rule := opgen.RArgRequired
	clause, eng, ref := c.judge(l, q, "", valid, rule)
	run.Eval(1)
	run.Count("same_name_cases", 1)
	switch clause {
	case "":
		run.Outcome(fmt.Sprintf("same-name|%s|%s|%v|%v|%v", a.req, b.req, ga, gb, eng.ok))
		return
	case "split", "split-rule":
		run.Count("oracle_split", 1)
		run.Count("oracle_split/same field name on two types", 1)
		run.Sample("oracle_split: same field name on two types", map[string]any{"schema": l.name, "query": q, "label_valid": valid, "gqlparser_accepts": ref.ok, "gqlparser_message": ref.msg, "engine_accepts": eng.ok})
		return
	}
	given := func(t sameNameType, g bool) string {
		switch {
		case !t.hasArg:
			return t.req
		case g:
			return t.req + ", given"
		}
		return t.req + ", omitted"
	}
	class := "same field name on two types with different argument requirements: the required argument is omitted on the field visited second"
	switch {
	case valid:
		class = "same field name on two types with different argument requirements, every required argument given"
	case a.needed && !ga:
		class = "same field name on two types with different argument requirements: the required argument is omitted on the field visited first"
	}
	site := rule
	if clause == clausePanic {
		site = "panic at " + eng.site
	}
	op := strings.Join([]string{"same field name on two types", "first: " + a.name + " (" + given(a, ga) + ")", "second: " + b.name + " (" + given(b, gb) + ")", placement}, "; ")
	in := caseInput{Schema: l.name, Query: q, LabelValid: valid, Rule: rule, Op: op, Site: site, Class: class}
	c.violate(clause, in, eng, ref, "")
}
