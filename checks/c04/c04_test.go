// Check C04: the engine's admission sequence (normalize, then validate the
// normalized operation) accepts an operation iff it satisfies the validation
// rules of the GraphQL specification.
//
// Bounded exhaustive exploration (DESIGN.md section 3 C04, appendix A.5): every
// valid-by-construction operation over two schemas below explicit size bounds,
// every decoration combination below the decoration bound, and for each such
// document every applicable instance of every rule-targeted mutation operator
// (plus negative controls that keep the document valid). Each case carries a
// by-construction label; it is judged only when gqlparser's validator (an
// independent implementation) agrees with the label.
package c04

import (
	"verif/internal/engineseam"

	"encoding/json"
	"fmt"
	"io"
	"log"
	"os"
	"regexp"
	"runtime/debug"
	"sort"
	"strings"
	"testing"

	gast "github.com/vektah/gqlparser/v2/ast"
	gparser "github.com/vektah/gqlparser/v2/parser"
	gvalidator "github.com/vektah/gqlparser/v2/validator"

	"github.com/wundergraph/graphql-go-tools/execution/graphql"

	"verif/internal/opgen"
	"verif/internal/vk"
)

// Schema 1: mutation and subscription roots, interface + union, input object
// with required / optional / list / defaulted fields, enum, custom directives
// with locations and a required argument, a repeatable directive.
const sdl1 = `
schema { query: Query mutation: Mutation subscription: Subscription }
type Query {
  s: String
  a: A
  i: I
  u: U
  la: [A!]
  f(r: Int!, x: Int, l: [Int!], ll: [[Int!]], o: In, e: E, b: Boolean, fl: Float, id: ID, d: Int! = 3): String
}
type Mutation { m(x: Int, o: In): String ma: A }
type Subscription { s: String t(x: Int): A }
interface I { id: ID! n: String }
type A implements I { id: ID! n: String k(x: Int): String a: A e: E }
type B implements I { id: ID! n: String! k(x: Int): String b: Int t: String l: [String] as: [A!] }
type C { c: String }
union U = A | B
enum E { X Y }
input In { r: Int! o: String l: [In!] e: E d: Int! = 1 }
directive @d(x: Int!) on FIELD | FRAGMENT_SPREAD | INLINE_FRAGMENT
directive @rep(n: Int) repeatable on FIELD
directive @q(s: String) on QUERY | MUTATION | SUBSCRIPTION
directive @v on VARIABLE_DEFINITION
directive @fd on FRAGMENT_DEFINITION
`

// Schema 2: non-default root type name, interface implementing an interface,
// list of interface, non-null list of union, arguments with default values,
// recursive input object, nested list input, custom scalar, directive with a
// required and an optional argument.
const sdl2 = `
schema { query: Root }
type Root {
  node(id: ID!): Node
  pets(first: Int = 10, kinds: [Kind!]! = [DOG]): [Pet]
  search(q: Filter!): [Res!]!
  any(j: JSON): JSON
}
interface Node { id: ID! }
interface Pet implements Node { id: ID! name: String! }
type Dog implements Pet & Node { id: ID! name: String! barks(loud: Boolean! = false): Boolean owner: Human }
type Cat implements Pet & Node { id: ID! name: String! lives: Int! owner: Human }
type Human implements Node { id: ID! name: String pets: [Pet!] }
union Res = Dog | Cat | Human
enum Kind { DOG CAT }
input Filter { text: String! kinds: [Kind!] sub: Filter tags: [[String]] }
scalar JSON
directive @tag(name: String!, w: Float) on FIELD | QUERY
`

// Schema 3: abstract types against abstract types (rule 5.5.2.3 on every ordered
// pair of abstract parent type and abstract type condition): unions that share no
// member (DogOrHuman / CatOrAlien), unions that share exactly one (DogOrCat with
// either), a union and an interface with (DogOrHuman / Walker, Swimmer) and
// without (DogOrHuman / Flyer, CatOrAlien / Swimmer) a common possible type, two
// interfaces with (Walker / Swimmer: Dog) and without (Walker / Flyer, Swimmer /
// Flyer) a common implementer. Walker also serves the three-way response name
// conflicts (a field with an argument on the interface, a second Int field on one
// implementer), and four argument-less directives, one per location class. Kept
// tiny: it is explored with smaller bounds.
const sdl3 = `
schema { query: Q }
type Q { dh: DogOrHuman ca: CatOrAlien dc: DogOrCat w: Walker sw: Swimmer fl: Flyer }
interface Walker { legs: Int step(n: Int): Int }
interface Swimmer { fins: Int }
interface Flyer { wings: Int }
type Dog implements Walker & Swimmer { legs: Int step(n: Int): Int fins: Int }
type Human implements Walker { legs: Int step(n: Int): Int }
type Cat implements Walker { legs: Int step(n: Int): Int }
type Alien implements Flyer { wings: Int }
type Fish implements Swimmer { fins: Int }
union DogOrHuman = Dog | Human
union CatOrAlien = Cat | Alien
union DogOrCat = Dog | Cat
directive @cached on FIELD
directive @op on QUERY | MUTATION | SUBSCRIPTION
directive @frag on FRAGMENT_SPREAD | INLINE_FRAGMENT | FRAGMENT_DEFINITION
directive @vd on VARIABLE_DEFINITION
`

var schemaNames = []string{"S1", "S2", "S3"}

func newLabs() map[string]*lab {
	// (S4 serves only the enumerated same-name family, see samename_test.go; the general generator does not run on it)
	return map[string]*lab{"S1": newLab("S1", sdl1), "S2": newLab("S2", sdl2), "S3": newLab("S3", sdl3), "S4": newLab("S4", sdl4)}
}

// schemaBounds: S3 only serves the abstract-against-abstract pairs, which all sit one level below the root.
func schemaBounds(schema string, b opgen.Bounds, thorough bool) opgen.Bounds {
	if schema != "S3" {
		return b
	}
	max := 2
	if thorough {
		max = 3
	}
	if b.MaxNodes > max {
		b.MaxNodes = max
	}
	if b.MaxDepth > max {
		b.MaxDepth = max
	}
	return b
}

type lab struct {
	name string
	gen  *opgen.Schema
	eng  *graphql.Schema
}

func newLab(name, sdl string) *lab {
	es, err := graphql.NewSchemaFromString(sdl)
	if err != nil {
		panic(fmt.Sprintf("engine schema %s: %v", name, err))
	}
	return &lab{name: name, gen: opgen.Load(name, sdl), eng: es}
}

type verdict struct {
	site  string // first frame of the code under test, for panics
	ok    bool
	stage string // normalize | validate | panic
	msg   string
	rules []string // gqlparser rule names (reference only)
}

// engineAccepts is the admission sequence of execution/engine.(*ExecutionEngine).Execute:
// Normalize with the engine's option set, then ValidateForSchema with default options.
func (l *lab) engineAccepts(q, opName string) (v verdict) {
	defer func() {
		if r := recover(); r != nil {
			v = verdict{ok: false, stage: "panic", msg: fmt.Sprint(r), site: "unknown frame"}
			if os.Getenv("C04_STACK") != "" {
				fmt.Printf("%s\n", debug.Stack())
			}
			if m := reFrame.FindStringSubmatch(string(debug.Stack())); m != nil {
				v.site = m[1]
			}
		}
	}()
	req := &graphql.Request{Query: q, OperationName: opName}
	res, err := req.Normalize(l.eng, seamFirst...)
	if err != nil {
		return verdict{stage: "normalize", msg: err.Error()}
	}
	if !res.Successful {
		return verdict{stage: "normalize", msg: res.Errors.Error()}
	}
	vr, err := req.ValidateForSchema(l.eng)
	if err != nil {
		return verdict{stage: "validate", msg: err.Error()}
	}
	if !vr.Valid {
		return verdict{stage: "validate", msg: vr.Errors.Error()}
	}
	return verdict{ok: true}
}

// refAccepts asks gqlparser's validator (second oracle).
func (l *lab) refAccepts(q string) (v verdict) {
	defer func() {
		if r := recover(); r != nil {
			v = verdict{ok: false, stage: "panic", msg: fmt.Sprint(r)}
		}
	}()
	doc, perr := gparser.ParseQuery(&gast.Source{Input: q})
	if perr != nil {
		return verdict{stage: "parse", msg: perr.Error()}
	}
	errs := gvalidator.Validate(l.gen.S, doc)
	if len(errs) == 0 {
		return verdict{ok: true}
	}
	kept := errs[:0:0]
	for _, e := range errs {
		// known gqlparser defect: UniqueDirectivesPerLocation ignores `repeatable` (it tests the directive NAME "repeatable")
		if e.Rule == "UniqueDirectivesPerLocation" {
			if m := reDirName.FindStringSubmatch(e.Message); m != nil {
				if dd := l.gen.S.Directives[m[1]]; dd != nil && dd.IsRepeatable {
					continue
				}
			}
		}
		kept = append(kept, e)
	}
	errs = kept
	if len(errs) == 0 {
		return verdict{ok: true}
	}
	v = verdict{stage: "validate", msg: errs[0].Message}
	seen := map[string]bool{}
	for _, e := range errs {
		if !seen[e.Rule] {
			seen[e.Rule] = true
			v.rules = append(v.rules, e.Rule)
		}
	}
	sort.Strings(v.rules)
	return v
}

// refRules: which gqlparser rule(s) report a violation of each rule family. A
// case labelled invalid-by-R is judged only if gqlparser reports one of them.
var refRules = map[string][]string{
	opgen.RFieldsOnType:      {"FieldsOnCorrectType"},
	opgen.RMerging:           {"OverlappingFieldsCanBeMerged"},
	opgen.RLeaf:              {"ScalarLeafs"},
	opgen.RArgNames:          {"KnownArgumentNames"},
	opgen.RArgUnique:         {"UniqueArgumentNames"},
	opgen.RArgRequired:       {"ProvidedRequiredArguments"},
	opgen.RFragUnique:        {"UniqueFragmentNames"},
	opgen.RFragTypeExists:    {"KnownTypeNames"},
	opgen.RFragOnComposite:   {"FragmentsOnCompositeTypes"},
	opgen.RSpreadDefined:     {"KnownFragmentNames"},
	opgen.RFragCycles:        {"NoFragmentCycles"},
	opgen.RSpreadPossible:    {"PossibleFragmentSpreads"},
	opgen.RValues:            {"ValuesOfCorrectType"},
	opgen.RInputFieldNames:   {"ValuesOfCorrectType"},
	opgen.RInputFieldUnique:  {"UniqueInputFieldNames"},
	opgen.RInputFieldReq:     {"ValuesOfCorrectType"},
	opgen.RDirDefined:        {"KnownDirectives"},
	opgen.RDirLocation:       {"KnownDirectives"},
	opgen.RDirUnique:         {"UniqueDirectivesPerLocation"},
	opgen.RVarUnique:         {"UniqueVariableNames"},
	opgen.RVarInputType:      {"VariablesAreInputTypes", "KnownTypeNames"},
	opgen.RVarDefined:        {"NoUndefinedVariables"},
	opgen.RVarUsed:           {"NoUnusedVariables"},
	opgen.RVarAllowed:        {"VariablesInAllowedPosition"},
	opgen.RSubscriptionRoot:  {"SingleFieldSubscriptions"},
	opgen.RLoneAnonymous:     {"LoneAnonymousOperation"},
	opgen.ROperationNameUniq: {"UniqueOperationNames"},
}

const (
	clauseReject    = "an operation that breaks a validation rule of the specification is rejected"
	clauseAccept    = "an operation that satisfies the validation rules of the specification is accepted"
	clausePanic     = "admission (normalize, validate) does not crash"
	ruleValid       = "valid document"
	siteExcluded    = "any rule, inside a statically excluded selection"
	siteMerged      = "any rule, in a field that normalization merges into an earlier occurrence"
	siteUnionSpread = "any valid document, named fragment on a union spread inside another union"
	siteSkipVar     = "any rule, in the definition of a variable that normalization resolves and deletes"
	shrinkBudget    = 400
)

// caseInput is everything needed to re-run one case.
type caseInput struct {
	Schema     string `json:"schema"`
	Query      string `json:"query"`
	OpName     string `json:"operation_name"`
	LabelValid bool   `json:"label_valid"`
	Rule       string `json:"rule"`
	Op         string `json:"operator"`
	Site       string `json:"site"`
	Class      string `json:"class"`

	History      []string `json:"history,omitempty"` // history family: operations handled before (and including) Query on one pipeline
	HistoryKinds []string `json:"history_kinds,omitempty"`
}

// first frame inside the repository below the panic (the runtime frames come first in debug.Stack)
var reFrame = regexp.MustCompile(`(?m)^(github\.com/wundergraph/graphql-go-tools/v2/[^\s(]+(?:\([^)]*\))?[^\s(]*)\(`)

var reDirName = regexp.MustCompile(`The directive "@([A-Za-z_0-9]+)" can only be used once`)

var reQuoted = regexp.MustCompile("(\"[^\"]*\"|'[^']*'|`[^`]*`|[0-9]+)")

// msgKind abstracts an engine error message: stage plus its lower-case words (names, numbers and quoted text dropped).
func msgKind(v verdict) string {
	m := v.msg
	if i := strings.Index(m, ", locations:"); i >= 0 {
		m = m[:i]
	}
	m = reQuoted.ReplaceAllString(m, " ")
	var words []string
	for _, w := range strings.FieldsFunc(m, func(r rune) bool {
		return !(r >= 'a' && r <= 'z' || r >= 'A' && r <= 'Z' || r >= '0' && r <= '9' || r == '_')
	}) {
		if len(w) >= 3 && strings.ToLower(w) == w && !strings.ContainsAny(w, "0123456789_") {
			words = append(words, w)
		}
	}
	return v.stage + ": " + strings.Join(words, " ")
}

type checker struct {
	run  *vk.Run
	labs map[string]*lab
	dbg  map[string]map[string]int

	passSamples int
	w           *engineWorker // nil: evaluate in-process (debugging)
}

func (c *checker) engine(l *lab, q, opName string) verdict {
	if c.w != nil {
		c.w.send(l.name, opName, q)
		return c.w.recv()
	}
	return l.engineAccepts(q, opName)
}

func containsAny(have, want []string) bool {
	for _, h := range have {
		for _, w := range want {
			if h == w {
				return true
			}
		}
	}
	return false
}

// judge evaluates one document against its label. It returns "" when the case
// passes / is not judged, else the clause that failed.
func (c *checker) judge(l *lab, q, opName string, valid bool, rule string) (clause string, eng, ref verdict) {
	if c.w != nil {
		c.w.send(l.name, opName, q) // the helper process evaluates the engine while gqlparser runs here
		ref = l.refAccepts(q)
		eng = c.w.recv()
	} else {
		eng = l.engineAccepts(q, opName)
		ref = l.refAccepts(q)
	}
	if ref.stage == "panic" || ref.stage == "parse" {
		return "split", eng, ref
	}
	if ref.ok != valid {
		return "split", eng, ref
	}
	if !valid && !containsAny(ref.rules, refRules[rule]) {
		return "split-rule", eng, ref
	}
	if eng.stage == "panic" {
		return clausePanic, eng, ref
	}
	if eng.ok == valid {
		return "", eng, ref
	}
	if valid {
		return clauseAccept, eng, ref
	}
	return clauseReject, eng, ref
}

// evaluate runs one (base, mutation) case; m == nil is the unmutated valid document.
// It reports whether the case failed the "valid is accepted" clause.
func (c *checker) evaluate(l *lab, base *opgen.Doc, m *opgen.Mutation) (falseReject bool) {
	run := c.run
	doc := base
	valid, rule, op, class, judged := true, ruleValid, "none", "unmutated document", true
	if m != nil {
		var ok bool
		doc, ok = safeMutate(base, m)
		if !ok {
			run.Count("generator_errors", 1)
			return false
		}
		valid, rule, op, class, judged = m.Valid, m.Rule, m.Op, m.Class, m.Judge
	}
	q := doc.String()
	run.Eval(1)
	if !judged {
		eng := c.engine(l, q, doc.OpName)
		verdict := "rejects"
		if eng.ok {
			verdict = "accepts"
		}
		if eng.stage == "panic" {
			in := caseInput{Schema: l.name, Query: q, OpName: doc.OpName, LabelValid: valid, Rule: rule, Op: op, Site: "panic at " + eng.site, Class: class}
			c.violate(clausePanic, in, eng, l.refAccepts(q), "")
			return false
		}
		run.Count("not_judged", 1)
		run.Count("not_judged/"+rule+"/"+op+"/engine "+verdict, 1)
		run.Outcome("nj|" + rule + "|" + op + "|" + verdict)
		run.Sample("not judged: "+op, map[string]any{"schema": l.name, "query": q, "operation_name": doc.OpName, "engine": verdict,
			"why": "the rule concerns definitions that normalization discards (other operations, a second fragment definition with the same name); the property statement excludes or does not settle them"})
		return false
	}
	clause, eng, ref := c.judge(l, q, doc.OpName, valid, rule)
	kind := "invalid"
	if valid {
		kind = "valid"
	}
	run.Count("cases/"+rule+"/"+kind, 1)
	if eng.ok {
		run.Count("engine_accepts/"+rule+"/"+kind, 1)
	}
	if c.dbg != nil {
		k := rule + " | " + op
		if c.dbg[k] == nil {
			c.dbg[k] = map[string]int{}
		}
		c.dbg[k][fmt.Sprintf("label=%v eng=%v ref=%v %v", valid, eng.ok, ref.ok, ref.rules)]++
	}
	switch clause {
	case "":
		run.Outcome(fmt.Sprintf("%s|%s|%v|%s", rule, op, eng.ok, eng.stage))
		if m != nil && c.passSamples < 3 {
			c.passSamples++
			run.Sample("pass: "+rule, map[string]any{"schema": l.name, "query": q, "label_valid": valid, "operator": op, "engine_accepts": eng.ok, "gqlparser_accepts": ref.ok})
		}
		return false
	case "split", "split-rule":
		if c.dbg != nil && (c.dbg["split "+rule+op] == nil || os.Getenv("C04_BASES_ONLY") != "") {
			c.dbg["split "+rule+op] = map[string]int{}
			fmt.Printf("SPLIT %s | %s | label_valid=%v | %s\n    gqlparser ok=%v %v %s\n    engine ok=%v %s\n", rule, op, valid, q, ref.ok, ref.rules, ref.msg, eng.ok, eng.msg)
		}
		run.Count("oracle_split", 1)
		run.Count("oracle_split/"+rule+"/"+op, 1)
		run.Sample("oracle_split: "+rule+" / "+op, map[string]any{"schema": l.name, "query": q, "label_valid": valid, "rule": rule, "operator": op,
			"gqlparser_accepts": ref.ok, "gqlparser_rules": ref.rules, "gqlparser_message": ref.msg, "engine_accepts": eng.ok, "kind": clause})
		return false
	}
	if clause == clausePanic && strings.Contains(eng.msg, "fatal error") {
		// the process died (not a recoverable panic). Observed to depend on map iteration order inside the code under
		// test, so the case is reported as found, without shrinking.
		in := caseInput{Schema: l.name, Query: q, OpName: doc.OpName, LabelValid: valid, Rule: rule, Op: op, Site: "process crash: " + eng.site, Class: class}
		c.violate(clause, in, eng, ref, "")
		return false
	}
	// a violation: shrink the base while the same clause fails for the same reason
	kindMsg := msgKind(eng)
	var protect []int
	if m != nil {
		protect = m.Protect
	}
	small, needs := opgen.Shrink(l.gen, base, protect, func(cand *opgen.Doc) opgen.Outcome {
		if m != nil {
			if r := l.refAccepts(cand.String()); !r.ok {
				return opgen.Inapplicable // the simplified base must itself stay valid
			}
		}
		d2 := cand
		if m != nil {
			var ok bool
			if d2, ok = safeMutate(cand, m); !ok {
				return opgen.Inapplicable
			}
		}
		cl, e2, _ := c.judge(l, d2.String(), d2.OpName, valid, rule)
		switch {
		case cl == "split" || cl == "split-rule":
			return opgen.Inapplicable
		case cl == clause && (clause != clauseAccept || msgKind(e2) == kindMsg):
			return opgen.StillFails
		}
		return opgen.Vanished // well-formed candidate on which this failure is gone (or became another one)
	}, shrinkBudget)
	sdoc := small
	if m != nil {
		sdoc, _ = safeMutate(small, m)
	}
	sq := sdoc.String()
	eng2 := c.engine(l, sq, sdoc.OpName)
	ref2 := l.refAccepts(sq)
	// type conditions only provide the type scope of the site; they are not a construct of their own
	var ctx []string
	for _, n := range needs {
		if n != "inline fragment with type condition" && n != "type condition of inline fragment" {
			ctx = append(ctx, n)
		}
	}
	site, fullClass := rule, class+" | needs: "+opgen.NeedsString(ctx)
	if clause == clauseReject {
		for _, n := range needs {
			switch n {
			case "@skip(if: true)", "@include(if: false)":
				// one root cause whatever the rule: normalization drops the selection before validation looks at it
				site, fullClass = siteExcluded, "invalid content inside a selection excluded by a literal @skip(if: true) / @include(if: false)"
			case opgen.FeatureSameResponseName:
				if site != siteExcluded {
					// one root cause whatever the rule: normalization merges the field into an earlier occurrence and drops its arguments
					site, fullClass = siteMerged, "invalid content in a field that has an earlier occurrence with the same response name in the same selection set"
				}
			}
		}
		if site == rule && opgen.HasSkipOnlyVariable(sdoc) {
			// one root cause whatever the rule: the variable is resolved and its definition deleted before validation
			// (the rule family stays in the class: most of this mechanism is fixed in the tree, a regression of a fixed part must not hide behind the rest)
			site, fullClass = siteSkipVar, "invalid content in the definition of a variable that has a default value and is used only as the argument of @skip / @include | "+rule
		}
	}
	if clause == clauseAccept && opgen.HasUnionSpreadInOtherUnion(l.gen, sdoc) && strings.Contains(eng2.msg, "forms fragment cycle") {
		// one root cause whatever the mutation: the spread is never inlined and every surviving spread is reported as a cycle
		site, fullClass = siteUnionSpread, "valid document with a named fragment on a union spread inside a selection set on another union that shares a member"
	}
	if clause == clausePanic {
		site, fullClass = "panic at "+eng.site, class
	}
	in := caseInput{Schema: l.name, Query: sq, OpName: sdoc.OpName, LabelValid: valid, Rule: rule, Op: op, Site: site, Class: fullClass}
	c.violate(clause, in, eng2, ref2, q)
	return clause == clauseAccept
}

func (c *checker) violate(clause string, in caseInput, eng, ref verdict, original string) {
	exp := "reject (label: invalid by " + in.Rule + ", operator: " + in.Op + ")"
	if in.LabelValid {
		exp = "accept (label: valid; operator: " + in.Op + ")"
	}
	obs := "rejected at " + eng.stage + ": " + eng.msg
	if eng.ok {
		obs = "accepted"
	}
	if eng.stage == "panic" {
		obs = "panic: " + eng.msg
	}
	refs := "gqlparser accepts"
	if !ref.ok {
		refs = fmt.Sprintf("gqlparser rejects %v: %s", ref.rules, ref.msg)
	}
	detail := fmt.Sprintf("schema %s, operation_name=%q, document: %s\n  expected: %s\n  engine: %s\n  second oracle: %s", in.Schema, in.OpName, in.Query, exp, obs, refs)
	if original != "" && original != in.Query {
		detail += "\n  first seen (before shrinking) on: " + original
	}
	c.run.Violate(vk.Violation{Clause: clause, Site: in.Site, Class: in.Class, Detail: detail, Input: in})
}

func safeMutate(d *opgen.Doc, m *opgen.Mutation) (out *opgen.Doc, ok bool) {
	defer func() {
		if recover() != nil {
			out, ok = nil, false
		}
	}()
	return opgen.Mutate(d, m), true
}

type tierBounds struct {
	kind     string
	bounds   opgen.Bounds // base space
	decos    int          // decorations per document
	deco2Max int          // bases up to this many nodes also get every pair of decorations
}

func TestCheck(t *testing.T) {
	debug.SetGCPercent(800)   // the admission sequence allocates ~100 kB of walkers per request; the live heap is tiny
	log.SetOutput(io.Discard) // the code under test logs "RemoveDirectiveFromNode not implemented ..." on some inputs
	run := vk.Start("C04", "exploration")
	defer run.Finish()
	labs := newLabs()
	c := &checker{run: run, labs: labs}
	if os.Getenv("C04_INPROCESS") == "" {
		c.w = &engineWorker{}
		defer func() {
			c.w.stop()
			run.Count("helper_process_starts", int64(c.w.starts))
		}()
	}
	if os.Getenv("C04_DEBUG") != "" {
		c.dbg = map[string]map[string]int{}
		defer func() {
			var keys []string
			for k := range c.dbg {
				keys = append(keys, k)
			}
			sort.Strings(keys)
			for _, k := range keys {
				fmt.Printf("%-120s %v\n", k, c.dbg[k])
			}
		}()
	}

	if run.Replay != "" {
		var in caseInput
		if err := run.ReplayInput(&in); err != nil {
			t.Fatalf("replay input: %v", err)
		}
		l := labs[in.Schema]
		if len(in.History) > 0 {
			c.historyCase(l, in.HistoryKinds, in.History)
			return
		}
		// (a process crash was observed to be non-deterministic: about one evaluation in eight crashes; give it 100 attempts)
		for attempt := 1; attempt <= 100; attempt++ {
			clause, eng, ref := c.judge(l, in.Query, in.OpName, in.LabelValid, in.Rule)
			run.Eval(1)
			fmt.Printf("replay attempt %d: engine ok=%v stage=%s msg=%s | gqlparser ok=%v rules=%v | verdict=%q\n", attempt, eng.ok, eng.stage, eng.msg, ref.ok, ref.rules, clause)
			if clause != "" && clause != "split" && clause != "split-rule" {
				c.violate(clause, in, eng, ref, "")
				break
			}
			if !strings.HasPrefix(in.Site, "process crash") {
				break
			}
		}
		return
	}

	run.Rule("every operation over schemas S1 and S2 whose selection tree has at most <kind>_max_nodes selection nodes and depth at most <kind>_max_depth " +
		"(fields in schema order with their required arguments; __typename; inline fragments on every possible type of abstract parents; subscriptions with exactly one root field), " +
		"decorated with one decoration - and, for bases of at most <kind>_two_decorations_up_to_nodes nodes, with every pair of decorations - out of: alias, optional argument with each witness literal, " +
		"literal->variable in 5 typing variants (also inside list / input object literals), each directive usage at each allowed host incl. @skip/@include true/false and a repeatable directive twice, " +
		"inline-fragment / named-fragment wrap on every compatible type condition, duplicate field, named operation, second operation selected by name " +
		"(the second decoration targets a node created by the first or is later in the fixed decoration order); " +
		"for each such valid document: the document itself and EVERY applicable instance of every mutation operator of DESIGN appendix A.5 (invalid-by-rule-R), applied only in the executed operation and the fragments it reaches, " +
		"and of the negative controls (still valid). A distinct outcome is (rule family, operator, engine verdict, engine stage). Failing cases are shrunk (structured, validity-preserving simplification of the base document with the mutation kept) " +
		"and fingerprinted per (direction, rule family or cross-cutting mechanism, structural class of the mutation site + constructs whose removal makes the failure vanish).")
	run.Assume("history family: every ordered history of history_max_length (and shorter, >= 2) operations from a pool of history_pool operations over S1 (normalization aborted early / rejected by validation only / valid / invalid by variables, all on the variable name $v) is run on ONE re-used astnormalization.OperationNormalizer (engine option set) + astvalidation.DefaultOperationValidator; differential oracle: the verdict on the last operation equals its verdict on a fresh pipeline",
		"label by construction of the generator / mutation operator; judged only where gqlparser v2.5.30 validator.Validate agrees with the label (valid/invalid and, for invalid, reports the rule that corresponds to the targeted family); disagreements are counted as oracle_split and never judged",
		"gqlparser errors of UniqueDirectivesPerLocation about a directive that the schema declares repeatable are discarded (known gqlparser defect: it tests the directive name, not the definition)",
		"engine verdict = graphql.Request.Normalize with the option set of ExecutionEngine.Execute succeeded AND ValidateForSchema(default options).Valid, evaluated in a helper process (a fatal error of the code under test must not take the shard down); no variables JSON is supplied",
		"generated and observed but not judged: lone-anonymous-operation and operation-name-uniqueness mutants (they concern other operations of the document, which the property statement excludes) and fragment-name-uniqueness mutants (which of two equally named definitions a spread reaches is not settled by the statement); a crash on them is still reported",
		"negative controls of a document whose unmutated form is already wrongly rejected are skipped (the rejection is reported once, on the document)")

	quick := []tierBounds{
		{"query", opgen.Bounds{MaxNodes: 3, MaxDepth: 3}, 1, 0},
		{"mutation", opgen.Bounds{MaxNodes: 2, MaxDepth: 2}, 1, 0},
		{"subscription", opgen.Bounds{MaxNodes: 2, MaxDepth: 2}, 1, 0},
	}
	thorough := []tierBounds{
		{"query", opgen.Bounds{MaxNodes: 4, MaxDepth: 4}, 1, 2},
		{"mutation", opgen.Bounds{MaxNodes: 4, MaxDepth: 4}, 1, 2},
		{"subscription", opgen.Bounds{MaxNodes: 4, MaxDepth: 4}, 1, 2},
	}
	tiers := vk.Pick(run, quick, thorough)
	for _, tb := range tiers {
		run.Bound(tb.kind+"_max_nodes", tb.bounds.MaxNodes)
		run.Bound(tb.kind+"_max_depth", tb.bounds.MaxDepth)
		run.Bound(tb.kind+"_max_decorations", tb.decos)
		run.Bound(tb.kind+"_two_decorations_up_to_nodes", tb.deco2Max)
	}
	run.Bound("schemas", schemaNames)
	run.Bound("S3_query_max_nodes_and_depth", schemaBounds("S3", opgen.Bounds{MaxNodes: 99, MaxDepth: 99}, run.Thorough()).MaxNodes)
	run.Bound("shrink_budget_steps", shrinkBudget)

	var unit int64
	// history family (tiny): one re-used normalizer + validator, every ordered history over a pool
	histLen := vk.Pick(run, 2, 3)
	run.Bound("history_pool", len(histPool))
	run.Bound("history_max_length", histLen)
	c.histories(labs["S1"], histLen, &unit)
	// same field name on several types with different argument requirements (tiny, enumerated)
	c.sameNameFamily(labs["S4"], &unit)
	for _, sn := range schemaNames {
		l := labs[sn]
		g := opgen.NewGen(l.gen)
		for _, tb := range tiers {
			bases := g.Bases(tb.kind, schemaBounds(sn, tb.bounds, run.Thorough()))
			run.Count("bases/"+sn+"/"+tb.kind, int64(len(bases))*boolTo(run.Shard() == 0))
			for _, base := range bases {
				nodes := countNodes(base)
				decos := opgen.Decorations(l.gen, base)
				// unit -1: the undecorated base
				for di := -1; di < len(decos); di++ {
					unit++
					if !run.Mine(unit) {
						continue
					}
					if run.Expired() {
						return
					}
					d1 := base
					if di >= 0 {
						d1 = opgen.Decorate(base, decos[di])
						run.Count("documents/one decoration", 1)
					} else {
						run.Count("documents/undecorated", 1)
					}
					c.document(l, d1)
					if di < 0 || nodes > tb.deco2Max {
						continue
					}
					for _, e2 := range opgen.Decorations(l.gen, d1) {
						if e2.Target <= base.Next && e2.Key() <= decos[di].Key() {
							continue
						}
						if run.Expired() {
							return
						}
						d2 := opgen.Decorate(d1, e2)
						run.Count("documents/two decorations", 1)
						c.document(l, d2)
					}
				}
			}
		}
	}
}

func boolTo(b bool) int64 {
	if b {
		return 1
	}
	return 0
}

func countNodes(d *opgen.Doc) int {
	n := 0
	var rec func(ss []*opgen.Selection)
	rec = func(ss []*opgen.Selection) {
		for _, s := range ss {
			n++
			rec(s.Sel)
		}
	}
	rec(d.Ops[0].Sel)
	return n
}

// document evaluates one valid document and all its mutants.
func (c *checker) document(l *lab, d *opgen.Doc) {
	baseRejected := c.evaluate(l, d, nil)
	if os.Getenv("C04_BASES_ONLY") != "" {
		return
	}
	for _, m := range opgen.Mutations(l.gen, d) {
		if baseRejected && m.Valid {
			// the unmutated document is already (wrongly) rejected and reported: its negative controls would only repeat that
			c.run.Count("controls_skipped_because_their_base_is_rejected", 1)
			continue
		}
		c.evaluate(l, d, m)
	}
}

var _ = json.Marshal

// The engine's admission sequence is read from the tree under test (see
// internal/engineseam) instead of being copied here.
var seam, seamFirst, seamSecond = engineseam.Must()
