package c04

import (
	"bufio"
	"encoding/json"
	"fmt"
	"io"
	"log"
	"os"
	"os/exec"
	"regexp"
	"runtime/debug"
	"strings"
	"sync"
	"testing"
)

// The admission sequence runs in a helper process (this test binary started
// with C04_WORKER=1): some inputs make the code under test die with a Go
// "fatal error" (stack overflow), which cannot be recovered in-process and would
// take the whole shard with it. The shard sends one request per line and reads
// one answer per line; when the helper dies the case is recorded as a crash
// (site = first repository frame of the crash report) and a new helper is started.

type wreq struct {
	S string `json:"s"` // schema name
	O string `json:"o"` // operation name
	Q string `json:"q"` // document
}

type wresp struct {
	OK    bool   `json:"ok"`
	Stage string `json:"stage"`
	Site  string `json:"site"`
	Msg   string `json:"msg"`
}

func TestWorker(t *testing.T) {
	if os.Getenv("C04_WORKER") == "" {
		t.Skip("helper process of TestCheck")
	}
	log.SetOutput(io.Discard)
	debug.SetGCPercent(800)
	debug.SetMaxStack(48 << 20) // die quickly on runaway recursion
	labs := newLabs()
	out := os.NewFile(3, "responses")
	w := bufio.NewWriter(out)
	sc := bufio.NewScanner(os.Stdin)
	sc.Buffer(make([]byte, 1<<20), 1<<20)
	for sc.Scan() {
		var r wreq
		if err := json.Unmarshal(sc.Bytes(), &r); err != nil {
			fmt.Fprintln(os.Stderr, "worker: bad request:", err)
			os.Exit(4)
		}
		v := labs[r.S].engineAccepts(r.Q, r.O)
		b, _ := json.Marshal(wresp{OK: v.ok, Stage: v.stage, Site: v.site, Msg: v.msg})
		w.Write(b)
		w.WriteByte('\n')
		w.Flush()
	}
}

type capBuffer struct {
	mu sync.Mutex
	b  []byte
}

func (c *capBuffer) Write(p []byte) (int, error) {
	c.mu.Lock()
	if len(c.b) < 1<<20 {
		c.b = append(c.b, p...)
	}
	c.mu.Unlock()
	return len(p), nil
}

func (c *capBuffer) String() string {
	c.mu.Lock()
	defer c.mu.Unlock()
	return string(c.b)
}

type engineWorker struct {
	cmd    *exec.Cmd
	stdin  io.WriteCloser
	in     *bufio.Writer
	out    *bufio.Reader
	respR  *os.File
	stderr *capBuffer
	starts int
}

func (w *engineWorker) start() error {
	respR, respW, err := os.Pipe()
	if err != nil {
		return err
	}
	cmd := exec.Command(os.Args[0], "-test.run", "^TestWorker$", "-test.timeout", "0")
	cmd.Env = append(os.Environ(), "C04_WORKER=1", "VERIF_OUT=", "GOTRACEBACK=single")
	cmd.ExtraFiles = []*os.File{respW}
	w.stderr = &capBuffer{}
	cmd.Stderr = w.stderr
	cmd.Stdout = io.Discard
	stdin, err := cmd.StdinPipe()
	if err != nil {
		return err
	}
	if err := cmd.Start(); err != nil {
		return err
	}
	respW.Close()
	w.cmd, w.stdin, w.in, w.out, w.respR = cmd, stdin, bufio.NewWriter(stdin), bufio.NewReaderSize(respR, 1<<16), respR
	w.starts++
	return nil
}

func (w *engineWorker) stop() {
	if w.cmd == nil {
		return
	}
	w.stdin.Close()
	w.cmd.Wait()
	w.respR.Close()
	w.cmd = nil
}

func (w *engineWorker) send(schema, opName, q string) {
	if w.cmd == nil {
		if err := w.start(); err != nil {
			panic("c04: cannot start helper process: " + err.Error())
		}
	}
	b, _ := json.Marshal(wreq{S: schema, O: opName, Q: q})
	w.in.Write(b)
	w.in.WriteByte('\n')
	w.in.Flush()
}

var reCrashFrame = regexp.MustCompile(`(?m)^(github\.com/wundergraph/graphql-go-tools/[^\s(]+(?:\([^)]*\))?[^\s(]*)\(`)

func (w *engineWorker) recv() verdict {
	line, err := w.out.ReadBytes('\n')
	if err == nil {
		var r wresp
		if json.Unmarshal(line, &r) == nil {
			return verdict{ok: r.OK, stage: r.Stage, site: r.Site, msg: r.Msg}
		}
	}
	// the helper died: turn its crash report into a verdict and start over
	w.stdin.Close()
	w.cmd.Wait()
	w.respR.Close()
	w.cmd = nil
	report := w.stderr.String()
	v := verdict{stage: "panic", msg: "helper process died without a Go crash report", site: "unknown frame"}
	idx := strings.Index(report, "fatal error:")
	if j := strings.Index(report, "panic:"); j >= 0 && (idx < 0 || j < idx) {
		idx = j
	}
	if idx >= 0 {
		rest := report[idx:]
		v.msg = rest
		if k := strings.IndexByte(rest, '\n'); k >= 0 {
			v.msg = rest[:k]
		}
		if ms := reCrashFrame.FindAllStringSubmatch(rest, 40); len(ms) > 0 {
			v.site = ms[0][1]
			if strings.Contains(v.msg, "stack overflow") {
				// which frame of the recursion is on top when the limit is hit varies: name the smallest one
				for _, m := range ms {
					if m[1] < v.site {
						v.site = m[1]
					}
				}
				v.site = "runaway recursion through " + v.site
			}
		}
		v.msg += " (process crash, not recoverable)"
	}
	return v
}
