package c04

import (
	"fmt"
	"strings"

	"github.com/wundergraph/graphql-go-tools/v2/pkg/ast"
	"github.com/wundergraph/graphql-go-tools/v2/pkg/astnormalization"
	"github.com/wundergraph/graphql-go-tools/v2/pkg/astparser"
	"github.com/wundergraph/graphql-go-tools/v2/pkg/astvalidation"
	"github.com/wundergraph/graphql-go-tools/v2/pkg/operationreport"

	"verif/internal/vk"
)

// History family: the admission verdict on an operation must not depend on the
// operations the SAME OperationNormalizer / OperationValidator handled before
// (re-using both is what the packages recommend for hot paths). Every ordered
// history of 2 (quick) or 2 and 3 (thorough) operations from a small pool that
// mixes operations whose normalization ABORTS in an early stage, operations that
// fail only in validation, valid operations (one whose only variable use is
// pruned by @skip) and invalid-by-variables operations, all using the variable
// name $v. Differential oracle: the verdict on the last operation on the re-used
// pipeline equals its verdict on a fresh pipeline.

const clauseHistory = "the verdict on an operation does not depend on the operations the same normalizer and validator handled before"

type histOp struct {
	kind  string // structural class (no input text)
	query string
}

// over schema S1
var histPool = []histOp{
	{"valid, no variable", `{ s }`},
	{"valid, uses $v in a field argument", `query($v: Int) { f(r: 1, x: $v) }`},
	{"valid, uses $v inside a named fragment", `query($v: Int) { a { ...F } } fragment F on A { k(x: $v) }`},
	{"valid, the only use of $v is pruned by a literal @skip", `query($v: Int) { s f(r: 1, x: $v) @skip(if: true) }`},
	{"uses $v, normalization aborted by an undefined fragment", `query($v: Int) { f(r: 1, x: $v) a { ...Missing } }`},
	{"uses $v, normalization aborted by a fragment cycle", `query($v: Int) { a { ...A } } fragment A on A { k(x: $v) ...B } fragment B on A { id ...A }`},
	{"uses $v, normalization aborted by a pre-validation rule (misplaced directive)", `query($v: Int) @d(x: 1) { f(r: 1, x: $v) }`},
	{"uses $v, normalization aborted by a fragment on an unknown type", `query($v: Int) { f(r: 1, x: $v) a { ...U } } fragment U on Nope { id }`},
	{"uses $v, rejected only by validation (unknown field)", `query($v: Int) { f(r: 1, x: $v) zz }`},
	{"invalid: $v declared, never used", `query($v: Int) { s }`},
	{"invalid: $v declared with a default value, never used", `query($v: Int = 1) { s }`},
	{"invalid: $v used, never declared", `{ f(r: 1, x: $v) }`},
	{"invalid: another variable declared, never used", `query($w: Int) { s }`},
	{"invalid: $v declared twice, used", `query($v: Int, $v: Int) { f(r: 1, x: $v) }`},
}

type pipeline struct {
	norm *astnormalization.OperationNormalizer
	val  *astvalidation.OperationValidator
}

func newPipeline() *pipeline {
	return &pipeline{norm: astnormalization.NewWithOpts(seamFirst...), val: astvalidation.DefaultOperationValidator()}
}

// admit: parse into a fresh document, normalize with the pipeline's normalizer, validate with its validator.
func (p *pipeline) admit(def *ast.Document, q string) (v verdict) {
	defer func() {
		if r := recover(); r != nil {
			v = verdict{stage: "panic", msg: fmt.Sprint(r), site: "unknown frame"}
		}
	}()
	op, rep := astparser.ParseGraphqlDocumentString(q)
	if rep.HasErrors() {
		return verdict{stage: "parse", msg: rep.Error()}
	}
	var report operationreport.Report
	p.norm.NormalizeOperation(&op, def, &report)
	if report.HasErrors() {
		return verdict{stage: "normalize", msg: report.Error()}
	}
	p.val.Validate(&op, def, &report)
	if report.HasErrors() {
		return verdict{stage: "validate", msg: report.Error()}
	}
	return verdict{ok: true}
}

func describe(v verdict) string {
	if v.ok {
		return "accepted"
	}
	return "rejected at " + v.stage
}

// historyCase runs one history; the last element is the operation under judgement.
func (c *checker) historyCase(l *lab, kinds, queries []string) {
	def := l.eng.Document()
	last := queries[len(queries)-1]
	fresh := newPipeline().admit(def, last)
	p := newPipeline()
	var trail []string
	for _, q := range queries[:len(queries)-1] {
		trail = append(trail, describe(p.admit(def, q)))
	}
	reused := p.admit(def, last)
	c.run.Eval(1)
	c.run.Count("histories", 1)
	c.run.Outcome("history|" + kinds[len(kinds)-1] + "|" + describe(fresh))
	if fresh.ok == reused.ok && fresh.stage == reused.stage {
		return
	}
	// (the class names how the pipeline left the previous operation, not which operation that was)
	class := "previous operation " + trail[len(trail)-1] + " ; judged: " + kinds[len(kinds)-1] + " | fresh pipeline: " + describe(fresh) + ", re-used pipeline: " + describe(reused)
	detail := "history: " + strings.Join(kinds, " ; then ") + "\n"
	detail += fmt.Sprintf("schema %s, one OperationNormalizer (engine option set) and one DefaultOperationValidator re-used for the history:", l.name)
	for i, q := range queries[:len(queries)-1] {
		detail += fmt.Sprintf("\n  %d. %s  -> %s", i+1, q, trail[i])
	}
	detail += fmt.Sprintf("\n  %d. %s  -> %s (%s)\n  the same operation on a fresh normalizer + validator: %s (%s)", len(queries), last, describe(reused), reused.msg, describe(fresh), fresh.msg)
	in := caseInput{Schema: l.name, Query: last, Rule: "history", Op: "history", Site: "re-used OperationNormalizer + OperationValidator", Class: class, History: queries, HistoryKinds: kinds}
	c.run.Violate(vk.Violation{Clause: clauseHistory, Site: in.Site, Class: class, Detail: detail, Input: in})
}

// histories enumerates every ordered history of the given lengths over the pool.
func (c *checker) histories(l *lab, maxLen int, unit *int64) {
	n := len(histPool)
	for length := 2; length <= maxLen; length++ {
		idx := make([]int, length)
		for {
			*unit++
			if c.run.Mine(*unit) {
				kinds := make([]string, length)
				queries := make([]string, length)
				for i, k := range idx {
					kinds[i], queries[i] = histPool[k].kind, histPool[k].query
				}
				c.historyCase(l, kinds, queries)
			}
			// next tuple
			i := length - 1
			for i >= 0 {
				idx[i]++
				if idx[i] < n {
					break
				}
				idx[i] = 0
				i--
			}
			if i < 0 {
				break
			}
		}
	}
}
