package c04

import (
	"fmt"
	"os"
	"strings"
	"testing"
	"verif/internal/opgen"
)

// TestOne is a debugging aid: C04_Q="S1|opname|query ;; S1||query2" go test -run TestOne
func TestOne(t *testing.T) {
	qs := os.Getenv("C04_Q")
	if qs == "" {
		t.Skip("C04_Q not set")
	}
	labs := newLabs()
	for _, item := range strings.Split(qs, ";;") {
		parts := strings.SplitN(strings.TrimSpace(item), "|", 3)
		if len(parts) != 3 {
			t.Fatalf("bad item %q", item)
		}
		l := labs[parts[0]]
		e := l.engineAccepts(parts[2], parts[1])
		r := l.refAccepts(parts[2])
		fmt.Printf("%s op=%q %s\n   engine: ok=%v %s %s\n   gqlparser: ok=%v %v %s\n", parts[0], parts[1], parts[2], e.ok, e.stage, e.msg, r.ok, r.rules, r.msg)
	}
}

// TestSizes prints the size of candidate tiers (debugging aid, C04_SIZES=1).
func TestSizes(t *testing.T) {
	if os.Getenv("C04_SIZES") == "" {
		t.Skip("C04_SIZES not set")
	}
	labs := newLabs()
	for _, sn := range schemaNames {
		l := labs[sn]
		g := opgen.NewGen(l.gen)
		for _, kind := range []string{"query", "mutation", "subscription"} {
			for n := 1; n <= 5; n++ {
				bases := g.Bases(kind, opgen.Bounds{MaxNodes: n, MaxDepth: n})
				if len(bases) == 0 {
					continue
				}
				var d1, m0, m1, d2 int
				for _, b := range bases {
					if countNodes(b) != n {
						continue
					}
					decos := opgen.Decorations(l.gen, b)
					d1 += len(decos)
					m0 += len(opgen.Mutations(l.gen, b))
					for i, e := range decos {
						if i%7 == 0 {
							x := opgen.Decorate(b, e)
							m1 += 7 * len(opgen.Mutations(l.gen, x))
							d2 += 7 * len(opgen.Decorations(l.gen, x)) / 2
						}
					}
				}
				fmt.Printf("%s %-12s nodes=%d: bases=%d one-deco docs=%d (mutants ~%d) two-deco docs ~%d; mutants of undecorated=%d\n", sn, kind, n, len(bases), d1, m1, d2, m0)
			}
		}
	}
}
