// Check C10: @defer delivers the same data incrementally with a well-formed
// stream, for every completion order of the subgraph requests.
package c10

import (
	"context"
	"encoding/json"
	"errors"
	"fmt"
	"io"
	"regexp"
	"sort"
	"strings"
	"sync"
	"testing"
	"testing/synctest"

	"github.com/vektah/gqlparser/v2"
	gast "github.com/vektah/gqlparser/v2/ast"

	"github.com/wundergraph/graphql-go-tools/execution/engine"
	"github.com/wundergraph/graphql-go-tools/execution/graphql"
	"github.com/wundergraph/graphql-go-tools/v2/pkg/engine/resolve"

	"verif/internal/fedlab"
	"verif/internal/fedorders"
	"verif/internal/refexec"
	"verif/internal/vk"
)

// ---- frame recording writer

type frameWriter struct {
	// slow: every Flush is slow - while it runs, all parked subgraph requests are
	// answered and the released work gets the processor (the lock discipline of the
	// resolver decides what it can do before the frame is committed)
	slow      bool
	failAt    int // when > 0: the failAt-th Flush fails (the client went away in the middle of the stream)
	flushes   int
	failed    bool
	buf       []byte
	frames    []string
	calls     []string
	completes int
	afterDone []string
}

func (w *frameWriter) note(c string) {
	if w.completes > 0 {
		w.afterDone = append(w.afterDone, c)
	}
	w.calls = append(w.calls, c)
}
func (w *frameWriter) Write(p []byte) (int, error) {
	w.note("write")
	w.buf = append(w.buf, p...)
	return len(p), nil
}
func (w *frameWriter) Flush() error {
	w.note("flush")
	if w.slow {
		fedorders.ReleaseParked(4000)
	}
	w.flushes++
	if w.failAt > 0 && w.flushes == w.failAt {
		w.failed = true
		w.buf = nil
		return errors.New("write: broken pipe")
	}
	w.frames = append(w.frames, string(w.buf))
	w.buf = nil
	return nil
}
func (w *frameWriter) Complete()        { w.calls = append(w.calls, "complete"); w.completes++ }
func (w *frameWriter) Heartbeat() error { w.note("heartbeat"); return nil }
func (w *frameWriter) Error(b []byte)   { w.note("error:" + string(b)) }

type family struct {
	name   string
	s      *fedlab.Supergraph
	u      *fedlab.Universe
	schema *gast.Schema
	layout *fedlab.Layout
	ops    []*fedlab.Op
	chains []*fedlab.Op // spine operations for the nested-chain placements
	split  []string     // curated: object fields split between the deferred fragment and its surroundings
}

func mustSchema(sdl string) *gast.Schema {
	s, err := gqlparser.LoadSchema(&gast.Source{Input: sdl})
	if err != nil {
		panic(err)
	}
	return s
}

func families(run *vk.Run) []*family {
	core, abs := fedlab.SCore(), fedlab.SAbs()
	fc := &family{name: "S-core", s: core, u: fedlab.SCoreUniverse(core), schema: mustSchema(core.SDL())}
	fc.layout = fedlab.ByType(core, 3, func(r fedlab.FieldRef) int {
		switch {
		case r.Type == "Product" || r.Field == "topProducts":
			return 1
		case r.Field == "reviews" || r.Field == "nick" || r.Field == "greeting":
			return 2
		}
		return 0
	}, "base3")
	fa := &family{name: "S-abs", s: abs, u: fedlab.SAbsUniverse(abs), schema: mustSchema(abs.SDL())}
	fa.layout = fedlab.ByType(abs, 2, func(r fedlab.FieldRef) int {
		if r.Type == "Book" || r.Field == "search" {
			return 1
		}
		return 0
	}, "base2")
	req := fedlab.SReq()
	fr := &family{name: "S-req", s: req, u: fedlab.SReqUniverse(req), schema: mustSchema(req.SDL())}
	fr.layout = fedlab.ByType(req, 3, func(r fedlab.FieldRef) int {
		switch r.String() {
		case "Item.shipping", "Item.volume", "Item.summary", "Query.boxes", "Box.size", "Box.content":
			return 1
		case "Item.weight", "Item.dims", "Maker.label", "Item.spec", "Item.parts":
			return 2
		}
		return 0
	}, "base3")
	for _, f := range []*family{fc, fa, fr} {
		f.ops = fedlab.GenOps(fedlab.GenConfig{Schema: f.schema, Widths: vk.Pick(run, []int{1, 2, 1}, []int{1, 2, 2}), ArgMenu: func(t, fl string) [][]fedlab.ArgUse {
			switch t + "." + fl {
			case "Query.user":
				return [][]fedlab.ArgUse{{{Name: "id", Value: `"u1"`}}}
			case "Query.node":
				return [][]fedlab.ArgUse{{{Name: "id", Value: `"b1"`}}}
			case "Query.item":
				return [][]fedlab.ArgUse{{{Name: "id", Value: `"i1"`}}}
			}
			return nil
		}}, "query")
		// every operation also with all fields aliased
		n := len(f.ops)
		for _, op := range f.ops[:n] {
			f.ops = append(f.ops, fedlab.AliasAll(op))
		}
	}
	// spine operations for the nested-chain placements (fedlab.DeferChainVariants)
	for _, sp := range []struct {
		f      *family
		spine  []string
		leaves []string
	}{
		{fc, []string{"me", "favorite", "seller"}, []string{"name", "nick", "role"}},
		{fc, []string{"topProducts", "reviews", "author"}, []string{"name", "nick", "role"}},
		{fr, []string{"items", "parts", "item"}, []string{"price", "weight", "shipping"}},
	} {
		op, err := fedlab.SpineOp(sp.f.schema, sp.spine, sp.leaves)
		if err != nil {
			panic(err)
		}
		sp.f.chains = append(sp.f.chains, op)
	}
	// a deferred fragment that selects fields of SEVERAL objects which are also
	// selected outside the fragment (the fragment's fields are merged into object
	// fields that already exist: where is the fragment mounted?)
	fc.split = splitOps([]string{"me", `user(id: "u1")`, "users"}, [][3]string{{"favorite", "title", "price"}, {"reviews", "body", "stars"}, {"friends", "name", "nick"}})
	fr.split = splitOps([]string{`item(id: "i1")`, "items"}, [][3]string{{"spec", "code", "note"}, {"dims", "w", "h"}, {"maker", "label", "label"}})
	return []*family{fc, fa, fr}
}

// splitOps: for every ordered pair (A, B) of object fields of the root's type:
// A{a1} [... @defer {A{a2} B{b2}}] B{b1} in all 6 orders of the three members,
// plus the variant where only the deferred fragment selects B.
func splitOps(roots []string, objs [][3]string) []string {
	var out []string
	for _, root := range roots {
		for i, a := range objs {
			for j, b := range objs {
				if i == j {
					continue
				}
				m := []string{
					a[0] + " {" + a[1] + "}",
					"... @defer {" + a[0] + " {" + a[2] + "} " + b[0] + " {" + b[2] + "}}",
					b[0] + " {" + b[1] + "}",
				}
				for _, ord := range [][3]int{{0, 1, 2}, {0, 2, 1}, {1, 0, 2}, {1, 2, 0}, {2, 0, 1}, {2, 1, 0}} {
					out = append(out, "{"+root+" {"+m[ord[0]]+" "+m[ord[1]]+" "+m[ord[2]]+"}}")
				}
				out = append(out, "{"+root+" {"+m[0]+" "+m[1]+"}}", "{"+root+" {"+m[1]+" "+m[0]+"}}")
			}
		}
	}
	return out
}

var deferDirective = regexp.MustCompile(`@defer(\([^)]*\))?`)

type fail struct{ clause, site, detail string }

type obs struct {
	w   *frameWriter
	err error
}

func exec(lab *fedlab.Lab, q string) obs { return execWith(lab, q, false) }

func execWith(lab *fedlab.Lab, q string, slowFlush bool) obs {
	return execWriter(lab, q, &frameWriter{slow: slowFlush})
}

func execWriter(lab *fedlab.Lab, q string, w *frameWriter, opts ...engine.ExecutionOptions) obs {
	lab.Sim.Reset()
	err := lab.Engine.Execute(context.Background(), &graphql.Request{Query: q}, w, opts...)
	return obs{w: w, err: err}
}

// failingLimiter: the pre-fetch rate limiter fails hard for the k-th fetch it is
// asked about (a hard fetch-phase error of whichever defer group that is).
type failingLimiter struct {
	mu    sync.Mutex
	n, at int
	fired bool
}

func (l *failingLimiter) RateLimitPreFetch(ctx *resolve.Context, info *resolve.FetchInfo, input json.RawMessage) (*resolve.RateLimitDeny, error) {
	l.mu.Lock()
	defer l.mu.Unlock()
	l.n++
	if l.n == l.at {
		l.fired = true
		return nil, errors.New("rate limiter unavailable")
	}
	return nil, nil
}
func (l *failingLimiter) RenderResponseExtension(ctx *resolve.Context, out io.Writer) error {
	return nil
}

func strField(m map[string]any, k string) (string, bool) {
	v, ok := m[k]
	if !ok {
		return "", false
	}
	switch x := v.(type) {
	case string:
		return x, true
	case json.Number:
		return x.String(), true
	}
	return fmt.Sprint(v), true
}

// checkStream validates the frame sequence (acceptor R4d) and reconstructs data.
func checkStream(o obs) (data any, hadIncrementalErrors bool, fails []fail) {
	w := o.w
	add := func(site, detail string) {
		fails = append(fails, fail{"the stream is well-formed", site, detail})
	}
	if len(w.buf) > 0 {
		add("bytes written but never flushed", string(w.buf))
	}
	if w.completes != 1 {
		add(fmt.Sprintf("Complete called %d times", w.completes), strings.Join(w.calls, " "))
	}
	if len(w.afterDone) > 0 {
		add("writer call after Complete", strings.Join(w.afterDone, " "))
	}
	if len(w.frames) == 0 {
		add("no frame", strings.Join(w.calls, " "))
		return nil, false, fails
	}
	type pend struct {
		path []any
	}
	announced := map[string]pend{}
	completed := map[string]int{}
	delivered := map[string]bool{}
	var frames []map[string]any
	for i, f := range w.frames {
		m, err := refexec.DecodeObject([]byte(f))
		if err != nil {
			add("frame is not one JSON value", fmt.Sprintf("frame %d: %s: %s", i, err, f))
			return nil, false, fails
		}
		frames = append(frames, m)
	}
	for i, m := range frames {
		last := i == len(frames)-1
		hn, hasHN := m["hasNext"].(bool)
		if ps, ok := m["pending"].([]any); ok {
			for _, p := range ps {
				pm, _ := p.(map[string]any)
				id, ok := strField(pm, "id")
				if !ok {
					add("pending entry without id", w.frames[i])
					continue
				}
				if _, dup := announced[id]; dup {
					add("id announced twice", w.frames[i])
				}
				path, _ := pm["path"].([]any)
				announced[id] = pend{path: path}
			}
		}
		if i == 0 {
			if _, ok := m["data"]; !ok {
				add("initial frame without data", w.frames[0])
			}
			if _, ok := m["incremental"]; ok {
				add("initial frame carries incremental", w.frames[0])
			}
			if _, ok := m["completed"]; ok {
				add("initial frame carries completed", w.frames[0])
			}
			data = m["data"]
			if len(announced) > 0 && !(hasHN && hn) && len(frames) > 1 {
				add("initial frame announces pending without hasNext:true", w.frames[0])
			}
		} else {
			if _, ok := m["data"]; ok {
				add("subsequent frame carries top-level data", w.frames[i])
			}
		}
		if hasHN && hn && last {
			add("hasNext is true on the last frame", w.frames[i])
		}
		if !last && !(hasHN && hn) {
			add("hasNext is not true on a frame that is followed by another", w.frames[i])
		}
		if incs, ok := m["incremental"].([]any); ok {
			for _, it := range incs {
				im, _ := it.(map[string]any)
				id, _ := strField(im, "id")
				p, ok := announced[id]
				if !ok {
					add("incremental for an id that was never announced", w.frames[i])
					continue
				}
				if completed[id] > 0 {
					add("incremental for an id that is already completed", w.frames[i])
				}
				delivered[id] = true
				if es, ok := im["errors"].([]any); ok && len(es) > 0 {
					hadIncrementalErrors = true
				}
				target := append(append([]any(nil), p.path...), asPath(im["subPath"])...)
				var merr string
				data, merr = mergeAt(data, target, im["data"])
				if merr != "" {
					fails = append(fails, fail{"applying the incremental payloads at their announced paths reconstructs the data", "incremental payload cannot be applied", fmt.Sprintf("%s\nframe %d: %s", merr, i, w.frames[i])})
				}
			}
		}
		if cs, ok := m["completed"].([]any); ok {
			for _, c := range cs {
				cm, _ := c.(map[string]any)
				id, _ := strField(cm, "id")
				if _, ok := announced[id]; !ok {
					add("completed for an id that was never announced", w.frames[i])
					continue
				}
				completed[id]++
				if es, ok := cm["errors"].([]any); ok && len(es) > 0 {
					hadIncrementalErrors = true
				}
			}
		}
	}
	for id := range announced {
		if completed[id] != 1 {
			add(fmt.Sprintf("announced id completed %d times", completed[id]), strings.Join(w.frames, "\n"))
		}
	}
	// frames never interleave: between the first write of a frame and its flush no
	// other frame starts - with a single recording writer this is the call
	// pattern (write+ flush)* complete
	state := 0
	for _, c := range w.calls {
		switch {
		case c == "write":
			state = 1
		case c == "flush":
			if state != 1 {
				add("flush without a preceding write", strings.Join(w.calls, " "))
			}
			state = 0
		case c == "complete":
			if state != 0 {
				add("Complete before the last frame was flushed", strings.Join(w.calls, " "))
			}
		}
	}
	return data, hadIncrementalErrors, fails
}

func asPath(v any) []any {
	p, _ := v.([]any)
	return p
}

func idx(x any) (int, bool) {
	switch n := x.(type) {
	case json.Number:
		i, err := n.Int64()
		return int(i), err == nil
	case float64:
		return int(n), true
	case int:
		return n, true
	}
	return 0, false
}

// mergeAt deep-merges val into root at path.
func mergeAt(root any, path []any, val any) (any, string) {
	if len(path) == 0 {
		return deepMerge(root, val, nil)
	}
	switch c := root.(type) {
	case map[string]any:
		k := fmt.Sprint(path[0])
		child, ok := c[k]
		if !ok {
			return root, fmt.Sprintf("path segment %q does not exist", k)
		}
		nc, e := mergeAt(child, path[1:], val)
		c[k] = nc
		return root, e
	case []any:
		i, ok := idx(path[0])
		if !ok || i < 0 || i >= len(c) {
			return root, fmt.Sprintf("list index %v out of range", path[0])
		}
		nc, e := mergeAt(c[i], path[1:], val)
		c[i] = nc
		return root, e
	}
	return root, fmt.Sprintf("cannot descend into %s at %v", refexec.Canon(root), path)
}

func deepMerge(dst, src any, path []any) (any, string) {
	sm, ok := src.(map[string]any)
	if !ok {
		if dst != nil && refexec.Canon(dst) != refexec.Canon(src) {
			return dst, fmt.Sprintf("at %v: would overwrite %s with %s", path, refexec.Canon(dst), refexec.Canon(src))
		}
		return src, ""
	}
	dm, ok := dst.(map[string]any)
	if !ok {
		if dst == nil {
			return dst, fmt.Sprintf("at %v: incremental object delivered for a null position", path)
		}
		return dst, fmt.Sprintf("at %v: incremental object for a non-object %s", path, refexec.Canon(dst))
	}
	for k, v := range sm {
		if cur, has := dm[k]; has {
			switch cv := cur.(type) {
			case map[string]any:
				n, e := deepMerge(cv, v, append(path, k))
				if e != "" {
					return dst, e
				}
				dm[k] = n
			case []any:
				sl, ok := v.([]any)
				if !ok || len(sl) != len(cv) {
					if refexec.Canon(cur) != refexec.Canon(v) {
						return dst, fmt.Sprintf("at %v: list %s vs %s", append(path, k), refexec.Canon(cur), refexec.Canon(v))
					}
					continue
				}
				for i := range cv {
					n, e := deepMerge(cv[i], sl[i], append(path, k, i))
					if e != "" {
						return dst, e
					}
					cv[i] = n
				}
			default:
				if cur != nil && refexec.Canon(cur) != refexec.Canon(v) {
					return dst, fmt.Sprintf("at %v: would overwrite %s with %s", append(path, k), refexec.Canon(cur), refexec.Canon(v))
				}
				if cur == nil && v != nil {
					// a null that turns into a value: the initial payload said null
					return dst, fmt.Sprintf("at %v: initial null replaced by %s", append(path, k), refexec.Canon(v))
				}
			}
		} else {
			dm[k] = v
		}
	}
	return dm, ""
}

func TestCheck(t *testing.T) {
	run := vk.Start("C10", "model_checking")
	defer run.Finish()
	run.Rule("(layout, operation) x @defer on every set of <= k field sites (labels / if:true by site) x EVERY completion order of the subgraph requests (DFS over which parked request answers next, inside a synctest bubble); states = choice points, transitions = releases; distinct = distinct (operation, frame sequence shape)")
	run.Assume("completion orders at subgraph-request granularity (no preemption inside the resolver between requests)",
		"data equality with the non-deferred execution is judged only when the non-deferred response has no errors (error bubbling stops at the deferred fragment by design)")
	maxSites := vk.Pick(run, 2, 3)
	maxOrders := vk.Pick(run, 24, 120)
	run.Bound("max_defer_sites", maxSites)
	run.Bound("max_orders_per_case", maxOrders)
	var rin *struct {
		Family string `json:"family"`
		Op     string `json:"op"`
		Order  []int  `json:"order"`
		Lim    int    `json:"limiter_fails_at"`
		OrdDep bool   `json:"order_dependence"`
		Other  []int  `json:"other_order"`
	}
	if run.Replay != "" {
		rin = &struct {
			Family string `json:"family"`
			Op     string `json:"op"`
			Order  []int  `json:"order"`
			Lim    int    `json:"limiter_fails_at"`
			OrdDep bool   `json:"order_dependence"`
			Other  []int  `json:"other_order"`
		}{}
		if err := run.ReplayInput(rin); err != nil {
			t.Fatal(err)
		}
	}
	synctest.Test(t, func(t *testing.T) {
		var caseNo int64
		for _, f := range families(run) {
			lab, err := fedlab.NewLab(f.layout, f.u, fedlab.LabOptions{})
			if err != nil {
				t.Fatal(err)
			}
			bases := append(append([]*fedlab.Op(nil), f.ops...), f.chains...)
			for _, q := range f.split {
				bases = append(bases, &fedlab.Op{Kind: "query", Raw: deferDirective.ReplaceAllString(q, ""), Note: q})
			}
			for bi, base := range bases {
				isChain := bi >= len(f.ops) && bi < len(f.ops)+len(f.chains)
				isSplit := bi >= len(f.ops)+len(f.chains)
				caseNo++
				if rin == nil && !isChain && !run.Mine(caseNo) {
					continue
				}
				if run.Expired() {
					lab.Close() // leave the bubble without blocked engine goroutines
					synctest.Wait()
					return
				}
				// reference: the engine without @defer, and R1
				plain := exec(lab, base.String())
				synctest.Wait()
				if len(plain.w.frames) == 0 && len(plain.w.buf) > 0 {
					// a plain response is written without a flush
					plain.w.frames = []string{string(plain.w.buf)}
				}
				if plain.err != nil || len(plain.w.frames) != 1 {
					run.Count("plain_execution_failed", 1)
					continue
				}
				pm, perr := refexec.DecodeObject([]byte(plain.w.frames[0]))
				if perr != nil {
					continue
				}
				_, plainHasErrors := pm["errors"]
				want := refexec.Canon(pm["data"])
				variants := fedlab.DeferVariants(base, maxSites)
				if isChain {
					// nested chains: up to seven nested @defer levels with a field selected
					// again on another level; sharded by variant
					variants = fedlab.DeferChainVariants(base, run.Thorough())
				}
				if isSplit {
					// the curated operation itself is the only variant
					variants = []*fedlab.Op{{Kind: "query", Raw: base.Note}}
					run.Count("split_object_operations", 1)
				}
				for vi, op := range variants {
					if isChain && rin == nil && !run.Mine(caseNo+int64(vi)) {
						continue
					}
					if isChain {
						run.Count("nested_chain_variants", 1)
					}
					q := op.String()
					if rin != nil && (rin.Family != f.name || rin.Op != q) {
						continue
					}
					shapes := map[string]bool{}
					// reconstructed data per completion order (also with errors, where the
					// non-deferred response is no reference): it must not depend on the order
					recon := map[string][]int{}
					var reconFrames = map[string]string{}
					// every deferred field is also selected outside the fragments: merging
					// removes the defers, an ordinary response is the right answer
					redundant := fedlab.NoEffectiveDefer(op)
					judge := func(x *fedorders.Exec) {
						o := x.Obs.(obs)
						if (allDefersDisabled(q) || redundant) && len(o.w.frames) == 0 && o.w.completes == 0 && len(o.w.buf) > 0 {
							// every @defer is switched off: the operation is an ordinary one and is
							// answered like the plain operation - one response, written without a
							// flush; its data is still compared below
							w2 := *o.w
							w2.frames, w2.buf, w2.completes = []string{string(o.w.buf)}, nil, 1
							o.w = &w2
						}
						var fails []fail
						if x.Stuck {
							fails = append(fails, fail{"the stream always terminates", "execution wedged with no request in flight", strings.Join(o.w.calls, " ")})
						}
						if o.err != nil {
							fails = append(fails, fail{"a deferred operation is executed", "Execute returned an error", o.err.Error()})
						} else if !x.Stuck {
							data, incErr, sf := checkStream(o)
							fails = append(fails, sf...)
							if len(sf) == 0 {
								g := refexec.Canon(data)
								if _, seen := recon[g]; !seen {
									recon[g] = append([]int(nil), x.Choices...)
									reconFrames[g] = strings.Join(o.w.frames, "\n")
								}
								if plainHasErrors || incErr {
									run.Count("data_not_judged_errors", 1)
								} else if got := refexec.Canon(data); got != want {
									fails = append(fails, fail{"applying the incremental payloads to the initial payload reconstructs exactly the data of the same query without @defer", "reconstructed data differs", fmt.Sprintf("reconstructed: %s\nwithout @defer: %s\nframes:\n%s", got, want, strings.Join(o.w.frames, "\n"))})
								}
							}
						}
						shape := fmt.Sprintf("frames=%d", len(o.w.frames))
						shapes[shape] = true
						if rin != nil {
							fmt.Printf("order %v\n%s\n", x.Choices, strings.Join(o.w.frames, "\n"))
						}
						for _, fl := range fails {
							if rin != nil {
								fmt.Printf("FAILED %s [%s]\n%s\n", fl.clause, fl.site, fl.detail)
							}
							run.Violate(vk.Violation{Clause: fl.clause, Site: fl.site, Class: f.name + deferClass(f.s, q),
								Detail: fmt.Sprintf("operation %s\ncompletion order (choice indices) %v\nreleased: %s\n%s\nframes:\n%s", q, x.Choices, strings.Join(shorten(x.Order), " ; "), fl.detail, strings.Join(o.w.frames, "\n")),
								Input:  map[string]any{"family": f.name, "op": q, "order": x.Choices}})
						}
					}
					if rin != nil && rin.OrdDep {
						var got [2]string
						var frs [2]string
						for i, ord := range [][]int{rin.Other, rin.Order} {
							x := fedorders.RunOne(lab.Sim, ord, func() any { return exec(lab, q) })
							o := x.Obs.(obs)
							data, _, sf := checkStream(o)
							frs[i] = strings.Join(o.w.frames, "\n")
							if len(sf) > 0 {
								got[i] = "stream not well-formed: " + sf[0].site
							} else {
								got[i] = refexec.Canon(data)
							}
							fmt.Printf("order %v reconstructs %s\n%s\n", ord, got[i], frs[i])
						}
						run.Eval(2)
						if got[0] != got[1] {
							symptom := "a fragment completes without its data and without an error"
							if strings.Contains(frs[0]+frs[1], "unable to merge results") {
								symptom = "a fragment fails to merge after a sibling fragment's error propagation"
							}
							run.Violate(vk.Violation{Clause: "applying the incremental payloads to the initial payload reconstructs the same data whatever the completion order of the deferred groups", Site: "reconstructed data depends on the completion order", Class: f.name + " / " + symptom, Detail: got[0] + "\nvs\n" + got[1]})
						}
						continue
					}
					if rin != nil && rin.Lim > 0 {
						lim := &failingLimiter{at: rin.Lim}
						wf := &frameWriter{slow: true}
						fedorders.RunOne(lab.Sim, nil, func() any { return execWriter(lab, q, wf, engine.VerifWithRateLimiter(lim)) })
						run.Eval(1)
						fmt.Printf("the rate limiter fails hard for fetch %d\n%s\n", rin.Lim, strings.Join(wf.frames, "\n"))
						for i, fr := range wf.frames {
							if !json.Valid([]byte(fr)) {
								run.Violate(vk.Violation{Clause: "the stream is well-formed", Site: "frame is not one JSON value (hard fetch error)", Class: f.name + deferClass(f.s, q), Detail: fmt.Sprintf("frame %d: %s", i, fr)})
								break
							}
						}
						continue
					}
					if rin != nil {
						x := fedorders.RunOne(lab.Sim, rin.Order, func() any { return exec(lab, q) })
						run.Eval(1)
						run.AddStates(1, 1, 1)
						judge(x)
						continue
					}
					execs, points, capped := fedorders.Explore(lab.Sim, maxOrders, func() any { return exec(lab, q) }, judge)
					if len(recon) > 1 {
						var keys []string
						for k := range recon {
							keys = append(keys, k)
						}
						sort.Strings(keys)
						// classed by symptom, so that one root cause does not cover the other
						symptom := "a fragment completes without its data and without an error"
						if strings.Contains(reconFrames[keys[0]]+reconFrames[keys[1]], "unable to merge results") {
							symptom = "a fragment fails to merge after a sibling fragment's error propagation"
						}
						run.Violate(vk.Violation{Clause: "applying the incremental payloads to the initial payload reconstructs the same data whatever the completion order of the deferred groups", Site: "reconstructed data depends on the completion order", Class: f.name + " / " + symptom,
							Detail: fmt.Sprintf("operation %s\norder %v reconstructs %s\nframes:\n%s\norder %v reconstructs %s\nframes:\n%s", q, recon[keys[0]], keys[0], reconFrames[keys[0]], recon[keys[1]], keys[1], reconFrames[keys[1]]),
							Input:  map[string]any{"family": f.name, "op": q, "order": recon[keys[1]], "order_dependence": true, "other_order": recon[keys[0]]}})
					}
					// once more on the default order with SLOW flushes: all deferred groups
					// are released together and run concurrently while a frame is flushed
					judge(fedorders.RunOne(lab.Sim, nil, func() any { return execWith(lab, q, true) }))
					execs++
					run.Count("slow_flush_executions", 1)
					// and with a writer whose k-th Flush fails, for every k after the first
					// frame: the stream must still be terminated exactly once and nothing
					// may be written afterwards
					for k := 2; k <= 6; k++ {
						wf := &frameWriter{failAt: k}
						x := fedorders.RunOne(lab.Sim, nil, func() any { return execWriter(lab, q, wf) })
						if !wf.failed {
							break // fewer than k flushes
						}
						execs++
						run.Count("failed_flush_executions", 1)
						var ff []fail
						if x.Stuck {
							ff = append(ff, fail{"the stream always terminates", "execution wedged after a failed flush", strings.Join(wf.calls, " ")})
						} else if wf.completes != 1 {
							ff = append(ff, fail{"the stream always terminates", fmt.Sprintf("Complete called %d times after flush %d failed", wf.completes, k), strings.Join(wf.calls, " ")})
						} else if len(wf.afterDone) > 0 {
							ff = append(ff, fail{"the stream is well-formed", "writer call after Complete (failed flush)", strings.Join(wf.afterDone, " ")})
						}
						for _, fl := range ff {
							run.Violate(vk.Violation{Clause: fl.clause, Site: fl.site, Class: f.name + deferClass(f.s, q),
								Detail: fmt.Sprintf("operation %s\nflush %d fails\n%s", q, k, fl.detail),
								Input:  map[string]any{"family": f.name, "op": q, "order": []int{}, "fail_flush": k}})
						}
					}
					// a HARD fetch-phase error in one defer group (the pre-fetch rate limiter
					// fails for the k-th fetch), flushes slow: the error frame of that group and
					// the frames of its siblings must not mix, and the stream still terminates
					if strings.Count(q, "@defer") >= 2 && !allDefersDisabled(q) {
						for k := 2; k <= 5; k++ {
							lim := &failingLimiter{at: k}
							wf := &frameWriter{slow: true}
							x := fedorders.RunOne(lab.Sim, nil, func() any { return execWriter(lab, q, wf, engine.VerifWithRateLimiter(lim)) })
							if !lim.fired {
								break
							}
							execs++
							run.Count("hard_fetch_error_executions", 1)
							var ff []fail
							o := x.Obs.(obs)
							if x.Stuck {
								ff = append(ff, fail{"the stream always terminates", "execution wedged after a hard fetch error", strings.Join(wf.calls, " ")})
							} else if o.err == nil {
								for i, fr := range wf.frames {
									if !json.Valid([]byte(fr)) {
										ff = append(ff, fail{"the stream is well-formed", "frame is not one JSON value (hard fetch error)", fmt.Sprintf("frame %d: %s", i, fr)})
										break
									}
								}
								if len(ff) == 0 {
									if wf.completes != 1 {
										ff = append(ff, fail{"the stream always terminates", fmt.Sprintf("Complete called %d times after a hard fetch error", wf.completes), strings.Join(wf.calls, " ")})
									} else if len(wf.afterDone) > 0 {
										ff = append(ff, fail{"the stream is well-formed", "writer call after Complete (hard fetch error)", strings.Join(wf.afterDone, " ")})
									}
								}
							}
							for _, fl := range ff {
								run.Violate(vk.Violation{Clause: fl.clause, Site: fl.site, Class: f.name + deferClass(f.s, q),
									Detail: fmt.Sprintf("operation %s\nthe rate limiter fails hard for fetch %d\n%s\nframes:\n%s", q, k, fl.detail, strings.Join(wf.frames, "\n")),
									Input:  map[string]any{"family": f.name, "op": q, "order": []int{}, "limiter_fails_at": k}})
							}
						}
					}
					run.Eval(int64(execs))
					run.AddStates(int64(points)+1, int64(points), int64(execs))
					if capped {
						run.Cap(fmt.Sprintf("more than %d completion orders for some operation", maxOrders))
					}
					var sh []string
					for s := range shapes {
						sh = append(sh, s)
					}
					sort.Strings(sh)
					if run.Outcome(q + "|" + strings.Join(sh, ",") + fmt.Sprint(execs)) {
						run.Sample(f.name+"/"+strings.Join(sh, ","), map[string]any{"operation": q, "completion_orders": execs, "frame_shapes": sh})
					}
				}
			}
			lab.Close()
			synctest.Wait()
		}
	})
}

// allDefersDisabled: every @defer of the operation text carries (if: false).
func allDefersDisabled(q string) bool {
	parts := strings.Split(q, "@defer")
	if len(parts) < 2 {
		return false
	}
	for _, p := range parts[1:] {
		if !strings.HasPrefix(p, "(if: false)") {
			return false
		}
	}
	return true
}

// deferClass refines the fingerprint: a @defer fragment that covers (part of) an
// entity key is its own class.
func deferClass(s *fedlab.Supergraph, q string) string {
	keyTypes := map[string]bool{}
	keyFields := map[string]bool{}
	for _, t := range s.Types {
		for _, f := range t.Fields {
			if f.Key {
				keyFields[f.Name] = true
				keyTypes[fedlab.NamedType(f.Type)] = true
			}
		}
	}
	// fields of value types that occur inside a key (info { a b })
	for _, t := range s.Types {
		if keyTypes[t.Name] && t.Kind == "object" {
			for _, f := range t.Fields {
				keyFields[f.Name] = true
			}
		}
	}
	// crude but stable: look at the field names directly inside each deferred fragment
	for _, part := range strings.Split(q, "@defer")[1:] {
		i := strings.Index(part, "{")
		if i < 0 {
			continue
		}
		rest := strings.TrimLeft(part[i+1:], " ")
		name := rest
		if j := strings.IndexAny(rest, " {}("); j >= 0 {
			name = rest[:j]
		}
		if k := strings.Index(name, ":"); k >= 0 {
			continue
		}
		if keyFields[name] {
			return " / @defer covers a key field"
		}
	}
	return ""
}

func shorten(ss []string) []string {
	out := make([]string, len(ss))
	for i, s := range ss {
		if len(s) > 90 {
			s = s[:90] + "…"
		}
		out[i] = s
	}
	return out
}
