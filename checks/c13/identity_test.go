package c13

// Part E of C13: which subscriptions share one upstream. The fake source of the
// scheduler harness brings its own HashTriggerInput, so the hashing of the real
// graphql_datasource.SubscriptionSource (an anchor file of the property) is
// driven here: every ordered pair of a collision-oriented menu of subscription
// set-ups is subscribed, one after the other, through the real Resolver
// (subscriptionInput: template + Context.InitialPayload + Context.Extensions;
// prepareTrigger: SubscriptionSource.HashTriggerInput + forwarded-header hash)
// with the real SubscriptionSource around a client that records every Start.
// Sequential, no scheduler: synctest.Wait() is the quiescence detector.

import (
	"context"
	"encoding/json"
	"fmt"
	"io"
	"net/http"
	"reflect"
	"sort"
	"strings"
	"sync"
	"testing/synctest"

	"github.com/cespare/xxhash/v2"

	"github.com/wundergraph/graphql-go-tools/v2/pkg/engine/datasource/graphql_datasource"
	"github.com/wundergraph/graphql-go-tools/v2/pkg/engine/resolve"

	"verif/internal/vk"
)

const (
	clShare  = "subscriptions with the same upstream input and forwarded headers share one upstream subscription"
	clDiffer = "subscriptions that differ in upstream input or forwarded headers never share an upstream subscription"
	clOwn    = "each subscriber only receives events of an upstream that was started with its own input and headers"
	idClass  = "graphql_datasource.SubscriptionSource trigger identity"
	idScen   = "E-trigger-identity"
)

// setup is one subscription as a client / planner would configure it.
type setup struct {
	Name   string
	URL    string
	Header string // configured header object of the input template ("" = absent)
	Query  string
	OpName string
	Vars   string // body.variables ("" = absent)
	WsSub  string // ws_sub_protocol ("" = absent)
	Ext    string // Context.Extensions -> body.extensions ("" = none)
	IP     string // Context.InitialPayload -> initial_payload ("" = none)
	Fwd    string // forwarded headers "K=V" through SubgraphHeadersBuilder ("" = no builder)
	Raw    string // when set: the input template verbatim (same JSON value, other bytes)
}

func (s setup) template() string {
	if s.Raw != "" {
		return s.Raw
	}
	var b strings.Builder
	fmt.Fprintf(&b, `{"url":%q`, s.URL)
	if s.Header != "" {
		b.WriteString(`,"header":` + s.Header)
	}
	if s.WsSub != "" {
		fmt.Fprintf(&b, `,"ws_sub_protocol":%q`, s.WsSub)
	}
	fmt.Fprintf(&b, `,"body":{"query":%q`, s.Query)
	if s.OpName != "" {
		fmt.Fprintf(&b, `,"operationName":%q`, s.OpName)
	}
	if s.Vars != "" {
		b.WriteString(`,"variables":` + s.Vars)
	}
	b.WriteString(`}}`)
	return b.String()
}

func parseJSON(s string) any {
	d := json.NewDecoder(strings.NewReader(s))
	d.UseNumber()
	var v any
	if err := d.Decode(&v); err != nil {
		panic("identity menu: bad JSON " + s + ": " + err.Error())
	}
	return v
}

// value is the upstream input as a JSON value: what subscriptionInput produces.
func (s setup) value() any {
	m := parseJSON(s.template()).(map[string]any)
	if s.IP != "" {
		m["initial_payload"] = parseJSON(s.IP)
	}
	if s.Ext != "" {
		m["body"].(map[string]any)["extensions"] = parseJSON(s.Ext)
	}
	return m
}

func menu() []setup {
	base := setup{URL: "http://a.example/graphql", Query: "subscription{a}"}
	v := func(name string, f func(*setup)) setup { s := base; s.Name = name; f(&s); return s }
	return []setup{
		v("base", func(s *setup) {}),
		v("url-b", func(s *setup) { s.URL = "http://b.example/graphql" }),
		v("header-K1", func(s *setup) { s.Header = `{"X-K":["1"]}` }),
		v("header-K2", func(s *setup) { s.Header = `{"X-K":["2"]}` }),
		v("header-L1", func(s *setup) { s.Header = `{"X-L":["1"]}` }),
		v("query-b", func(s *setup) { s.Query = "subscription{b}" }),
		v("vars-id1", func(s *setup) { s.Vars = `{"id":1}` }),
		v("vars-id\"1\"", func(s *setup) { s.Vars = `{"id":"1"}` }),
		v("vars-id2", func(s *setup) { s.Vars = `{"id":2}` }),
		v("op-A", func(s *setup) { s.OpName = "A" }),
		v("op-B", func(s *setup) { s.OpName = "B" }),
		v("ws-graphql-ws", func(s *setup) { s.WsSub = "graphql-ws" }),
		v("ext-{}", func(s *setup) { s.Ext = `{}` }),
		v("ext-p1", func(s *setup) { s.Ext = `{"p":1}` }),
		v("ext-p2", func(s *setup) { s.Ext = `{"p":2}` }),
		v("ip-{}", func(s *setup) { s.IP = `{}` }),
		v("ip-null", func(s *setup) { s.IP = `null` }),
		v("ip-t\"42\"", func(s *setup) { s.IP = `{"t":"42"}` }),
		v("ip-t42", func(s *setup) { s.IP = `{"t":42}` }),
		v("ip-t\"43\"", func(s *setup) { s.IP = `{"t":"43"}` }),
		v("ip-nested-42", func(s *setup) { s.IP = `{"a":{"t":"42"}}` }),
		v("ip-nested-43", func(s *setup) { s.IP = `{"a":{"t":"43"}}` }),
		v("fwd-A1", func(s *setup) { s.Fwd = "X-A=1" }),
		v("fwd-A2", func(s *setup) { s.Fwd = "X-A=2" }),
		v("fwd-B1", func(s *setup) { s.Fwd = "X-B=1" }),
		v("ip-t\"42\"+fwd-A1", func(s *setup) { s.IP = `{"t":"42"}`; s.Fwd = "X-A=1" }),
		v("ip-t42+fwd-A1", func(s *setup) { s.IP = `{"t":42}`; s.Fwd = "X-A=1" }),
		v("vars-id1+ip-t\"42\"", func(s *setup) { s.Vars = `{"id":1}`; s.IP = `{"t":"42"}` }),
		// same JSON value as base, other bytes: reported, not judged (the trigger id is a hash of the rendered bytes)
		v("base-reordered", func(s *setup) { s.Raw = `{"body":{"query":"subscription{a}"},"url":"http://a.example/graphql"}` }),
	}
}

type fwdBuilder struct{ kv string }

func (b fwdBuilder) header() http.Header {
	k, v, _ := strings.Cut(b.kv, "=")
	return http.Header{k: []string{v}}
}
func (b fwdBuilder) HeadersForSubgraph(string) (http.Header, uint64) {
	return b.header(), vk.Hash("fwd:" + b.kv)
}
func (b fwdBuilder) HashAll() uint64 { return vk.Hash("fwd:" + b.kv) }

type idStart struct {
	n       int
	options graphql_datasource.GraphQLSubscriptionOptions
	updater resolve.SubscriptionUpdater
}

// recClient is the GraphQLSubscriptionClient: it records every upstream Start.
type recClient struct {
	mu     sync.Mutex
	starts []*idStart
}

func (c *recClient) Subscribe(ctx *resolve.Context, options graphql_datasource.GraphQLSubscriptionOptions, updater resolve.SubscriptionUpdater) error {
	c.mu.Lock()
	c.starts = append(c.starts, &idStart{n: len(c.starts) + 1, options: options, updater: updater})
	c.mu.Unlock()
	return nil
}

type idWriter struct {
	mu   sync.Mutex
	buf  []byte
	msgs []string
}

func (w *idWriter) Write(p []byte) (int, error) {
	w.mu.Lock()
	w.buf = append(w.buf, p...)
	w.mu.Unlock()
	return len(p), nil
}
func (w *idWriter) Flush() error {
	w.mu.Lock()
	w.msgs = append(w.msgs, string(w.buf))
	w.buf = nil
	w.mu.Unlock()
	return nil
}
func (w *idWriter) Complete()        {}
func (w *idWriter) Heartbeat() error { return nil }
func (w *idWriter) Error([]byte)     {}

type idErrWriter struct{}

func (idErrWriter) WriteError(ctx *resolve.Context, err error, res *resolve.GraphQLResponse, w io.Writer) {
	_, _ = w.Write([]byte("ERR:" + err.Error()))
	if f, ok := w.(interface{ Flush() error }); ok {
		_ = f.Flush()
	}
}

func idPlan(s setup, src resolve.SubscriptionDataSource) *resolve.GraphQLSubscription {
	return &resolve.GraphQLSubscription{
		Trigger: resolve.GraphQLSubscriptionTrigger{
			Source:         src,
			SourceName:     "sg",
			InputTemplate:  resolve.InputTemplate{Segments: []resolve.TemplateSegment{{SegmentType: resolve.StaticSegmentType, Data: []byte(s.template())}}},
			PostProcessing: resolve.PostProcessingConfiguration{SelectResponseDataPath: []string{"data"}, SelectResponseErrorsPath: []string{"errors"}},
		},
		Response: &resolve.GraphQLResponse{
			Data:    &resolve.Object{Fields: []*resolve.Field{{Name: []byte("v"), Value: &resolve.String{Path: []string{"v"}}}}},
			Fetches: resolve.Sequence(),
			Info:    &resolve.GraphQLResponseInfo{},
		},
	}
}

func idContext(s setup) *resolve.Context {
	c := resolve.NewContext(context.Background())
	if s.IP != "" {
		c.InitialPayload = []byte(s.IP)
	}
	if s.Ext != "" {
		c.Extensions = []byte(s.Ext)
	}
	if s.Fwd != "" {
		c.SubgraphHeadersBuilder = fwdBuilder{s.Fwd}
	}
	return c
}

// differs names the dimensions in which two set-ups differ (as JSON values).
func differs(a, b setup) []string {
	var d []string
	va, vb := a.value().(map[string]any), b.value().(map[string]any)
	get := func(m map[string]any, path ...string) any {
		var cur any = m
		for _, p := range path {
			mm, ok := cur.(map[string]any)
			if !ok {
				return nil
			}
			v, ok := mm[p]
			if !ok {
				return absent{}
			}
			cur = v
		}
		return cur
	}
	dims := []struct {
		name string
		path []string
	}{{"url", []string{"url"}}, {"configured header", []string{"header"}}, {"body.query", []string{"body", "query"}},
		{"body.operationName", []string{"body", "operationName"}}, {"body.variables", []string{"body", "variables"}},
		{"ws_sub_protocol", []string{"ws_sub_protocol"}}, {"body.extensions", []string{"body", "extensions"}},
		{"initial_payload", []string{"initial_payload"}}}
	for _, dm := range dims {
		if !reflect.DeepEqual(get(va, dm.path...), get(vb, dm.path...)) {
			d = append(d, dm.name)
		}
	}
	if len(d) == 0 && !reflect.DeepEqual(va, vb) {
		d = append(d, "input")
	}
	if a.Fwd != b.Fwd {
		d = append(d, "forwarded headers")
	}
	return d
}

// absent marks a missing member (distinct from null).
type absent struct{}

func sameBytes(a, b setup) bool {
	return a.template() == b.template() && a.IP == b.IP && a.Ext == b.Ext && a.Fwd == b.Fwd
}

// startedWith checks that upstream st was started with the input and headers of s.
func startedWith(st *idStart, s setup) string {
	want := s.value().(map[string]any)
	o := st.options
	raw := func(r json.RawMessage) any {
		if len(r) == 0 {
			return nil
		}
		return parseJSON(string(r))
	}
	var bad []string
	if o.URL != want["url"] {
		bad = append(bad, fmt.Sprintf("url %q", o.URL))
	}
	wip, hasIP := want["initial_payload"]
	if (hasIP && !reflect.DeepEqual(raw(o.InitialPayload), wip)) || (!hasIP && len(o.InitialPayload) != 0) {
		bad = append(bad, fmt.Sprintf("initial_payload %s", o.InitialPayload))
	}
	body := want["body"].(map[string]any)
	if o.Body.Query != body["query"] {
		bad = append(bad, fmt.Sprintf("body.query %q", o.Body.Query))
	}
	if on, _ := body["operationName"].(string); o.Body.OperationName != on {
		bad = append(bad, fmt.Sprintf("body.operationName %q", o.Body.OperationName))
	}
	if wv, ok := body["variables"]; (ok && !reflect.DeepEqual(raw(o.Body.Variables), wv)) || (!ok && len(o.Body.Variables) != 0) {
		bad = append(bad, fmt.Sprintf("body.variables %s", o.Body.Variables))
	}
	if we, ok := body["extensions"]; (ok && !reflect.DeepEqual(raw(o.Body.Extensions), we)) || (!ok && len(o.Body.Extensions) != 0) {
		bad = append(bad, fmt.Sprintf("body.extensions %s", o.Body.Extensions))
	}
	if ws, _ := want["ws_sub_protocol"].(string); o.WsSubProtocol != ws {
		bad = append(bad, fmt.Sprintf("ws_sub_protocol %q", o.WsSubProtocol))
	}
	// Start replaces the configured header by the forwarded ones
	var wantFwd http.Header
	if s.Fwd != "" {
		wantFwd = fwdBuilder{s.Fwd}.header()
	}
	if len(o.Header) != len(wantFwd) || (len(wantFwd) > 0 && !reflect.DeepEqual(o.Header, wantFwd)) {
		bad = append(bad, fmt.Sprintf("forwarded headers %v", o.Header))
	}
	return strings.Join(bad, ", ")
}

type idFinding struct{ clause, site, detail string }

// runPair subscribes a then b on a fresh resolver and reports (outcome, findings).
func runPair(a, b setup) (string, []idFinding, bool) {
	rctx, cancel := context.WithCancel(context.Background())
	r := resolve.New(rctx, resolve.ResolverOptions{MaxConcurrency: 8, AsyncErrorWriter: idErrWriter{}})
	client := &recClient{}
	src := graphql_datasource.VerifNewSubscriptionSource(client)
	wa, wb := &idWriter{}, &idWriter{}
	ida := resolve.SubscriptionIdentifier{ConnectionID: 1, SubscriptionID: 1}
	idb := resolve.SubscriptionIdentifier{ConnectionID: 2, SubscriptionID: 1}
	var fs []idFinding
	errA := r.AsyncResolveGraphQLSubscription(idContext(a), idPlan(a, src), wa, ida)
	synctest.Wait()
	errB := r.AsyncResolveGraphQLSubscription(idContext(b), idPlan(b, src), wb, idb)
	synctest.Wait()
	client.mu.Lock()
	starts := append([]*idStart(nil), client.starts...)
	client.mu.Unlock()
	for _, st := range starts {
		st.updater.Update([]byte(fmt.Sprintf(`{"data":{"v":"s%d"}}`, st.n)))
		synctest.Wait()
	}
	_ = r.UnsubscribeSubscription(ida)
	_ = r.UnsubscribeSubscription(idb)
	cancel()
	synctest.Wait()

	got := func(w *idWriter) []int {
		var out []int
		for _, m := range w.msgs {
			var n int
			if _, err := fmt.Sscanf(m, `{"data":{"v":"s%d"}}`, &n); err == nil {
				out = append(out, n)
			} else {
				out = append(out, -1)
			}
		}
		sort.Ints(out)
		return out
	}
	ga, gb := got(wa), got(wb)
	diff := differs(a, b)
	identical := sameBytes(a, b)
	rel := "identical"
	switch {
	case len(diff) > 0:
		rel = "differ in " + strings.Join(diff, "+")
	case !identical:
		rel = "same JSON value, other bytes"
	}
	obs := fmt.Sprintf("%d upstream start(s), first receives %v, second receives %v", len(starts), ga, gb)
	judged, wrongShare := true, false
	pair := fmt.Sprintf("first %q {template %s, initial_payload %q, extensions %q, forwarded %q} second %q {template %s, initial_payload %q, extensions %q, forwarded %q}",
		a.Name, a.template(), a.IP, a.Ext, a.Fwd, b.Name, b.template(), b.IP, b.Ext, b.Fwd)
	if errA != nil || errB != nil {
		fs = append(fs, idFinding{clShare, "subscribe failed", fmt.Sprintf("%s: errors %v / %v", pair, errA, errB)})
	}
	switch {
	case len(diff) == 0 && !identical:
		judged = false
	case len(diff) == 0:
		if len(starts) != 1 || !reflect.DeepEqual(ga, []int{1}) || !reflect.DeepEqual(gb, []int{1}) {
			fs = append(fs, idFinding{clShare, "identical input and headers", fmt.Sprintf("%s: %s", pair, obs)})
		}
	default:
		if len(starts) != 2 {
			// every dimension in which the pair differs was ignored by the trigger identity:
			// one finding per dimension (the pairs that differ in several collapse onto them)
			wrongShare = true
			for _, dm := range diff {
				fs = append(fs, idFinding{clDiffer, dm + " differs", fmt.Sprintf("%s: %s", pair, obs)})
			}
		} else if !reflect.DeepEqual(ga, []int{1}) || !reflect.DeepEqual(gb, []int{2}) {
			fs = append(fs, idFinding{clOwn, "events of the other subscriber's upstream", fmt.Sprintf("%s: %s", pair, obs)})
		}
	}
	// whatever a subscriber receives must come from an upstream started with its own input
	// (not repeated for a pair that already shares wrongly)
	for _, x := range []struct {
		s   setup
		got []int
		who string
	}{{a, ga, "first"}, {b, gb, "second"}} {
		for _, n := range x.got {
			if n < 1 || n > len(starts) {
				fs = append(fs, idFinding{clOwn, "unknown message", fmt.Sprintf("%s: %s", pair, obs)})
				continue
			}
			if bad := startedWith(starts[n-1], x.s); bad != "" && judged && !wrongShare {
				fs = append(fs, idFinding{clOwn, "upstream started with other input or headers than the subscriber's", fmt.Sprintf("%s: the %s subscriber receives the events of upstream start #%d, which was started with %s; %s", pair, x.who, n, bad, obs)})
			}
		}
	}
	shared := "separate upstreams"
	if len(starts) == 1 {
		shared = "one shared upstream"
	}
	return rel + " -> " + shared, fs, judged
}

// triggerIdentity is part E (see the file comment).
func triggerIdentity(run *vk.Run, expired func() bool) {
	defer createHookPart(run, expired)
	items := menu()
	run.Bound("E:menu_items", len(items))
	run.Bound("E:ordered_pairs", len(items)*len(items))
	if run.Replay != "" {
		var in struct {
			Scenario string `json:"scenario"`
			A, B     int
		}
		if err := run.ReplayInput(&in); err != nil || in.Scenario != idScen {
			return
		}
		for i := 0; i < 5; i++ {
			out, fs, _ := runPair(items[in.A], items[in.B])
			fmt.Printf("replay %d: %s | %s\n", i, items[in.A].Name+" / "+items[in.B].Name, out)
			for _, f := range fs {
				fmt.Printf("  FAILED [%s] site=%q\n    %s\n", f.clause, f.site, f.detail)
				run.Violate(vk.Violation{Clause: f.clause, Site: f.site, Class: idClass, Detail: f.detail})
			}
		}
		run.Eval(5)
		return
	}
	classes := map[string]int64{}
	for i := range items {
		for j := range items {
			k := int64(i*len(items) + j)
			if !run.Mine(k) {
				continue
			}
			if expired() {
				run.Cap("part E stopped by the internal deadline")
				return
			}
			out, fs, judged := runPair(items[i], items[j])
			run.Eval(1)
			run.Count("E:pairs", 1)
			cls := out
			if n := strings.Count(out, "+"); strings.HasPrefix(out, "differ in ") && n > 0 {
				cls = fmt.Sprintf("differ in %d dimensions%s", n+1, out[strings.Index(out, " -> "):])
			}
			classes[cls]++
			if !judged {
				run.Count("E:not_judged (same JSON value, other bytes: the trigger id hashes the rendered bytes)", 1)
			}
			if run.Outcome(idScen + " " + out) {
				run.Sample(idScen+" "+out, map[string]any{"first": items[i].Name, "second": items[j].Name, "outcome": out})
			}
			for _, f := range fs {
				// obligation (c): the pair must show the same finding five more times
				ok := true
				for n := 0; n < 5 && ok; n++ {
					_, rfs, _ := runPair(items[i], items[j])
					hit := false
					for _, g := range rfs {
						if g.clause == f.clause && g.site == f.site {
							hit = true
						}
					}
					ok = hit
				}
				if !ok {
					run.Count("unstable_violation_not_recorded", 1)
					continue
				}
				run.Violate(vk.Violation{Clause: f.clause, Site: f.site, Class: idClass,
					Detail: "part E (trigger identity of the real graphql_datasource.SubscriptionSource): " + f.detail,
					Input:  map[string]any{"scenario": idScen, "a": i, "b": j}})
			}
		}
	}
	var ks []string
	for k := range classes {
		ks = append(ks, k)
	}
	sort.Strings(ks)
	for _, k := range ks {
		run.Count("E:outcome "+k, classes[k])
	}
}

// ---------------------------------------------------------------------------
// Part E2: start hooks that REWRITE the upstream input (HookablePubsubDatasource.
// SubscriptionOnCreate), synchronous and asynchronous entry point. The sharing
// identity must be the input the upstream is started with: two live subscribers
// share one upstream iff their inputs are equal AFTER the hook.

const hkScen = "E-create-hook"

type hkStart struct {
	n     int
	input string
	up    resolve.SubscriptionUpdater
}

type hkTenant struct{}

// hookSource rewrites the input in SubscriptionOnCreate: mode bit 0 drops the
// member "x" (normalises), mode bit 1 adds the tenant found in the request context.
type hookSource struct {
	mode   int
	mu     sync.Mutex
	starts []*hkStart
}

func hkRewrite(mode int, input []byte, tenant string) []byte {
	var m map[string]any
	d := json.NewDecoder(strings.NewReader(string(input)))
	d.UseNumber()
	if err := d.Decode(&m); err != nil {
		return input
	}
	if mode&1 != 0 {
		delete(m, "x")
	}
	if mode&2 != 0 {
		m["tenant"] = tenant
	}
	if mode == 0 {
		return input
	}
	b, _ := json.Marshal(m) // keys sorted: canonical
	return b
}

func (s *hookSource) HashTriggerInput(input []byte, xxh *xxhash.Digest) error {
	_, err := xxh.Write(input)
	return err
}
func (s *hookSource) Start(ctx *resolve.Context, h http.Header, input []byte, up resolve.SubscriptionUpdater) error {
	s.mu.Lock()
	s.starts = append(s.starts, &hkStart{n: len(s.starts) + 1, input: string(input), up: up})
	s.mu.Unlock()
	return nil
}
func (s *hookSource) SubscriptionOnStart(ctx resolve.StartupHookContext, input []byte) error {
	return nil
}
func (s *hookSource) SubscriptionOnCreate(ctx context.Context, input []byte) ([]byte, error) {
	tenant, _ := ctx.Value(hkTenant{}).(string)
	return hkRewrite(s.mode, input, tenant), nil
}

type hkSub struct {
	Input  string
	Tenant string
	Sync   bool
}

func hkPlan(in string, src resolve.SubscriptionDataSource) *resolve.GraphQLSubscription {
	return &resolve.GraphQLSubscription{
		Trigger: resolve.GraphQLSubscriptionTrigger{Source: src, SourceName: "sg",
			InputTemplate:  resolve.InputTemplate{Segments: []resolve.TemplateSegment{{SegmentType: resolve.StaticSegmentType, Data: []byte(in)}}},
			PostProcessing: resolve.PostProcessingConfiguration{SelectResponseDataPath: []string{"data"}, SelectResponseErrorsPath: []string{"errors"}}},
		Response: &resolve.GraphQLResponse{Data: &resolve.Object{Fields: []*resolve.Field{{Name: []byte("v"), Value: &resolve.String{Path: []string{"v"}}}}},
			Fetches: resolve.Sequence(), Info: &resolve.GraphQLResponseInfo{}},
	}
}

func runHookPair(mode int, a, b hkSub) (string, []idFinding) {
	rctx, cancel := context.WithCancel(context.Background())
	r := resolve.New(rctx, resolve.ResolverOptions{MaxConcurrency: 8, AsyncErrorWriter: idErrWriter{}})
	src := &hookSource{mode: mode}
	subs := []hkSub{a, b}
	ws := []*idWriter{{}, {}}
	var stops []context.CancelFunc
	var errs [2]error
	var wg sync.WaitGroup
	for i, s := range subs {
		cctx, stop := context.WithCancel(context.WithValue(context.Background(), hkTenant{}, s.Tenant))
		stops = append(stops, stop)
		c := resolve.NewContext(cctx)
		if s.Sync {
			wg.Add(1)
			go func(i int, s hkSub) {
				defer wg.Done()
				errs[i] = r.ResolveGraphQLSubscription(c, hkPlan(s.Input, src), ws[i])
			}(i, s)
		} else {
			errs[i] = r.AsyncResolveGraphQLSubscription(c, hkPlan(s.Input, src), ws[i], resolve.SubscriptionIdentifier{ConnectionID: resolve.ConnectionID(100 + i), SubscriptionID: 1})
		}
		synctest.Wait()
	}
	src.mu.Lock()
	starts := append([]*hkStart(nil), src.starts...)
	src.mu.Unlock()
	for _, st := range starts {
		st.up.Update([]byte(fmt.Sprintf(`{"data":{"v":"s%d"}}`, st.n)))
		synctest.Wait()
	}
	for i, s := range subs {
		stops[i]()
		if !s.Sync {
			_ = r.UnsubscribeSubscription(resolve.SubscriptionIdentifier{ConnectionID: resolve.ConnectionID(100 + i), SubscriptionID: 1})
		}
	}
	synctest.Wait()
	cancel()
	wg.Wait()
	synctest.Wait()

	got := func(w *idWriter) []int {
		var out []int
		for _, m := range w.msgs {
			var n int
			if _, err := fmt.Sscanf(m, `{"data":{"v":"s%d"}}`, &n); err == nil {
				out = append(out, n)
			} else {
				out = append(out, -1)
			}
		}
		sort.Ints(out)
		return out
	}
	ga, gb := got(ws[0]), got(ws[1])
	fa, fb := string(hkRewrite(mode, []byte(a.Input), a.Tenant)), string(hkRewrite(mode, []byte(b.Input), b.Tenant))
	rel := func(eq bool) string {
		if eq {
			return "equal"
		}
		return "different"
	}
	entry := "asynchronous entry point only"
	if a.Sync || b.Sync {
		entry = "synchronous entry point involved"
	}
	relation := fmt.Sprintf("inputs %s before the create hook and %s after it, %s", rel(a.Input == b.Input), rel(fa == fb), entry)
	var sin []string
	for _, st := range starts {
		sin = append(sin, st.input)
	}
	obs := fmt.Sprintf("%d upstream start(s) with %v, first receives %v, second receives %v", len(starts), sin, ga, gb)
	ep := func(s hkSub) string {
		if s.Sync {
			return "ResolveGraphQLSubscription"
		}
		return "AsyncResolveGraphQLSubscription"
	}
	pair := fmt.Sprintf("hook mode %d (1: drops x, 2: adds the tenant of the request context); first %s input %s tenant %s -> %s; second %s input %s tenant %s -> %s",
		mode, ep(a), a.Input, a.Tenant, fa, ep(b), b.Input, b.Tenant, fb)
	var fs []idFinding
	if errs[0] != nil || errs[1] != nil {
		// a synchronous call returns the resolver's context error at tear-down: only errors of the asynchronous call count
		for i, s := range subs {
			if !s.Sync && errs[i] != nil {
				fs = append(fs, idFinding{clShare, "subscribe failed", fmt.Sprintf("%s: %v", pair, errs[i])})
			}
		}
	}
	if fa == fb {
		if len(starts) != 1 || starts[0].input != fa || !reflect.DeepEqual(ga, []int{1}) || !reflect.DeepEqual(gb, []int{1}) {
			fs = append(fs, idFinding{clShare, relation, fmt.Sprintf("%s: %s", pair, obs)})
		}
	} else {
		switch {
		case len(starts) != 2:
			fs = append(fs, idFinding{clDiffer, relation, fmt.Sprintf("%s: %s", pair, obs)})
		case starts[0].input != fa || starts[1].input != fb || !reflect.DeepEqual(ga, []int{1}) || !reflect.DeepEqual(gb, []int{2}):
			fs = append(fs, idFinding{clOwn, relation, fmt.Sprintf("%s: %s", pair, obs)})
		}
	}
	shared := "separate upstreams"
	if len(starts) == 1 {
		shared = "one shared upstream"
	}
	return relation + " -> " + shared, fs
}

func hookCases() (modes []int, subs []hkSub) {
	modes = []int{0, 1, 2, 3}
	for _, in := range []string{`{"t":"A","x":1}`, `{"t":"A","x":2}`, `{"t":"B","x":1}`} {
		for _, tn := range []string{"T1", "T2"} {
			subs = append(subs, hkSub{Input: in, Tenant: tn})
		}
	}
	return
}

// hkCase decodes case number k into (mode, first, second).
func hkCase(k int) (int, hkSub, hkSub) {
	modes, subs := hookCases()
	n := len(subs)
	entry := k % 4
	k /= 4
	j := k % n
	k /= n
	i := k % n
	k /= n
	a, b := subs[i], subs[j]
	a.Sync, b.Sync = entry&1 != 0, entry&2 != 0
	return modes[k%len(modes)], a, b
}

func createHookPart(run *vk.Run, expired func() bool) {
	modes, subs := hookCases()
	total := len(modes) * len(subs) * len(subs) * 4
	run.Bound("E2:hook_pair_cases(rewrite modes x ordered pairs x entry points)", total)
	if run.Replay != "" {
		var in struct {
			Scenario string `json:"scenario"`
			Case     int    `json:"case"`
		}
		if err := run.ReplayInput(&in); err != nil || in.Scenario != hkScen {
			return
		}
		for i := 0; i < 5; i++ {
			m, a, b := hkCase(in.Case)
			out, fs := runHookPair(m, a, b)
			fmt.Printf("replay %d: case %d: %s\n", i, in.Case, out)
			for _, f := range fs {
				fmt.Printf("  FAILED [%s] site=%q\n    %s\n", f.clause, f.site, f.detail)
				run.Violate(vk.Violation{Clause: f.clause, Site: f.site, Class: "create hook rewrites the upstream input", Detail: f.detail})
			}
		}
		run.Eval(5)
		return
	}
	classes := map[string]int64{}
	for k := 0; k < total; k++ {
		if !run.Mine(int64(k)) {
			continue
		}
		if expired() {
			run.Cap("part E2 stopped by the internal deadline")
			return
		}
		m, a, b := hkCase(k)
		out, fs := runHookPair(m, a, b)
		run.Eval(1)
		run.Count("E2:cases", 1)
		classes[out]++
		run.Outcome(hkScen + " " + out)
		for _, f := range fs {
			ok := true
			for n := 0; n < 5 && ok; n++ {
				_, rfs := runHookPair(m, a, b)
				hit := false
				for _, g := range rfs {
					if g.clause == f.clause && g.site == f.site {
						hit = true
					}
				}
				ok = hit
			}
			if !ok {
				run.Count("unstable_violation_not_recorded", 1)
				continue
			}
			run.Violate(vk.Violation{Clause: f.clause, Site: f.site, Class: "create hook rewrites the upstream input",
				Detail: "part E2 (input-rewriting SubscriptionOnCreate hook, sync and async entry point): " + f.detail,
				Input:  map[string]any{"scenario": hkScen, "case": k}})
		}
	}
	var ks []string
	for k := range classes {
		ks = append(ks, k)
	}
	sort.Strings(ks)
	for _, k := range ks {
		run.Count("E2:outcome "+k, classes[k])
	}
}
