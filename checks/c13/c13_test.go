// Check C13: subscription triggers are shared, started once, and always cleaned
// up. Same harness and histories as C12 (verif/internal/subharness) plus the
// start-failure / hook-failure / blocked-start / shutdown-vs-start-up scenarios;
// this check judges the C13 clauses (sharing, one Start per live trigger,
// quiescence: registry empty, counts balanced, contexts cancelled, every
// subscriber completed, nothing blocked). Part E (identity_test.go) drives the
// real graphql_datasource.SubscriptionSource through the real trigger-id path.
package c13

import (
	"testing"

	"verif/internal/subharness"
)

func TestCheck(t *testing.T) { subharness.RunWith(t, "C13", triggerIdentity) }
