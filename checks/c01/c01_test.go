// Check C01: federated execution equals monolithic execution of the supergraph.
// Engine E + fedlab: layouts x operations x decorations, every case executed by
// the real ExecutionEngine over the simulated subgraphs (R2) and compared with
// the reference executor R1 on the whole universe.
package c01

import (
	"context"
	"encoding/json"
	"fmt"
	"os"
	"regexp"
	"sort"
	"strings"
	"testing"
	"time"

	"github.com/vektah/gqlparser/v2"
	gast "github.com/vektah/gqlparser/v2/ast"

	"verif/internal/fedlab"
	"verif/internal/refexec"
	"verif/internal/vk"
)

type family struct {
	base    []int // owner vector of the base layout
	name    string
	s       *fedlab.Supergraph
	u       *fedlab.Universe
	schema  *gast.Schema
	layouts []*fedlab.Layout
	ops     []*fedlab.Op
	// opFilter, when set, selects the base operations run on a layout
	opFilter func(l *fedlab.Layout, op *fedlab.Op) bool
}

func argMenuCore(t, f string) [][]fedlab.ArgUse {
	switch t + "." + f {
	case "Query.user":
		return [][]fedlab.ArgUse{{{Name: "id", Value: `"u3"`}}, {{Name: "id", Value: `"nope"`}}}
	case "Query.topProducts":
		return [][]fedlab.ArgUse{nil, {{Name: "first", Value: "1"}}}
	case "User.greeting":
		return [][]fedlab.ArgUse{nil, {{Name: "style", Value: "LOUD"}, {Name: "times", Value: "2"}}}
	case "Mutation.touch":
		return [][]fedlab.ArgUse{{{Name: "id", Value: `"u3"`}, {Name: "note", Value: `"n"`}}}
	}
	return nil
}

func mustSchema(sdl string) *gast.Schema {
	s, err := gqlparser.LoadSchema(&gast.Source{Input: sdl})
	if err != nil {
		panic(err)
	}
	return s
}

func coreFamily(run *vk.Run) *family {
	s := fedlab.SCore()
	f := &family{name: "S-core", s: s, u: fedlab.SCoreUniverse(s), schema: mustSchema(s.SDL())}
	d := s.Distributable()
	base := make([]int, len(d))
	for i, r := range d {
		if r.Type == "Product" || r.Field == "topProducts" {
			base[i] = 1
		}
	}
	f.base = base
	f.layouts = append(f.layouts, fedlab.NewLayout(s, 1, make([]int, len(d)), "mono"))
	if run.Thorough() {
		f.layouts = append(f.layouts, fedlab.NearLayouts(s, 2, base, 2)...)
		f.layouts = append(f.layouts, fedlab.NearLayouts(s, 3, base, 1)[1:]...)
	} else {
		f.layouts = append(f.layouts, fedlab.NearLayouts(s, 2, base, 1)...)
	}
	// @provides variants of the base layout
	for _, pv := range []fedlab.FieldRef{{Type: "Review", Field: "author"}} {
		_ = pv
	}
	widths := vk.Pick(run, []int{1, 2, 1}, []int{1, 2, 2})
	f.ops = fedlab.GenOps(fedlab.GenConfig{Schema: f.schema, Widths: widths, ArgMenu: argMenuCore}, "query")
	f.ops = append(f.ops, fedlab.GenOps(fedlab.GenConfig{Schema: f.schema, Widths: []int{1, 2, 1}, ArgMenu: argMenuCore}, "mutation")...)
	return f
}

type caseResult struct {
	clause, site, detail string
}

// judge runs one (lab, op) case.
func judge(f *family, lab *fedlab.Lab, op *fedlab.Op) (outcome string, fails []caseResult) {
	return judgeText(f, lab, op.String(), op.Name, op.Vars)
}

func judgeText(f *family, lab *fedlab.Lab, q, opName string, opVars map[string]any) (outcome string, fails []caseResult) {
	doc, errs := gqlparser.LoadQuery(f.schema, q)
	if errs != nil {
		return "invalid-by-gqlparser", []caseResult{{"generator produced an operation gqlparser rejects (harness bug)", "generator", q + ": " + errs.Error()}}
	}
	vars := map[string]any{}
	for k, v := range opVars {
		vars[k] = v
	}
	kind := "Query"
	for _, o := range doc.Operations {
		if (opName == "" || o.Name == opName) && o.Operation == gast.Mutation {
			kind = "Mutation"
		}
		if (opName == "" || o.Name == opName) && o.Operation == gast.Subscription {
			return judgeSubscription(f, lab, q, opName, opVars, doc, o)
		}
	}
	var vj []byte
	if len(opVars) > 0 {
		vj, _ = json.Marshal(opVars)
	}
	coordAt := map[string]string{}
	ref := refexec.Execute(f.schema, doc, fedlab.Mono{U: f.u}, refexec.Options{OperationName: opName, Variables: vars, Root: fedlab.RootObj(kind),
		OnField: func(path []any, parentType string, parent fedlab.Obj, fd *gast.Field) {
			coordAt[pathNoIndex(path)] = parentType + "." + fd.Name
		}})
	out, reqs, err := lab.Exec(q, opName, vj)
	if err != nil {
		return "engine-error", []caseResult{{"planning such an operation never fails", "Execute returned an error", fmt.Sprintf("%v", firstLine(err.Error()))}}
	}
	gw, perr := decode(out)
	if perr != nil {
		return "bad-json", []caseResult{{"response is a JSON value", "response bytes", perr.Error() + ": " + string(out)}}
	}
	gwData := refexec.Canon(gw["data"])
	refData := refexec.Canon(ref.Data)
	_, gwHasErr := gw["errors"]
	refHasErr := len(ref.Errors) > 0
	if gwData != refData {
		fails = append(fails, caseResult{"gateway data equals the data of a single server owning all the data", diffCoord(gw["data"], ref.Data, coordAt), fmt.Sprintf("gateway: %s\nreference: %s", gwData, refData)})
	} else if gwHasErr != refHasErr {
		fails = append(fails, caseResult{"gateway reports errors exactly when the single server would", fmt.Sprintf("gateway errors=%v reference errors=%v", gwHasErr, refHasErr), fmt.Sprintf("gateway: %s\nreference errors: %v", out, ref.Errors)})
	}
	for _, r := range reqs {
		for _, p := range r.Problems {
			fails = append(fails, caseResult{"every subgraph request is a valid operation of that subgraph asking only for fields it owns", problemSite(p), p + "\nrequest: " + r.Query + " variables " + refexec.Canon(r.Variables)})
		}
	}
	outcome = fmt.Sprintf("reqs=%d err=%v", len(reqs), gwHasErr)
	return outcome, fails
}

// judgeSubscription: every update frame the gateway delivers must equal the
// reference executor's answer for that upstream event.
func judgeSubscription(f *family, lab *fedlab.Lab, q, opName string, opVars map[string]any, doc *gast.QueryDocument, op *gast.OperationDefinition) (string, []caseResult) {
	var vj []byte
	if len(opVars) > 0 {
		vj, _ = json.Marshal(opVars)
	}
	rootField := ""
	for _, sel := range op.SelectionSet {
		if fd, ok := sel.(*gast.Field); ok && rootField == "" {
			rootField = fd.Name
		}
	}
	if rootField == "" {
		return "subscription-without-plain-root-field", nil
	}
	for _, sel := range op.SelectionSet {
		// @skip/@include at the root of a subscription: later editions of the
		// specification forbid it, the October 2021 text is silent - not judged
		if fd, ok := sel.(*gast.Field); ok && (fd.Directives.ForName("skip") != nil || fd.Directives.ForName("include") != nil) {
			return "not-judged: skip/include on a subscription root field", nil
		}
		if _, ok := sel.(*gast.Field); !ok {
			return "not-judged: fragment at the root of a subscription", nil
		}
	}
	ctx, cancel := context.WithTimeout(context.Background(), 30*time.Second)
	defer cancel()
	w, reqs, err := lab.ExecStream(ctx, q, opName, vj)
	if err != nil {
		return "engine-error", []caseResult{{"planning such an operation never fails", "Execute returned an error (subscription)", firstLine(err.Error())}}
	}
	var fails []caseResult
	n := f.u.Events(rootField)
	if len(w.Frames) != n || w.Completes != 1 {
		return "frames", []caseResult{{"gateway data equals the data of a single server owning all the data", "number of subscription updates", fmt.Sprintf("%d frames, %d completes for %d upstream events: %v", len(w.Frames), w.Completes, n, w.Frames)}}
	}
	for i, fr := range w.Frames {
		vars := map[string]any{}
		for k, v := range opVars {
			vars[k] = v
		}
		ref := refexec.Execute(f.schema, doc, fedlab.Mono{U: f.u, Event: i}, refexec.Options{OperationName: opName, Variables: vars, Root: fedlab.RootObj("Subscription")})
		gw, perr := decode([]byte(fr))
		if perr != nil {
			fails = append(fails, caseResult{"response is a JSON value", "subscription frame", fr})
			continue
		}
		if g, r := refexec.Canon(gw["data"]), refexec.Canon(ref.Data); g != r {
			fails = append(fails, caseResult{"gateway data equals the data of a single server owning all the data", "subscription update", fmt.Sprintf("event %d\ngateway: %s\nreference: %s", i, g, r)})
			break
		}
		if _, has := gw["errors"]; has != (len(ref.Errors) > 0) {
			fails = append(fails, caseResult{"gateway reports errors exactly when the single server would", fmt.Sprintf("subscription update: gateway errors=%v reference errors=%v", has, len(ref.Errors) > 0), fr})
			break
		}
	}
	for _, r := range reqs {
		for _, p := range r.Problems {
			fails = append(fails, caseResult{"every subgraph request is a valid operation of that subgraph asking only for fields it owns", problemSite(p), p + "\nrequest: " + r.Query})
		}
	}
	return fmt.Sprintf("sub frames=%d reqs=%d", len(w.Frames), len(reqs)), fails
}

func distance(a, b []int) int {
	if len(a) != len(b) {
		return 99
	}
	d := 0
	for i := range a {
		if a[i] != b[i] {
			d++
		}
	}
	return d
}

func suffixOf(name string) string {
	if strings.HasSuffix(name, "+nullentities") {
		return "+nullentities"
	}
	return ""
}

func firstLine(s string) string {
	if i := strings.IndexByte(s, '\n'); i >= 0 {
		return s[:i]
	}
	return s
}

func problemSite(p string) string {
	for _, k := range []string{"does not parse", "not valid for the subgraph schema", "does not own", "outside an _entities lookup", "misses @requires inputs", "without __typename", "no resolvable key", "no complete resolvable key", "does not identify", "not JSON"} {
		if strings.Contains(p, k) {
			return k
		}
	}
	return "other"
}

func decode(b []byte) (map[string]any, error) {
	c, err := refexec.CanonJSON(b)
	if err != nil {
		return nil, err
	}
	_ = c
	return refexec.DecodeObject(b)
}

// diffSite names the first differing position by its path with list indices
// replaced by [].
func diffSite(a, b any) string {
	p := firstDiff(a, b, nil)
	var parts []string
	for _, x := range p {
		if _, ok := x.(int); ok {
			parts = append(parts, "[]")
		} else {
			parts = append(parts, fmt.Sprint(x))
		}
	}
	return "data." + strings.Join(parts, ".")
}

func pathNoIndex(p []any) string {
	var parts []string
	for _, x := range p {
		if _, ok := x.(int); ok {
			continue
		}
		parts = append(parts, fmt.Sprint(x))
	}
	return strings.Join(parts, ".")
}

// diffCoord names the first differing position by the schema coordinate of the
// field it belongs to (aliases and list indices do not change the site).
func diffCoord(a, b any, coordAt map[string]string) string {
	p := firstDiff(a, b, nil)
	for n := len(p); n > 0; n-- {
		if c, ok := coordAt[pathNoIndex(p[:n])]; ok {
			return "first difference at a " + c + " position"
		}
	}
	return "first difference at the root"
}

func firstDiff(a, b any, path []any) []any {
	if refexec.Canon(a) == refexec.Canon(b) {
		return nil
	}
	switch x := a.(type) {
	case map[string]any:
		y, ok := b.(map[string]any)
		if !ok {
			return path
		}
		keys := map[string]bool{}
		for k := range x {
			keys[k] = true
		}
		for k := range y {
			keys[k] = true
		}
		ks := make([]string, 0, len(keys))
		for k := range keys {
			ks = append(ks, k)
		}
		sort.Strings(ks)
		for _, k := range ks {
			xv, xo := x[k]
			yv, yo := y[k]
			if xo != yo {
				return append(path, k)
			}
			if d := firstDiff(xv, yv, append(path, k)); d != nil {
				return d
			}
		}
	case []any:
		y, ok := b.([]any)
		if !ok || len(x) != len(y) {
			return path
		}
		for i := range x {
			if d := firstDiff(x[i], y[i], append(path, i)); d != nil {
				return d
			}
		}
	}
	return path
}

// usesAllSubgraphs: every subgraph of the layout owns at least one field (an
// empty subgraph is not a configuration).
func usesAllSubgraphs(l *fedlab.Layout) bool {
	used := map[int]bool{}
	for _, o := range l.OwnerVector() {
		used[o] = true
	}
	return len(used) == l.N
}

func nearFamily(run *vk.Run, name string, s *fedlab.Supergraph, u *fedlab.Universe, base func(fedlab.FieldRef) int, menu func(t, f string) [][]fedlab.ArgUse, provides []fedlab.FieldRef, widthsQ, widthsT []int) *family {
	f := &family{name: name, s: s, u: u, schema: mustSchema(s.SDL())}
	d := s.Distributable()
	bv := make([]int, len(d))
	for i, r := range d {
		bv[i] = base(r)
	}
	f.base = bv
	f.layouts = append(f.layouts, fedlab.NewLayout(s, 1, make([]int, len(d)), "mono"))
	if run.Thorough() {
		f.layouts = append(f.layouts, fedlab.NearLayouts(s, 2, bv, 2)...)
		// three subgraphs: only the assignments that give the third one something
		for _, l := range fedlab.NearLayouts(s, 3, bv, 1)[1:] {
			if usesAllSubgraphs(l) {
				f.layouts = append(f.layouts, l)
			}
		}
	} else {
		f.layouts = append(f.layouts, fedlab.NearLayouts(s, 2, bv, 1)...)
	}
	// the base layout with every key-only mention of an entity declared
	// resolvable:false, and with each entity field additionally shared
	// (@shareable) by another subgraph
	if len(f.layouts) > 1 {
		base2 := f.layouts[1]
		stub := fedlab.NewLayout(s, base2.N, base2.OwnerVector(), base2.Name+"+stubs")
		for _, t := range s.Types {
			if !t.IsEntity() {
				continue
			}
			for sg := 0; sg < base2.N; sg++ {
				ownsAny := false
				for _, r := range d {
					if r.Type == t.Name && base2.Owner[r] == sg {
						ownsAny = true
					}
				}
				if !ownsAny {
					stub.Unresolv[t.Name] = append(stub.Unresolv[t.Name], sg)
				}
			}
		}
		f.layouts = append(f.layouts, stub)
		// subgraphs answer null for entities they hold no data for
		f.layouts = append(f.layouts, fedlab.NewLayout(s, base2.N, base2.OwnerVector(), base2.Name+"+nullentities"))
		for _, r := range d {
			t := s.Type(r.Type)
			if !t.IsEntity() || t.Field(r.Field).Requires != "" {
				continue
			}
			c := fedlab.NewLayout(s, base2.N, base2.OwnerVector(), base2.Name+"+shared:"+r.String())
			c.Shared[r] = []int{(base2.Owner[r] + 1) % base2.N}
			f.layouts = append(f.layouts, c)
		}
	}
	// every layout again with the optional @provides edges switched on
	if len(provides) > 0 {
		n := len(f.layouts)
		for _, l := range f.layouts[1:n] {
			if strings.Contains(l.Name, "+") {
				continue
			}
			c := fedlab.NewLayout(s, l.N, l.OwnerVector(), l.Name+"+provides")
			for _, pv := range provides {
				c.Provides[pv] = true
			}
			f.layouts = append(f.layouts, c)
		}
	}
	f.ops = fedlab.GenOps(fedlab.GenConfig{Schema: f.schema, Widths: vk.Pick(run, widthsQ, widthsT), ArgMenu: menu}, "query")
	if f.schema.Mutation != nil {
		f.ops = append(f.ops, fedlab.GenOps(fedlab.GenConfig{Schema: f.schema, Widths: widthsQ, ArgMenu: menu}, "mutation")...)
	}
	if f.schema.Subscription != nil {
		f.ops = append(f.ops, fedlab.GenOps(fedlab.GenConfig{Schema: f.schema, Widths: widthsQ, ArgMenu: menu}, "subscription")...)
	}
	return f
}

// keysFamily: S-keys - one entity whose keys every subgraph declares
// differently (subset of the keys, @external members, extra key fields, an
// entry field that @provides an external member); all satisfiable assignments.
func keysFamily(run *vk.Run) *family {
	s := fedlab.SKeys()
	f := &family{name: "S-keys", s: s, u: fedlab.SKeysUniverse(s), schema: mustSchema(s.SDL())}
	d := s.Distributable()
	f.base = make([]int, len(d))
	f.layouts = append(f.layouts, fedlab.NewLayout(s, 1, make([]int, len(d)), "mono"))
	owners := func(n int) []int {
		v := make([]int, len(d))
		for i, r := range d {
			switch r.String() {
			case "Query.newest", "Product.price":
				v[i] = 1
			case "Product.stock":
				v[i] = n - 1
			}
		}
		return v
	}
	newest := fedlab.FieldRef{Type: "Query", Field: "newest"}
	f.layouts = append(f.layouts, fedlab.KeyLayouts(s, "Product", 2, owners(2), newest, -1)...)
	// three subgraphs (routes of two jumps): at most one subgraph with an
	// @external member / extra key field; quick runs only the single-field
	// selections below products and newest on them
	f.layouts = append(f.layouts, fedlab.KeyLayouts(s, "Product", 3, owners(3), newest, 1)...)
	if !run.Thorough() {
		f.opFilter = func(l *fedlab.Layout, op *fedlab.Op) bool {
			if l.N < 3 {
				return true
			}
			return len(op.Sel) == 1 && op.Sel[0].Name != "product" && len(op.Sel[0].Sub) == 1
		}
	}
	menu := func(t, fn string) [][]fedlab.ArgUse {
		if t+"."+fn == "Query.product" {
			return [][]fedlab.ArgUse{{{Name: "sku", Value: `"s2"`}}, {{Name: "sku", Value: `"nope"`}}}
		}
		return nil
	}
	f.ops = fedlab.GenOps(fedlab.GenConfig{Schema: f.schema, Widths: []int{1, 2}, ArgMenu: menu}, "query")
	return f
}

var keysOpRe = regexp.MustCompile(`^\{(\w+)(?:\([^)]*\))? \{([^{}]*)\}\}$`)

// violationClass: the family name; for S-keys refined by the shape of the key
// routes the case needs (known planner limitations are recorded per shape).
func violationClass(f *family, l *fedlab.Layout, opText string) string {
	if f.name != "S-keys" || l.KeyUse == nil {
		return f.name
	}
	m := keysOpRe.FindStringSubmatch(opText)
	if m == nil {
		return f.name
	}
	return f.name + ": " + l.KeyRouteClass("Product", fedlab.FieldRef{Type: "Query", Field: m[1]}, strings.Fields(m[2]))
}

func families(run *vk.Run) []*family {
	core := fedlab.SCore()
	abs := fedlab.SAbs()
	req := fedlab.SReq()
	return []*family{
		nearFamily(run, "S-core", core, fedlab.SCoreUniverse(core), func(r fedlab.FieldRef) int {
			if r.Type == "Product" || r.Field == "topProducts" {
				return 1
			}
			return 0
		}, argMenuCore, []fedlab.FieldRef{{Type: "Review", Field: "author"}}, []int{1, 2, 1}, []int{1, 2, 2}),
		nearFamily(run, "S-abs", abs, fedlab.SAbsUniverse(abs), func(r fedlab.FieldRef) int {
			if r.Type == "Book" || r.Field == "search" || r.String() == "Author.name" {
				return 1
			}
			return 0
		}, func(t, f string) [][]fedlab.ArgUse {
			if t+"."+f == "Query.node" {
				return [][]fedlab.ArgUse{{{Name: "id", Value: `"b1"`}}, {{Name: "id", Value: `"a2"`}}}
			}
			return nil
		}, nil, []int{1, 2, 1}, []int{1, 2, 2}),
		nearFamily(run, "S-req", req, fedlab.SReqUniverse(req), func(r fedlab.FieldRef) int {
			switch r.String() {
			case "Item.shipping", "Item.volume", "Query.boxes", "Box.size", "Box.content":
				return 1
			}
			return 0
		}, func(t, f string) [][]fedlab.ArgUse {
			if t+"."+f == "Query.item" {
				return [][]fedlab.ArgUse{{{Name: "id", Value: `"i2"`}}}
			}
			return nil
		}, nil, []int{1, 2, 1}, []int{1, 2, 2}),
		keysFamily(run),
		shapesFamily(run),
		ireqFamily(run),
		nreqFamily(run),
		areqFamily(run),
		nvFamily(run),
	}
}

// nvFamily: S-nv - a subgraph that declares key / member fields stricter than the
// supergraph (ID! vs ID); curated operations select different member fields of
// the union under one alias (valid against the supergraph, conflicting in the
// subgraph's own schema).
func nvFamily(run *vk.Run) *family {
	s := fedlab.SNV()
	f := &family{name: "S-nv", s: s, u: fedlab.SNVUniverse(s), schema: mustSchema(s.SDL())}
	d := s.Distributable()
	strict := func(l *fedlab.Layout, sgs ...int) *fedlab.Layout {
		l.SubgraphType = map[fedlab.FieldRef]map[int]string{}
		for _, r := range []fedlab.FieldRef{{Type: "User", Field: "id"}, {Type: "Admin", Field: "id"}} {
			l.SubgraphType[r] = map[int]string{}
			for _, sg := range sgs {
				l.SubgraphType[r][sg] = "ID!"
			}
		}
		return l
	}
	mk := func(n int, name string, where map[string]int) *fedlab.Layout {
		return fedlab.ByType(s, n, func(r fedlab.FieldRef) int { return where[r.String()] }, name)
	}
	f.layouts = []*fedlab.Layout{
		fedlab.NewLayout(s, 1, make([]int, len(d)), "mono"),
		strict(mk(2, "near0", map[string]int{"User.nick": 1, "Admin.level": 1}), 0, 1), // decorated in both tiers
		strict(mk(2, "strict-entry", map[string]int{"User.nick": 1, "Admin.level": 1}), 0),
		strict(mk(2, "strict-remote", map[string]int{"User.nick": 1, "Admin.level": 1, "Admin.code": 1}), 1),
		strict(fedlab.NewLayout(s, 1, make([]int, len(d)), "mono-strict"), 0),
	}
	f.base = f.layouts[1].OwnerVector()
	f.ops = fedlab.GenOps(fedlab.GenConfig{Schema: f.schema, Widths: vk.Pick(run, []int{1, 2, 1}, []int{1, 3, 1})}, "query")
	for _, root := range []string{"things", "thing"} {
		for _, q := range []string{
			`{ ` + root + ` { ... on User { ref: id } ... on Admin { ref: code } } }`,
			`{ ` + root + ` { ... on Admin { ref: code } ... on User { ref: id } } }`,
			`{ ` + root + ` { __typename ... on User { ref: id name } ... on Admin { ref: code level } } }`,
			`{ ` + root + ` { ... on User { ref: id nick } ... on Admin { ref: id code } } }`,
			`{ ` + root + ` { ... on User { a: name b: id } ... on Admin { a: level b: code } } }`,
			`{ ` + root + ` { ... on User { x: nick } ... on Admin { x: level } } }`,
		} {
			f.ops = append(f.ops, &fedlab.Op{Kind: "query", Raw: q})
		}
	}
	return f
}

// areqFamily: S-areq - @requires field sets whose fields carry arguments, the
// client selecting the same fields with the same / another / no argument value.
func areqFamily(run *vk.Run) *family {
	s := fedlab.SAReq()
	f := &family{name: "S-areq", s: s, u: fedlab.SAReqUniverse(s), schema: mustSchema(s.SDL())}
	d := s.Distributable()
	mk := func(n int, name string, where map[string]int) *fedlab.Layout {
		return fedlab.ByType(s, n, func(r fedlab.FieldRef) int { return where[r.String()] }, name)
	}
	f.layouts = []*fedlab.Layout{
		fedlab.NewLayout(s, 1, make([]int, len(d)), "mono"),
		mk(2, "near0", map[string]int{"Parcel.shipping": 1, "Parcel.label": 1, "Parcel.box": 1}), // decorated in both tiers
		mk(2, "weight-remote", map[string]int{"Parcel.weight": 1}),
		mk(3, "chain", map[string]int{"Parcel.dims": 1, "Parcel.shipping": 2, "Parcel.label": 2, "Parcel.box": 2}),
		mk(3, "split", map[string]int{"Parcel.weight": 1, "Parcel.shipping": 2, "Parcel.label": 1, "Parcel.box": 2}),
	}
	f.base = f.layouts[1].OwnerVector()
	f.ops = fedlab.GenOps(fedlab.GenConfig{Schema: f.schema, Widths: vk.Pick(run, []int{1, 3, 1}, []int{1, 3, 2}), ArgMenu: func(t, fl string) [][]fedlab.ArgUse {
		switch t + "." + fl {
		case "Dims.size":
			return [][]fedlab.ArgUse{nil, {{Name: "unit", Value: "INCH"}}, {{Name: "unit", Value: "CM"}}}
		case "Parcel.weight":
			return [][]fedlab.ArgUse{nil, {{Name: "unit", Value: "G"}}}
		}
		return nil
	}}, "query")
	return f
}

// nreqFamily: S-nreq - @requires inputs that cross an entity boundary
// (`address { zip }` through the entity Account.address into another subgraph).
func nreqFamily(run *vk.Run) *family {
	s := fedlab.SNReq()
	f := &family{name: "S-nreq", s: s, u: fedlab.SNReqUniverse(s), schema: mustSchema(s.SDL())}
	d := s.Distributable()
	mk := func(n int, name string, where map[string]int) *fedlab.Layout {
		return fedlab.ByType(s, n, func(r fedlab.FieldRef) int { return where[r.String()] }, name)
	}
	f.layouts = []*fedlab.Layout{
		fedlab.NewLayout(s, 1, make([]int, len(d)), "mono"),
		mk(2, "near0", map[string]int{"Address.zip": 1, "Address.city": 1, "Account.label": 1, "Account.badge": 1}), // decorated in both tiers
		mk(2, "zip-remote", map[string]int{"Address.zip": 1}),
		mk(2, "label-remote", map[string]int{"Account.label": 1, "Account.badge": 1}),
		mk(3, "chain", map[string]int{"Address.zip": 1, "Address.city": 1, "Account.label": 2, "Account.badge": 2}),
		mk(3, "chain-split", map[string]int{"Address.zip": 1, "Address.city": 2, "Account.label": 2, "Account.badge": 1, "Account.note": 2}),
		mk(3, "address-remote", map[string]int{"Account.address": 1, "Address.zip": 1, "Address.city": 1, "Account.label": 2, "Account.badge": 2, "Account.name": 1}),
	}
	f.base = f.layouts[1].OwnerVector()
	f.ops = fedlab.GenOps(fedlab.GenConfig{Schema: f.schema, Widths: vk.Pick(run, []int{1, 3, 1}, []int{1, 3, 2})}, "query")
	return f
}

// ireqFamily: S-ireq - an interface field that is a @requires field on one
// implementing entity (its input lives in another subgraph). Only the
// non-interface fields move between subgraphs: a subgraph that returns the
// interface must hold complete implementers.
func ireqFamily(run *vk.Run) *family {
	s := fedlab.SIReq()
	f := &family{name: "S-ireq", s: s, u: fedlab.SIReqUniverse(s), schema: mustSchema(s.SDL())}
	d := s.Distributable()
	f.base = make([]int, len(d))
	mk := func(n, price, watts int, name string) *fedlab.Layout {
		return fedlab.ByType(s, n, func(r fedlab.FieldRef) int {
			switch r.String() {
			case "Product.price":
				return price
			case "Gadget.watts":
				return watts
			}
			return 0
		}, name)
	}
	f.layouts = []*fedlab.Layout{
		fedlab.NewLayout(s, 1, make([]int, len(d)), "mono"),
		mk(2, 1, 1, "near0"), // decorated in both tiers
		mk(2, 1, 0, "price-remote"),
		mk(2, 0, 1, "watts-remote"),
		mk(3, 1, 2, "three"),
	}
	f.base = f.layouts[1].OwnerVector()
	f.ops = fedlab.GenOps(fedlab.GenConfig{Schema: f.schema, Widths: vk.Pick(run, []int{1, 2, 1}, []int{1, 3, 1})}, "query")
	return f
}

// shapesFamily: S-shapes - entities below lists of lists and non-null wrappers
// (entity batches collected from and merged back into nested lists).
func shapesFamily(run *vk.Run) *family {
	s := fedlab.SShapes()
	return nearFamily(run, "S-shapes", s, fedlab.SShapesUniverse(s), func(r fedlab.FieldRef) int {
		if r.Type == "Owner" || r.Field == "secret" || r.Field == "tags" || r.Field == "open" || r.Field == "ratio" || r.Field == "meta" || r.Field == "nums" || r.Field == "code" {
			return 1
		}
		return 0
	}, nil, nil, []int{1, 2, 1}, []int{1, 2, 2})
}

func TestCheck(t *testing.T) {
	run := vk.Start("C01", "exploration")
	defer run.Finish()
	run.Rule("federation layouts (owner assignment of every root and non-key entity field within Hamming distance d of a by-type base layout, 2-3 subgraphs, plus the monolith; S-keys: every satisfiable assignment of a key declaration - subset of 3 keys incl. a compound one, <=1 @external member, <=1 extra key field, optional @provides of the external member on an entry field - to each of 2 subgraphs, and to each of 3 subgraphs with <=1 subgraph using @external / extra key fields) x all selection trees below the width/depth bounds x every single decoration at every site; distinct = distinct (operation, layout) response/request-count outcomes")
	run.Assume("reference executor R1 (internal/refexec) and subgraph simulator R2 (internal/fedlab) implement the GraphQL execution semantics; layouts are satisfiable by construction (S-keys: by the rule of fedlab.Satisfiable - every jump uses a key all of whose members the source subgraph resolves itself or, at the entry, @provides; the mini-composer adds implicit keys the way the repository's own multi-hop tests configure them); the data universe is consistent")
	// binding of the mini-composer to the two router configurations composed by
	// the real Cosmo composition that ship in the repository (infrastructure
	// precondition: a difference is a broken harness, not a verdict)
	for _, p := range []string{"/repo/execution/engine/testdata/config_factory_federation/config.json", "/repo/execution/federationtesting/config.json"} {
		diffs, err := fedlab.BindComposer(p)
		if err != nil || len(diffs) > 0 {
			t.Fatalf("mini-composer is not bound to %s: %v %v", p, err, diffs)
		}
	}
	run.Count("composer_binding_configs", 2)
	fams := families(run)
	if only := os.Getenv("VERIF_ONLY_FAMILY"); only != "" { // development aid
		var keep []*family
		for _, f := range fams {
			if f.name == only {
				keep = append(keep, f)
			}
		}
		fams = keep
	}
	if run.Replay != "" {
		var in struct {
			Family   string                               `json:"family"`
			Layout   []int                                `json:"layout"`
			N        int                                  `json:"n"`
			Suffix   string                               `json:"suffix"`
			Provides []string                             `json:"provides"`
			Shared   map[string][]int                     `json:"shared"`
			Unresolv map[string][]int                     `json:"unresolvable"`
			KeyUse   map[string]map[string]*fedlab.KeyUse `json:"keyuse"`
			ProvSel  map[string]string                    `json:"provides_sel"`
			Op       string                               `json:"op"`
			OpName   string                               `json:"opname"`
			Vars     map[string]any                       `json:"vars"`
		}
		if err := run.ReplayInput(&in); err != nil {
			t.Fatal(err)
		}
		for _, f := range fams {
			if f.name != in.Family {
				continue
			}
			l := fedlab.NewLayout(f.s, in.N, in.Layout, "replay"+in.Suffix)
			for _, p := range in.Provides {
				parts := strings.SplitN(p, ".", 2)
				l.Provides[fedlab.FieldRef{Type: parts[0], Field: parts[1]}] = true
			}
			for k, v := range in.Shared {
				parts := strings.SplitN(k, ".", 2)
				l.Shared[fedlab.FieldRef{Type: parts[0], Field: parts[1]}] = v
			}
			for k, v := range in.Unresolv {
				l.Unresolv[k] = v
			}
			for tn, m := range in.KeyUse {
				for sg, ku := range m {
					var i int
					fmt.Sscan(sg, &i)
					l.SetKeyUse(tn, i, ku)
				}
			}
			for k, v := range in.ProvSel {
				parts := strings.SplitN(k, ".", 2)
				if l.ProvidesSel == nil {
					l.ProvidesSel = map[fedlab.FieldRef]string{}
				}
				l.ProvidesSel[fedlab.FieldRef{Type: parts[0], Field: parts[1]}] = v
			}
			for _, sg := range l.Subgraphs() {
				fmt.Printf("---- subgraph %s\n%s", sg.Name, sg.SDL)
			}
			lab, err := fedlab.NewLab(l, f.u, fedlab.LabOptions{})
			if err != nil {
				t.Fatal(err)
			}
			if in.Suffix == "+nullentities" {
				lab.Sim.NullEntity = fedlab.AutoNullEntity(l)
			}
			outcome, fails := judgeText(f, lab, in.Op, in.OpName, in.Vars)
			fmt.Printf("operation %s\nvariables %v\noutcome %s\n", in.Op, in.Vars, outcome)
			for _, r := range lab.Sim.Log() {
				fmt.Printf("  -> %s %s variables %s\n", r.Host, r.Query, refexec.Canon(r.Variables))
			}
			run.Eval(1)
			for _, fl := range fails {
				fmt.Printf("FAILED %s [%s]\n%s\n", fl.clause, fl.site, fl.detail)
				run.Violate(vk.Violation{Clause: fl.clause, Site: fl.site, Class: violationClass(f, l, in.Op), Detail: fl.detail})
			}
		}
		return
	}
	var caseNo int64
	var layoutNo int64
	// layouts of all families interleaved, so that an internal deadline cuts every
	// family evenly instead of never reaching the later ones
	type work struct {
		f *family
		l *fedlab.Layout
	}
	var works []work
	for i := 0; ; i++ {
		any := false
		for _, f := range fams {
			if i < len(f.layouts) {
				works = append(works, work{f, f.layouts[i]})
				any = true
			}
		}
		if !any {
			break
		}
	}
	for _, f := range fams {
		run.Bound(f.name+".layouts", len(f.layouts))
		run.Bound(f.name+".base_ops", len(f.ops))
	}
	{
		for _, wk := range works {
			f, l := wk.f, wk.l
			layoutNo++
			if !run.Mine(layoutNo) {
				continue
			}
			if run.Expired() {
				return
			}
			lab, err := fedlab.NewLab(l, f.u, fedlab.LabOptions{})
			if err == nil && strings.HasSuffix(l.Name, "+nullentities") {
				lab.Sim.NullEntity = fedlab.AutoNullEntity(l)
			}
			if err != nil {
				run.Violate(vk.Violation{Clause: "layout is accepted by the engine configuration", Site: "NewLab", Class: f.name, Detail: l.String() + ": " + err.Error(), Input: map[string]any{"family": f.name, "layout": l.OwnerVector(), "n": l.N}})
				continue
			}
			for oi, base := range f.ops {
				if f.opFilter != nil && !f.opFilter(l, base) {
					continue
				}
				variants := []*fedlab.Op{base}
				// quick: decorations on the base layouts (and every 7th operation on
				// the monolith); thorough: on every two-subgraph layout within distance 1
				decorate := oi%7 == 0
				if l.N > 1 {
					decorate = (run.Thorough() && l.N == 2 && distance(l.OwnerVector(), f.base) <= 1) || l.Name == "near0" || l.Name == "near0+provides" || l.Name == "near0+nullentities"
				}
				if decorate {
					variants = append(variants, fedlab.Decorate(base, f.schema)...)
				}
				for _, op := range variants {
					caseNo++
					run.Eval(1)
					run.Count("cases:"+f.name, 1)
					outcome, fails := judge(f, lab, op)
					if run.Outcome(fmt.Sprintf("%s|%s|%s", l.String(), base.String(), outcome)) {
						run.Sample(f.name+"/"+l.Name, map[string]any{"layout": l.String(), "operation": op.String(), "variables": op.Vars, "outcome": outcome})
					}
					if dump := os.Getenv("VERIF_DUMP_FAILS"); dump != "" && (len(fails) > 0 || os.Getenv("VERIF_DUMP_ALL") != "") { // development aid
						if fh, err := os.OpenFile(fmt.Sprintf("%s.%d", dump, os.Getpid()), os.O_APPEND|os.O_CREATE|os.O_WRONLY, 0o644); err == nil {
							for _, fl := range fails {
								b, _ := json.Marshal(map[string]any{"layout": l.Name, "op": op.String(), "clause": fl.clause, "site": fl.site, "detail": firstLine(fl.detail)})
								fh.Write(append(b, '\n'))
							}
							if len(fails) == 0 {
								b, _ := json.Marshal(map[string]any{"layout": l.Name, "op": op.String(), "clause": "", "site": "", "detail": ""})
								fh.Write(append(b, '\n'))
							}
							fh.Close()
						}
					}
					for _, fl := range fails {
						run.Violate(vk.Violation{Clause: fl.clause, Site: fl.site, Class: violationClass(f, l, op.String()),
							Detail: fmt.Sprintf("layout %s\noperation %s\nvariables %v\ndecoration %q\n%s", l.String(), op.String(), op.Vars, op.Note, fl.detail),
							Input:  map[string]any{"family": f.name, "layout": l.OwnerVector(), "n": l.N, "suffix": suffixOf(l.Name), "provides": l.ProvidesList(), "shared": l.SharedMap(), "unresolvable": l.Unresolv, "keyuse": l.KeyUseJSON(), "provides_sel": l.ProvidesSelMap(), "op": op.String(), "opname": op.Name, "vars": op.Vars}})
					}
				}
				if oi%50 == 0 && run.Expired() {
					break
				}
			}
			lab.Close()
		}
	}
	_ = caseNo
}
