package c01

import (
	"fmt"
	"testing"

	"github.com/vektah/gqlparser/v2"
	gast "github.com/vektah/gqlparser/v2/ast"

	"verif/internal/fedlab"
	"verif/internal/refexec"
)

func TestSmoke(t *testing.T) {
	s := fedlab.SCore()
	u := fedlab.SCoreUniverse(s)
	l := fedlab.ByType(s, 2, func(r fedlab.FieldRef) int {
		if r.Type == "Product" || r.Field == "topProducts" || r.Field == "reviews" {
			return 1
		}
		return 0
	}, "bytype")
	for _, sg := range l.Subgraphs() {
		fmt.Println("----", sg.Name)
		fmt.Println(sg.SDL)
	}
	lab, err := fedlab.NewLab(l, u, fedlab.LabOptions{})
	if err != nil {
		t.Fatal(err)
	}
	schema, err := gqlparser.LoadSchema(&gast.Source{Input: s.SDL()})
	if err != nil {
		t.Fatal(err)
	}
	for _, q := range []string{`{me{name reviews{body author{name} product{title}}}}`, `{users{name friends{name nick} reviews{body}}}`, `{topProducts(first:1){title seller{name greeting(times:2)}}}`, `mutation{touch(id:"u2",note:"x"){note user{name favorite{title}}}}`} {
		out, reqs, err := lab.Exec(q, "", nil)
		doc, errs := gqlparser.LoadQuery(schema, q)
		if errs != nil {
			t.Fatal(errs)
		}
		kind := "Query"
		if doc.Operations[0].Operation == gast.Mutation {
			kind = "Mutation"
		}
		ref := refexec.Execute(schema, doc, fedlab.Mono{U: u}, refexec.Options{Root: fedlab.RootObj(kind)})
		fmt.Printf("Q %s\n  gw : %s err=%v\n  ref: %s\n", q, out, err, ref.JSON())
		for _, r := range reqs {
			fmt.Printf("   -> %s %s vars=%s problems=%v\n", r.Host, r.Query, refexec.Canon(r.Variables), r.Problems)
		}
	}
}
