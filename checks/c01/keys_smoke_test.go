package c01

import (
	"fmt"
	"os"
	"sort"
	"sync"
	"testing"

	"verif/internal/fedlab"
	"verif/internal/refexec"
)

// TestKeysSmoke is a development aid (VERIF_KEYS_SMOKE=1): layouts of S-keys.
func TestKeysSmoke(t *testing.T) {
	if os.Getenv("VERIF_KEYS_SMOKE") == "" {
		t.Skip()
	}
	s := fedlab.SKeys()
	u := fedlab.SKeysUniverse(s)
	f := &family{name: "S-keys", s: s, u: u, schema: mustSchema(s.SDL())}
	d := s.Distributable()
	for _, n := range []int{2, 3} {
		owners := make([]int, len(d))
		for i, r := range d {
			switch r.String() {
			case "Query.newest", "Product.price":
				owners[i] = 1
			case "Product.stock":
				owners[i] = n - 1
			}
		}
		ls := fedlab.KeyLayouts(s, "Product", n, owners, fedlab.FieldRef{Type: "Query", Field: "newest"}, -1)
		fmt.Printf("n=%d layouts=%d\n", n, len(ls))
		if n == 3 && os.Getenv("VERIF_KEYS_SMOKE") != "3" {
			break
		}
		sites := map[string]int{}
		first := map[string]string{}
		ops := []string{`{products{name price}}`, `{products{id price}}`, `{products{id sku upc name price stock}}`, `{newest{name stock}}`, `{newest{id upc}}`, `{product(sku:"s2"){upc price stock}}`}
		var mu sync.Mutex
		var wg sync.WaitGroup
		sem := make(chan struct{}, 16)
		for _, l := range ls {
			l := l
			sem <- struct{}{}
			wg.Add(1)
			go func() {
				defer func() { <-sem; wg.Done() }()
				lab, err := fedlab.NewLab(l, u, fedlab.LabOptions{})
				if err != nil {
					t.Fatal(l.Name, err)
				}
				for _, q := range ops {
					_, fails := judgeText(f, lab, q, "", nil)
					mu.Lock()
					for _, fl := range fails {
						k := fl.clause[:20] + " | " + fl.site
						sites[k]++
						if first[k] == "" {
							first[k] = l.Name + "\n" + q + "\n" + fl.detail
							for _, sg := range l.Subgraphs() {
								first[k] += "\n--- " + sg.Name + "\n" + sg.SDL
							}
							for _, r := range lab.Sim.Log() {
								first[k] += fmt.Sprintf("\n  -> %s %s variables %s", r.Host, r.Query, refexec.Canon(r.Variables))
							}
						}
					}
					mu.Unlock()
				}
				lab.Close()
			}()
		}
		wg.Wait()
		var ks []string
		for k := range sites {
			ks = append(ks, k)
		}
		sort.Strings(ks)
		for _, k := range ks {
			fmt.Printf("%6d %s\n%s\n\n", sites[k], k, first[k])
		}
	}
}
