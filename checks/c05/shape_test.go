package c05

// The canonical "shape" of a parsed document: kinds, names, decoded values and
// structure, no byte references and no positions. It is written against the
// plain data layout of ast.Document (slices + int refs) and deliberately uses
// none of the library's accessor / printing / decoding helpers, so that it is an
// independent reading of the tree.

import (
	"strconv"
	"strings"

	"github.com/wundergraph/graphql-go-tools/v2/pkg/ast"
)

type shaper struct {
	d   *ast.Document
	raw []byte
	b   strings.Builder
}

func shapeOf(d *ast.Document) string {
	s := &shaper{d: d, raw: d.Input.RawBytes}
	for _, n := range d.RootNodes {
		s.root(n)
		s.b.WriteByte('\n')
	}
	return s.b.String()
}

func (s *shaper) w(x string) { s.b.WriteString(x) }

func (s *shaper) bytes(r ast.ByteSliceReference) []byte { return s.raw[r.Start:r.End] }

// name writes a name-like byte range, quoted so that odd bytes stay visible.
func (s *shaper) name(r ast.ByteSliceReference) { s.w(strconv.Quote(string(s.bytes(r)))) }

func (s *shaper) root(n ast.Node) {
	d := s.d
	switch n.Kind {
	case ast.NodeKindOperationDefinition:
		o := d.OperationDefinitions[n.Ref]
		s.w("(operation ")
		s.w(strconv.Itoa(int(o.OperationType)))
		s.w(" name=")
		s.name(o.Name)
		s.desc(o.Description)
		if o.HasVariableDefinitions {
			s.w(" vars[")
			for _, r := range o.VariableDefinitions.Refs {
				v := d.VariableDefinitions[r]
				s.w("(var ")
				s.value(v.VariableValue)
				s.w(" : ")
				s.typ(v.Type)
				s.desc(v.Description)
				if v.DefaultValue.IsDefined {
					s.w(" = ")
					s.value(v.DefaultValue.Value)
				}
				s.dirs(v.HasDirectives, v.Directives)
				s.w(")")
			}
			s.w("]")
		}
		s.dirs(o.HasDirectives, o.Directives)
		s.selset(o.HasSelections, o.SelectionSet)
		s.w(")")
	case ast.NodeKindFragmentDefinition:
		f := d.FragmentDefinitions[n.Ref]
		s.w("(fragment ")
		s.name(f.Name)
		s.w(" on ")
		s.typ(f.TypeCondition.Type)
		s.desc(f.Description)
		s.dirs(f.HasDirectives, f.Directives)
		s.selset(f.HasSelections, f.SelectionSet)
		s.w(")")
	case ast.NodeKindSchemaDefinition:
		s.w("(schema")
		s.schema(d.SchemaDefinitions[n.Ref])
		s.w(")")
	case ast.NodeKindSchemaExtension:
		s.w("(extend schema")
		s.schema(d.SchemaExtensions[n.Ref].SchemaDefinition)
		s.w(")")
	case ast.NodeKindObjectTypeDefinition:
		s.w("(type")
		s.object(d.ObjectTypeDefinitions[n.Ref])
		s.w(")")
	case ast.NodeKindObjectTypeExtension:
		s.w("(extend type")
		s.object(d.ObjectTypeExtensions[n.Ref].ObjectTypeDefinition)
		s.w(")")
	case ast.NodeKindInterfaceTypeDefinition:
		s.w("(interface")
		s.iface(d.InterfaceTypeDefinitions[n.Ref])
		s.w(")")
	case ast.NodeKindInterfaceTypeExtension:
		s.w("(extend interface")
		s.iface(d.InterfaceTypeExtensions[n.Ref].InterfaceTypeDefinition)
		s.w(")")
	case ast.NodeKindScalarTypeDefinition:
		s.w("(scalar")
		s.scalar(d.ScalarTypeDefinitions[n.Ref])
		s.w(")")
	case ast.NodeKindScalarTypeExtension:
		s.w("(extend scalar")
		s.scalar(d.ScalarTypeExtensions[n.Ref].ScalarTypeDefinition)
		s.w(")")
	case ast.NodeKindUnionTypeDefinition:
		s.w("(union")
		s.union(d.UnionTypeDefinitions[n.Ref])
		s.w(")")
	case ast.NodeKindUnionTypeExtension:
		s.w("(extend union")
		s.union(d.UnionTypeExtensions[n.Ref].UnionTypeDefinition)
		s.w(")")
	case ast.NodeKindEnumTypeDefinition:
		s.w("(enum")
		s.enum(d.EnumTypeDefinitions[n.Ref])
		s.w(")")
	case ast.NodeKindEnumTypeExtension:
		s.w("(extend enum")
		s.enum(d.EnumTypeExtensions[n.Ref].EnumTypeDefinition)
		s.w(")")
	case ast.NodeKindInputObjectTypeDefinition:
		s.w("(input")
		s.input(d.InputObjectTypeDefinitions[n.Ref])
		s.w(")")
	case ast.NodeKindInputObjectTypeExtension:
		s.w("(extend input")
		s.input(d.InputObjectTypeExtensions[n.Ref].InputObjectTypeDefinition)
		s.w(")")
	case ast.NodeKindDirectiveDefinition:
		dd := d.DirectiveDefinitions[n.Ref]
		s.w("(directive @")
		s.name(dd.Name)
		s.desc(dd.Description)
		s.inputValues("args", dd.HasArgumentsDefinitions, dd.ArgumentsDefinition.Refs)
		if dd.Repeatable.IsRepeatable {
			s.w(" repeatable")
		}
		s.w(" on[")
		it := dd.DirectiveLocations.Iterable()
		for it.Next() {
			s.w(strconv.Itoa(int(it.Value())))
			s.w(" ")
		}
		s.w("])")
	default:
		s.w("(unknown-root-kind ")
		s.w(strconv.Itoa(int(n.Kind)))
		s.w(")")
	}
}

func (s *shaper) schema(sd ast.SchemaDefinition) {
	s.desc(sd.Description)
	s.dirs(sd.HasDirectives, sd.Directives)
	s.w(" ops[")
	for _, r := range sd.RootOperationTypeDefinitions.Refs {
		ro := s.d.RootOperationTypeDefinitions[r]
		s.w("(")
		s.w(strconv.Itoa(int(ro.OperationType)))
		s.w(" : ")
		s.name(ro.NamedType.Name)
		s.w(")")
	}
	s.w("]")
}

func (s *shaper) typeList(label string, refs []int) {
	if len(refs) == 0 {
		return
	}
	s.w(" " + label + "[")
	for _, r := range refs {
		s.typ(r)
		s.w(" ")
	}
	s.w("]")
}

func (s *shaper) fieldDefs(has bool, refs []int) {
	if !has {
		return
	}
	s.w(" fields[")
	for _, r := range refs {
		f := s.d.FieldDefinitions[r]
		s.w("(fielddef ")
		s.name(f.Name)
		s.desc(f.Description)
		s.inputValues("args", f.HasArgumentsDefinitions, f.ArgumentsDefinition.Refs)
		s.w(" : ")
		s.typ(f.Type)
		s.dirs(f.HasDirectives, f.Directives)
		s.w(")")
	}
	s.w("]")
}

func (s *shaper) inputValues(label string, has bool, refs []int) {
	if !has {
		return
	}
	s.w(" " + label + "[")
	for _, r := range refs {
		iv := s.d.InputValueDefinitions[r]
		s.w("(inputvalue ")
		s.name(iv.Name)
		s.desc(iv.Description)
		s.w(" : ")
		s.typ(iv.Type)
		if iv.DefaultValue.IsDefined {
			s.w(" = ")
			s.value(iv.DefaultValue.Value)
		}
		s.dirs(iv.HasDirectives, iv.Directives)
		s.w(")")
	}
	s.w("]")
}

func (s *shaper) object(o ast.ObjectTypeDefinition) {
	s.w(" ")
	s.name(o.Name)
	s.desc(o.Description)
	s.typeList("implements", o.ImplementsInterfaces.Refs)
	s.dirs(o.HasDirectives, o.Directives)
	s.fieldDefs(o.HasFieldDefinitions, o.FieldsDefinition.Refs)
}

func (s *shaper) iface(o ast.InterfaceTypeDefinition) {
	s.w(" ")
	s.name(o.Name)
	s.desc(o.Description)
	s.typeList("implements", o.ImplementsInterfaces.Refs)
	s.dirs(o.HasDirectives, o.Directives)
	s.fieldDefs(o.HasFieldDefinitions, o.FieldsDefinition.Refs)
}

func (s *shaper) scalar(o ast.ScalarTypeDefinition) {
	s.w(" ")
	s.name(o.Name)
	s.desc(o.Description)
	s.dirs(o.HasDirectives, o.Directives)
}

func (s *shaper) union(o ast.UnionTypeDefinition) {
	s.w(" ")
	s.name(o.Name)
	s.desc(o.Description)
	s.dirs(o.HasDirectives, o.Directives)
	if o.HasUnionMemberTypes {
		s.typeList("members", o.UnionMemberTypes.Refs)
	}
}

func (s *shaper) enum(o ast.EnumTypeDefinition) {
	s.w(" ")
	s.name(o.Name)
	s.desc(o.Description)
	s.dirs(o.HasDirectives, o.Directives)
	if o.HasEnumValuesDefinition {
		s.w(" values[")
		for _, r := range o.EnumValuesDefinition.Refs {
			ev := s.d.EnumValueDefinitions[r]
			s.w("(enumvalue ")
			s.name(ev.EnumValue)
			s.desc(ev.Description)
			s.dirs(ev.HasDirectives, ev.Directives)
			s.w(")")
		}
		s.w("]")
	}
}

func (s *shaper) input(o ast.InputObjectTypeDefinition) {
	s.w(" ")
	s.name(o.Name)
	s.desc(o.Description)
	s.dirs(o.HasDirectives, o.Directives)
	s.inputValues("fields", o.HasInputFieldsDefinition, o.InputFieldsDefinition.Refs)
}

func (s *shaper) desc(x ast.Description) {
	if !x.IsDefined {
		return
	}
	s.w(" desc=")
	v := decodeStringAt(s.raw, x.Content, x.IsBlockString)
	if x.IsBlockString {
		v = normaliseBlockDescription(v)
	}
	s.w(strconv.Quote(v))
}

// normaliseBlockDescription: block descriptions are compared up to white space
// that is invisible when the description is laid out as a block again: trailing
// white space of a line, an indentation common to all lines (including the
// first) and blank lines at the ends. Relative indentation between lines is
// kept. (Block string *values* are compared exactly.)
func normaliseBlockDescription(v string) string {
	lines := strings.Split(v, "\n")
	common := -1
	for i, l := range lines {
		l = strings.TrimRight(l, " \t")
		lines[i] = l
		if l == "" {
			continue
		}
		ind := len(l) - len(strings.TrimLeft(l, " \t"))
		if common < 0 || ind < common {
			common = ind
		}
	}
	for i, l := range lines {
		if l != "" && common > 0 {
			lines[i] = l[common:]
		}
	}
	for len(lines) > 0 && lines[0] == "" {
		lines = lines[1:]
	}
	for len(lines) > 0 && lines[len(lines)-1] == "" {
		lines = lines[:len(lines)-1]
	}
	return strings.Join(lines, "\n")
}

func (s *shaper) dirs(has bool, l ast.DirectiveList) {
	if !has {
		return
	}
	s.w(" dirs[")
	for _, r := range l.Refs {
		dir := s.d.Directives[r]
		s.w("(@")
		s.name(dir.Name)
		s.args(dir.HasArguments, dir.Arguments.Refs)
		s.w(")")
	}
	s.w("]")
}

func (s *shaper) args(has bool, refs []int) {
	if !has {
		return
	}
	s.w(" args[")
	for _, r := range refs {
		a := s.d.Arguments[r]
		s.w("(")
		s.name(a.Name)
		s.w(" : ")
		s.value(a.Value)
		s.w(")")
	}
	s.w("]")
}

func (s *shaper) typ(ref int) {
	if ref < 0 {
		s.w("<no-type>")
		return
	}
	t := s.d.Types[ref]
	switch t.TypeKind {
	case ast.TypeKindNamed:
		s.w("named:")
		s.name(t.Name)
	case ast.TypeKindList:
		s.w("list(")
		s.typ(t.OfType)
		s.w(")")
	case ast.TypeKindNonNull:
		s.w("nonnull(")
		s.typ(t.OfType)
		s.w(")")
	default:
		s.w("<type-kind " + strconv.Itoa(int(t.TypeKind)) + ">")
	}
}

func (s *shaper) selset(has bool, ref int) {
	if !has {
		return
	}
	s.w(" {")
	for _, sr := range s.d.SelectionSets[ref].SelectionRefs {
		sel := s.d.Selections[sr]
		switch sel.Kind {
		case ast.SelectionKindField:
			f := s.d.Fields[sel.Ref]
			s.w("(field ")
			if f.Alias.IsDefined {
				s.name(f.Alias.Name)
				s.w(" : ")
			}
			s.name(f.Name)
			s.args(f.HasArguments, f.Arguments.Refs)
			s.dirs(f.HasDirectives, f.Directives)
			s.selset(f.HasSelections, f.SelectionSet)
			s.w(")")
		case ast.SelectionKindFragmentSpread:
			fs := s.d.FragmentSpreads[sel.Ref]
			s.w("(spread ")
			s.name(fs.FragmentName)
			s.dirs(fs.HasDirectives, fs.Directives)
			s.w(")")
		case ast.SelectionKindInlineFragment:
			in := s.d.InlineFragments[sel.Ref]
			s.w("(inline on ")
			s.typ(in.TypeCondition.Type)
			s.dirs(in.HasDirectives, in.Directives)
			s.selset(in.HasSelections, in.SelectionSet)
			s.w(")")
		default:
			s.w("(selection-kind " + strconv.Itoa(int(sel.Kind)) + ")")
		}
	}
	s.w("}")
}

func (s *shaper) value(v ast.Value) {
	d := s.d
	switch v.Kind {
	case ast.ValueKindString:
		sv := d.StringValues[v.Ref]
		s.w("str:")
		s.w(strconv.Quote(decodeStringAt(s.raw, sv.Content, sv.BlockString)))
	case ast.ValueKindBoolean:
		if bool(d.BooleanValues[v.Ref]) {
			s.w("true")
		} else {
			s.w("false")
		}
	case ast.ValueKindInteger:
		iv := d.IntValues[v.Ref]
		s.w("int:")
		if iv.Negative {
			s.w("-")
		}
		s.w(strconv.Quote(string(s.bytes(iv.Raw))))
	case ast.ValueKindFloat:
		fv := d.FloatValues[v.Ref]
		s.w("float:")
		if fv.Negative {
			s.w("-")
		}
		s.w(strconv.Quote(string(s.bytes(fv.Raw))))
	case ast.ValueKindVariable:
		s.w("$")
		s.name(d.VariableValues[v.Ref].Name)
	case ast.ValueKindNull:
		s.w("null")
	case ast.ValueKindEnum:
		s.w("enum:")
		s.name(d.EnumValues[v.Ref].Name)
	case ast.ValueKindList:
		s.w("[")
		for _, r := range d.ListValues[v.Ref].Refs {
			s.value(d.Values[r])
			s.w(" ")
		}
		s.w("]")
	case ast.ValueKindObject:
		s.w("{")
		for _, r := range d.ObjectValues[v.Ref].Refs {
			of := d.ObjectFields[r]
			s.name(of.Name)
			s.w(" : ")
			s.value(of.Value)
			s.w(" ")
		}
		s.w("}")
	default:
		s.w("<value-kind " + strconv.Itoa(int(v.Kind)) + ">")
	}
}

// ---- decoding of string literals (GraphQL spec section 2.9.4)

func isBlockWS(c byte) bool { return c == ' ' || c == '\t' || c == '\r' || c == '\n' }

// decodeStringAt returns the semantic value of the string literal whose content
// reference is ref. For a block string the lexer of the code under test strips
// white space around the content; the raw text between the delimiters is
// recovered by extending the reference over white space up to the `"""`
// delimiters (if they are not found the reference is taken as it is), and the
// BlockStringValue algorithm of the spec is applied to it.
func decodeStringAt(raw []byte, ref ast.ByteSliceReference, block bool) string {
	start, end := int(ref.Start), int(ref.End)
	if !block {
		return decodeQuoted(raw[start:end])
	}
	i := start
	for i > 0 && isBlockWS(raw[i-1]) {
		i--
	}
	if i >= 3 && raw[i-1] == '"' && raw[i-2] == '"' && raw[i-3] == '"' {
		start = i
	}
	j := end
	for j < len(raw) && isBlockWS(raw[j]) {
		j++
	}
	if j == len(raw) || (j+3 <= len(raw) && raw[j] == '"' && raw[j+1] == '"' && raw[j+2] == '"') {
		end = j
	}
	return blockStringValue(raw[start:end])
}

// decodeQuoted resolves the escape sequences of a quoted string; sequences the
// spec does not define are kept verbatim (the property does not say what an
// accepted malformed escape means, only that it must survive printing).
func decodeQuoted(b []byte) string {
	var out strings.Builder
	for i := 0; i < len(b); i++ {
		c := b[i]
		if c != '\\' || i+1 >= len(b) {
			out.WriteByte(c)
			continue
		}
		n := b[i+1]
		switch n {
		case '"', '\\', '/':
			out.WriteByte(n)
			i++
		case 'b':
			out.WriteByte('\b')
			i++
		case 'f':
			out.WriteByte('\f')
			i++
		case 'n':
			out.WriteByte('\n')
			i++
		case 'r':
			out.WriteByte('\r')
			i++
		case 't':
			out.WriteByte('\t')
			i++
		case 'u':
			if i+6 <= len(b) {
				if v, err := strconv.ParseUint(string(b[i+2:i+6]), 16, 32); err == nil {
					out.WriteString("\\u{" + strconv.FormatUint(v, 16) + "}") // code point, kept symbolic (surrogates stay distinguishable)
					i += 5
					continue
				}
			}
			if i+2 < len(b) && b[i+2] == '{' {
				k := i + 3
				for k < len(b) && b[k] != '}' {
					k++
				}
				if k < len(b) {
					if v, err := strconv.ParseUint(string(b[i+3:k]), 16, 32); err == nil {
						out.WriteString("\\u{" + strconv.FormatUint(v, 16) + "}")
						i = k
						continue
					}
				}
			}
			out.WriteByte(c)
		default:
			out.WriteByte(c)
		}
	}
	return out.String()
}

// blockStringValue implements BlockStringValue(rawValue) of the spec and the
// `\"""` escape.
func blockStringValue(raw []byte) string {
	return strings.ReplaceAll(blockStringValueNoUnescape(raw), `\"""`, `"""`)
}

func blockStringValueNoUnescape(raw []byte) string {
	var lines []string
	cur := 0
	for i := 0; i < len(raw); i++ {
		if raw[i] == '\n' {
			lines = append(lines, string(raw[cur:i]))
			cur = i + 1
		} else if raw[i] == '\r' {
			lines = append(lines, string(raw[cur:i]))
			if i+1 < len(raw) && raw[i+1] == '\n' {
				i++
			}
			cur = i + 1
		}
	}
	lines = append(lines, string(raw[cur:]))
	indentOf := func(l string) int {
		n := 0
		for n < len(l) && (l[n] == ' ' || l[n] == '\t') {
			n++
		}
		return n
	}
	common := -1
	for i, l := range lines {
		if i == 0 {
			continue
		}
		ind := indentOf(l)
		if ind < len(l) && (common < 0 || ind < common) {
			common = ind
		}
	}
	if common > 0 {
		for i := 1; i < len(lines); i++ {
			if len(lines[i]) >= common {
				lines[i] = lines[i][common:]
			} else {
				lines[i] = ""
			}
		}
	}
	for len(lines) > 0 && indentOf(lines[0]) == len(lines[0]) {
		lines = lines[1:]
	}
	for len(lines) > 0 && indentOf(lines[len(lines)-1]) == len(lines[len(lines)-1]) {
		lines = lines[:len(lines)-1]
	}
	return strings.Join(lines, "\n")
}
