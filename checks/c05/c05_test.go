// Check C05: parsing is total, printing round-trips, limits never under-count.
// Engine E: bounded exhaustive enumeration of inputs (atom strings, grammar
// derivations, single-atom edits of seed documents), judged by the oracles in
// oracle_test.go. See DESIGN.md section 3 C05.
package c05

import (
	"encoding/hex"
	"fmt"
	"os"
	"runtime/debug"
	"sort"
	"strings"
	"testing"

	"verif/internal/vk"
)

// The lexical atoms, simplest first.
var atoms = []string{
	"a", "{", "}", "(", ")", ":", "1", "\"", " ",
	"[", "]", "=", "!", "$", "@", "|", "&", "...", ".", "..",
	"query", "mutation", "subscription", "fragment", "on", "type", "extend", "schema", "true", "false", "null",
	"scalar", "union", "enum", "input", "interface", "implements", "directive", "repeatable",
	"-", "e", "E+",
	"\"\"\"", "\\", "\\\"", "\\u00", "\\u{", "#",
	"\t", "\n", "\r", "\r\n", ",", "\xef\xbb\xbf",
	"\u00e9", "\U0001F600", "\x00", "\xff",
}

// reduced alphabet for the longest strings of the thorough tier
var atomsReduced = []string{
	"a", "{", "}", "(", ")", ":", "1", "\"", " ",
	"[", "]", "=", "$", "@", "...", "query", "on", "schema", "\"\"\"", "\\", "\n", "\x00",
}

var seeds = []string{
	`{a(b:"x")}`,
	`query Q($v:Int=1){a@d(x:[1,{k:$v}])...F ...on T{b}}`,
	`fragment F on T{a}`,
	`type T implements A&B @d{f(a:Int=1):[T!]! @x}`,
	"\"\"\"d\"\"\" enum E{A B}",
	`extend type T{a:Int}`,
	`directive @d(a:Int) repeatable on FIELD|QUERY`,
	`{a(b:"""x""")}`,
	`input I{a:Int=1 b:[I]}`,
	`schema{query:Q}`,
	`union U=|A|B`,
	`scalar S @specifiedBy(url:"x")`,
	"{a(b:\"\"\"\n    x\n      y\n    \"\"\")}",
	`"d" type T{"e" f("g" a:Int):Int}`,
	`interface I implements J{a:Int} extend schema @d{mutation:M}`,
	"\"d\\\nscalar S", // quoted string ended by a line break, last character a backslash
	// block strings with an interior white-space-only line shorter than the indent of its neighbours
	"\"\"\"\n    t1\n  \n    t2\n\"\"\"\ntype T {\n  \"\"\"\n    f1\n \t\n    f2\n  \"\"\"\n  f(\"\"\"\n      a1\n   \n      a2\n    \"\"\" a: String = \"\"\"\n      d1\n  \n      d2\n    \"\"\"): Int @d(x: \"\"\"\n    v1\n\t\n    v2\n  \"\"\")\n}",
	"\"\"\"\n    o1\n \n    o2\n\"\"\"\nquery Q($v: String = \"\"\"\n    d1\n  \n    d2\n  \"\"\") {\n  a(b: \"\"\"\n      v1\n   \n      v2\n    \"\"\", c: {k: [\"\"\"\n    w1\n\t\n    w2\n\"\"\"]})\n}",
	"enum E {\n  \"\"\"\n  e1\n \n  e2\n  \"\"\"\n  A\n}\ninput I {\n  \"\"\"\n    i1\n\t\n    i2\n  \"\"\"\n  a: String = \"\"\"\n    x\n  \"\"\"\n}",
}

type caseInput struct {
	Hex    string `json:"input_hex"`
	Text   string `json:"input_text"`
	Origin string `json:"origin"`
	Key    string `json:"clause_site"`
}

// core is a shrunk failing input: raw = 1-minimal under deletion, min = raw with
// names normalised; class is computed from min.
type core struct {
	raw, min, site, class string
	f                     failure
}

type checker struct {
	run      *vk.Run
	cores    map[string][]*core // by clause+site
	nShrinks int64
}

// judge evaluates one input and records everything. A panic of the check's own
// code (the code under test runs behind recover() in the oracles) is not a
// verdict: the case is listed, the run is marked as not exhaustive.
func (c *checker) judge(in, origin string) {
	defer func() {
		if p := recover(); p != nil {
			c.run.Cap("the check's own code failed on some inputs (see notes); those inputs were not judged")
			c.run.Count("harness_failures", 1)
			c.run.Note("harness failure on input %q (%s): %v", in, origin, p)
			fmt.Fprintf(os.Stderr, "c05: HARNESS FAILURE (not a verdict) on input %q: %v\n", in, p)
		}
	}()
	r := evaluate(in, mAll)
	c.run.Eval(1)
	c.run.Outcome(r.Outcome)
	if !r.Accepted {
		if len(r.Fails) == 0 {
			c.run.Count("rejected", 1)
			c.run.Sample("rejected", map[string]string{"input": in, "error": clip(r.RejectMsg, 120)})
		}
	} else {
		c.run.Count("accepted", 1)
		if r.Executable {
			c.run.Count("accepted_executable", 1)
			c.run.Count("limit_parses", int64(r.LimitRuns))
			c.run.Count("limit_overcount_rejections", int64(r.OverCount))
		}
		if r.IndentSkip {
			c.run.Count("indent_printer_failure_not_reported_because_compact_fails_the_same_part", 1)
		}
		if r.BlockValuesNotJudged > 0 {
			c.run.Count("not_judged_block_string_value_extent_unclear", int64(r.BlockValuesNotJudged))
		}
		if len(r.Fails) == 0 {
			c.run.Sample("accepted:"+origin, map[string]any{"input": in, "depth": r.Depth, "fields": r.Fields})
		}
	}
	for _, f := range r.Fails {
		c.report(in, origin, f)
	}
}

func (c *checker) report(in, origin string, f failure) {
	c.run.Count("failing_inputs:"+f.Clause, 1)
	key := f.key()
	// Any 1-minimal failing subsequence of the input is a legitimate result of
	// shrinking it; a core found earlier that is a subsequence of this input is
	// one, so it is taken without searching again.
	for _, k := range c.cores[key] {
		if isSubseq(k.raw, in) {
			c.violate(k, in, origin)
			return
		}
	}
	raw := shrinkDelete(in, key)
	c.nShrinks++
	for _, k := range c.cores[key] {
		if k.raw == raw {
			c.violate(k, in, origin)
			return
		}
	}
	min := shrinkNormalise(raw, key)
	_, mf := failsWith(min, key)
	k := &core{raw: raw, min: min, f: mf}
	func() {
		defer func() {
			if p := recover(); p != nil {
				k.site, k.class = mf.Site, "other: "+skeleton(scan(min))
				c.run.Note("classification failed on %q: %v", min, p)
			}
		}()
		k.site, k.class = classify(mf, min)
	}()
	c.cores[key] = append(c.cores[key], k)
	c.violate(k, in, origin)
}

func (c *checker) violate(k *core, in, origin string) {
	c.run.Violate(vk.Violation{
		Clause: k.f.Clause, Site: k.site, Class: k.class,
		Detail: fmt.Sprintf("minimal input %q (shrunk from %q, %s), oracle stage %q: %s", k.min, in, origin, k.f.Site, k.f.Detail),
		Input:  caseInput{Hex: hex.EncodeToString([]byte(k.min)), Text: k.min, Origin: origin, Key: k.f.key()},
		Repro:  reproText(k.min),
	})
}

func isSubseq(sub, s string) bool {
	i := 0
	for j := 0; j < len(s) && i < len(sub); j++ {
		if s[j] == sub[i] {
			i++
		}
	}
	return i == len(sub)
}

func reproText(in string) string {
	return fmt.Sprintf(`package repro

import (
	"testing"

	"github.com/wundergraph/graphql-go-tools/v2/pkg/astparser"
	"github.com/wundergraph/graphql-go-tools/v2/pkg/astprinter"
)

func TestRepro(t *testing.T) {
	in := %q
	doc, rep := astparser.ParseGraphqlDocumentString(in)
	if rep.HasErrors() {
		t.Skip("rejected: ", rep.Error())
	}
	p1, _ := astprinter.PrintString(&doc)
	doc2, rep2 := astparser.ParseGraphqlDocumentString(p1)
	t.Logf("input %%q prints as %%q", in, p1)
	if rep2.HasErrors() {
		t.Fatalf("print does not re-parse: %%s", rep2.Error())
	}
	p2, _ := astprinter.PrintString(&doc2)
	if p1 != p2 {
		t.Fatalf("second print %%q", p2)
	}
}
`, in)
}

func TestCheck(t *testing.T) {
	debug.SetMaxStack(256 << 20)
	run := vk.Start("C05", "exploration")
	defer run.Finish()
	c := &checker{run: run, cores: map[string][]*core{}}
	if err := wdStart(); err != nil {
		run.Note("termination oracle not active: %v", err)
		run.Count("termination_oracle_inactive", 1)
	}
	defer wdStop()

	if run.Replay != "" {
		var ci caseInput
		if err := run.ReplayInput(&ci); err != nil {
			t.Fatalf("replay: %v", err)
		}
		b, err := hex.DecodeString(ci.Hex)
		if err != nil {
			t.Fatalf("replay: %v", err)
		}
		fmt.Printf("replaying input %q\n", string(b))
		if strings.HasPrefix(ci.Key, clauseHang) {
			hung, err := probeOnce(string(b))
			fmt.Printf("fresh process: hung=%v err=%v\n", hung, err)
			if hung {
				run.Violate(vk.Violation{Clause: clauseHang, Site: ci.Key[len(clauseHang)+1:], Class: "replay", Detail: fmt.Sprintf("input %q: no progress within %d s of CPU time", string(b), hangCPUSeconds), Input: ci})
			}
			run.Eval(1)
			return
		}
		c.judge(string(b), "replay")
		return
	}

	run.Rule("every string of <=k lexical atoms (joined with and without a space), every grammar derivation of executable and type-system documents with <=D deviations from the minimal form (one and two definitions), every single-atom insertion/replacement/deletion in the seed documents; an outcome is distinct by (reject message kind | root kinds, depth, fields, limit grid verdicts, failed oracle sites)")
	run.Assume(
		"the shape dump and the string decoding (spec 2.9.4, BlockStringValue) of the check are correct",
		"block string values are compared exactly by decoded value; block descriptions up to trailing white space of a line, an indentation common to all lines and blank lines at the ends",
		"positions are (line, column) with '\\n' as the only line separator and byte columns, the convention of the lexer; a zero position means absent",
		"real depth / field count = per definition nesting of selection sets / number of field selections of the accepted tree, no fragment expansion (weakest reading); over-counting is never an alarm; limit 0 = unlimited",
		"the textual fixed point print(parse(print(d))) == print(d) is compared byte for byte, for both printers, for every document whose first print re-parses, independently of the structural comparison; a failure of the indenting printer is reported only when the compact printer does not fail the same part (structure / fixed point)",
		"the value the document hands out for a block string value (BlockStringValueContentBytes) is compared with BlockStringValue() of the spec computed by the check from the raw text; strings on whose extent the check's scanner and the lexer disagree by more than white space are not judged (counted)",
		"a failing input is represented by one deletion-minimal failing subsequence (window deletion, bracket hoisting); other defects present in the same input are found through the inputs that lack the first one",
		"termination: an input is a hang only after 10 s of CPU time without progress in the shard and in 5 fresh processes (an evaluation takes 5-200 us)",
		"bytes only occur inside atoms; inputs are <= ~150 bytes",
	)
	run.Bound("hang_cpu_seconds", hangCPUSeconds)
	k := vk.Pick(run, 3, 4)
	run.Bound("atoms", len(atoms))
	run.Bound("atom_string_len", k)
	run.Bound("limit_grid_depth", depthLimits)
	run.Bound("limit_grid_fields", fieldLimits)

	idx := int64(0)
	// (a) atom strings
	c.atomStrings(atoms, 1, k, &idx, "atoms")
	if run.Thorough() {
		run.Bound("reduced_atoms", len(atomsReduced))
		run.Bound("reduced_atom_string_len", 5)
		c.atomStrings(atomsReduced, 5, 5, &idx, "atoms-reduced")
	}
	// (a') block string contents
	c.blockStrings(&idx)
	// (a'') descriptions that spell a keyword
	c.keywordDescriptions(&idx)
	// (b) grammar derivations
	c.derivations(&idx)
	// (c) seed edits
	run.Bound("seeds", len(seeds))
	c.seedEdits(&idx)

	run.Count("shrinks", c.nShrinks)
	if os.Getenv("VERIF_OUT") == "" {
		fmt.Printf("shrinks=%d\n", c.nShrinks)
	}
}

func (c *checker) atomStrings(alpha []string, kmin, kmax int, idx *int64, origin string) {
	n := len(alpha)
	for k := kmin; k <= kmax; k++ {
		ix := make([]int, k)
		parts := make([]string, k)
		for {
			if c.run.Mine(*idx) {
				for i, a := range ix {
					parts[i] = alpha[a]
				}
				c.judge(strings.Join(parts, ""), origin)
				if k > 1 {
					c.judge(strings.Join(parts, " "), origin)
				}
			}
			*idx++
			wdTick()
			if *idx&0xfff == 0 && c.run.Expired() {
				return
			}
			// odometer
			p := k - 1
			for p >= 0 {
				ix[p]++
				if ix[p] < n {
					break
				}
				ix[p] = 0
				p--
			}
			if p < 0 {
				break
			}
		}
	}
}

// The alphabet of block string contents: the escape sequence is ONE atom.
var blockAtoms = []string{"a", " ", `"`, "\\", `\"""`, "\n", "\t", "\r"}

// Hosts: a block string in value position and in every kind of description position.
var blockHosts = []string{
	`{a(a:"""%s""")}`,
	`query($v:S="""%s"""){a}`,
	`"""%s""" type T{f:Int}`,
	`type T{"""%s""" f:Int}`,
	`enum E{"""%s""" A}`,
	`type T{f("""%s""" a:Int):Int}`,
}

// blockStrings: every string of <=k block string atoms as the text between
// the delimiters, in every host.
func (c *checker) blockStrings(idx *int64) {
	k := vk.Pick(c.run, 4, 5)
	c.run.Bound("block_string_atoms", len(blockAtoms))
	c.run.Bound("block_string_content_len", k)
	c.run.Bound("block_string_hosts", len(blockHosts))
	n := len(blockAtoms)
	for l := 0; l <= k; l++ {
		ix := make([]int, l)
		for {
			if c.run.Mine(*idx) {
				var b strings.Builder
				for _, a := range ix {
					b.WriteString(blockAtoms[a])
				}
				for _, h := range blockHosts {
					c.judge(strings.Replace(h, "%s", b.String(), 1), "block-string")
				}
			}
			*idx++
			wdTick()
			p := l - 1
			for p >= 0 {
				ix[p]++
				if ix[p] < n {
					break
				}
				ix[p] = 0
				p--
			}
			if p < 0 {
				break
			}
		}
		if c.run.Expired() {
			return
		}
	}
}

// Definitions that can stand in front of a described definition: every ending
// after which the parser looks ahead for a contextual keyword or decides
// whether the definition goes on (no body / implements list / member list /
// directive / location list / body).
var kwFirsts = []string{
	"type A", "interface A", "union A", "enum A", "input A", "scalar A",
	"type A implements B", "interface A implements B", "type A @d", "union A = B", "enum A{B}", "type A{x:Int}",
	"directive @a on FIELD", "directive @a repeatable on FIELD", "schema{query:Q}",
	"extend type A @d", "extend type A implements B", "extend interface A @d", "extend union A = B", "extend scalar A @d", "extend schema @d",
	"fragment F on T{a}", "{a}",
}

// Definitions and extensions that carry the description.
var kwSeconds = []string{
	"schema{query:Q}", "type B{x:Int}", "type B", "interface B{x:Int}", "union B = C", "enum B{C}", "input B{x:Int}", "scalar B", "directive @b on FIELD",
	"extend type B{x:Int}", "extend interface B{x:Int}", "extend union B = C", "extend enum B{C}", "extend input B{x:Int}", "extend scalar B @d", "extend schema @d",
	"query Q{a}", "fragment G on T{a}",
}

// Members of a definition that carry the description, behind a first member.
var kwMemberHosts = []string{
	"type T{f:Int %s g:Int}", "interface T{f:Int %s g:Int}", "input T{a:Int %s b:Int}", "enum T{A %s B}",
	"type T{f(a:Int %s b:Int):Int}", "directive @t(a:Int %s b:Int) on FIELD", "type T{%s f:Int}", "enum T{%s A}",
	"extend type T{f:Int %s g:Int}", "extend enum T{A %s B}", "{a(b:%s)}", "query($v:S=%s){a}", "type T{f(a:S=%s):Int}",
}

// keywordDescriptions: SDL documents = a definition followed by a definition or
// extension (or a member behind a member) that carries a description, quoted
// and block form, whose content is each keyword of the grammar. Every oracle
// of the check applies; the one that matters is checkStringContentNeutral.
// On top of it the outcome is compared with what the generator built: two
// root nodes (one for the member hosts), the described one being the second.
func (c *checker) keywordDescriptions(idx *int64) {
	var kws []string
	for k := range grammarKeywords {
		kws = append(kws, k)
	}
	sort.Strings(kws)
	c.run.Bound("keyword_description_keywords", len(kws))
	c.run.Bound("keyword_description_first_definitions", len(kwFirsts))
	c.run.Bound("keyword_description_second_definitions", len(kwSeconds))
	c.run.Bound("keyword_description_member_hosts", len(kwMemberHosts))
	forms := []string{`"%s"`, `"""%s"""`, "\"\"\"\n  %s\n\"\"\""}
	for _, kw := range kws {
		for _, form := range forms {
			str := strings.Replace(form, "%s", kw, 1)
			for _, first := range kwFirsts {
				for _, second := range kwSeconds {
					for _, sep := range []string{" ", "\n"} {
						if c.run.Mine(*idx) {
							in := first + sep + str + sep + second
							c.judge(in, "keyword-description")
							c.expectRoots(in, 2, kw)
						}
						*idx++
					}
				}
			}
			for _, host := range kwMemberHosts {
				if c.run.Mine(*idx) {
					in := strings.Replace(host, "%s", str, 1)
					c.judge(in, "keyword-description-member")
					c.expectRoots(in, 1, kw)
				}
				*idx++
			}
		}
		if c.run.Expired() {
			return
		}
	}
}

// expectRoots compares an accepted generated document with what the generator
// built: the number of definitions. (Whether it is accepted at all is judged by
// checkStringContentNeutral against the same document with a neutral string.)
func (c *checker) expectRoots(in string, roots int, kw string) {
	p := parse(in)
	if !p.ok || len(p.doc.RootNodes) == roots {
		return
	}
	c.run.Count("failing_inputs:generated document has another number of definitions", 1)
	sh, _ := safeShape(p.doc)
	c.run.Violate(vk.Violation{
		Clause: clauseRT, Site: "generated document vs its parse: number of definitions", Class: "string whose content is a keyword, behind a definition or a member",
		Detail: fmt.Sprintf("generated document %q has %d definition(s), its parse has %d: %s", in, roots, len(p.doc.RootNodes), strings.TrimSpace(sh)),
		Input:  caseInput{Hex: hex.EncodeToString([]byte(in)), Text: in, Origin: "keyword-description", Key: clauseRT + "\x00generated"},
	})
}

func (c *checker) derivations(idx *int64) {
	d1 := vk.Pick(c.run, 3, 4)
	d2 := vk.Pick(c.run, 1, 2)
	c.run.Bound("derivation_deviations_single_definition", d1)
	c.run.Bound("derivation_deviations_two_definitions", d2)
	c.run.Bound("definition_kinds", len(defKinds))
	for _, k := range defKinds {
		for _, a := range k.g(d1) {
			if c.run.Mine(*idx) {
				c.judge(a.s, "derivation:"+k.name)
			}
			*idx++
		}
		if c.run.Expired() {
			return
		}
	}
	small := make([][]alt, len(defKinds))
	for i, k := range defKinds {
		small[i] = k.g(d2)
	}
	for i := range defKinds {
		for j := range defKinds {
			for _, x := range small[i] {
				for _, y := range small[j] {
					if x.c+y.c > d2 {
						continue
					}
					if c.run.Mine(*idx) {
						for _, sep := range defSeps {
							c.judge(x.s+sep+y.s, "derivation-pair")
						}
					}
					*idx++
				}
			}
			if c.run.Expired() {
				return
			}
		}
	}
}

func (c *checker) seedEdits(idx *int64) {
	two := c.run.Thorough()
	c.run.Bound("seed_edit_atoms", vk.Pick(c.run, 1, 2))
	for _, s := range seeds {
		for i := 0; i <= len(s); i++ {
			if c.run.Expired() {
				return
			}
			if c.run.Mine(*idx) {
				if i < len(s) {
					c.judge(s[:i]+s[i+1:], "seed-delete")
				}
				for _, a := range atoms {
					c.judge(s[:i]+a+s[i:], "seed-insert")
					if i < len(s) {
						c.judge(s[:i]+a+s[i+1:], "seed-replace")
					}
					if two {
						for _, b := range atoms {
							c.judge(s[:i]+a+b+s[i:], "seed-insert2")
						}
					}
				}
			}
			*idx++
		}
	}
}
