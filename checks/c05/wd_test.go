package c05

// Termination oracle. A shard publishes, through a small shared memory file,
// a sequence number and the input it is working on. A separate helper
// *process* (the same test binary, started by the shard) polls the CPU time the
// shard has consumed (/proc/<pid>/stat) and that sequence number. When the shard
// burns hangCPUSeconds of CPU time without moving on to the next evaluation the
// input is a hang suspect; the helper then runs that one input in up to five
// fresh processes and only if every one of them also burns hangCPUSeconds of
// CPU without finishing it records the violation, kills the shard and writes
// the shard's result file itself. Wall-clock time is used for the polling
// cadence only, never for a verdict; an evaluation normally takes 5-200 us, so
// the margin is 5 to 6 orders of magnitude. The helper is a process of its own
// because a goroutine of the shard could be stopped together with the hanging
// one (GODEBUG=asyncpreemptoff=1 + a pending stop-the-world).

import (
	"encoding/hex"
	"encoding/json"
	"fmt"
	"os"
	"os/exec"
	"strconv"
	"strings"
	"sync/atomic"
	"syscall"
	"testing"
	"time"
	"unsafe"

	"verif/internal/vk"
)

const (
	hangCPUSeconds = 10
	wdFileSize     = 8192
	wdMaxInput     = 4096
	wdOffSeq       = 0
	wdOffDone      = 8
	wdOffLen       = 16
	wdOffStage     = 20
	wdOffEvals     = 24
	wdOffInput     = 64
	clkTck         = 100 // USER_HZ, the unit of utime/stime in /proc/<pid>/stat
)

var (
	wdMem  []byte
	wdSeq  *uint64
	wdDone *uint64
	wdCmd  *exec.Cmd
	wdPath string
	// test hook for the watchdog itself: spin forever on this input
	wdSpinOn = func() string {
		b, _ := hex.DecodeString(os.Getenv("C05_TEST_SPIN_HEX"))
		return string(b)
	}()
)

// wdBeat announces the next evaluation.
func wdBeat(in string) {
	if wdMem == nil {
		if wdSpinOn != "" && in == wdSpinOn {
			for {
			}
		}
		return
	}
	atomic.AddUint64(wdSeq, 1) // odd: being written
	n := len(in)
	if n > wdMaxInput {
		n = wdMaxInput
	}
	*(*uint32)(unsafe.Pointer(&wdMem[wdOffLen])) = uint32(n)
	copy(wdMem[wdOffInput:], in[:n])
	wdMem[wdOffStage] = 0
	*(*uint64)(unsafe.Pointer(&wdMem[wdOffEvals]))++
	atomic.AddUint64(wdSeq, 1) // even: stable
	if wdSpinOn != "" && in == wdSpinOn {
		for {
		}
	}
}

// wdTick reports progress that is not an evaluation (generating inputs).
func wdTick() {
	if wdMem != nil {
		atomic.AddUint64(wdSeq, 2)
	}
}

func wdStage(s byte) {
	if wdMem != nil {
		wdMem[wdOffStage] = s
	}
}

var stageNames = map[byte]string{0: "parse", 1: "print / re-parse (compact printer)", 2: "print / re-parse (indenting printer)", 3: "parse with limits"}

func wdMap(path string, create bool) ([]byte, error) {
	flags := os.O_RDWR
	if create {
		flags |= os.O_CREATE | os.O_TRUNC
	}
	f, err := os.OpenFile(path, flags, 0o600)
	if err != nil {
		return nil, err
	}
	defer f.Close()
	if create {
		if err := f.Truncate(wdFileSize); err != nil {
			return nil, err
		}
	}
	return syscall.Mmap(int(f.Fd()), 0, wdFileSize, syscall.PROT_READ|syscall.PROT_WRITE, syscall.MAP_SHARED)
}

// wdStart maps the shared file and starts the helper process.
func wdStart() error {
	if os.Getenv("C05_NO_WATCHDOG") != "" {
		return nil
	}
	out := os.Getenv("VERIF_OUT")
	if out != "" {
		wdPath = out + ".wd"
	} else {
		f, err := os.CreateTemp("", "c05-wd-*")
		if err != nil {
			return err
		}
		wdPath = f.Name()
		f.Close()
	}
	mem, err := wdMap(wdPath, true)
	if err != nil {
		return err
	}
	cmd := exec.Command(os.Args[0], "-test.run", "^TestWatchdogHelper$", "-test.timeout", "0")
	cmd.Env = append(os.Environ(), "C05_WD_FILE="+wdPath, "C05_WD_PID="+strconv.Itoa(os.Getpid()))
	cmd.Stdout = os.Stderr
	cmd.Stderr = os.Stderr
	if err := cmd.Start(); err != nil {
		syscall.Munmap(mem)
		os.Remove(wdPath)
		return err
	}
	wdCmd = cmd
	wdSeq = (*uint64)(unsafe.Pointer(&mem[wdOffSeq]))
	wdDone = (*uint64)(unsafe.Pointer(&mem[wdOffDone]))
	wdMem = mem
	return nil
}

func wdStop() {
	if wdMem == nil {
		return
	}
	atomic.StoreUint64(wdDone, 1)
	wdCmd.Wait()
	mem := wdMem
	wdMem = nil
	syscall.Munmap(mem)
	os.Remove(wdPath)
}

// procCPU returns utime+stime of a process in clock ticks; alive=false when the
// process is gone or a zombie.
func procCPU(pid int) (ticks int64, alive bool) {
	b, err := os.ReadFile("/proc/" + strconv.Itoa(pid) + "/stat")
	if err != nil {
		return 0, false
	}
	s := string(b)
	i := strings.LastIndexByte(s, ')')
	if i < 0 {
		return 0, false
	}
	f := strings.Fields(s[i+1:])
	if len(f) < 13 || f[0] == "Z" || f[0] == "X" {
		return 0, false
	}
	u, _ := strconv.ParseInt(f[11], 10, 64)
	st, _ := strconv.ParseInt(f[12], 10, 64)
	return u + st, true
}

func wdSnapshot(mem []byte) (seq uint64, in string, stage byte) {
	p := (*uint64)(unsafe.Pointer(&mem[wdOffSeq]))
	for try := 0; try < 1000; try++ {
		s1 := atomic.LoadUint64(p)
		n := int(*(*uint32)(unsafe.Pointer(&mem[wdOffLen])))
		if n > wdMaxInput {
			n = wdMaxInput
		}
		in = string(mem[wdOffInput : wdOffInput+n])
		stage = mem[wdOffStage]
		if s1&1 == 0 && atomic.LoadUint64(p) == s1 {
			return s1, in, stage
		}
		time.Sleep(time.Millisecond)
	}
	return atomic.LoadUint64(p), in, stage
}

// probeOnce runs one input in a fresh process; hung=true when the process burnt
// hangCPUSeconds of CPU time without finishing.
func probeOnce(in string) (hung bool, err error) {
	cmd := exec.Command(os.Args[0], "-test.run", "^TestHangProbe$", "-test.timeout", "0")
	env := []string{}
	for _, e := range os.Environ() {
		if !strings.HasPrefix(e, "C05_WD_") && !strings.HasPrefix(e, "VERIF_OUT=") {
			env = append(env, e)
		}
	}
	cmd.Env = append(env, "C05_PROBE_HEX="+hex.EncodeToString([]byte(in)), "C05_NO_WATCHDOG=1")
	if err := cmd.Start(); err != nil {
		return false, err
	}
	done := make(chan error, 1)
	go func() { done <- cmd.Wait() }()
	for {
		select {
		case <-done:
			return false, nil
		case <-time.After(100 * time.Millisecond):
		}
		if t, alive := procCPU(cmd.Process.Pid); alive && t >= hangCPUSeconds*clkTck {
			cmd.Process.Kill()
			<-done
			return true, nil
		}
	}
}

func TestHangProbe(t *testing.T) {
	hx := os.Getenv("C05_PROBE_HEX")
	if hx == "" {
		t.Skip("helper of TestCheck")
	}
	b, err := hex.DecodeString(hx)
	if err != nil {
		t.Fatal(err)
	}
	evaluate(string(b), mAll)
	fmt.Println("PROBE-DONE")
}

func TestWatchdogHelper(t *testing.T) {
	path := os.Getenv("C05_WD_FILE")
	pid, _ := strconv.Atoi(os.Getenv("C05_WD_PID"))
	if path == "" || pid == 0 {
		t.Skip("helper of TestCheck")
	}
	mem, err := wdMap(path, false)
	if err != nil {
		fmt.Fprintln(os.Stderr, "c05 watchdog: cannot map", path, err)
		return
	}
	done := (*uint64)(unsafe.Pointer(&mem[wdOffDone]))
	var lastSeq uint64
	var cpuAtChange int64 = -1
	unconfirmed := 0
	for {
		time.Sleep(200 * time.Millisecond)
		if atomic.LoadUint64(done) != 0 {
			return
		}
		cpu, alive := procCPU(pid)
		if !alive {
			return
		}
		seq := atomic.LoadUint64((*uint64)(unsafe.Pointer(&mem[wdOffSeq])))
		if seq != lastSeq || cpuAtChange < 0 {
			lastSeq, cpuAtChange = seq, cpu
			continue
		}
		if cpu-cpuAtChange < hangCPUSeconds*clkTck {
			continue
		}
		_, in, stage := wdSnapshot(mem)
		fmt.Fprintf(os.Stderr, "c05 watchdog: shard pid %d spent %d s of CPU on input %q (stage %s); re-running it in fresh processes\n", pid, hangCPUSeconds, in, stageNames[stage])
		// the shard is suspended while the input is tried in fresh processes
		syscall.Kill(pid, syscall.SIGSTOP)
		repro := 0
		for i := 0; i < 5; i++ {
			hung, err := probeOnce(in)
			if err != nil || !hung {
				break
			}
			repro++
		}
		if repro < 5 {
			unconfirmed++
			fmt.Fprintf(os.Stderr, "c05 watchdog: not reproduced in a fresh process (%d/5)\n", repro)
			if unconfirmed < 3 {
				cpuAtChange = cpu
				syscall.Kill(pid, syscall.SIGCONT)
				continue
			}
		}
		// stop the shard and write its result file in its place
		syscall.Kill(pid, syscall.SIGKILL)
		for i := 0; i < 100; i++ {
			if _, alive := procCPU(pid); !alive {
				break
			}
			time.Sleep(50 * time.Millisecond)
		}
		res := vk.Result{Property: "C05", Tier: os.Getenv("VERIF_TIER"), Level: "exploration", Evaluations: int64(*(*uint64)(unsafe.Pointer(&mem[wdOffEvals]))),
			Exhaustive: false, Bounds: map[string]any{}, Counters: map[string]int64{}}
		res.Shard, _ = strconv.Atoi(os.Getenv("VERIF_SHARD"))
		res.NShards, _ = strconv.Atoi(os.Getenv("VERIF_NSHARDS"))
		if repro == 5 {
			res.Caps = []string{"shard stopped by the termination oracle"}
			res.Violations = []vk.Violation{{Property: "C05", Clause: clauseHang, Site: stageNames[stage], Class: "no progress within " + strconv.Itoa(hangCPUSeconds) + " s of CPU time, reproduced in 5 fresh processes",
				Detail: fmt.Sprintf("input %q: the shard and 5 fresh processes each consumed %d s of CPU time in stage %q without finishing this one input (an evaluation normally takes 5-200 us)", in, hangCPUSeconds, stageNames[stage]),
				Input:  caseInput{Hex: hex.EncodeToString([]byte(in)), Text: in, Origin: "watchdog", Key: clauseHang + "\x00" + stageNames[stage]}, Count: 1}}
		} else {
			res.Caps = []string{"shard made no progress but the input did not reproduce in a fresh process; shard stopped, not judged"}
			res.Notes = []string{fmt.Sprintf("stuck on input %q, not reproduced", in)}
		}
		b, _ := json.Marshal(res)
		if out := os.Getenv("VERIF_OUT"); out != "" {
			os.WriteFile(out+".tmp", b, 0o644)
			os.Rename(out+".tmp", out)
		} else {
			fmt.Fprintf(os.Stderr, "c05 watchdog: result %s\n", b)
		}
		os.Remove(path)
		return
	}
}
