package c05

// Oracles of C05, applied to one input string.

import (
	"fmt"
	"reflect"
	"regexp"
	"runtime"
	"strconv"
	"strings"

	"github.com/wundergraph/graphql-go-tools/v2/pkg/ast"
	"github.com/wundergraph/graphql-go-tools/v2/pkg/astparser"
	"github.com/wundergraph/graphql-go-tools/v2/pkg/astprinter"
	"github.com/wundergraph/graphql-go-tools/v2/pkg/lexer/position"
	"github.com/wundergraph/graphql-go-tools/v2/pkg/operationreport"
)

// The sentences of the property (fixed strings, part of the fingerprint).
const (
	clausePanic  = "lexer and parser never panic"
	clauseHang   = "lexer and parser terminate"
	clauseInside = "every name, value and position of an accepted document lies inside the input"
	clauseRT     = "printing and parsing the print yields a structurally identical document, so printing is a fixed point after one round"
	clauseLimits = "a document exceeding a depth or field limit is never accepted when parsing with limits"
)

const repoPrefix = "github.com/wundergraph/graphql-go-tools/"

// failure is one failed oracle clause on one input (before shrinking).
type failure struct {
	Clause string
	Site   string
	Detail string
}

func (f failure) key() string { return f.Clause + "\x00" + f.Site }

// limit grid: 0 = unlimited on that axis.
var depthLimits = []int{0, 1, 2, 3}
var fieldLimits = []int{0, 1, 2, 4}

type evalResult struct {
	Accepted             bool
	RejectMsg            string
	Fails                []failure
	Outcome              string
	Executable           bool
	Depth                int
	Fields               int
	IndentSkip           bool // indenting printer not judged because the compact one already failed
	BlockValuesNotJudged int
	OverCount            int // grid points where the limits rejected although my count is within the limits (never an alarm)
	LimitRuns            int
}

// panicSite returns the innermost frame of the code under test on the
// panicking stack (called from a deferred function) and a normalised message.
func panicSite(p any) (site, class string) {
	pcs := make([]uintptr, 64)
	n := runtime.Callers(2, pcs)
	frames := runtime.CallersFrames(pcs[:n])
	site = "unknown frame"
	for {
		fr, more := frames.Next()
		if strings.HasPrefix(fr.Function, repoPrefix) {
			site = strings.TrimPrefix(fr.Function, repoPrefix)
			break
		}
		if !more {
			break
		}
	}
	class = numRe.ReplaceAllString(fmt.Sprint(p), "N")
	if len(class) > 80 {
		class = class[:80]
	}
	return site, class
}

var numRe = regexp.MustCompile(`-?\d+`)

type parseOut struct {
	doc      *ast.Document
	ok       bool
	msg      string
	panicked bool
	site     string
	pclass   string
}

var parser = astparser.NewParser()

func parse(in string) (out parseOut) {
	defer func() {
		if p := recover(); p != nil {
			out.panicked = true
			out.site, out.pclass = panicSite(p)
			out.ok = false
			parser = astparser.NewParser() // the old one may be in an inconsistent state
		}
	}()
	doc := ast.NewSmallDocument()
	doc.Input.ResetInputString(in)
	var rep operationreport.Report
	parser.Parse(doc, &rep)
	out.doc = doc
	if rep.HasErrors() {
		out.msg = rep.Error()
		return out
	}
	out.ok = true
	return out
}

type limitOut struct {
	accepted bool
	panicked bool
	site     string
	pclass   string
	stats    astparser.TokenizerStats
}

func parseWithLimits(in string, maxDepth, maxFields int) (out limitOut) {
	defer func() {
		if p := recover(); p != nil {
			out.panicked = true
			out.site, out.pclass = panicSite(p)
			parser = astparser.NewParser()
		}
	}()
	doc := ast.NewSmallDocument()
	doc.Input.ResetInputString(in)
	var rep operationreport.Report
	stats, err := parser.ParseWithLimits(astparser.TokenizerLimits{MaxDepth: maxDepth, MaxFields: maxFields}, doc, &rep)
	out.stats = stats
	out.accepted = err == nil && !rep.HasErrors()
	return out
}

type printOut struct {
	s        string
	err      error
	panicked bool
	site     string
	pclass   string
}

func printDoc(doc *ast.Document, indent bool) (out printOut) {
	defer func() {
		if p := recover(); p != nil {
			out.panicked = true
			out.site, out.pclass = panicSite(p)
		}
	}()
	if indent {
		out.s, out.err = astprinter.PrintStringIndent(doc, "  ")
	} else {
		out.s, out.err = astprinter.PrintString(doc)
	}
	return out
}

func safeShape(doc *ast.Document) (s string, perr string) {
	defer func() {
		if p := recover(); p != nil {
			perr = fmt.Sprint(p)
		}
	}()
	return shapeOf(doc), ""
}

// ---- "inside the input"

var (
	refType = reflect.TypeOf(ast.ByteSliceReference{})
	posType = reflect.TypeOf(position.Position{})
)

type insideChecker struct {
	n      int
	lines  []int // start offset of every line ('\n' separated, the convention of the lexer)
	bad    string
	detail string
}

func newInsideChecker(in string) *insideChecker {
	c := &insideChecker{n: len(in), lines: []int{0}}
	for i := 0; i < len(in); i++ {
		if in[i] == '\n' {
			c.lines = append(c.lines, i+1)
		}
	}
	return c
}

// offset maps (line, column) to a byte offset; ok=false when the line does not
// exist or the column lies beyond the end of that line (the line terminator
// and the end of input count as addressable).
func (c *insideChecker) offset(line, col uint32) (int, bool) {
	if line < 1 || int(line) > len(c.lines) || col < 1 {
		return 0, false
	}
	start := c.lines[line-1]
	end := c.n
	if int(line) < len(c.lines) {
		end = c.lines[line] // one past the '\n'
	}
	off := start + int(col) - 1
	if off > end {
		return 0, false
	}
	return off, true
}

func (c *insideChecker) walk(v reflect.Value, path string) {
	if c.bad != "" {
		return
	}
	switch v.Type() {
	case refType:
		r := v.Interface().(ast.ByteSliceReference)
		if r.Start > r.End || int(r.End) > c.n {
			c.bad = path
			c.detail = fmt.Sprintf("byte reference %s = [%d,%d) with input length %d", path, r.Start, r.End, c.n)
		}
		return
	case posType:
		p := v.Interface().(position.Position)
		if p == (position.Position{}) {
			return // absent
		}
		s, ok1 := c.offset(p.LineStart, p.CharStart)
		e, ok2 := c.offset(p.LineEnd, p.CharEnd)
		if !ok1 || !ok2 || s > e {
			c.bad = path
			c.detail = fmt.Sprintf("position %s = %d:%d-%d:%d does not address the input (%d bytes, %d lines)", path, p.LineStart, p.CharStart, p.LineEnd, p.CharEnd, c.n, len(c.lines))
		}
		return
	}
	switch v.Kind() {
	case reflect.Struct:
		t := v.Type()
		for i := 0; i < v.NumField(); i++ {
			f := t.Field(i)
			if !f.IsExported() {
				continue
			}
			name := f.Name
			if f.Anonymous {
				c.walk(v.Field(i), path)
			} else {
				c.walk(v.Field(i), path+"."+name)
			}
		}
	case reflect.Array:
		if v.Type().Elem().Kind() == reflect.Struct {
			for i := 0; i < v.Len(); i++ {
				c.walk(v.Index(i), path)
			}
		}
	}
}

// skipped members of ast.Document: not part of the parsed tree.
var docSkip = map[string]bool{"Input": true, "Index": true, "Refs": true, "RefIndex": true, "BooleanValues": true, "OnCopyField": true, "OnMergeFields": true, "RootNodes": true}

// checkInside walks every node slice of the document reflectively.
func checkInside(doc *ast.Document, in string) (site, detail string) {
	if len(doc.Input.RawBytes) != len(in) {
		return "Input.RawBytes", fmt.Sprintf("the parser changed the input length from %d to %d", len(in), len(doc.Input.RawBytes))
	}
	c := newInsideChecker(in)
	v := reflect.ValueOf(doc).Elem()
	t := v.Type()
	for i := 0; i < v.NumField(); i++ {
		f := t.Field(i)
		if docSkip[f.Name] || f.Type.Kind() != reflect.Slice || f.Type.Elem().Kind() != reflect.Struct {
			continue
		}
		sl := v.Field(i)
		en := f.Type.Elem().Name()
		for j := 0; j < sl.Len(); j++ {
			c.walk(sl.Index(j), en)
			if c.bad != "" {
				return c.bad, c.detail
			}
		}
	}
	return "", ""
}

const siteBlockLiteral = "block string literal handed out by the lexer vs the trimmed text between the delimiters"

// checkBlockLiterals: for every block string of the accepted document (values
// and descriptions) the literal the lexer hands out must be the text between
// the delimiters of the spec-level token with the white space at both ends
// trimmed (that is the lexer's contract, the printers rely on it).
func checkBlockLiterals(doc *ast.Document, in string) (bad string, notJudged int) {
	if !strings.Contains(in, `"""`) {
		return "", 0
	}
	var toks []tok
	for _, r := range blockRefsOf(doc) {
		if toks == nil {
			toks = scan(in)
		}
		cs, ce := int(r.Start), int(r.End)
		if cs > ce || ce > len(in) {
			notJudged++
			continue
		}
		found := false
		for _, t := range toks {
			if t.kind != tkBlockString || cs < t.start+3 || cs > t.end {
				continue
			}
			if len(t.text) < 6 || !strings.HasSuffix(t.text, `"""`) || cs > t.end-3 {
				break
			}
			found = true
			inner := in[t.start+3 : t.end-3]
			if want := strings.Trim(inner, " \t\r\n"); in[cs:ce] != want && bad == "" {
				bad = fmt.Sprintf("the block string with raw text %q has the literal %q, the lexer hands out %q", inner, want, in[cs:ce])
			}
			break
		}
		if !found {
			notJudged++
		}
	}
	return bad, notJudged
}

// blockRefsOf returns the literal reference of every block string of the tree
// (string values first, then descriptions in slice order).
func blockRefsOf(doc *ast.Document) []ast.ByteSliceReference {
	var out []ast.ByteSliceReference
	for _, sv := range doc.StringValues {
		if sv.BlockString {
			out = append(out, sv.Content)
		}
	}
	var descs func(v reflect.Value)
	descs = func(v reflect.Value) {
		switch v.Kind() {
		case reflect.Struct:
			if v.Type() == descType {
				d := v.Interface().(ast.Description)
				if d.IsDefined && d.IsBlockString {
					out = append(out, d.Content)
				}
				return
			}
			for i := 0; i < v.NumField(); i++ {
				if v.Type().Field(i).IsExported() {
					descs(v.Field(i))
				}
			}
		case reflect.Slice:
			if v.Type().Elem().Kind() == reflect.Struct {
				for i := 0; i < v.Len(); i++ {
					descs(v.Index(i))
				}
			}
		}
	}
	dv := reflect.ValueOf(doc).Elem()
	for i := 0; i < dv.NumField(); i++ {
		if !docSkip[dv.Type().Field(i).Name] {
			descs(dv.Field(i))
		}
	}
	return out
}

var descType = reflect.TypeOf(ast.Description{})

const siteBlockValue = "block string value handed out by the document (BlockStringValueContentBytes) vs BlockStringValue() of the spec"

// checkBlockValues compares, for every block string *value* of the accepted
// document, what the library hands out as its value with BlockStringValue()
// of the spec computed by the check from the raw text between the delimiters
// (the \""" escape is left alone on both sides). The raw text is the block
// string token of the check's own spec-level scanner (the first unescaped """
// closes) that contains the start of the literal; a literal that lies in no
// terminated token of the scanner is not judged.
func checkBlockValues(doc *ast.Document, in string) (bad, kind string, notJudged int) {
	var toks []tok
	for i := range doc.StringValues {
		sv := doc.StringValues[i]
		if !sv.BlockString {
			continue
		}
		if toks == nil {
			toks = scan(in)
		}
		cs, ce := int(sv.Content.Start), int(sv.Content.End)
		if cs > ce || ce > len(in) {
			notJudged++
			continue
		}
		var inner string
		found := false
		for _, t := range toks {
			if t.kind != tkBlockString || cs < t.start+3 || cs > t.end {
				continue
			}
			if len(t.text) < 6 || !strings.HasSuffix(t.text, `"""`) || ce > t.end-3 {
				break
			}
			inner, found = in[t.start+3:t.end-3], true
			break
		}
		if !found {
			notJudged++
			continue
		}
		want := blockStringValueNoUnescape([]byte(inner))
		got, perr := func() (v string, perr string) {
			defer func() {
				if p := recover(); p != nil {
					perr = fmt.Sprint(p)
				}
			}()
			return string(doc.BlockStringValueContentBytes(i)), ""
		}()
		if perr != "" {
			return fmt.Sprintf("BlockStringValueContentBytes panics on the block string %q: %s", inner, perr), "panic", notJudged
		}
		if got != want && bad == "" {
			kind = blockValueDiffKind(want, got)
			bad = fmt.Sprintf("the block string with raw text %q has the value %q, the document hands out %q", inner, want, got)
		}
	}
	return bad, kind, notJudged
}

// blockValueDiffKind names the kind of deviation; it is part of the site, so
// that shrinking keeps the kind (a deviation of one kind cannot be shrunk into
// an input that shows a deviation of another kind).
func blockValueDiffKind(want, got string) string {
	if want == "" && strings.Trim(got, " \t\r\n") == "" {
		return "white-space-only string not emptied"
	}
	wl, gl := strings.Split(want, "\n"), strings.Split(got, "\n")
	if len(wl) == len(gl) {
		same := true
		for i := range wl {
			if strings.TrimLeft(wl[i], " \t") != strings.TrimLeft(gl[i], " \t") {
				same = false
			}
		}
		if same {
			return "leading white space of lines differs"
		}
	}
	return "other difference"
}

// ---- my own count of selection depth and fields (weakest reading: per
// definition, no fragment expansion)

func countDepthFields(doc *ast.Document) (executable bool, depth, fields int) {
	var walk func(set int, level int)
	walk = func(set int, level int) {
		if level > depth {
			depth = level
		}
		for _, sr := range doc.SelectionSets[set].SelectionRefs {
			sel := doc.Selections[sr]
			switch sel.Kind {
			case ast.SelectionKindField:
				fields++
				f := doc.Fields[sel.Ref]
				if f.HasSelections {
					walk(f.SelectionSet, level+1)
				}
			case ast.SelectionKindInlineFragment:
				f := doc.InlineFragments[sel.Ref]
				if f.HasSelections {
					walk(f.SelectionSet, level+1)
				}
			}
		}
	}
	for _, n := range doc.RootNodes {
		switch n.Kind {
		case ast.NodeKindOperationDefinition:
			executable = true
			if o := doc.OperationDefinitions[n.Ref]; o.HasSelections {
				walk(o.SelectionSet, 1)
			}
		case ast.NodeKindFragmentDefinition:
			executable = true
			if o := doc.FragmentDefinitions[n.Ref]; o.HasSelections {
				walk(o.SelectionSet, 1)
			}
		}
	}
	return
}

// ---- round trip through one printer

type rtStage int

const (
	rtOK rtStage = iota
	rtPrintFails
	rtNoReparse
	rtShapeDiffers
	rtNotFixed
)

func (s rtStage) String() string {
	return [...]string{"ok", "print fails", "print does not re-parse", "re-parsed document differs", "second print differs"}[s]
}

// rtFinding is one failed stage of the round trip through one printer.
type rtFinding struct {
	stage        rtStage
	site, detail string
}

// roundTrip runs parse-print-parse-print through one printer. The structural
// comparison and the textual fixed point print(parse(print(d))) == print(d) are
// judged independently of each other for every document whose first print
// re-parses; the fixed point is compared byte for byte.
func roundTrip(doc *ast.Document, shape string, indent bool) (out []rtFinding) {
	p1 := printDoc(doc, indent)
	if p1.panicked {
		return []rtFinding{{rtPrintFails, "printer panics in " + p1.site, "printer panic: " + p1.pclass}}
	}
	if p1.err != nil {
		return []rtFinding{{rtPrintFails, "printer returns an error", p1.err.Error()}}
	}
	d2 := parse(p1.s)
	if d2.panicked {
		return []rtFinding{{rtNoReparse, "", fmt.Sprintf("print %q makes the parser panic in %s: %s", p1.s, d2.site, d2.pclass)}}
	}
	if !d2.ok {
		return []rtFinding{{rtNoReparse, "", fmt.Sprintf("print %q is rejected: %s", p1.s, clip(d2.msg, 160))}}
	}
	sh2, perr := safeShape(d2.doc)
	if perr != "" {
		out = append(out, rtFinding{rtShapeDiffers, "", fmt.Sprintf("print %q re-parses to a document with dangling references (%s)", p1.s, perr)})
	} else if sh2 != shape {
		out = append(out, rtFinding{rtShapeDiffers, "", fmt.Sprintf("print %q re-parses to\n      %s   instead of\n      %s", p1.s, strings.TrimSpace(sh2), strings.TrimSpace(shape))})
	}
	p2 := printDoc(d2.doc, indent)
	if p2.panicked || p2.err != nil {
		out = append(out, rtFinding{rtNotFixed, "", fmt.Sprintf("first print %q, printing its parse fails (%v %s)", p1.s, p2.err, p2.pclass)})
	} else if p2.s != p1.s {
		out = append(out, rtFinding{rtNotFixed, "", fmt.Sprintf("first print %q, second print %q", p1.s, p2.s)})
	}
	return out
}

func rtFailure(stage rtStage, printer, site, detail string) failure {
	cl := clauseRT
	s := stage.String() + " (" + printer + ")"
	if site != "" {
		s += ": " + site
	}
	return failure{Clause: cl, Site: s, Detail: detail}
}

func normReject(msg string) string {
	// keep the kind of complaint, drop positions
	msg = locRe.ReplaceAllString(msg, "")
	if len(msg) > 120 {
		msg = msg[:120]
	}
	return msg
}

var locRe = regexp.MustCompile(`, locations: \[[^\]]*\]|, path: \[[^\]]*\]`)

func clip(s string, n int) string {
	if len(s) > n {
		return s[:n] + "..."
	}
	return s
}

// The grammar's keywords (contextual: they are names everywhere else).
var grammarKeywords = map[string]bool{"on": true, "true": true, "false": true, "null": true, "query": true, "mutation": true, "subscription": true,
	"fragment": true, "implements": true, "schema": true, "scalar": true, "type": true, "interface": true, "union": true, "enum": true, "input": true,
	"directive": true, "extend": true, "repeatable": true}

const (
	siteStringStructure = "a string whose content spells a keyword is parsed differently from the same string with a neutral content"
	siteStringAccept    = "a string whose content spells a keyword changes whether the document is accepted"
	neutralWord         = "zqz"
)

// checkStringContentNeutral: a quoted or block string (description or value)
// is one token whatever it contains, so the document with the string
// "<keyword>" must be accepted exactly when the document with the string
// "zqz" in its place is, and with the same shape up to that content. The
// second document is the reference: its string cannot be mistaken for a
// keyword. (The parse of a mis-read document is self-consistent under
// print / parse, only a reference shape shows it.)
func checkStringContentNeutral(in string, p parseOut) (site, detail string) {
	if strings.IndexByte(in, '"') < 0 || strings.Contains(in, neutralWord) {
		return "", ""
	}
	var toks []tok
	for _, t := range scan(in) {
		if t.kind == tkString || t.kind == tkBlockString {
			toks = append(toks, t)
		}
	}
	for _, t := range toks {
		var inner string
		var off int
		if t.kind == tkBlockString {
			if len(t.text) < 6 || !strings.HasSuffix(t.text, `"""`) {
				continue
			}
			inner, off = t.text[3:len(t.text)-3], t.start+3
		} else {
			if len(t.text) < 2 || !strings.HasSuffix(t.text, `"`) {
				continue
			}
			inner, off = t.text[1:len(t.text)-1], t.start+1
		}
		word := inner
		if t.kind == tkBlockString {
			word = strings.Trim(inner, " \t\r\n")
		}
		if !grammarKeywords[word] {
			continue
		}
		at := off + strings.Index(inner, word)
		ref := in[:at] + neutralWord + in[at+len(word):]
		rp := parse(ref)
		if rp.panicked {
			continue // reported when that input is evaluated itself
		}
		if rp.ok != p.ok {
			return siteStringAccept, fmt.Sprintf("accepted=%v, but the same document with the string content %q instead of %q (%q): accepted=%v", p.ok, neutralWord, word, ref, rp.ok)
		}
		if !p.ok {
			continue
		}
		sh, e1 := safeShape(p.doc)
		rsh, e2 := safeShape(rp.doc)
		if e1 != "" || e2 != "" {
			continue
		}
		if want := strings.ReplaceAll(rsh, strconv.Quote(neutralWord), strconv.Quote(word)); sh != want {
			return siteStringStructure, fmt.Sprintf("parses to\n      %s   but with the string content %q instead of %q the reference shape is\n      %s", strings.TrimSpace(sh), neutralWord, word, strings.TrimSpace(want))
		}
	}
	return "", ""
}

const (
	siteNumberStructure = "a float literal with an exponent is parsed differently from the same document with the float 2.5 in its place"
	siteNumberAccept    = "a float literal with an exponent changes whether the document is accepted"
	neutralFloat        = "2.5"
)

var specExpFloat = regexp.MustCompile(`(0|[1-9][0-9]*)(\.[0-9]+)?[eE][+-]?[0-9]+`)

// checkNumberNeutral: an unsigned float literal with an exponent part
// (IntegerPart FractionalPart? ExponentPart, October 2021 section 2.9.4) is one
// token, so the document must be accepted exactly when the document with 2.5
// in its place is, and with the same shape up to the literal's text. Only
// occurrences that are a whole token by the spec's look-ahead rules (not
// preceded by a name byte, digit, '.', '-' or '+', not followed by a name
// start, digit or '.') and lie outside strings and comments are judged.
func checkNumberNeutral(in string, p parseOut) (site, detail string) {
	if !strings.ContainsAny(in, "eE") || strings.Contains(in, neutralFloat) {
		return "", ""
	}
	ms := specExpFloat.FindAllStringIndex(in, -1)
	if len(ms) == 0 {
		return "", ""
	}
	var skip []tok
	for _, t := range scan(in) {
		if t.kind == tkString || t.kind == tkBlockString || t.kind == tkComment {
			skip = append(skip, t)
		}
	}
next:
	for _, m := range ms {
		a, b := m[0], m[1]
		for _, t := range skip {
			if a < t.end && b > t.start {
				continue next
			}
		}
		if a > 0 {
			if c := in[a-1]; isWordByte(c) || c == '.' || c == '-' || c == '+' || c >= 0x80 {
				continue
			}
		}
		if b < len(in) {
			if c := in[b]; isWordByte(c) || c == '.' || c >= 0x80 {
				continue
			}
		}
		text := in[a:b]
		ref := in[:a] + neutralFloat + in[b:]
		rp := parse(ref)
		if rp.panicked {
			continue
		}
		if rp.ok != p.ok {
			return siteNumberAccept, fmt.Sprintf("accepted=%v, but the same document with the float %s instead of %s (%q): accepted=%v", p.ok, neutralFloat, text, ref, rp.ok)
		}
		if !p.ok {
			continue
		}
		sh, e1 := safeShape(p.doc)
		rsh, e2 := safeShape(rp.doc)
		if e1 != "" || e2 != "" {
			continue
		}
		if want := strings.ReplaceAll(rsh, "float:"+strconv.Quote(neutralFloat), "float:"+strconv.Quote(text)); sh != want {
			return siteNumberStructure, fmt.Sprintf("parses to\n      %s   but with the float %s instead of %s the reference shape is\n      %s", strings.TrimSpace(sh), neutralFloat, text, strings.TrimSpace(want))
		}
	}
	return "", ""
}

// which oracle groups evaluate() runs (shrinking only needs the group of the failed clause)
const (
	mInside = 1 << iota
	mRT
	mLimits
	mAll = mInside | mRT | mLimits
)

func maskFor(clause string) int {
	switch clause {
	case clauseInside:
		return mInside
	case clauseRT:
		return mRT
	case clauseLimits:
		return mLimits
	}
	return mAll
}

// evaluate applies the selected oracles to one input.
func evaluate(in string, mask int) (res evalResult) {
	wdBeat(in)
	p := parse(in)
	if p.panicked {
		res.Fails = append(res.Fails, failure{clausePanic, p.site, fmt.Sprintf("input %q: panic %s", in, p.pclass)})
		res.Outcome = "panic:" + p.site
		return res
	}
	var sites []string
	// the content of a string never decides the structure
	if mask&mRT != 0 {
		if site, detail := checkStringContentNeutral(in, p); site != "" {
			res.Fails = append(res.Fails, failure{clauseRT, site, fmt.Sprintf("input %q: %s", in, detail)})
			sites = append(sites, "string-content")
		}
		if site, detail := checkNumberNeutral(in, p); site != "" {
			res.Fails = append(res.Fails, failure{clauseRT, site, fmt.Sprintf("input %q: %s", in, detail)})
			sites = append(sites, "number-literal")
		}
	}
	if !p.ok {
		res.RejectMsg = p.msg
		res.Outcome = "rej:" + normReject(p.msg) + strings.Join(sites, ";")
		return res
	}
	res.Accepted = true
	doc := p.doc

	// inside the input
	if mask&mInside == 0 {
	} else if site, detail := checkInside(doc, in); site != "" {
		res.Fails = append(res.Fails, failure{clauseInside, site, fmt.Sprintf("input %q: %s", in, detail)})
		sites = append(sites, site)
	}

	// block string literals handed out by the lexer
	if mask&mInside != 0 {
		bad, nj := checkBlockLiterals(doc, in)
		res.BlockValuesNotJudged += nj
		if bad != "" {
			res.Fails = append(res.Fails, failure{clauseInside, siteBlockLiteral, fmt.Sprintf("input %q: %s", in, bad)})
			sites = append(sites, "blockliteral")
		}
	}

	// block string values handed out by the document vs BlockStringValue() of the spec
	if mask&mInside != 0 {
		bad, kind, nj := checkBlockValues(doc, in)
		res.BlockValuesNotJudged += nj
		if bad != "" {
			res.Fails = append(res.Fails, failure{clauseInside, siteBlockValue + ": " + kind, fmt.Sprintf("input %q: %s", in, bad)})
			sites = append(sites, "blockvalue")
		}
	}

	// shape
	shape, perr := safeShape(doc)
	if perr != "" {
		res.Fails = append(res.Fails, failure{clauseInside, "tree refers to a node or byte range that does not exist", fmt.Sprintf("input %q: walking the accepted document fails: %s", in, perr)})
		res.Outcome = "acc:dangling"
		return res
	}

	// round trip. Both printers are always run. A failure of the indenting
	// printer is reported only when the compact printer does not fail the same
	// part (structure: print / re-parse / shape; text: fixed point), so that a
	// defect common to both printers has one fingerprint.
	if mask&mRT != 0 {
		wdStage(1)
		compact := roundTrip(doc, shape, false)
		cStruct, cFixed := false, false
		for _, r := range compact {
			f := rtFailure(r.stage, "compact printer", r.site, fmt.Sprintf("input %q: %s", in, r.detail))
			res.Fails = append(res.Fails, f)
			sites = append(sites, f.Site)
			if r.stage == rtNotFixed {
				cFixed = true
			} else {
				cStruct = true
			}
		}
		wdStage(2)
		for _, r := range roundTrip(doc, shape, true) {
			if (r.stage == rtNotFixed && cFixed) || (r.stage != rtNotFixed && cStruct) {
				res.IndentSkip = true
				continue
			}
			f := rtFailure(r.stage, "indenting printer only", r.site, fmt.Sprintf("input %q: %s", in, r.detail))
			res.Fails = append(res.Fails, f)
			sites = append(sites, f.Site)
		}
	}

	// limits
	res.Executable, res.Depth, res.Fields = countDepthFields(doc)
	var grid strings.Builder
	if res.Executable && mask&mLimits != 0 {
		wdStage(3)
		depthBad, fieldBad := "", ""
		for _, L := range depthLimits {
			for _, F := range fieldLimits {
				lo := parseWithLimits(in, L, F)
				res.LimitRuns++
				if lo.panicked {
					res.Fails = append(res.Fails, failure{clausePanic, lo.site, fmt.Sprintf("input %q with limits depth=%d fields=%d: panic %s", in, L, F, lo.pclass)})
					grid.WriteByte('P')
					continue
				}
				over := (L > 0 && res.Depth > L) || (F > 0 && res.Fields > F)
				switch {
				case lo.accepted && over:
					grid.WriteByte('U')
					if L > 0 && res.Depth > L && depthBad == "" {
						depthBad = fmt.Sprintf("input %q has selection depth %d but is accepted with MaxDepth=%d MaxFields=%d (reported stats %+v)", in, res.Depth, L, F, lo.stats)
					}
					if F > 0 && res.Fields > F && fieldBad == "" {
						fieldBad = fmt.Sprintf("input %q has %d fields but is accepted with MaxDepth=%d MaxFields=%d (reported stats %+v)", in, res.Fields, L, F, lo.stats)
					}
				case lo.accepted:
					grid.WriteByte('a')
				case over:
					grid.WriteByte('r')
				default:
					grid.WriteByte('o') // rejected although within my count: over-counting, allowed
					res.OverCount++
				}
			}
		}
		if depthBad != "" {
			res.Fails = append(res.Fails, failure{clauseLimits, "selection depth", depthBad})
			sites = append(sites, "depth")
		}
		if fieldBad != "" {
			res.Fails = append(res.Fails, failure{clauseLimits, "field count", fieldBad})
			sites = append(sites, "fields")
		}
	}
	var kinds strings.Builder
	for i, n := range doc.RootNodes {
		if i >= 3 {
			kinds.WriteString("+")
			break
		}
		fmt.Fprintf(&kinds, "%d,", int(n.Kind))
	}
	res.Outcome = fmt.Sprintf("acc:%s|d%d f%d|%s|%s", kinds.String(), res.Depth, res.Fields, grid.String(), strings.Join(sites, ";"))
	return res
}

// failsWith reports whether the input still fails the given clause at the given site.
func failsWith(in string, key string) (bool, failure) {
	r := evaluate(in, maskFor(key[:strings.IndexByte(key, 0)]))
	for _, f := range r.Fails {
		if f.key() == key {
			return true, f
		}
	}
	return false, failure{}
}
