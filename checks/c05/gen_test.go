package c05

// Grammar derivations: every document that deviates from the minimal form of a
// definition kind in at most D places (deviation-bounded decoration, DESIGN.md
// section 2.3). A generator yields all alternatives whose number of deviations
// ("cost") fits the budget it is given; recursion always goes through a
// deviation, so the budget bounds the depth.

type alt struct {
	s string
	c int
}

type gen func(b int) []alt

func lit(s string) gen { return func(int) []alt { return []alt{{s, 0}} } }

// oneOf: the base form costs nothing extra, every other form one deviation.
func oneOf(base gen, others ...gen) gen {
	return func(b int) []alt {
		out := append([]alt(nil), base(b)...)
		if b >= 1 {
			for _, o := range others {
				for _, a := range o(b - 1) {
					out = append(out, alt{a.s, a.c + 1})
				}
			}
		}
		return out
	}
}

func words(base string, others ...string) gen {
	gs := make([]gen, len(others))
	for i, o := range others {
		gs[i] = lit(o)
	}
	return oneOf(lit(base), gs...)
}

func seq(gs ...gen) gen {
	return func(b int) []alt {
		out := []alt{{"", 0}}
		for _, g := range gs {
			wdTick()
			var next []alt
			for _, p := range out {
				for _, a := range g(b - p.c) {
					next = append(next, alt{p.s + a.s, p.c + a.c})
				}
			}
			out = next
		}
		return out
	}
}

func opt(g gen) gen { return oneOf(lit(""), g) }

func lazy(p *gen) gen { return func(b int) []alt { return (*p)(b) } }

func s(x string) gen { return lit(x) }

var (
	gValue, gType, gSelSet gen
)

// nm is a name site: the plain name, or a name that is a keyword somewhere else in the grammar.
func nm(base string) gen { return words(base, "query", "fragment", "on", "null") }

var gDesc = oneOf(s(""),
	s(`"d" `), s(`"""d""" `), s(`"" `), s(`"a\"b\\c" `), s(`"""a\"""b""" `),
	s("\"\"\"\n  l1\n    l2\n  \"\"\" "), s("\"\"\"l1\n\n  l3\"\"\" "), s(`"""a "q" b""" `),
	// an interior white-space-only line shorter than the indent of its neighbours (1, 2, 3 blanks, a TAB), closing delimiter less indented
	s("\"\"\"\n    l1\n \n    l2\n    \"\"\" "), s("\"\"\"\n    l1\n  \n    l2\n    \"\"\" "), s("\"\"\"\n    l1\n   \n    l2\n    \"\"\" "),
	s("\"\"\"\n    l1\n\t\n    l2\n    \"\"\" "), s("\"\"\"\n    l1\n    l2\n  \"\"\" "), s("\"\"\"l0\n    l1\n  \n    l2\"\"\" "),
)

func init() {
	gValue = oneOf(s("1"),
		s("-1"), s("0"), s("1.5"), s("-1.5e+3"), s("1E2"), s("1e-2"), s("1E+5"),
		s(`"s"`), s(`""`), s(`"a\"b\\c\né d"`), s("\"é\U0001F600\""), s("\"a\tb\""),
		s(`"""b"""`), s(`""""""`), s(`"""a\"""b"""`), s(`"""a "q" b"""`),
		s("\"\"\"\n    l1\n      l2\n    \"\"\""), s("\"\"\"l1\n  l2\"\"\""), s("\"\"\"l1\r\n\tl2\r\"\"\""),
		// an interior white-space-only line shorter than the indent of its neighbours (1, 2, 3 blanks, a TAB), closing delimiter less indented
		s("\"\"\"\n    l1\n \n    l2\n    \"\"\""), s("\"\"\"\n    l1\n  \n    l2\n    \"\"\""), s("\"\"\"\n    l1\n   \n    l2\n    \"\"\""),
		s("\"\"\"\n    l1\n\t\n    l2\n    \"\"\""), s("\"\"\"\n    l1\n    l2\n  \"\"\""), s("\"\"\"l0\n    l1\n  \n    l2\"\"\""),
		s("true"), s("false"), s("null"), s("E"), s("$v"),
		s("[]"), seq(s("["), lazy(&gValue), s("]")), seq(s("["), lazy(&gValue), s(","), lazy(&gValue), s("]")),
		s("{}"), seq(s("{k:"), lazy(&gValue), s("}")), seq(s("{k:"), lazy(&gValue), s(",l:"), lazy(&gValue), s("}")),
	)
	gType = oneOf(s("Int"), s("Int!"), seq(s("["), lazy(&gType), s("]")), seq(s("["), lazy(&gType), s("]!")))
	gSelSet = seq(s("{"), oneOf(gSel, seq(gSel, s(" "), gSel), seq(gSel, s(" "), gSel, s(" "), gSel)), s("}"))
}

var gDirs = oneOf(s(""),
	s(" @d"), seq(s(" @d(a:"), lazy(&gValue), s(")")), s(" @d @e"),
	seq(s(" @d(a:"), lazy(&gValue), s(",b:"), lazy(&gValue), s(") @e(c:1)")),
)

var gArgs = oneOf(seq(s("(k:"), lazy(&gValue), s(")")), seq(s("(k:"), lazy(&gValue), s(",l:"), lazy(&gValue), s(")")))

var gField = seq(opt(seq(nm("x"), s(":"))), nm("a"), opt(gArgs), gDirs, opt(lazy(&gSelSet)))

var gSel = oneOf(gField,
	seq(s("..."), nm("F"), gDirs),
	seq(s("...on "), nm("T"), gDirs, lazy(&gSelSet)),
	seq(s("..."), gDirs, lazy(&gSelSet)),
	seq(s("...on T"), gDirs), // no selection set: accepted by this parser
)

var gVarDef = seq(gDesc, s("$"), nm("v"), s(":"), lazy(&gType), opt(seq(s("="), lazy(&gValue))), gDirs)

var gVars = oneOf(seq(s("("), gVarDef, s(")")), seq(s("("), gVarDef, s(","), gVarDef, s(")")), s("()"))

var gOperationFull = seq(gDesc, words("query", "mutation", "subscription"), opt(seq(s(" "), nm("Q"))), opt(gVars), gDirs, lazy(&gSelSet))

var gFragment = seq(gDesc, s("fragment "), nm("F"), s(" on "), nm("T"), gDirs, lazy(&gSelSet))

var gInputValue = seq(gDesc, nm("a"), s(":"), lazy(&gType), opt(seq(s("="), lazy(&gValue))), gDirs)

var gArgDefs = oneOf(seq(s("("), gInputValue, s(")")), seq(s("("), gInputValue, s(","), gInputValue, s(")")), s("()"))

var gFieldDef = seq(gDesc, nm("f"), opt(gArgDefs), s(":"), lazy(&gType), gDirs)

var gFieldDefs = oneOf(seq(s("{"), gFieldDef, s("}")), seq(s("{"), gFieldDef, s(" "), gFieldDef, s("}")), s("{}"), s(""))

var gImplements = oneOf(s(""), s(" implements A"), s(" implements A&B"), s(" implements &A&B"), s(" implements A & B & C"))

var gRootOps = oneOf(s("{query:Q}"), s("{query:Q mutation:M}"), s("{subscription:S query:Q mutation:M}"), s("{query:query}"), s("{}"))

var gEnumValue = seq(gDesc, nm("A"), gDirs)

var gEnumValues = oneOf(seq(s("{"), gEnumValue, s("}")), seq(s("{"), gEnumValue, s(" "), gEnumValue, s("}")), s("{}"), s(""))

var gInputFields = oneOf(seq(s("{"), gInputValue, s("}")), seq(s("{"), gInputValue, s(" "), gInputValue, s("}")), s("{}"), s(""))

var gMembers = oneOf(s("=A"), s("=A|B"), s("=|A|B"), s("= A | B | C"), s(""))

var gLocations = words("FIELD", "FIELD|QUERY", "|FIELD|QUERY",
	"QUERY", "MUTATION", "SUBSCRIPTION", "FRAGMENT_DEFINITION", "FRAGMENT_SPREAD", "INLINE_FRAGMENT", "VARIABLE_DEFINITION",
	"SCHEMA", "SCALAR", "OBJECT", "FIELD_DEFINITION", "ARGUMENT_DEFINITION", "INTERFACE", "UNION", "ENUM", "ENUM_VALUE", "INPUT_OBJECT", "INPUT_FIELD_DEFINITION",
	"FIELD|FIELD", "SCHEMA | OBJECT | FIELD")

type defKind struct {
	name string
	g    gen
}

var defKinds = []defKind{
	{"operation (shorthand)", lazy(&gSelSet)},
	{"operation", gOperationFull},
	{"fragment", gFragment},
	{"schema", seq(gDesc, s("schema"), gDirs, gRootOps)},
	{"scalar", seq(gDesc, s("scalar "), nm("S"), gDirs)},
	{"type", seq(gDesc, s("type "), nm("T"), gImplements, gDirs, gFieldDefs)},
	{"interface", seq(gDesc, s("interface "), nm("I"), gImplements, gDirs, gFieldDefs)},
	{"union", seq(gDesc, s("union "), nm("U"), gDirs, gMembers)},
	{"enum", seq(gDesc, s("enum "), nm("E"), gDirs, gEnumValues)},
	{"input", seq(gDesc, s("input "), nm("I"), gDirs, gInputFields)},
	{"directive", seq(gDesc, s("directive @"), nm("d"), opt(gArgDefs), opt(s(" repeatable")), s(" on "), gLocations)},
	{"extend schema", seq(gDesc, s("extend schema"), oneOf(seq(gDirs, gRootOps), s(" @d")))},
	{"extend scalar", seq(gDesc, s("extend scalar "), nm("S"), oneOf(s(" @d"), gDirs))},
	{"extend type", seq(gDesc, s("extend type "), nm("T"), gImplements, gDirs, gFieldDefs)},
	{"extend interface", seq(gDesc, s("extend interface "), nm("I"), gImplements, gDirs, gFieldDefs)},
	{"extend union", seq(gDesc, s("extend union "), nm("U"), gDirs, gMembers)},
	{"extend enum", seq(gDesc, s("extend enum "), nm("E"), gDirs, gEnumValues)},
	{"extend input", seq(gDesc, s("extend input "), nm("I"), gDirs, gInputFields)},
}

// separators between two definitions
var defSeps = []string{" ", "\n"}
