package c05

// Shrinking of failing inputs and their structural classification.

import (
	"strconv"
	"strings"

	"github.com/wundergraph/graphql-go-tools/v2/pkg/ast"
)

func isWordByte(c byte) bool {
	return c >= 'a' && c <= 'z' || c >= 'A' && c <= 'Z' || c >= '0' && c <= '9' || c == '_'
}

// shrinkDelete returns a subsequence of the input that still fails the same
// clause at the same site and from which no window of bytes can be deleted
// (in particular it is 1-minimal). Whole tokens are tried first.
func shrinkDelete(in string, key string) string {
	memo := map[string]bool{}
	still := func(c string) bool {
		if v, ok := memo[c]; ok {
			return v
		}
		ok, _ := failsWith(c, key)
		memo[c] = ok
		return ok
	}
	cur := in
	tokenWindows := func() {
		for {
			removed := false
			toks := scan(cur)
			for size := len(toks) / 2; size >= 1 && !removed; size-- {
				for i := 0; i+size <= len(toks); i++ {
					cand := cur[:toks[i].start] + cur[toks[i+size-1].end:]
					if still(cand) {
						cur = cand
						removed = true
						break
					}
				}
			}
			if !removed {
				return
			}
		}
	}
	byteWindows := func() {
		for {
			removed := false
			for size := len(cur) / 2; size >= 1; size-- {
				for i := 0; i+size <= len(cur); {
					cand := cur[:i] + cur[i+size:]
					if still(cand) {
						cur = cand
						removed = true
					} else {
						i++
					}
				}
			}
			if !removed {
				return
			}
		}
	}
	// hoist: replace a bracketed group by a bracketed group nested in it;
	// unwrap: drop the two brackets of a group (keeping a separator).
	brackets := func() bool {
		type pair struct{ open, close int }
		var pairs []pair
		var stack []int
		toks := scan(cur)
		for _, t := range toks {
			if t.kind != tkPunct {
				continue
			}
			switch t.text {
			case "{", "(", "[":
				stack = append(stack, t.start)
			case "}", ")", "]":
				if n := len(stack); n > 0 {
					o := stack[n-1]
					stack = stack[:n-1]
					if cur[o] == map[byte]byte{'}': '{', ')': '(', ']': '['}[t.text[0]] {
						pairs = append(pairs, pair{o, t.start})
					}
				}
			}
		}
		for _, out := range pairs {
			for _, in := range pairs {
				if in.open > out.open && in.close < out.close && cur[in.open] == cur[out.open] {
					if cand := cur[:out.open] + cur[in.open:in.close+1] + cur[out.close+1:]; still(cand) {
						cur = cand
						return true
					}
				}
			}
		}
		for _, p := range pairs {
			for _, sep := range []string{"", " "} {
				if cand := cur[:p.open] + sep + cur[p.open+1:p.close] + cur[p.close+1:]; still(cand) {
					cur = cand
					return true
				}
			}
		}
		return false
	}
	for {
		tokenWindows()
		byteWindows()
		if !brackets() {
			return cur
		}
	}
}

// keywords that have a simpler sibling with the same grammar around them
var siblingKeyword = map[string]string{"mutation": "query", "subscription": "query", "interface": "type", "input": "type", "enum": "scalar", "union": "scalar", "type": "scalar"}

// canonical hosts for a string token: if the failure only depends on the
// string, the same string fails inside the simplest host as well.
var valueHosts = []string{"{a(a:%s)}"}
var descHosts = []string{"%sscalar a"}

// shrinkNormalise replaces every word by "a" (numbers by "1") and every
// insignificant separator by a space where the failure stays the same.
func shrinkNormalise(in string, key string) string {
	still := func(c string) bool { ok, _ := failsWith(c, key); return ok }
	cur := in
	for round := 0; round < 4; round++ {
		before := cur
		for i := 0; i < len(cur); {
			if !isWordByte(cur[i]) {
				i++
				continue
			}
			j := i
			for j < len(cur) && isWordByte(cur[j]) {
				j++
			}
			word := cur[i:j]
			repls := []string{"a"}
			if word[0] >= '0' && word[0] <= '9' {
				repls = []string{"1"}
			} else if sib, ok := siblingKeyword[word]; ok {
				repls = []string{"a", sib}
			} else if len(word) > 4 && strings.ToUpper(word) == word {
				repls = []string{"a", "FIELD"} // directive locations
			}
			for _, repl := range repls {
				if word == repl {
					break
				}
				if cand := cur[:i] + repl + cur[j:]; still(cand) {
					cur = cand
					j = i + len(repl)
					break
				}
			}
			i = j
		}
		for i := 0; i < len(cur); i++ {
			switch cur[i] {
			case '\t', '\r', '\n', ',':
				if cur[i] == '\r' {
					// a carriage return that is needed as a line terminator becomes a line feed
					if cand := cur[:i] + "\n" + cur[i+1:]; still(cand) {
						cur = cand
					}
				}
				if cand := cur[:i] + " " + cur[i+1:]; still(cand) {
					cur = cand
				}
			}
		}
		if cur == before {
			break
		}
	}
	// transplant: an argument list onto the simplest field
	toks := scan(cur)
	var opens []int
	for _, t := range toks {
		if t.kind != tkPunct {
			continue
		}
		if t.text == "(" {
			opens = append(opens, t.start)
		} else if t.text == ")" && len(opens) > 0 {
			o := opens[len(opens)-1]
			opens = opens[:len(opens)-1]
			if cand := "{a" + cur[o:t.end] + "}"; cand != cur && still(cand) {
				cur = cand
				toks = scan(cur)
				break
			}
		}
	}
	// transplant: a single string token into the canonical host of its role
	for i, t := range toks {
		if t.kind != tkString && t.kind != tkBlockString {
			continue
		}
		hosts := descHosts
		if isValueString(toks, i) {
			hosts = valueHosts
		}
		for _, h := range hosts {
			if cand := strings.Replace(h, "%s", t.text, 1); cand != cur && still(cand) {
				return cand
			}
		}
	}
	return cur
}

// ---- a small independent scanner used only for classification

type tokKind int

const (
	tkPunct tokKind = iota
	tkWord
	tkString
	tkBlockString
	tkComment
	tkOther
)

type tok struct {
	kind       tokKind
	text       string
	depth      int // brace nesting before the token
	start, end int
}

func scan(in string) []tok {
	var out []tok
	depth := 0
	for i := 0; i < len(in); {
		c := in[i]
		switch {
		case c == ' ' || c == '\t' || c == '\r' || c == '\n' || c == ',':
			i++
		case c == '#':
			j := i
			for j < len(in) && in[j] != '\n' && in[j] != '\r' {
				j++
			}
			out = append(out, tok{tkComment, in[i:j], depth, i, j})
			i = j
		case c == '"':
			if strings.HasPrefix(in[i:], `"""`) {
				j := i + 3
				for j < len(in) && !strings.HasPrefix(in[j:], `"""`) {
					if strings.HasPrefix(in[j:], `\"""`) {
						j += 4
					} else {
						j++
					}
				}
				end := j + 3
				if end > len(in) {
					end = len(in)
				}
				out = append(out, tok{tkBlockString, in[i:end], depth, i, end})
				i = end
			} else {
				j := i + 1
				for j < len(in) && in[j] != '"' && in[j] != '\n' && in[j] != '\r' {
					if in[j] == '\\' && j+1 < len(in) && in[j+1] != '\n' && in[j+1] != '\r' {
						j++ // a line break ends the string even behind a backslash
					}
					j++
				}
				if j < len(in) && in[j] == '"' {
					j++
				}
				if j > len(in) {
					j = len(in)
				}
				out = append(out, tok{tkString, in[i:j], depth, i, j})
				i = j
			}
		case isWordByte(c) || c == '-':
			j := i
			for j < len(in) && (isWordByte(in[j]) || in[j] == '-') {
				j++
			}
			out = append(out, tok{tkWord, in[i:j], depth, i, j})
			i = j
		case strings.ContainsRune("{}()[]:=!$@|&.", rune(c)):
			out = append(out, tok{tkPunct, string(c), depth, i, i + 1})
			if c == '{' {
				depth++
			} else if c == '}' {
				depth--
			}
			i++
		default:
			out = append(out, tok{tkOther, string(c), depth, i, i + 1})
			i++
		}
	}
	return out
}

var opKeywords = map[string]bool{"query": true, "mutation": true, "subscription": true, "fragment": true}

const classShortBlankLine = "whitespace-only line shorter than the common indent"

// hasShortBlankLine: some line after the first is not empty, consists of blanks
// and tabs only and is shorter than the common indent (spec: of the lines
// after the first that are not white space only).
func hasShortBlankLine(inner string) bool {
	lines := strings.Split(strings.ReplaceAll(strings.ReplaceAll(inner, "\r\n", "\n"), "\r", "\n"), "\n")
	common := -1
	for i, l := range lines {
		if i == 0 {
			continue
		}
		ind := len(l) - len(strings.TrimLeft(l, " \t"))
		if ind < len(l) && (common < 0 || ind < common) {
			common = ind
		}
	}
	for i, l := range lines {
		if i > 0 && l != "" && strings.Trim(l, " \t") == "" && len(l) < common {
			return true
		}
	}
	return false
}

func blockInner(t tok) string {
	in := strings.TrimPrefix(t.text, `"""`)
	in = strings.TrimSuffix(in, `"""`)
	return in
}

// isValueString: a string token is a value when it follows ':', '=', '[' (or
// another value inside a list); otherwise it is a description.
func isValueString(toks []tok, i int) bool {
	if i == 0 {
		return false
	}
	p := toks[i-1]
	return p.kind == tkPunct && (p.text == ":" || p.text == "=" || p.text == "[")
}

// classify names the site and the structural class of a shrunk failing input.
// No window of the shrunk input can be deleted without losing the failure, so a
// feature that is present is part of the cause; the recognisers are ordered
// from the most specific cause to the least specific one. An input that no
// recogniser knows keeps the oracle stage as site and gets a class made of its
// token skeleton, which shows up as a new fingerprint.
func classify(f failure, min string) (site, class string) {
	toks := scan(min)
	at := func(i int) tok {
		if i < 0 || i >= len(toks) {
			return tok{kind: tkOther}
		}
		return toks[i]
	}
	isP := func(t tok, p string) bool { return t.kind == tkPunct && t.text == p }
	isW := func(t tok, w string) bool { return t.kind == tkWord && t.text == w }
	// A block string with a non-empty white-space-only line (after the first)
	// that is shorter than the common indent of the other lines: its own class,
	// checked before every other block string recogniser so that none of them
	// can absorb it.
	if f.Clause == clauseRT || (f.Clause == clauseInside && strings.HasPrefix(f.Site, siteBlockValue)) {
		for _, t := range toks {
			if t.kind == tkBlockString && hasShortBlankLine(blockInner(t)) {
				if f.Clause == clauseInside {
					return f.Site, classShortBlankLine
				}
				return "block string", classShortBlankLine
			}
		}
	}
	if f.Clause == clauseInside && strings.HasPrefix(f.Site, siteBlockValue) {
		for _, t := range toks {
			if t.kind == tkBlockString && blockInner(t) != "" && strings.Trim(blockInner(t), " \t\r\n") == "" {
				return f.Site, "white-space-only block string"
			}
		}
	}
	if f.Clause == clauseRT && (f.Site == siteStringStructure || f.Site == siteStringAccept) {
		for _, t := range toks {
			if t.kind != tkString && t.kind != tkBlockString {
				continue
			}
			w := strings.Trim(strings.Trim(t.text, `"`), " \t\r\n")
			if grammarKeywords[w] {
				return f.Site, "string whose content is the keyword " + w
			}
		}
	}
	if f.Clause == clauseInside && f.Site == siteBlockLiteral {
		contents := blockContents(min)
		for i, t := range toks {
			if t.kind != tkBlockString {
				continue
			}
			want := strings.Trim(blockInner(t), " \t\r\n")
			for _, c := range contents {
				if c.start < t.start+3 || c.start > t.end || c.text == want {
					continue
				}
				role := "description"
				if isValueString(toks, i) {
					role = "value"
				}
				kind := "differs"
				switch {
				case strings.HasSuffix(want, c.text):
					kind = "starts too late"
				case strings.HasSuffix(c.text, want):
					kind = "starts too early"
				case strings.HasPrefix(want, c.text):
					kind = "ends too early"
				case strings.HasPrefix(c.text, want):
					kind = "ends too late"
				}
				return f.Site, role + ": literal " + kind
			}
		}
	}
	if f.Clause == clauseRT {
		for i, t := range toks {
			if t.kind == tkBlockString && !isValueString(toks, i) && strings.Contains(blockInner(t), "\r") {
				return "block string description", "carriage return as line terminator inside a block description"
			}
		}
	}
	switch f.Clause {
	case clauseLimits:
		for _, t := range toks {
			if t.kind == tkWord && opKeywords[t.text] && t.depth > 0 {
				return f.Site, "name query/mutation/subscription/fragment used inside braces"
			}
		}
	case clauseRT:
		for _, t := range toks {
			if (t.kind == tkString || t.kind == tkBlockString) && strings.IndexByte(t.text, 0) >= 0 {
				return "string literal", "NUL byte inside a string literal"
			}
		}
		// Block strings. The lexer's design is to hand out the text between the
		// delimiters with the white space at both ends trimmed. If the content
		// it handed out for the shrunk input is something else, the lexer's
		// bookkeeping is the cause; if it is exactly that, the cause is that the
		// printer does not restore what was trimmed.
		texts := []string{min}
		if p := parse(min); p.ok {
			texts = append(texts, printDoc(p.doc, false).s, printDoc(p.doc, true).s)
		}
		for _, text := range texts {
			if inner, bad := lexerMisreadsBlockString(text); bad {
				lead := strings.TrimLeft(inner, " \t\r\n")
				trail := strings.TrimRight(inner, " \t\r\n")
				if (lead != "" && (lead[0] == '\\' || lead[0] == '"')) || (trail != "" && trail[len(trail)-1] == '"') {
					return "lexer: block string", "content handed out by the lexer is not the trimmed text between the delimiters (backslash or quote next to the white space at an end)"
				}
				return "lexer: block string", "content handed out by the lexer is not the trimmed text between the delimiters: " + skeleton(toks)
			}
		}
		for i, t := range toks {
			if t.kind != tkBlockString {
				continue
			}
			in := blockInner(t)
			if in != strings.Trim(in, " \t\r\n") {
				if isValueString(toks, i) {
					return "block string value", "white space next to a delimiter"
				}
				return "block string description", "indentation of the first line relative to the later lines"
			}
		}
		for _, t := range toks {
			if t.kind == tkString && len(t.text) >= 2 && strings.HasSuffix(t.text, "\\") && (t.end == len(min) || min[t.end] == '\n' || min[t.end] == '\r') {
				return "quoted string", "quoted string ended by a line break (or the end of input) whose content ends with a backslash"
			}
		}
		for i, t := range toks {
			if t.kind == tkString && !isValueString(toks, i) && strings.ContainsAny(t.text, "\r\n") {
				return "quoted description", "escaped line break inside a quoted (non-block) description"
			}
		}
		for i, t := range toks {
			if isW(t, "schema") && t.depth == 0 {
				j := i + 1
				if isP(at(j), "{") && isP(at(j+1), "}") {
					return "schema definition", "empty root operation list"
				}
			}
		}
		for i, t := range toks {
			if isW(t, "schema") && t.depth == 0 && (at(i-1).kind == tkString || at(i-1).kind == tkBlockString) {
				return "schema definition", "description on a schema definition"
			}
		}
		for i, t := range toks {
			if isW(t, "extend") && t.depth == 0 && (isW(at(i+1), "type") || isW(at(i+1), "interface")) && isW(at(i+3), "implements") {
				return "type extension", "implements list on an object or interface type extension"
			}
		}
		for i, t := range toks {
			if t.depth != 0 {
				continue
			}
			if isW(t, "query") && (isP(at(i+1), "@") || isP(at(i+1), "{")) {
				return "operation definition", "anonymous query that cannot be re-parsed in shorthand form (directives, description or a preceding definition)"
			}
			if isP(t, "{") && isP(at(i-1), "}") {
				return "operation definition", "anonymous query that cannot be re-parsed in shorthand form (directives, description or a preceding definition)"
			}
		}
		for i, t := range toks {
			if isW(t, "implements") && t.depth == 0 {
				for j := i + 1; j+2 < len(toks); j++ {
					if isP(toks[j], "{") && isP(toks[j+1], "}") && toks[j+1].depth == 1 && toks[j].depth == 0 {
						return "type definition", "implements list, empty body, then another definition"
					}
				}
			}
		}
	}
	return f.Site, "other: " + skeleton(toks)
}

// lexerMisreadsBlockString: the text (the shrunk input or one of its prints)
// contains a block string for which the lexer of the code under test hands out
// something other than the trimmed text between the delimiters.
func lexerMisreadsBlockString(text string) (inner string, bad bool) {
	toks := scan(text)
	var contents []blockContent
	loaded := false
	for _, t := range toks {
		if t.kind != tkBlockString {
			continue
		}
		if !loaded {
			contents, loaded = blockContents(text), true
			if contents == nil {
				return "", false // not accepted: nothing to compare
			}
		}
		inner = blockInner(t)
		trimmed := strings.Trim(inner, " \t\r\n")
		found := false
		for _, c := range contents {
			if c.start >= t.start+3 && c.start <= t.end {
				found = true
				if c.text != trimmed {
					return inner, true
				}
				break
			}
		}
		if !found {
			return inner, true
		}
	}
	return "", false
}

type blockContent struct {
	start int
	text  string
}

// blockContents parses the input with the code under test and returns the
// content reference of every block string (value or description) of the tree.
func blockContents(in string) []blockContent {
	p := parse(in)
	if !p.ok {
		return nil
	}
	var out []blockContent
	add := func(r ast.ByteSliceReference) {
		if r.Start > r.End || int(r.End) > len(p.doc.Input.RawBytes) {
			out = append(out, blockContent{int(r.Start), "<reference outside the input>"})
			return
		}
		out = append(out, blockContent{int(r.Start), string(p.doc.Input.RawBytes[r.Start:r.End])})
	}
	for _, r := range blockRefsOf(p.doc) {
		add(r)
	}
	return out
}

// charPattern abstracts the content of a string: one symbol per run of
// characters of the same kind (a word, _ blank, N line break, " quote, \
// backslash, 0 NUL, u byte >= 0x80, p other).
func charPattern(x string) string {
	var b strings.Builder
	var last byte
	for i := 0; i < len(x); i++ {
		c := x[i]
		var k byte
		switch {
		case isWordByte(c):
			k = 'a'
		case c == ' ' || c == '\t':
			k = '_'
		case c == '\n' || c == '\r':
			k = 'N'
		case c == '"' || c == '\\':
			k = c
		case c == 0:
			k = '0'
		case c >= 0x80:
			k = 'u'
		default:
			k = 'p'
		}
		if k != last {
			b.WriteByte(k)
			last = k
		}
	}
	return b.String()
}

// skeleton abstracts a token sequence: keywords and punctuators stay, names
// become n, numbers 1, strings S / B (block) with a marker per special content.
func skeleton(toks []tok) string {
	var b strings.Builder
	for i, t := range toks {
		if i > 0 {
			b.WriteByte(' ')
		}
		switch t.kind {
		case tkPunct:
			b.WriteString(t.text)
		case tkWord:
			b.WriteString(t.text)
		case tkString:
			b.WriteString("S<" + charPattern(strings.TrimSuffix(strings.TrimPrefix(t.text, `"`), `"`)) + ">")
		case tkBlockString:
			b.WriteString("B<" + charPattern(blockInner(t)) + ">")
		case tkComment:
			b.WriteString("#")
		default:
			b.WriteString(strconv.QuoteToASCII(t.text))
		}
	}
	return b.String()
}
