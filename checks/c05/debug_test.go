package c05

import (
	"fmt"
	"os"
	"strconv"
	"strings"
	"testing"
)

// TestDebug evaluates the inputs given in C05_DEBUG (Go-quoted strings
// separated by " ;; ") and prints what every oracle says. Triage helper only.
func TestDebug(t *testing.T) {
	spec := os.Getenv("C05_DEBUG")
	if spec == "" {
		t.Skip("C05_DEBUG not set")
	}
	for _, q := range strings.Split(spec, " ;; ") {
		in, err := strconv.Unquote(q)
		if err != nil {
			in = q
		}
		r := evaluate(in, mAll)
		fmt.Printf("input %q\n  accepted=%v reject=%q executable=%v depth=%d fields=%d outcome=%q\n", in, r.Accepted, clip(r.RejectMsg, 100), r.Executable, r.Depth, r.Fields, r.Outcome)
		if p := parse(in); p.ok {
			sh, _ := safeShape(p.doc)
			fmt.Printf("  shape   %s", sh)
			fmt.Printf("  compact %q\n  indent  %q\n", printDoc(p.doc, false).s, printDoc(p.doc, true).s)
		}
		for _, f := range r.Fails {
			raw := shrinkDelete(in, f.key())
			min := shrinkNormalise(raw, f.key())
			site, class := classify(f, min)
			fmt.Printf("  FAIL clause=%q stage=%q\n    %s\n    shrunk: %q site: %q class: %q\n", f.Clause, f.Site, f.Detail, min, site, class)
		}
	}
}
