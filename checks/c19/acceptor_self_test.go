package c19

import "testing"

// TestAcceptor: hand-written words, one per clause, to show that R4p rejects
// what it must reject and accepts the plain good words (not part of TestCheck).
func TestAcceptor(t *testing.T) {
	c := func(kind, id, raw string, msg int) ev { return ev{K: "c", Type: kind, ID: id, Raw: raw, Msg: msg} }
	s := func(typ, id string, msg int) ev {
		return ev{K: "s", Type: typ, ID: id, Raw: `{"type":"` + typ + `"}`, Msg: msg, Cause: "test"}
	}
	x := func(k, id, typ string, msg int) ev { return ev{K: k, ID: id, Type: typ, Msg: msg, Cause: "test"} }
	cl := func(code int) ev { return ev{K: "close", Code: code} }
	end := []ev{{K: "end"}, {K: "cdisc"}, {K: "returned"}}
	subQ := `{"id":"1","type":"subscribe","payload":{"query":"query { n }"}}`
	cases := []struct {
		name   string
		p      proto
		log    []ev
		clause string // "" = must be accepted
	}{
		{"good query", protoTransport, []ev{c(kInit, "", "", 0), s("connection_ack", "", 0), c(kSubscribe, "1", subQ, 1), x("xget", "1", "", 1), x("xexec", "1", "", 1), x("xdone", "1", "ok", 1), s("next", "1", 1), s("complete", "1", 1)}, ""},
		{"good second init", protoTransport, []ev{c(kInit, "", "", 0), s("connection_ack", "", 0), c(kInit, "", "", 1), cl(4429)}, ""},
		{"good timeout", protoTransport, []ev{{K: "env", Type: "init-timeout-elapses", Msg: -1}, cl(4408)}, ""},
		{"echo for unknown id is not judged", protoTransport, []ev{c(kComplete, "9", "", 0), s("complete", "9", 0)}, ""},
		{"legacy good", protoLegacy, []ev{c(kSubscribe, "1", subQ, 0), x("xget", "1", "", 0), x("xexec", "1", "", 0), x("xdone", "1", "ok", 0), s("data", "1", 0), s("complete", "1", 0)}, ""},
		{"ack without init", protoTransport, []ev{c(kPing, "", "", 0), s("connection_ack", "", 0)}, clAck},
		{"second ack", protoTransport, []ev{c(kInit, "", "", 0), s("connection_ack", "", 0), s("connection_ack", "", 0)}, clAck},
		{"next before ack", protoTransport, []ev{c(kSubscribe, "1", subQ, 0), s("next", "1", 0), cl(4401)}, clPreInit},
		{"execute before ack", protoTransport, []ev{c(kSubscribe, "1", subQ, 0), x("xexec", "1", "", 0), cl(4401)}, clStart},
		{"second init not closed", protoTransport, []ev{c(kInit, "", "", 0), s("connection_ack", "", 0), c(kInit, "", "", 1)}, clClose},
		{"second init wrong code", protoTransport, []ev{c(kInit, "", "", 0), s("connection_ack", "", 0), c(kInit, "", "", 1), cl(4400)}, clClose},
		{"unknown type not closed", protoTransport, []ev{c(kUnknown, "", "", 0)}, clClose},
		{"subscribe before init wrong code", protoTransport, []ev{c(kSubscribe, "1", subQ, 0), cl(4400)}, clClose},
		{"duplicate id not closed", protoTransport, []ev{c(kInit, "", "", 0), s("connection_ack", "", 0), c(kSubscribe, "1", subQ, 1), c(kSubscribe, "1", subQ, 2)}, clClose},
		{"timeout not closed", protoTransport, []ev{{K: "env", Type: "init-timeout-elapses", Msg: -1}}, clClose},
		{"execute after due close", protoTransport, []ev{c(kInit, "", "", 0), s("connection_ack", "", 0), c(kUnknown, "", "", 1), c(kSubscribe, "1", subQ, 2), x("xexec", "1", "", 2)}, clClose},
		{"foreign type", protoTransport, []ev{c(kInit, "", "", 0), s("connection_ack", "", 0), s("ka", "", 0)}, clTypes},
		{"foreign type legacy", protoLegacy, []ev{c(kInit, "", "", 0), s("pong", "", 0)}, clTypes},
		{"data for unknown id", protoLegacy, []ev{c(kInit, "", "", 0), s("connection_ack", "", 0), s("data", "7", 0)}, clUnknownID},
		{"two terminals", protoLegacy, []ev{c(kSubscribe, "1", subQ, 0), s("data", "1", 0), s("complete", "1", 0), s("complete", "1", 0)}, clAfter},
		{"next after error", protoTransport, []ev{c(kInit, "", "", 0), s("connection_ack", "", 0), c(kSubscribe, "1", subQ, 1), s("error", "1", 1), s("next", "1", 1)}, clAfter},
		{"missing terminal", protoTransport, []ev{c(kInit, "", "", 0), s("connection_ack", "", 0), c(kSubscribe, "1", subQ, 1), x("xexec", "1", "", 1), x("xdone", "1", "ok", 1), s("next", "1", 1)}, clTerminal},
		{"re-used id started", protoTransport, []ev{c(kInit, "", "", 0), s("connection_ack", "", 0), c(kSubscribe, "1", subQ, 1), x("xexec", "1", "", 1), s("error", "1", 1), c(kSubscribe, "1", subQ, 2), x("xexec", "1", "", 2), s("next", "1", 2), s("complete", "1", 2)}, ""},
		{"re-used id closed 4409", protoTransport, []ev{c(kInit, "", "", 0), s("connection_ack", "", 0), c(kSubscribe, "1", subQ, 1), x("xexec", "1", "", 1), s("error", "1", 1), c(kSubscribe, "1", subQ, 2), ev{K: "close", Code: 4409, Msg: 2}}, clReuse},
		{"re-used id not started legacy", protoLegacy, []ev{c(kSubscribe, "1", subQ, 0), x("xexec", "1", "", 0), s("error", "1", 0), c(kSubscribe, "1", subQ, 1), s("error", "1", 1)}, clReuse},
		{"accepted but never executed", protoTransport, []ev{c(kInit, "", "", 0), s("connection_ack", "", 0), c(kSubscribe, "1", subQ, 1), x("xget", "1", "", 1)}, clTerminal},
		{"legacy extra ack", protoLegacy, []ev{c(kInit, "", "", 0), s("connection_ack", "", 0), s("connection_ack", "", 0)}, clAck},
	}
	for _, tc := range cases {
		log := append(append([]ev{}, tc.log...), end...)
		v := accept(tc.p, log, "")
		got := ""
		if len(v.Findings) > 0 {
			got = v.Findings[0].Clause
		}
		if got != tc.clause {
			t.Errorf("%s: want clause %q, got %q (%v)", tc.name, tc.clause, got, v.Findings)
		}
	}
	v := accept(protoTransport, []ev{{K: "end"}, {K: "cdisc"}, {K: "notreturned"}}, "")
	if len(v.Findings) != 1 || v.Findings[0].Clause != clWedge {
		t.Errorf("wedge: %v", v.Findings)
	}
	v = accept(protoTransport, append([]ev{}, end...), "boom\ngoroutine 1\ngithub.com/wundergraph/graphql-go-tools/execution/subscription.(*X).Y(0x1)\n")
	if len(v.Findings) != 1 || v.Findings[0].Clause != clPanic {
		t.Errorf("panic: %v", v.Findings)
	}
}
