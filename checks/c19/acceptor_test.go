// R4p: the reference acceptor of DESIGN.md appendix A.1, with exactly its latitude.
package c19

import (
	"fmt"
	"regexp"
	"sort"
	"strings"
	"time"
)

const (
	clTypes     = "only message types of the negotiated protocol"
	clPreInit   = "nothing but connection_ack/pong/close before a successful connection_init"
	clAck       = "connection_ack only after a successful connection_init and at most once"
	clStart     = "no operation starts before a successful connection_init"
	clClose     = "prescribed 44xx close code"
	clTerminal  = "exactly one terminal message for every started operation"
	clAfter     = "nothing is sent for an id after the server's terminal message for it"
	clUnknownID = "no data or error for an id that was never started"
	clPanic     = "malformed input never crashes (no panic)"
	clWedge     = "never wedges: the handler returns once the connection is gone"
	clReuse     = "a duplicate-id close (4409) is sent only for an id that is still active"
	clMalformed = "a frame that is not exactly one JSON document is never acted upon"
	clReadWedge = "read failures never wedge the connection: after persistent read errors the handler gives up within the read-error time-out, terminates running operations and closes"
)

type finding struct {
	Clause string
	Site   string
	Class  string
	Detail string
	Key    string // what shrinking has to preserve (clause + cause)
	At     int    // index in the recorded word
}

type opState int

const (
	opNone opState = iota
	opActive
	opClientDone
	opTerminated
)

func (s opState) String() string {
	return [...]string{"never started", "active", "completed by client", "terminated by server"}[s]
}

type opInfo struct {
	st     opState
	sub    bool
	termBy string
	done   string
	exec   bool // an execution was started for this incarnation of the id
	serial int  // number of that execution
}

type verdict struct {
	Findings  []finding
	NotJudged map[string]int
	Features  map[string]int
}

func (v *verdict) nj(k string)   { v.NotJudged[k]++ }
func (v *verdict) feat(k string) { v.Features[k]++ }

const (
	phOpen = iota
	phAcked
	phClosed
)

// canonical wire kinds: legacy names onto the transport-ws ones
func canonType(p proto, t string) string {
	if p == protoLegacy {
		switch t {
		case "data":
			return "next"
		case "ka":
			return "keepalive"
		}
	}
	return t
}

func normCause(c string) string {
	if c == "late execution finishes" {
		return "execution finishes"
	}
	return c
}

var allowedTypes = map[proto]map[string]bool{
	protoTransport: {"connection_ack": true, "ping": true, "pong": true, "next": true, "error": true, "complete": true},
	protoLegacy:    {"connection_ack": true, "connection_error": true, "ka": true, "data": true, "error": true, "complete": true},
}

// accept runs the reference machine over one recorded word.
func accept(p proto, log []ev, panicMsg string) *verdict {
	v := &verdict{NotJudged: map[string]int{}, Features: map[string]int{}}
	phase := phOpen
	initSeen := false  // a connection_init that the init func accepts was delivered
	initsAccepted := 0 // legacy: acks answer inits
	acks := 0
	ops := map[string]*opInfo{}
	mustClose, mustCloseMsg, mustCloseWhy := 0, -1, ""
	missedReported := false
	dupMsg := map[string]int{} // legacy: index of the client message that re-used a live id
	malformedMsg := -2         // legacy: index of the last malformed client message
	add := func(i int, clause, site, class, key, detail string) {
		v.Findings = append(v.Findings, finding{Clause: clause, Site: site, Class: class, Detail: detail, Key: clause + "|" + key, At: i})
	}
	checkPendingClose := func(i int) {
		if mustClose != 0 && phase != phClosed && !missedReported {
			missedReported = true
			add(i, clClose, fmt.Sprintf("close(%d) expected after %s", mustClose, mustCloseWhy), "connection stays open", mustCloseWhy,
				fmt.Sprintf("%s requires close code %d but the connection was still open when the server came to rest", mustCloseWhy, mustClose))
		}
	}
	abandoned := false // the read-error time-out fired: the server is tearing the connection down
	oblige := func(code int, why string, msg int) {
		if abandoned {
			// the property says nothing about a connection the server gave up after read
			// errors (it cancels everything, handles one more message and drops the
			// connection without a close frame): no close code is demanded any more
			v.nj("message_after_read_error_timeout")
			return
		}
		if mustClose == 0 || missedReported {
			mustClose, mustCloseWhy, mustCloseMsg, missedReported = code, why, msg, false
		}
	}
	// a subscribe/start that re-uses an id AFTER the server's own terminal message for it is a
	// new operation: it must start (x:execute) and must not be refused as a duplicate
	var reuse *struct {
		id, class string
		msg       int
		prev      *opInfo
	}
	checkReuse := func(i int) {
		if reuse == nil {
			return
		}
		r := reuse
		reuse = nil
		if phase == phClosed {
			return
		}
		// the new operation never existed for the server: whatever it answered was not the
		// terminal message of a started operation; the id keeps the state it had before
		ops[r.id] = r.prev
		add(i, clReuse, "subscribe re-using a terminated id is refused", r.class, "reuse|"+r.class,
			fmt.Sprintf("the server had sent its terminal message for id %q (%s); the client re-used the id, which is a new operation, but no execution was started for it (answered as a duplicate / ignored)", r.id, r.class))
	}
	lateReturn := map[string]string{} // id -> kind of the cancelled execution that returned last
	malCause := "client " + kNonJSON  // cause of everything recorded in the step that delivers a malformed frame
	malClass := ""
	for i, e := range log {
		if !e.Post && e.Cause == malCause && malClass != "" {
			// the step of a frame that is not one JSON document: the only admissible reactions are
			// the close (graphql-transport-ws) resp. the id-less error / connection_error (graphql-ws)
			acted := ""
			switch e.K {
			case "xget":
				acted = "executor requested"
			case "xexec":
				acted = "execution started"
			case "s":
				if !(p == protoLegacy && (e.Type == "connection_error" || (e.Type == "error" && e.ID == ""))) {
					acted = canonType(p, e.Type) + " written"
				}
			}
			if acted != "" {
				add(i, clMalformed, acted+" in reaction to the frame", malClass, "malformed|"+malClass,
					fmt.Sprintf("the frame is not one JSON document (%s) but the server acted on it: %s", malClass, e.String()))
			}
		}
		if e.Post {
			// nothing reaches the wire after the close: counted, not judged (A.1)
			v.nj("attempt_after_close:" + e.K)
			continue
		}
		switch e.K {
		case "xsilent":
			// a subscription that was started and polling has a cancelled context at the end
			if o := ops[e.ID]; o != nil && o.sub && o.st == opActive && phase != phClosed && !abandoned {
				why := "nobody completed it"
				class := "cancelled by the server for no visible reason"
				if k, ok := lateReturn[e.ID]; ok {
					class = "after the late return of a cancelled " + k + " with the same id"
					why = "a cancelled " + k + " that used the id before returned late"
				}
				add(i, clTerminal, "active operation silently cancelled by the server", class, "silent|"+class,
					fmt.Sprintf("subscription %q is active for the client (no complete from either side, no error, connection open) but the server cancelled it without any terminal message (%s): it will never deliver nor terminate, and its id is no longer registered", e.ID, why))
			}
		case "readhorizon":
			if phase != phClosed {
				add(i, clReadWedge, "handler still reading after the horizon of failed reads", "connection still served", "read wedge",
					fmt.Sprintf("%d reads failed in a row over %v of virtual time (read-error time-out %v) and the handler neither returned nor closed the connection", readHorizon, time.Duration(readHorizon)*readFailDur, readErrTimeOut))
			}
		case "c":
			checkPendingClose(i)
			checkReuse(i)
			malClass = ""
			if e.Type == kNonJSON {
				malClass = "not JSON at all"
				if e.Lead != "" {
					malClass = "trailing content after a valid " + e.Lead + " message"
				}
			}
			switch e.Type {
			case kInit:
				if p == protoTransport {
					if initSeen {
						oblige(4429, "second connection_init", e.Msg)
					} else {
						initSeen = true
					}
				} else {
					initSeen = true
					initsAccepted++
				}
			case kInitRej:
				if p == protoTransport && initSeen {
					oblige(4429, "second connection_init", e.Msg)
				}
				// a rejected first init: the property prescribes no reaction; it is not a successful init
				if p == protoLegacy {
					// graphql-ws: this server answers connection_error and silently cancels every
					// running operation (TerminateAllSubscriptions) but keeps the connection; whether
					// the operations survive a rejected init is not specified -> treated like
					// connection_terminate: their ids may be re-used, late data is tolerated
					for _, o := range ops {
						if o.st == opActive {
							o.st = opClientDone
							v.nj("legacy_rejected_init_cancels_operation")
						}
					}
				}
			case kSubscribe:
				o := ops[e.ID]
				switch {
				case p == protoTransport && phase == phOpen:
					// regardless of the shape of the payload
					oblige(4401, "subscribe before a successful connection_init", e.Msg)
				case e.Bad:
					// acknowledged connection, payload cannot be decoded: this server ignores the message
					// (no reply, nothing started); the property prescribes no reaction -> not judged. It is
					// not a started operation; if the server executes something anyway the per-id rules fire
					v.nj("subscribe_with_undecodable_payload_on_acknowledged_connection")
				case o != nil && o.st == opActive:
					if p == protoTransport {
						oblige(4409, "subscribe with the id of an active operation", e.Msg)
					} else {
						dupMsg[e.ID] = e.Msg // the property prescribes nothing for graphql-ws
					}
				case o != nil && o.st == opClientDone:
					// the client already completed the id and the server has not answered yet:
					// both a 4409 and a fresh start are tolerated (not reachable at rest)
					v.nj("subscribe_while_client_done")
					ops[e.ID] = &opInfo{st: opActive, sub: strings.Contains(e.Raw, "subscription {")}
				default:
					if o != nil && o.st == opTerminated && !abandoned && mustClose == 0 {
						kind := "query/mutation"
						if o.sub {
							kind = "subscription"
						}
						reuse = &struct {
							id, class string
							msg       int
							prev      *opInfo
						}{e.ID, kind + " terminated by " + o.termBy, e.Msg, o}
					}
					ops[e.ID] = &opInfo{st: opActive, sub: strings.Contains(e.Raw, "subscription {")}
					v.feat("op_started")
				}
			case kComplete:
				if o := ops[e.ID]; o != nil && o.st == opActive {
					o.st = opClientDone
				}
			case kTerminate:
				for _, o := range ops {
					if o.st == opActive {
						o.st = opClientDone
					}
				}
			case kUnknown, kNonJSON, kNoType:
				if p == protoTransport {
					oblige(4400, e.Type, e.Msg)
				} else {
					malformedMsg = e.Msg
				}
			}
		case "env":
			if e.Type == "read-error-timeout-elapses" {
				abandoned = true
				for _, o := range ops {
					if o.st == opActive {
						o.st = opClientDone // cancelled by the server; late results are tolerated
					}
				}
			} else if e.Type == "init-timeout-elapses" {
				if p == protoTransport && !initSeen && phase != phClosed {
					oblige(4408, "connection-init time-out without connection_init", e.Msg)
				}
			} else {
				checkPendingClose(i)
				checkReuse(i)
			}
		case "xget", "xexec":
			what := "executor requested"
			if e.K == "xexec" {
				what = "execution started"
				v.feat("execution_started")
				if o := ops[e.ID]; o != nil {
					o.exec = true
					o.serial = e.Code
				}
				if reuse != nil && reuse.id == e.ID && reuse.msg == e.Msg {
					reuse = nil // the re-used id was started as a new operation
					v.feat("terminated_id_reused_and_started")
				}
			}
			if phase == phClosed {
				// the handler already closed the transport (e.g. it returned while the
				// operation goroutine was starting): nothing can reach the wire, not judged
				v.nj("executor_event_after_close")
				continue
			}
			if p == protoTransport && phase == phOpen {
				add(i, clStart, what+" on "+normCause(e.Cause), "before connection_ack", what,
					fmt.Sprintf("%s for id %q while the connection was not acknowledged", what, e.ID))
			}
			if e.K == "xexec" && mustClose != 0 && phase != phClosed && e.Msg > mustCloseMsg {
				add(i, clClose, what+" by a later message", "after "+mustCloseWhy, what+" later",
					fmt.Sprintf("%s for id %q by a message delivered after %s (close code %d was due)", what, e.ID, mustCloseWhy, mustClose))
			}
		case "xdone":
			if e.Type == "cancelled" {
				// the return of an execution that was cancelled earlier; when the id has been re-used
				// in the meantime this is the predecessor of the current operation
				o := ops[e.ID]
				if o != nil && o.exec && o.serial == e.Code {
					// the current operation of this id was cancelled while executing
					o.done = e.Type
				} else {
					lateReturn[e.ID] = e.Lead // a predecessor of the current operation
				}
				break
			}
			if o := ops[e.ID]; o != nil {
				o.done = e.Type
			}
		case "xtick":
		case "s":
			t := canonType(p, e.Type)
			if !allowedTypes[p][e.Type] {
				add(i, clTypes, "server message type "+e.Type, p.String(), "type "+e.Type, "the server wrote "+e.Raw)
				continue
			}
			v.feat("s:" + t)
			switch t {
			case "connection_ack":
				if p == protoTransport {
					if !initSeen || phase != phOpen {
						add(i, clAck, "connection_ack on "+normCause(e.Cause), fmt.Sprintf("initSeen=%v acks=%d", initSeen, acks), "ack",
							fmt.Sprintf("connection_ack written with initSeen=%v after %d earlier ack(s)", initSeen, acks))
					}
					if phase == phOpen {
						phase = phAcked
					}
				} else if acks >= initsAccepted {
					add(i, clAck, "connection_ack on "+normCause(e.Cause), "more acks than accepted inits", "ack",
						fmt.Sprintf("connection_ack number %d after %d accepted connection_init", acks+1, initsAccepted))
				}
				acks++
			case "ping", "pong", "keepalive", "connection_error":
				// legal any time before the close
			case "next":
				o := ops[e.ID]
				switch {
				case p == protoTransport && phase == phOpen:
					add(i, clPreInit, "next on "+normCause(e.Cause), "before connection_ack", "next", "the server wrote "+e.Raw+" before a successful connection_init")
				case o == nil:
					add(i, clUnknownID, "next on "+normCause(e.Cause), "id never started", "next", "the server wrote "+e.Raw+" but no operation with this id was ever started")
				case o.st == opTerminated:
					add(i, clAfter, "next on "+normCause(e.Cause), "id terminated by "+o.termBy, normCause(e.Cause)+"|"+o.termBy,
						fmt.Sprintf("the server wrote %s after its own terminal message (%s) for id %q", e.Raw, o.termBy, e.ID))
				}
			case "error", "complete":
				o := ops[e.ID]
				switch {
				case o == nil && t == "complete":
					// A.1: the statement is silent about a complete for an id that was never started
					v.nj("complete_for_never_started_id")
				case o == nil && p == protoLegacy && e.ID == "" && e.Msg == malformedMsg:
					// graphql-ws: error without id as the answer to a malformed message (nothing prescribed)
					v.nj("legacy_error_without_id_for_malformed_message")
				case o == nil:
					if p == protoTransport && phase == phOpen {
						add(i, clPreInit, "error on "+normCause(e.Cause), "before connection_ack", "error", "the server wrote "+e.Raw+" before a successful connection_init")
					} else {
						add(i, clUnknownID, "error on "+normCause(e.Cause), "id never started", "error", "the server wrote "+e.Raw+" but no operation with this id was ever started")
					}
				case t == "error" && p == protoLegacy && o.st == opActive && hasKey(dupMsg, e.ID) && dupMsg[e.ID] == e.Msg:
					// graphql-ws: the rejection of a start that re-uses a live id is answered with
					// error(id); whether that counts as the terminal message of the running
					// operation is ambiguous -> not judged, the running operation stays active
					delete(dupMsg, e.ID)
					v.nj("legacy_error_reply_to_duplicate_start")
				case p == protoTransport && phase == phOpen:
					add(i, clPreInit, t+" on "+normCause(e.Cause), "before connection_ack", t, "the server wrote "+e.Raw+" before a successful connection_init")
				case o.st == opTerminated:
					add(i, clAfter, t+" on "+normCause(e.Cause), "id terminated by "+o.termBy, normCause(e.Cause)+"|"+o.termBy,
						fmt.Sprintf("the server wrote %s after its own terminal message (%s) for id %q", e.Raw, o.termBy, e.ID))
				default:
					o.st = opTerminated
					o.termBy = t
					v.feat("op_terminated_by_" + t)
				}
			}
		case "close", "connclose":
			code := e.Code
			if e.K == "connclose" {
				code = 0
			}
			v.feat(fmt.Sprintf("close(%d)", code))
			refusedReuse := false
			if reuse != nil && reuse.msg == e.Msg {
				if code == 4409 {
					refusedReuse = true
					add(i, clReuse, "subscribe re-using a terminated id is refused", reuse.class, "reuse|"+reuse.class,
						fmt.Sprintf("the server had sent its terminal message for id %q (%s); the client re-used the id, which is a new operation, and the server closed with 4409 (subscriber already exists)", reuse.id, reuse.class))
				} else {
					v.nj("reuse_of_terminated_id_cut_short_by_another_close")
				}
				reuse = nil
			}
			if mustClose != 0 && code != mustClose && !missedReported {
				add(i, clClose, fmt.Sprintf("close(%d) expected after %s", mustClose, mustCloseWhy), fmt.Sprintf("closed with %d", code), mustCloseWhy,
					fmt.Sprintf("%s requires close code %d, the server closed with %d", mustCloseWhy, mustClose, code))
			}
			if mustClose == 0 {
				if abandoned {
					v.feat(fmt.Sprintf("close_after_read_error_timeout(%d)", code))
				} else if !refusedReuse {
					v.feat(fmt.Sprintf("close_without_obligation(%d)", code))
				}
			}
			mustClose = 0
			phase = phClosed
		case "end":
			checkPendingClose(i)
			checkReuse(i)
			if phase != phClosed {
				ids := make([]string, 0, len(ops))
				for id := range ops {
					ids = append(ids, id)
				}
				sort.Strings(ids)
				for _, id := range ids {
					o := ops[id]
					if o.st != opActive || o.sub {
						continue
					}
					switch {
					case o.done == "ok" || o.done == "err":
						add(i, clTerminal, "no terminal message after the execution finished", "execution result "+o.done, "missing terminal",
							fmt.Sprintf("operation %q finished (%s) but neither complete nor error was written", id, o.done))
					case o.done == "cancelled":
						// executing, not completed by the client, connection open and served - yet the
						// server cancelled the execution and never answered
						class := "cancelled by the server for no visible reason"
						if k, ok := lateReturn[id]; ok {
							class = "after the late return of a cancelled " + k + " with the same id"
						}
						add(i, clTerminal, "active operation silently cancelled by the server", class, "silent|"+class,
							fmt.Sprintf("operation %q was executing and active for the client, the server cancelled its execution and wrote neither error nor complete (%s)", id, class))
					case !o.exec:
						// accepted by the server (no close, no duplicate, connection acknowledged)
						// but neither executed nor answered: the client waits for ever and the id
						// is never released
						add(i, clTerminal, "no terminal message for an accepted operation that was never executed", "execution never started", "never executed",
							fmt.Sprintf("the subscribe/start for id %q was accepted (connection acknowledged, id free) but no execution was started and neither error nor complete was written", id))
					default:
						v.nj("active_operation_without_result_at_the_end")
					}
				}
			}
		case "cdisc":
			phase = phClosed
			mustClose = 0
		case "notreturned":
			add(i, clWedge, "HandleWithOptions still running", "after the connection was closed", "wedge",
				"the transport is closed, every goroutine of the bubble is durably blocked and HandleWithOptions has not returned")
		case "returned":
		}
	}
	if panicMsg != "" {
		add(len(log), clPanic, panicFrame(panicMsg), firstLine(panicMsg), "panic", panicMsg)
	}
	if phase == phAcked || acks > 0 {
		v.feat("acked")
	}
	return v
}

func hasKey(m map[string]int, k string) bool { _, ok := m[k]; return ok }

func firstLine(s string) string {
	if i := strings.IndexByte(s, '\n'); i >= 0 {
		s = s[:i]
	}
	if len(s) > 80 {
		s = s[:80]
	}
	return s
}

var repoFrame = regexp.MustCompile(`(?m)^(github\.com/wundergraph/graphql-go-tools/[^\s(]+(?:\([^)]*\))?[^\s(]*)\(`)

func panicFrame(stack string) string {
	if m := repoFrame.FindStringSubmatch(stack); m != nil {
		return m[1]
	}
	return "panic outside the repository"
}
