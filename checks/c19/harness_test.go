// Harness of check C19: drives the exported websocket.HandleWithOptions with a
// harness TransportClient and a stub ExecutorPool inside a synctest bubble.
// One client message or one environment event per step, synctest.Wait() after
// every step, virtual time only. Everything the server does at the seam (writes,
// closes) and everything the stub executors see is recorded in ONE total order.
package c19

import (
	"context"
	"encoding/binary"
	"encoding/json"
	"errors"
	"fmt"
	"net"
	"runtime"
	"runtime/debug"
	"strings"
	"sync"
	"testing/synctest"
	"time"

	"github.com/jensneuse/abstractlogger"

	"github.com/wundergraph/graphql-go-tools/execution/engine"
	"github.com/wundergraph/graphql-go-tools/execution/graphql"
	"github.com/wundergraph/graphql-go-tools/execution/subscription"
	"github.com/wundergraph/graphql-go-tools/execution/subscription/websocket"
	"github.com/wundergraph/graphql-go-tools/v2/pkg/ast"
	"github.com/wundergraph/graphql-go-tools/v2/pkg/engine/datasource/staticdatasource"
	"github.com/wundergraph/graphql-go-tools/v2/pkg/engine/plan"
	"github.com/wundergraph/graphql-go-tools/v2/pkg/engine/resolve"
)

// ---- protocols and alphabets

type proto int

const (
	protoTransport proto = iota // graphql-transport-ws
	protoLegacy                 // graphql-ws (subscriptions-transport-ws)
)

func (p proto) String() string {
	if p == protoLegacy {
		return "graphql-ws"
	}
	return "graphql-transport-ws"
}

// canonical message kinds (legacy names are mapped onto the transport-ws ones:
// start=subscribe, stop=complete, data=next, ka=keepalive)
const (
	kInit      = "connection_init"
	kInitRej   = "connection_init(rejected payload)"
	kPing      = "ping"
	kPong      = "pong"
	kSubscribe = "subscribe"
	kComplete  = "complete"
	kTerminate = "connection_terminate"
	kUnknown   = "unknown type"
	kNonJSON   = "non-JSON"
	kNoType    = "JSON without type"
)

type letter struct {
	Name string // short name used in reports, e.g. subscribe(1,query)
	Kind string // canonical kind
	ID   string
	Sub  bool // subscribe of a subscription operation
	Raw  string
	// Undet: a valid subscribe/start whose DOCUMENT has no determinable operation type
	// (the real ExecutorV2 reports ast.OperationTypeUnknown and its Execute fails)
	Undet bool
	// Trail: a frame that BEGINS with a complete valid message (kind Lead) and carries
	// something after it; as a whole it is not one JSON document (Kind = non-JSON)
	Trail bool
	Lead  string
	// BadPayload: a subscribe/start whose payload cannot be decoded into the subscribe payload
	BadPayload bool
}

var badPayloads = []struct{ name, member string }{
	{"payload missing", ``},
	{"string payload", `,"payload":"x"`},
	{"array payload", `,"payload":[1]`},
	{"query is a number", `,"payload":{"query":1}`},
}

func badPayloadLetters(verb string) []letter {
	var out []letter
	for _, b := range badPayloads {
		out = append(out, letter{Name: verb + "(1," + b.name + ")", Kind: kSubscribe, ID: "1", BadPayload: true,
			Raw: `{"id":"1","type":"` + verb + `"` + b.member + `}`})
	}
	return out
}

// trailing content appended to a complete valid message
var trailSuffixes = []struct{ name, suffix string }{
	{"stray }", `}`},
	{"garbage", ` garbage`},
	{"second message", ""}, // filled per protocol: a complete(1) / stop(1) message
	{"trailing ,", `,`},
	{"trailing ]", `]`},
}

func trailLetters(base []letter, second string) []letter {
	var out []letter
	for _, b := range base {
		for _, t := range trailSuffixes {
			suf := t.suffix
			if t.name == "second message" {
				suf = second
			}
			out = append(out, letter{Name: b.Name + "+" + t.name, Kind: kNonJSON, Trail: true, Lead: b.Kind, Raw: b.Raw + suf})
		}
	}
	return out
}

// undeterminable documents (payload member "query" + optional operationName)
var undetPayloads = []struct{ name, payload string }{
	{"unparsable document", `{"query":"{ n "}`},
	{"operationName matches no operation", `{"query":"query A { n } query B { n }","operationName":"C"}`},
	{"document with only a fragment", `{"query":"fragment F on Query { n }"}`},
}

func undetLetters(verb string) []letter {
	var out []letter
	for _, u := range undetPayloads {
		out = append(out, letter{Name: verb + "(1," + u.name + ")", Kind: kSubscribe, ID: "1", Undet: true,
			Raw: `{"id":"1","type":"` + verb + `","payload":` + u.payload + `}`})
	}
	return out
}

var alphabetCache = map[proto][]letter{}

// alphabet: the design's letters, then the undeterminable documents, then the
// trailing-content frames (appended at the end: older letter indices stay valid).
func alphabet(p proto) []letter {
	if al, ok := alphabetCache[p]; ok {
		return al
	}
	al := baseAlphabet(p)
	var valid []letter
	for _, l := range al {
		switch l.Name {
		case "connection_init", "ping", "pong", "subscribe(1,query)", "subscribe(1,subscription)", "complete(1)",
			"start(1,query)", "start(1,subscription)", "stop(1)", "connection_terminate":
			valid = append(valid, l)
		}
	}
	second := `{"id":"1","type":"complete"}`
	if p == protoLegacy {
		second = `{"id":"1","type":"stop"}`
	}
	al = append(al, trailLetters(valid, second)...)
	if p == protoLegacy {
		al = append(al, badPayloadLetters("start")...)
	} else {
		al = append(al, badPayloadLetters("subscribe")...)
	}
	alphabetCache[p] = al
	return al
}

func baseAlphabet(p proto) []letter {
	if p == protoTransport {
		return append([]letter{
			{Name: "connection_init", Kind: kInit, Raw: `{"type":"connection_init"}`},
			{Name: "connection_init(rejected)", Kind: kInitRej, Raw: `{"type":"connection_init","payload":{"token":"reject"}}`},
			{Name: "ping", Kind: kPing, Raw: `{"type":"ping"}`},
			{Name: "pong", Kind: kPong, Raw: `{"type":"pong"}`},
			{Name: "subscribe(1,query)", Kind: kSubscribe, ID: "1", Raw: `{"id":"1","type":"subscribe","payload":{"query":"query { n }"}}`},
			{Name: "subscribe(1,subscription)", Kind: kSubscribe, ID: "1", Sub: true, Raw: `{"id":"1","type":"subscribe","payload":{"query":"subscription { n }"}}`},
			{Name: "subscribe(2,subscription)", Kind: kSubscribe, ID: "2", Sub: true, Raw: `{"id":"2","type":"subscribe","payload":{"query":"subscription { n }"}}`},
			{Name: "complete(1)", Kind: kComplete, ID: "1", Raw: `{"id":"1","type":"complete"}`},
			{Name: "complete(9)", Kind: kComplete, ID: "9", Raw: `{"id":"9","type":"complete"}`},
			{Name: "unknown-type", Kind: kUnknown, Raw: `{"type":"bogus"}`},
			{Name: "non-JSON", Kind: kNonJSON, Raw: `not json`},
			{Name: "no-type", Kind: kNoType, Raw: `{"id":"1"}`},
		}, undetLetters("subscribe")...)
	}
	return append([]letter{
		{Name: "connection_init", Kind: kInit, Raw: `{"type":"connection_init"}`},
		{Name: "connection_init(rejected)", Kind: kInitRej, Raw: `{"type":"connection_init","payload":{"token":"reject"}}`},
		{Name: "start(1,query)", Kind: kSubscribe, ID: "1", Raw: `{"id":"1","type":"start","payload":{"query":"query { n }"}}`},
		{Name: "start(1,subscription)", Kind: kSubscribe, ID: "1", Sub: true, Raw: `{"id":"1","type":"start","payload":{"query":"subscription { n }"}}`},
		{Name: "start(2,subscription)", Kind: kSubscribe, ID: "2", Sub: true, Raw: `{"id":"2","type":"start","payload":{"query":"subscription { n }"}}`},
		{Name: "stop(1)", Kind: kComplete, ID: "1", Raw: `{"id":"1","type":"stop"}`},
		{Name: "stop(9)", Kind: kComplete, ID: "9", Raw: `{"id":"9","type":"stop"}`},
		{Name: "connection_terminate", Kind: kTerminate, Raw: `{"type":"connection_terminate"}`},
		{Name: "unknown-type", Kind: kUnknown, Raw: `{"type":"bogus"}`},
		{Name: "non-JSON", Kind: kNonJSON, Raw: `not json`},
		{Name: "no-type", Kind: kNoType, Raw: `{"id":"1"}`},
	}, undetLetters("start")...)
}

// ---- schedule tokens

// environment events (each costs one deviation)
const (
	envTick      = "tick"         // every live subscription executor emits one update
	envTickErr   = "tick-error"   // every live subscription executor fails its next update
	envInitTO    = "init-timeout" // virtual time passes the connection-init time-out
	envKeepAlive = "keep-alive"   // virtual time advances by one keep-alive interval
	envReadErr   = "read-error"   // ReadBytesFromClient fails with a non-closing error
	envReadErrTO = "read-error-timeout"
	// every read fails from now on (each failed read takes readFailDur of virtual time)
	// until the handler gives the connection up or readHorizon reads have failed
	envReadErrPersist = "read-errors-persist"
	// the executions that were cancelled earlier and held back (message mode "hold") return now
	envCancelledReturn = "cancelled-executions-return"
)

// token is one step of an execution: a client message (with the way its
// execution, if any, finishes) or an environment event.
type token struct {
	M    int    `json:"m"`              // letter index; -1 for an environment event
	Mode string `json:"mode,omitempty"` // "" = finishes now, "err" = finishes with error, "late" = blocks until released at the end or cancelled
	E    string `json:"e,omitempty"`
}

func (t token) dev() int {
	if t.M < 0 || t.Mode != "" {
		return 1
	}
	return 0
}

type scenario struct {
	Proto proto   `json:"proto"`
	Path  []token `json:"path"`
}

func (s scenario) describe() string {
	al := alphabet(s.Proto)
	var parts []string
	for _, t := range s.Path {
		if t.M < 0 {
			parts = append(parts, "<"+t.E+">")
			continue
		}
		n := al[t.M].Name
		if t.Mode != "" {
			n += "/" + t.Mode
		}
		parts = append(parts, n)
	}
	return s.Proto.String() + ": [" + strings.Join(parts, ", ") + "]"
}

// ---- the recorded word

type ev struct {
	K     string // "c" client message delivered, "cdisc" client disconnect, "env", "s" server write, "close", "connclose", "xget", "xexec", "xdone", "xtick", "end", "returned", "notreturned", "panic"
	Type  string // message kind (canonical for c, wire type for s), env event name, xdone result
	ID    string
	Code  int
	Post  bool   // attempted after the transport was closed (cannot reach the wire)
	Cause string // what the harness did in the step in which this was recorded
	Raw   string
	Msg   int    // index of the client message being (or last) delivered, -1 before the first
	Lead  string // c: kind of the complete valid message a trailing-content frame begins with; xdone(cancelled): kind of the operation
	Bad   bool   // c: subscribe/start with an undecodable payload
}

func (e ev) String() string {
	post := ""
	if e.Post {
		post = "(after-close)"
	}
	switch e.K {
	case "c":
		return "c:" + e.Raw
	case "cdisc":
		return "c:<disconnect>"
	case "env":
		return "env:" + e.Type
	case "s":
		return "s" + post + ":" + e.Raw
	case "close":
		return fmt.Sprintf("s%s:close(%d)", post, e.Code)
	case "connclose":
		return "s" + post + ":conn.Close()"
	case "xget":
		return "x:get(" + e.ID + ")"
	case "xexec":
		return "x:execute(" + e.ID + ")"
	case "xdone":
		return "x:done(" + e.ID + "," + e.Type + ")"
	case "xtick":
		return "x:tick(" + e.ID + "," + e.Type + ")"
	case "xsilent":
		return "x:cancelled-by-the-server(" + e.ID + ")"
	case "readhorizon":
		return "x:read-horizon"
	}
	return e.K
}

// serverView is the client-visible part of the word (used as the outcome key).
func serverView(log []ev) string {
	var b strings.Builder
	for _, e := range log {
		if e.Post {
			continue
		}
		switch e.K {
		case "s":
			fmt.Fprintf(&b, "%s(%s) ", e.Type, e.ID)
		case "close":
			fmt.Fprintf(&b, "close(%d) ", e.Code)
		case "connclose":
			b.WriteString("connclose ")
		}
	}
	return b.String()
}

// ---- harness

const (
	updateInterval  = time.Second       // CustomSubscriptionUpdateInterval
	initTimeOut     = 10 * time.Second  // CustomConnectionInitTimeOut
	keepAlive       = 100 * time.Second // CustomKeepAliveInterval
	readErrTimeOut  = 5 * time.Second   // CustomReadErrorTimeOut
	drainSleep      = 300 * time.Second
	readFailDur     = 700137 * time.Microsecond // never coincides with another timer of an execution
	readHorizon     = 12                        // failed reads in a row after which a still-serving handler is a wedge (> read-error time-out / readFailDur + 1)
	phaseStep       = time.Millisecond
	initialHalfStep = 500 * time.Microsecond
)

type inMsg struct {
	data []byte
	err  error
}

type harness struct {
	mu       sync.Mutex
	p        proto
	al       []letter
	log      []ev
	cause    string
	msgIdx   int
	cur      *letter // message being delivered
	closed   bool    // transport closed (server close, conn.Close or client disconnect)
	closedCh chan struct{}
	in       chan inMsg
	execs    []*stubExec
	start    time.Time
	crossedT bool
	fin      chan struct{}
	panicMsg string
	steps    int

	initDelivered  bool
	readErrArmed   bool      // mirror of the handler's read-error timer: armed by a read error, disarmed by the next successful read
	readErrElapses time.Time // when the armed timer fires
	persist        int       // reads that still have to fail in the current burst
	persistOn      bool
	cancelledNow   bool // a cancelled execution returned during the current step
	heldNow        bool // a cancelled execution was held back during the current step
}

func (h *harness) rec(e ev) {
	// caller holds h.mu
	e.Cause = h.cause
	e.Msg = h.msgIdx
	h.log = append(h.log, e)
}

func (h *harness) closeLocked() {
	if !h.closed {
		h.closed = true
		close(h.closedCh)
	}
}

// -- subscription.TransportClient

type hClient struct{ h *harness }

func (c *hClient) ReadBytesFromClient() ([]byte, error) {
	h := c.h
	h.mu.Lock()
	if h.closed {
		h.mu.Unlock()
		return nil, subscription.ErrTransportClientClosedConnection
	}
	if h.persistOn {
		if h.persist > 0 {
			h.persist--
			h.mu.Unlock()
			time.Sleep(readFailDur)
			return nil, errHarnessRead
		}
		// explicit horizon: the handler is still reading after readHorizon failed reads
		h.persistOn = false
		h.rec(ev{K: "readhorizon"})
	}
	h.mu.Unlock()
	select {
	case m := <-h.in:
		if m.err != nil {
			return nil, m.err
		}
		return m.data, nil
	case <-h.closedCh:
		return nil, subscription.ErrTransportClientClosedConnection
	}
}

func (c *hClient) WriteBytesToClient(b []byte) error {
	h := c.h
	h.mu.Lock()
	defer h.mu.Unlock()
	var m struct {
		ID   string `json:"id"`
		Type string `json:"type"`
	}
	typ := "<not a JSON object>"
	if err := json.Unmarshal(b, &m); err == nil {
		typ = m.Type
	}
	e := ev{K: "s", Type: typ, ID: m.ID, Raw: string(b), Post: h.closed}
	h.rec(e)
	if h.closed {
		// like the real websocket.Client: refuses writes on a closed connection
		return subscription.ErrTransportClientClosedConnection
	}
	return nil
}

func (c *hClient) IsConnected() bool {
	c.h.mu.Lock()
	defer c.h.mu.Unlock()
	return !c.h.closed
}

func (c *hClient) Disconnect() error {
	h := c.h
	h.mu.Lock()
	defer h.mu.Unlock()
	h.rec(ev{K: "close", Code: 0, Post: h.closed})
	h.closeLocked()
	return nil
}

func closeCode(reason any) int {
	switch r := reason.(type) {
	case websocket.CloseReason:
		if len(r.Payload) >= 2 {
			return int(binary.BigEndian.Uint16(r.Payload))
		}
		return -1
	case websocket.CompiledCloseReason:
		// compiled unmasked server frame: 0x88, len(<126), payload (code first)
		if len(r) >= 4 && r[0] == 0x88 && r[1] < 126 {
			return int(binary.BigEndian.Uint16(r[2:4]))
		}
		return -1
	}
	return -2
}

func (c *hClient) DisconnectWithReason(reason any) error {
	h := c.h
	h.mu.Lock()
	defer h.mu.Unlock()
	h.rec(ev{K: "close", Code: closeCode(reason), Post: h.closed})
	h.closeLocked()
	return nil
}

// -- net.Conn handed to HandleWithOptions (only Close is ever used with a custom client)

type hConn struct {
	net.Conn
	h *harness
}

func (c hConn) Close() error {
	h := c.h
	h.mu.Lock()
	defer h.mu.Unlock()
	h.rec(ev{K: "connclose", Post: h.closed})
	h.closeLocked()
	return nil
}

// -- stub executor pool

const (
	stNew = iota
	stAtGate
	stCancelSeen
	stReturned // first Execute returned
)

type stubExec struct {
	h         *harness
	id        string
	sub       bool
	ctx       context.Context
	calls     int
	state     int
	gate      chan string // decision of the harness for the first Execute: "ok" | "err"
	resume    chan struct{}
	budget    int    // updates the harness allows on the next ticks
	tickM     string // "ok" | "err"
	late      bool   // the harness decided to leave the first Execute blocked
	announced bool   // x:execute has been written into the word
	held      bool   // cancelled while executing, and the harness holds its return back (slow tear-down)
	serial    int    // number of this executor on the connection (Code of its x events)
	n         int
	typ       ast.OperationType     // as derived by the real graphql.Request / ExecutorV2
	real      subscription.Executor // the real ExecutorV2 for documents of undeterminable type (its Execute is used)
}

// ---- the real ExecutorV2 pool (one per bubble): operation types are derived by the
// real code (ExecutorV2.OperationType -> graphql.Request.OperationType), and a document
// whose type is ast.OperationTypeUnknown is executed by the real ExecutorV2 over an
// execution engine with a static data source (it fails exactly like in production)

var realPool *subscription.ExecutorV2Pool

func setupRealEngine() (cancel func()) {
	ctx, cancelCtx := context.WithCancel(context.Background())
	schema, err := graphql.NewSchemaFromString(`type Query { n: Int }`)
	if err != nil {
		panic(err)
	}
	ds, err := plan.NewDataSourceConfiguration[staticdatasource.Configuration]("static",
		&staticdatasource.Factory[staticdatasource.Configuration]{},
		&plan.DataSourceMetadata{RootNodes: []plan.TypeField{{TypeName: "Query", FieldNames: []string{"n"}}}},
		staticdatasource.Configuration{Data: `{"n": 1}`})
	if err != nil {
		panic(err)
	}
	conf := engine.NewConfiguration(schema)
	conf.SetDataSources([]plan.DataSource{ds})
	conf.SetFieldConfigurations([]plan.FieldConfiguration{{TypeName: "Query", FieldName: "n"}})
	eng, err := engine.NewExecutionEngine(ctx, abstractlogger.NoopLogger, conf, resolve.ResolverOptions{MaxConcurrency: 8})
	if err != nil {
		panic(err)
	}
	realPool = subscription.NewExecutorV2Pool(eng, ctx)
	return func() { cancelCtx(); realPool = nil }
}

type stubPool struct{ h *harness }

func (p *stubPool) Get(payload []byte) (subscription.Executor, error) {
	h := p.h
	h.mu.Lock()
	defer h.mu.Unlock()
	id := "?"
	if h.cur != nil {
		id = h.cur.ID
	}
	real, err := realPool.Get(payload)
	if err != nil {
		h.rec(ev{K: "xget", ID: id, Type: "pool error"})
		return nil, err
	}
	typ := real.OperationType()
	e := &stubExec{h: h, id: id, sub: typ == ast.OperationTypeSubscription, typ: typ,
		ctx: context.Background(), gate: make(chan string), resume: make(chan struct{})}
	if typ == ast.OperationTypeUnknown {
		e.real = real
	}
	h.execs = append(h.execs, e)
	e.serial = len(h.execs)
	h.rec(ev{K: "xget", ID: id})
	return e, nil
}

func (p *stubPool) Put(subscription.Executor) error { return nil }

func (e *stubExec) OperationType() ast.OperationType { return e.typ }
func (e *stubExec) SetContext(c context.Context) {
	e.ctx = c
	if e.real != nil {
		e.real.SetContext(c)
	}
}
func (e *stubExec) Reset() {}

var errStubExecution = errors.New("stub execution failed")
var errHarnessRead = errors.New("harness: read error")

func (e *stubExec) Execute(w resolve.SubscriptionResponseWriter) error {
	h := e.h
	h.mu.Lock()
	e.calls++
	if e.calls == 1 {
		// x:execute is written into the word by the harness once everything has come
		// to rest (see reactions): the goroutine that started this operation may still
		// be running (e.g. returning and closing the connection), and the order of
		// the two must not depend on goroutine timing
		e.state = stAtGate
		h.mu.Unlock()
		// the harness decides how this execution finishes
		select {
		case d := <-e.gate:
			if d == "real" {
				// undeterminable document: the real ExecutorV2 decides
				err := e.real.Execute(w)
				h.mu.Lock()
				e.state = stReturned
				res := "ok"
				if err != nil {
					res = "err"
				}
				h.rec(ev{K: "xdone", ID: e.id, Type: res})
				h.mu.Unlock()
				return err
			}
			h.mu.Lock()
			e.state = stReturned
			kind := "xdone"
			if e.sub {
				kind = "xtick"
			}
			h.rec(ev{K: kind, ID: e.id, Type: d})
			h.mu.Unlock()
			if d == "err" {
				return errStubExecution
			}
			e.n++
			_, _ = w.Write([]byte(fmt.Sprintf(`{"data":{"n":%d}}`, e.n)))
			return nil
		case <-e.ctx.Done():
			// cancelled while executing: return the context error, but only when
			// the harness says so (after the canceller itself came to rest), so
			// that the order of the two reactions does not depend on goroutine timing
			h.mu.Lock()
			e.state = stCancelSeen
			h.mu.Unlock()
			<-e.resume
			h.mu.Lock()
			e.state = stReturned
			kind := "query/mutation"
			if e.sub {
				kind = "subscription"
			}
			h.rec(ev{K: "xdone", ID: e.id, Type: "cancelled", Lead: kind, Code: e.serial})
			h.mu.Unlock()
			return e.ctx.Err()
		}
	}
	// later calls: the polling loop of a subscription
	defer h.mu.Unlock()
	if e.budget <= 0 {
		return nil // nothing new
	}
	e.budget--
	if e.tickM == "err" {
		h.rec(ev{K: "xtick", ID: e.id, Type: "err"})
		return errStubExecution
	}
	h.rec(ev{K: "xtick", ID: e.id, Type: "ok"})
	e.n++
	_, _ = w.Write([]byte(fmt.Sprintf(`{"data":{"n":%d}}`, e.n)))
	return nil
}

// ---- running one scenario

type runResult struct {
	Log             []ev
	Closed          bool     // transport closed before the final phase
	Enabled         []string // environment events enabled at the end of the path
	Executed        bool     // the last token was a message that brought an execution to the gate
	Cancelled       bool     // the last token was a message that cancelled an in-flight execution (which then returned)
	Undeliverable   bool     // some token of the path could not be applied
	HandlerReturned bool
	Panic           string
	Steps           int
	Leaked          int
}

func initFunc(ctx context.Context, payload websocket.InitPayload) (context.Context, error) {
	if strings.Contains(string(payload), "reject") {
		return ctx, errors.New("rejected by init func")
	}
	return ctx, nil
}

func (h *harness) settle() { synctest.Wait() }

// advance lets virtual time pass; records the moment the init time-out elapses.
func (h *harness) advance(d time.Duration) {
	rel := time.Since(h.start)
	h.mu.Lock()
	initAt, readAt := time.Duration(-1), time.Duration(-1)
	if h.p == protoTransport && !h.crossedT && rel < initTimeOut && rel+d >= initTimeOut {
		h.crossedT = true
		initAt = initTimeOut
	}
	if h.readErrArmed && !time.Now().Add(d).Before(h.readErrElapses) {
		h.readErrArmed = false
		readAt = h.readErrElapses.Sub(h.start)
	}
	// the markers of the timers that elapse during this sleep, in chronological order
	if readAt >= 0 && (initAt < 0 || readAt < initAt) {
		h.rec(ev{K: "env", Type: "read-error-timeout-elapses"})
		readAt = -1
	}
	if initAt >= 0 {
		h.rec(ev{K: "env", Type: "init-timeout-elapses"})
	}
	if readAt >= 0 {
		h.rec(ev{K: "env", Type: "read-error-timeout-elapses"})
	}
	h.mu.Unlock()
	time.Sleep(d)
	synctest.Wait()
}

func (h *harness) setCause(c string) {
	h.mu.Lock()
	h.cause = c
	h.steps++
	h.mu.Unlock()
}

// reactions: apply the decision for an execution that just reached the gate and
// let cancelled executions return, one at a time.
// releaseHeld lets the held cancelled executions return, one at a time.
func (h *harness) releaseHeld() {
	for {
		var x *stubExec
		h.mu.Lock()
		for _, e := range h.execs {
			if e.state == stCancelSeen && e.held {
				x = e
				break
			}
		}
		if x != nil {
			x.held = false
		}
		h.mu.Unlock()
		if x == nil {
			return
		}
		h.reactions("")
	}
}

func (h *harness) anyHeld() bool {
	for _, e := range h.execs {
		if e.state == stCancelSeen && e.held {
			return true
		}
	}
	return false
}

func (h *harness) reactions(mode string) (executed bool) {
	for {
		var atGate, cancelled *stubExec
		h.mu.Lock()
		for _, e := range h.execs {
			if !e.announced && (e.state == stAtGate || e.state == stCancelSeen) {
				e.announced = true
				h.rec(ev{K: "xexec", ID: e.id, Code: e.serial})
			}
		}
		for _, e := range h.execs {
			if e.state == stCancelSeen && !e.held {
				if mode == "hold" {
					e.held = true // its return is a later, schedulable event
					h.heldNow = true
				} else if cancelled == nil {
					cancelled = e
				}
			}
			if e.state == stAtGate && e.gate != nil && !e.lateKept() && atGate == nil {
				atGate = e
			}
		}
		h.mu.Unlock()
		switch {
		case atGate != nil && atGate.real != nil:
			// not a schedule choice: the real executor runs (no err/late variants)
			h.setCause("execution of an undeterminable document returns")
			atGate.gate <- "real"
			h.settle()
		case atGate != nil:
			executed = true
			switch mode {
			case "late":
				h.mu.Lock()
				atGate.keepLate()
				h.mu.Unlock()
			case "err":
				h.setCause("execution finishes with error")
				atGate.gate <- "err"
				h.settle()
			default:
				h.setCause("execution finishes")
				atGate.gate <- "ok"
				h.settle()
			}
		case cancelled != nil:
			h.cancelledNow = true
			h.setCause("execution returns after cancellation")
			close(cancelled.resume)
			h.settle()
		default:
			return executed
		}
	}
}

func (e *stubExec) lateKept() bool { return e.late }
func (e *stubExec) keepLate()      { e.late = true }

func (h *harness) liveSubs() []*stubExec {
	var out []*stubExec
	for _, e := range h.execs {
		if e.sub && e.state == stReturned && e.ctx.Err() == nil {
			out = append(out, e)
		}
	}
	return out
}

func (h *harness) enabled() []string {
	h.mu.Lock()
	defer h.mu.Unlock()
	if h.closed {
		return nil
	}
	var out []string
	if len(h.liveSubs()) > 0 {
		out = append(out, envTick, envTickErr)
	}
	if h.p == protoTransport && !h.crossedT {
		out = append(out, envInitTO)
	}
	if h.initDelivered {
		out = append(out, envKeepAlive)
	}
	out = append(out, envReadErr, envReadErrPersist)
	if h.anyHeld() {
		out = append(out, envCancelledReturn)
	}
	if h.readErrArmed {
		out = append(out, envReadErrTO)
	}
	return out
}

func (h *harness) tick(mode string, name string) {
	h.setCause("subscription tick")
	h.mu.Lock()
	h.rec(ev{K: "env", Type: name})
	for _, e := range h.liveSubs() {
		e.budget = 1
		e.tickM = mode
	}
	h.mu.Unlock()
	h.advance(updateInterval)
	h.mu.Lock()
	for _, e := range h.execs {
		e.budget = 0
	}
	h.mu.Unlock()
}

func (h *harness) deliver(m inMsg) bool {
	select {
	case h.in <- m:
		return true
	default:
		return false
	}
}

func contains(ss []string, s string) bool {
	for _, x := range ss {
		if x == s {
			return true
		}
	}
	return false
}

// runScenario executes one path from a fresh connection, then the final phase
// (late executions finish, one more tick, client disconnect, drain).
func runScenario(sc scenario) *runResult {
	res := &runResult{}
	base := runtime.NumGoroutine()
	h := &harness{p: sc.Proto, al: alphabet(sc.Proto), closedCh: make(chan struct{}), in: make(chan inMsg), fin: make(chan struct{}), msgIdx: -1, cause: "connection opened"}
	h.start = time.Now()
	done := make(chan bool)
	errc := make(chan error, 1)
	wsProto := websocket.ProtocolGraphQLTransportWS
	if sc.Proto == protoLegacy {
		wsProto = websocket.ProtocolGraphQLWS
	}
	go func() {
		defer close(h.fin)
		defer func() {
			if p := recover(); p != nil {
				h.mu.Lock()
				h.panicMsg = fmt.Sprintf("%v\n%s", p, debug.Stack())
				h.mu.Unlock()
			}
		}()
		websocket.HandleWithOptions(done, errc, hConn{h: h}, &stubPool{h: h}, websocket.HandleOptions{
			Protocol:                         wsProto,
			WebSocketInitFunc:                initFunc,
			CustomClient:                     &hClient{h: h},
			CustomKeepAliveInterval:          keepAlive,
			CustomSubscriptionUpdateInterval: updateInterval,
			CustomConnectionInitTimeOut:      initTimeOut,
			CustomReadErrorTimeOut:           readErrTimeOut,
		})
	}()
	h.settle()
	h.advance(initialHalfStep)

	for i, t := range sc.Path {
		last := i == len(sc.Path)-1
		if t.M >= 0 {
			l := &h.al[t.M]
			h.mu.Lock()
			closed := h.closed
			h.mu.Unlock()
			if closed {
				res.Undeliverable = true
				break
			}
			h.setCause("client " + l.Kind)
			h.mu.Lock()
			h.msgIdx++
			h.cur = l
			h.rec(ev{K: "c", Type: l.Kind, ID: l.ID, Raw: l.Raw, Lead: l.Lead, Bad: l.BadPayload})
			h.mu.Unlock()
			if !h.deliver(inMsg{data: []byte(l.Raw)}) {
				// handler is not reading although the transport is open
				h.mu.Lock()
				h.log = h.log[:len(h.log)-1]
				h.mu.Unlock()
				res.Undeliverable = true
				break
			}
			h.settle()
			h.mu.Lock()
			h.readErrArmed = false
			if l.Kind == kInit || l.Kind == kInitRej {
				h.initDelivered = true
			}
			h.mu.Unlock()
			h.mu.Lock()
			h.cancelledNow, h.heldNow = false, false
			h.mu.Unlock()
			ex := h.reactions(t.Mode)
			h.mu.Lock()
			cn, hn := h.cancelledNow, h.heldNow
			h.mu.Unlock()
			if last {
				res.Executed = ex
				res.Cancelled = cn
			}
			if (t.Mode == "hold" && !hn) || (t.Mode != "" && t.Mode != "hold" && !ex) {
				res.Undeliverable = true // a mode on a message it does not apply to: not a distinct scenario
				break
			}
		} else {
			if !contains(h.enabled(), t.E) {
				res.Undeliverable = true
				break
			}
			switch t.E {
			case envTick:
				h.tick("ok", envTick)
			case envTickErr:
				h.tick("err", envTickErr)
			case envInitTO:
				h.setCause("init time-out")
				h.mu.Lock()
				h.rec(ev{K: "env", Type: envInitTO})
				h.mu.Unlock()
				h.advance(initTimeOut)
			case envKeepAlive:
				h.setCause("keep-alive interval")
				h.mu.Lock()
				h.rec(ev{K: "env", Type: envKeepAlive})
				h.mu.Unlock()
				h.advance(keepAlive)
			case envReadErr:
				h.setCause("read error")
				h.mu.Lock()
				h.rec(ev{K: "env", Type: envReadErr})
				h.mu.Unlock()
				if !h.deliver(inMsg{err: errHarnessRead}) {
					res.Undeliverable = true
				}
				h.settle()
				h.mu.Lock()
				if !h.readErrArmed {
					h.readErrArmed = true
					h.readErrElapses = time.Now().Add(readErrTimeOut)
				}
				h.mu.Unlock()
			case envReadErrPersist:
				h.setCause("persistent read errors")
				h.mu.Lock()
				h.rec(ev{K: "env", Type: envReadErrPersist})
				h.persist, h.persistOn = readHorizon-1, true
				h.mu.Unlock()
				if !h.deliver(inMsg{err: errHarnessRead}) {
					res.Undeliverable = true
				}
				h.settle()
				h.mu.Lock()
				if !h.readErrArmed {
					h.readErrArmed = true
					h.readErrElapses = time.Now().Add(readErrTimeOut)
				}
				h.mu.Unlock()
				// whole seconds: the harness stays on its phase grid
				h.advance(time.Duration(readHorizon) * time.Second)
			case envCancelledReturn:
				h.setCause("execution returns after cancellation")
				h.mu.Lock()
				h.rec(ev{K: "env", Type: envCancelledReturn})
				h.mu.Unlock()
				h.releaseHeld()
			case envReadErrTO:
				h.setCause("read-error time-out")
				h.mu.Lock()
				h.rec(ev{K: "env", Type: envReadErrTO})
				h.mu.Unlock()
				h.advance(readErrTimeOut)
			}
			if res.Undeliverable {
				break
			}
			h.reactions("")
		}
		h.advance(phaseStep)
	}

	// what could come next (for the explorer)
	res.Enabled = h.enabled()
	h.mu.Lock()
	res.Closed = h.closed
	h.mu.Unlock()

	// ---- final phase
	// F0: cancelled executions that were held back return now
	h.mu.Lock()
	held := h.anyHeld()
	h.mu.Unlock()
	if held {
		h.setCause("execution returns after cancellation")
		h.mu.Lock()
		h.rec(ev{K: "env", Type: envCancelledReturn})
		h.mu.Unlock()
		h.releaseHeld()
		h.advance(phaseStep)
	}
	// F1: executions still blocked finish now (ascending start order)
	for {
		var late *stubExec
		h.mu.Lock()
		if !h.closed {
			for _, e := range h.execs {
				if e.state == stAtGate && e.ctx.Err() == nil {
					late = e
					break
				}
			}
		}
		h.mu.Unlock()
		if late == nil {
			break
		}
		h.setCause("late execution finishes")
		h.mu.Lock()
		h.rec(ev{K: "env", Type: "late execution finishes"})
		h.mu.Unlock()
		late.gate <- "ok"
		h.settle()
		h.reactions("")
		h.advance(phaseStep)
	}
	// F2: one more tick for whatever subscription is still alive
	h.mu.Lock()
	alive := !h.closed && len(h.liveSubs()) > 0
	h.mu.Unlock()
	if alive {
		h.tick("ok", envTick)
		h.reactions("")
		h.advance(phaseStep)
	}
	h.mu.Lock()
	// subscriptions whose context is cancelled although they were started and polling: for each
	// id the latest execution that was actually started (the acceptor decides whether anybody was
	// entitled to cancel it)
	if !h.closed {
		latest := map[string]*stubExec{}
		var order []string
		for _, e := range h.execs {
			if e.announced {
				if _, ok := latest[e.id]; !ok {
					order = append(order, e.id)
				}
				latest[e.id] = e
			}
		}
		for _, id := range order {
			if e := latest[id]; e.sub && e.state == stReturned && e.ctx.Err() != nil {
				h.rec(ev{K: "xsilent", ID: id})
			}
		}
	}
	h.rec(ev{K: "end"})
	h.mu.Unlock()
	// F3: the client goes away
	h.setCause("client disconnect")
	h.mu.Lock()
	if !h.closed {
		h.rec(ev{K: "cdisc"})
		h.closeLocked()
	}
	h.mu.Unlock()
	h.settle()
	h.reactions("")
	select {
	case <-h.fin:
		res.HandlerReturned = true
	default:
	}
	h.mu.Lock()
	if res.HandlerReturned {
		h.rec(ev{K: "returned"})
	} else {
		h.rec(ev{K: "notreturned"})
	}
	h.mu.Unlock()
	// F4: drain every timer; whatever is still attempted cannot reach the wire
	h.setCause("drain")
	h.mu.Lock()
	for _, e := range h.execs {
		e.budget = 2
		e.tickM = "ok"
	}
	h.mu.Unlock()
	h.advance(drainSleep)
	h.reactions("")
	// unblock anything of the stub that is still parked (cannot happen when the
	// handler cancelled its contexts; keeps the bubble clean otherwise)
	h.mu.Lock()
	var parked []*stubExec
	for _, e := range h.execs {
		if e.state == stAtGate {
			parked = append(parked, e)
		}
	}
	h.mu.Unlock()
	for _, e := range parked {
		select {
		case e.gate <- "err":
		default:
		}
	}
	h.settle()
	if !res.HandlerReturned {
		// wedged handler: it stays parked in this bubble
		res.Leaked++
	}
	if n := runtime.NumGoroutine(); n > base {
		res.Leaked += n - base
	}
	h.mu.Lock()
	res.Log = h.log
	res.Panic = h.panicMsg
	res.Steps = h.steps
	h.mu.Unlock()
	return res
}
