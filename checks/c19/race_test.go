// TestRace: free-running side test for H9 (memory-level race in
// ExecutorEngine.TerminateAllSubscriptions). NOT part of TestCheck, never a verdict:
// the sequential exploration hands control from goroutine to goroutine at
// quiescence, which the race detector sees as happens-before edges, so a data
// race cannot be decided there. Run by hand:
//
//	cd /verif && . ./env.sh && $GO125 test -race -count=1 -run TestRace -v ./checks/c19/
package c19

import (
	"context"
	"fmt"
	"os"
	"strconv"
	"sync"
	"testing"
	"time"

	"github.com/wundergraph/graphql-go-tools/execution/subscription"
	"github.com/wundergraph/graphql-go-tools/execution/subscription/websocket"
	"github.com/wundergraph/graphql-go-tools/v2/pkg/ast"
	"github.com/wundergraph/graphql-go-tools/v2/pkg/engine/resolve"
)

type raceClient struct {
	mu     sync.Mutex
	in     chan []byte
	closed bool
	down   chan struct{}
	writes int
}

func (c *raceClient) ReadBytesFromClient() ([]byte, error) {
	select {
	case b := <-c.in:
		return b, nil
	case <-c.down:
		return nil, subscription.ErrTransportClientClosedConnection
	}
}
func (c *raceClient) WriteBytesToClient(b []byte) error {
	c.mu.Lock()
	defer c.mu.Unlock()
	if c.closed {
		return subscription.ErrTransportClientClosedConnection
	}
	c.writes++
	return nil
}
func (c *raceClient) IsConnected() bool { c.mu.Lock(); defer c.mu.Unlock(); return !c.closed }
func (c *raceClient) Disconnect() error {
	c.mu.Lock()
	defer c.mu.Unlock()
	if !c.closed {
		c.closed = true
		close(c.down)
	}
	return nil
}
func (c *raceClient) DisconnectWithReason(any) error { return c.Disconnect() }

type raceExec struct{ gate chan struct{} }

func (e *raceExec) Execute(w resolve.SubscriptionResponseWriter) error {
	<-e.gate
	_, _ = w.Write([]byte(`{"data":{"n":1}}`))
	return nil
}
func (e *raceExec) OperationType() ast.OperationType { return ast.OperationTypeQuery }
func (e *raceExec) SetContext(context.Context)       {}
func (e *raceExec) Reset()                           {}

type racePool struct{ gate chan struct{} }

func (p *racePool) Get([]byte) (subscription.Executor, error) { return &raceExec{gate: p.gate}, nil }
func (p *racePool) Put(subscription.Executor) error           { return nil }

// TestRace: N queries finish (each deletes its id from the cancellation map under
// the lock) while the client sends connection_terminate (TerminateAllSubscriptions
// ranges over the same map WITHOUT the lock).
func TestRace(t *testing.T) {
	iters := 300
	if s := os.Getenv("C19_RACE_ITERS"); s != "" {
		iters, _ = strconv.Atoi(s)
	}
	for it := 0; it < iters; it++ {
		cl := &raceClient{in: make(chan []byte), down: make(chan struct{})}
		pool := &racePool{gate: make(chan struct{})}
		done := make(chan bool)
		errc := make(chan error, 1)
		fin := make(chan struct{})
		go func() {
			defer close(fin)
			websocket.HandleWithOptions(done, errc, hConn{h: &harness{closedCh: make(chan struct{})}}, pool, websocket.HandleOptions{
				Protocol:     websocket.ProtocolGraphQLWS,
				CustomClient: cl,
			})
		}()
		const n = 8
		for i := 0; i < n; i++ {
			cl.in <- []byte(fmt.Sprintf(`{"id":"%d","type":"start","payload":{"query":"query { n }"}}`, i))
		}
		time.Sleep(time.Millisecond)                       // let the operation goroutines reach the gate
		close(pool.gate)                                   // all queries finish now ...
		cl.in <- []byte(`{"type":"connection_terminate"}`) // ... while the handler iterates the map
		_ = cl.Disconnect()
		<-fin
	}
}
