// Check C19: the WebSocket subscription server obeys graphql-transport-ws /
// graphql-ws on ANY client message sequence. Bounded exhaustive exploration:
// every message sequence up to a length bound over the alphabets of DESIGN.md
// section 3 C19, for both sub-protocols, crossed with every placement of a
// bounded number of environment deviations; every recorded word is judged by
// the reference acceptor R4p (appendix A.1). See harness_test.go / acceptor_test.go.
package c19

import (
	"encoding/json"
	"fmt"
	"os"
	"strconv"
	"strings"
	"sync/atomic"
	"testing"
	"testing/synctest"
	"time"

	"verif/internal/vk"
)

type bounds struct {
	maxLen   int   // longest message sequence
	devByLen []int // deviation bound as a function of the number of client messages (index = number of messages)
}

func (b bounds) dev(nmsgs int) int {
	if nmsgs < len(b.devByLen) {
		return b.devByLen[nmsgs]
	}
	return b.devByLen[len(b.devByLen)-1]
}

type explorer struct {
	run        *vk.Run
	p          proto
	al         []letter
	letters    []int                     // indices of the letters this configuration enumerates
	onlyWith   map[int]bool              // when set: only paths containing one of these letters are recorded (the others belong to another configuration)
	atMostOne  map[int]bool              // at most one letter of this set per path
	recordIf   func(nmsgs, dev int) bool // when set: only these paths are recorded (the others belong to the main configuration)
	b          bounds
	shardDepth int
	unit       int64
	leaked     int
	execs      int64
	shrunk     map[string]*vk.Violation
	stop       bool
}

// deadlineHit is set by a goroutine OUTSIDE the bubble (real clock): inside the
// bubble time.Now() is virtual, so vk.Run.Expired() cannot be used there.
var deadlineHit atomic.Bool

func (x *explorer) expired() bool {
	if x.stop {
		return true
	}
	if deadlineHit.Load() {
		x.run.Cap("internal deadline reached")
		x.stop = true
	}
	return x.stop
}

func traceText(log []ev) string {
	var parts []string
	for _, e := range log {
		switch e.K {
		case "end", "returned", "xtick", "xdone", "xget", "xexec":
			if e.K == "end" || e.K == "returned" {
				continue
			}
		}
		parts = append(parts, e.String())
	}
	return strings.Join(parts, "  ")
}

func logText(log []ev) string {
	var b strings.Builder
	for _, e := range log {
		fmt.Fprintf(&b, "%s|%s|%s|%d|%v|%s|%d\n", e.K, e.Type, e.ID, e.Code, e.Post, e.Cause, e.Msg)
	}
	return b.String()
}

// judge runs one scenario and the acceptor.
func judge(sc scenario) (*runResult, *verdict) {
	res := runScenario(sc)
	if res.Undeliverable {
		return res, nil
	}
	return res, accept(sc.Proto, res.Log, res.Panic)
}

func clonePath(p []token, extra ...token) []token {
	out := make([]token, 0, len(p)+len(extra))
	out = append(out, p...)
	return append(out, extra...)
}

// shrink removes tokens / deviations while a finding with the same key survives.
func (x *explorer) shrink(sc scenario, key string) (scenario, *runResult, *finding) {
	var best *finding
	var bestRes *runResult
	try := func(c scenario) bool {
		res, v := judge(c)
		x.leaked += res.Leaked
		x.run.Count("shrink_runs", 1)
		if v == nil {
			return false
		}
		for i := range v.Findings {
			if v.Findings[i].Key == key {
				best, bestRes = &v.Findings[i], res
				return true
			}
		}
		return false
	}
	if !try(sc) {
		return sc, nil, nil
	}
	for changed := true; changed; {
		changed = false
		for i := 0; i < len(sc.Path) && !changed; i++ {
			// drop token i
			c := scenario{Proto: sc.Proto, Path: append(clonePath(sc.Path[:i]), sc.Path[i+1:]...)}
			if try(c) {
				sc, changed = c, true
				break
			}
			t := sc.Path[i]
			if t.Mode != "" {
				c := scenario{Proto: sc.Proto, Path: clonePath(sc.Path)}
				c.Path[i].Mode = ""
				if try(c) {
					sc, changed = c, true
					break
				}
			}
			if t.M < 0 && t.E == envTickErr {
				c := scenario{Proto: sc.Proto, Path: clonePath(sc.Path)}
				c.Path[i].E = envTick
				if try(c) {
					sc, changed = c, true
					break
				}
			}
		}
	}
	try(sc)
	return sc, bestRes, best
}

func (x *explorer) report(sc scenario, res *runResult, v *verdict) {
	seen := map[string]bool{}
	for _, f := range v.Findings {
		raw := f.Clause + "\x00" + f.Site + "\x00" + f.Class
		if seen[raw] {
			continue
		}
		seen[raw] = true
		x.run.Count("finding:"+f.Clause, 1)
		if old, ok := x.shrunk[raw]; ok {
			x.run.Violate(*old)
			continue
		}
		ssc, sres, sf := x.shrink(sc, f.Key)
		if sf == nil {
			// not reproducible on re-execution: an infrastructure problem, never a verdict
			x.run.Cap("a finding did not reproduce on re-execution (not reported)")
			x.run.Note("unreproducible: %s | %s | %s on %s", f.Clause, f.Site, f.Class, sc.describe())
			continue
		}
		viol := &vk.Violation{Clause: sf.Clause, Site: sf.Site, Class: sf.Class,
			Detail: fmt.Sprintf("%s\n  %s\n  recorded word: %s", ssc.describe(), sf.Detail, traceText(sres.Log)),
			Input:  ssc}
		x.shrunk[raw] = viol
		x.run.Violate(*viol)
	}
}

// visit executes and judges one node of the exploration tree.
func (x *explorer) visit(path []token, nmsgs int, record bool) *runResult {
	sc := scenario{Proto: x.p, Path: path}
	res, v := judge(sc)
	x.leaked += res.Leaked
	if res.Leaked > 0 {
		x.run.Count("goroutines_left_after_drain", int64(res.Leaked))
	}
	if v == nil {
		x.run.Count("internal_undeliverable", 1)
		return res
	}
	if record && x.onlyWith != nil {
		record = false
		for _, t := range path {
			if t.M >= 0 && x.onlyWith[t.M] {
				record = true
			}
		}
	}
	if record && x.recordIf != nil {
		d := 0
		for _, t := range path {
			d += t.dev()
		}
		record = x.recordIf(nmsgs, d)
	}
	if !record {
		return res
	}
	x.execs++
	if x.execs%64 == 1 {
		// proof obligation: same scenario, same word
		res2 := runScenario(sc)
		x.leaked += res2.Leaked
		x.run.Count("determinism_rechecks", 1)
		if logText(res.Log) != logText(res2.Log) {
			x.run.Cap("re-execution of a scenario produced a different word (harness nondeterminism)")
			x.run.Note("nondeterministic: %s", sc.describe())
		}
	}
	run := x.run
	run.Eval(1)
	run.AddStates(1, int64(res.Steps), 1)
	pn := x.p.String()
	run.Count("executions:"+pn, 1)
	dev := 0
	for _, t := range path {
		dev += t.dev()
	}
	if dev == 0 {
		run.Count("message_sequences:"+pn, 1)
		if res.Closed && nmsgs < x.b.maxLen && x.onlyWith == nil {
			// every extension of this sequence is undeliverable: covered by this node
			n, pow := int64(0), int64(1)
			for j := nmsgs + 1; j <= x.b.maxLen; j++ {
				pow *= int64(len(x.letters))
				n += pow
			}
			run.Count("sequences_covered_by_closed_prefix:"+pn, n)
		}
	}
	run.Count(fmt.Sprintf("executions_with_%d_deviations", dev), 1)
	if run.Outcome(pn + " " + serverView(res.Log)) {
		run.Count("distinct_server_traces_shard_sum:"+pn, 1)
		cls := pn + " closes"
		if !res.Closed {
			cls = pn + " stays open"
		}
		run.Sample(cls, map[string]any{"scenario": sc.describe(), "word": traceText(res.Log)})
	}
	for k, n := range v.NotJudged {
		run.Count("not_judged:"+k, int64(n))
	}
	for k, n := range v.Features {
		run.Count("seen:"+k, int64(n))
	}
	if res.HandlerReturned {
		run.Count("handler_returned", 1)
	}
	if len(v.Findings) == 0 {
		run.Count("words_accepted", 1)
	} else {
		run.Count("words_rejected", 1)
		x.report(sc, res, v)
	}
	return res
}

// owner decides whether this shard runs / records a child path.
// Paths shorter than shardDepth are executed by every shard (they are needed to
// find the children) and recorded by shard 0; each group of paths of length
// shardDepth is one unit dealt round-robin; deeper paths belong to their unit.
func (x *explorer) owner(childLen int, parentMine bool) (runIt, record bool) {
	switch {
	case childLen < x.shardDepth:
		return true, x.run.Shard() == 0
	case childLen == x.shardDepth:
		x.unit++
		m := x.run.Mine(x.unit)
		return m, m
	default:
		return parentMine, parentMine
	}
}

func (x *explorer) explore(path []token, nmsgs, dev int, res *runResult, mine bool) {
	if x.expired() {
		return
	}
	// environment events
	if dev+1 <= x.b.dev(nmsgs) {
		for _, e := range res.Enabled {
			child := clonePath(path, token{M: -1, E: e})
			runIt, rec := x.owner(len(child), mine)
			if !runIt {
				continue
			}
			cres := x.visit(child, nmsgs, rec)
			if cres.Undeliverable {
				continue
			}
			x.explore(child, nmsgs, dev+1, cres, rec)
			if x.expired() {
				return
			}
		}
	}
	// client messages
	if res.Closed || nmsgs >= x.b.maxLen || dev > x.b.dev(nmsgs+1) {
		return
	}
	hasOne := false
	for _, t := range path {
		if t.M >= 0 && x.atMostOne[t.M] {
			hasOne = true
		}
	}
	for _, li := range x.letters {
		if hasOne && x.atMostOne[li] {
			continue
		}
		child := clonePath(path, token{M: li})
		runIt, rec := x.owner(len(child), mine)
		if !runIt {
			continue
		}
		cres := x.visit(child, nmsgs+1, rec)
		if cres.Undeliverable {
			continue
		}
		x.explore(child, nmsgs+1, dev, cres, rec)
		if cres.Executed && dev+1 <= x.b.dev(nmsgs+1) {
			for _, mode := range []string{"err", "late"} {
				vchild := clonePath(path, token{M: li, Mode: mode})
				vres := x.visit(vchild, nmsgs+1, rec)
				if vres.Undeliverable {
					continue
				}
				x.explore(vchild, nmsgs+1, dev+1, vres, rec)
			}
		}
		if cres.Cancelled && dev+1 <= x.b.dev(nmsgs+1) {
			// the execution this message cancelled is slow to return: its return becomes a later event
			vchild := clonePath(path, token{M: li, Mode: "hold"})
			vres := x.visit(vchild, nmsgs+1, rec)
			if !vres.Undeliverable {
				x.explore(vchild, nmsgs+1, dev+1, vres, rec)
			}
		}
		if x.expired() {
			return
		}
	}
}

func TestCheck(t *testing.T) {
	run := vk.Start("C19", "model_checking")
	finished := false
	finish := func() {
		if !finished {
			finished = true
			run.Finish()
		}
	}
	defer finish()
	run.Rule("every client message sequence up to the length bound over the alphabet of each sub-protocol (a sequence whose prefix already made the server close is covered by that prefix), crossed with every placement of at most max_deviations environment deviations (execution finishes with error / late, subscription tick, failing tick, init time-out, keep-alive interval, read error, read-error time-out); one message or event per step, synctest.Wait() between steps, virtual time; every recorded word (client messages, server writes and closes, executor events in one total order) judged by the acceptor R4p; distinct = distinct (protocol, client-visible server trace)")
	run.Assume("stub ExecutorPool/Executor: operation type from the payload, first Execute finishes as the schedule says (now / error / blocked until cancelled or released at the end), subscription executors emit one update per harness tick",
		"harness TransportClient behaves like websocket.Client: refuses reads and writes after a close from either side",
		"a cancelled in-flight execution returns its context error after the canceller came to rest (order of the two reactions is fixed by the harness, not by goroutine timing)",
		"memory-level races (H9) are outside this sequential exploration; see TestRace")
	type cfg struct {
		p     proto
		b     bounds
		name  string
		extra bool // the small alphabet around the three kinds of undeterminable documents
		trail bool // the small alphabet around the trailing-content frames (at most one per sequence)
		bad   bool // the small alphabet around subscribe/start with an undecodable payload
		reuse bool // graphql-transport-ws, quick only: id re-use at 4 messages with 2 deviations (the main configuration stops at 1)
	}
	var cfgs []cfg
	if run.Thorough() {
		cfgs = []cfg{
			{p: protoTransport, b: bounds{maxLen: 5, devByLen: []int{3, 3, 3, 3, 3, 1}}},
			{p: protoLegacy, b: bounds{maxLen: 4, devByLen: []int{3, 3, 3, 3, 2}}},
			{p: protoTransport, b: bounds{maxLen: 5, devByLen: []int{2, 2, 2, 2, 2, 1}}, extra: true},
			{p: protoLegacy, b: bounds{maxLen: 4, devByLen: []int{2}}, extra: true},
			{p: protoTransport, b: bounds{maxLen: 4, devByLen: []int{2, 2, 2, 2, 1}}, trail: true},
			{p: protoLegacy, b: bounds{maxLen: 4, devByLen: []int{2, 2, 2, 2, 1}}, trail: true},
			{p: protoTransport, b: bounds{maxLen: 4, devByLen: []int{2}}, bad: true},
			{p: protoLegacy, b: bounds{maxLen: 4, devByLen: []int{2}}, bad: true},
		}
	} else {
		cfgs = []cfg{
			{p: protoTransport, b: bounds{maxLen: 4, devByLen: []int{2, 2, 2, 2, 1}}},
			{p: protoLegacy, b: bounds{maxLen: 3, devByLen: []int{2}}},
			{p: protoTransport, b: bounds{maxLen: 4, devByLen: []int{1}}, extra: true},
			{p: protoLegacy, b: bounds{maxLen: 3, devByLen: []int{1}}, extra: true},
			{p: protoTransport, b: bounds{maxLen: 3, devByLen: []int{1}}, trail: true},
			{p: protoLegacy, b: bounds{maxLen: 3, devByLen: []int{1, 1, 1, 0}}, trail: true},
			{p: protoTransport, b: bounds{maxLen: 3, devByLen: []int{1}}, bad: true},
			{p: protoLegacy, b: bounds{maxLen: 3, devByLen: []int{1}}, bad: true},
			{p: protoTransport, b: bounds{maxLen: 4, devByLen: []int{2}}, reuse: true},
		}
	}
	if o := os.Getenv("C19_BOUNDS"); o != "" {
		// debugging aid, e.g. C19_BOUNDS="T:4:2,2,2,2,1;L:3:1,1,1,1" (protocol:max messages:deviation bound per length)
		cfgs = nil
		for _, part := range strings.Split(o, ";") {
			f := strings.Split(part, ":")
			c := cfg{p: protoTransport}
			if f[0] == "L" {
				c.p = protoLegacy
			}
			c.b.maxLen, _ = strconv.Atoi(f[1])
			for _, d := range strings.Split(f[2], ",") {
				n, _ := strconv.Atoi(d)
				c.b.devByLen = append(c.b.devByLen, n)
			}
			cfgs = append(cfgs, c)
		}
	}
	for i := range cfgs {
		c := &cfgs[i]
		c.name = c.p.String()
		if c.extra {
			c.name += " (undeterminable-documents alphabet)"
		}
		if c.trail {
			c.name += " (trailing-content alphabet, at most one such frame per sequence)"
		}
		if c.bad {
			c.name += " (undecodable-subscribe-payload alphabet)"
		}
		if c.reuse {
			c.name += " (id re-use alphabet, only sequences of 4 messages with 2 deviations)"
		}
		run.Bound("max_messages:"+c.name, c.b.maxLen)
		var d []string
		for n := 0; n <= c.b.maxLen; n++ {
			d = append(d, fmt.Sprintf("%d msgs: <=%d", n, c.b.dev(n)))
		}
		run.Bound("max_deviations:"+c.name, strings.Join(d, ", "))
		li, _, _ := configLetters(c.p, c.extra, c.trail, c.bad, c.reuse)
		var ns []string
		for _, k := range li {
			ns = append(ns, alphabet(c.p)[k].Name)
		}
		run.Bound("alphabet:"+c.name, ns)
	}
	run.Bound("virtual_intervals", fmt.Sprintf("update=%v init_timeout=%v keep_alive=%v read_error_timeout=%v", updateInterval, initTimeOut, keepAlive, readErrTimeOut))

	if d, _ := strconv.Atoi(os.Getenv("VERIF_DEADLINE_S")); d > 0 {
		go func() { // real clock: started outside the bubble
			time.Sleep(time.Duration(d) * time.Second)
			deadlineHit.Store(true)
		}()
	}
	synctest.Test(t, func(t *testing.T) {
		stopEngine := setupRealEngine()
		defer func() { stopEngine(); synctest.Wait() }()
		if run.Replay != "" {
			var sc scenario
			if err := run.ReplayInput(&sc); err != nil {
				t.Fatal(err)
			}
			for i := 0; i < 3; i++ {
				res, v := judge(sc)
				fmt.Printf("replay %d: %s\n", i, sc.describe())
				for _, e := range res.Log {
					fmt.Printf("    %-60s   [%s]\n", e.String(), e.Cause)
				}
				if v == nil {
					fmt.Println("  scenario is not executable (a token could not be applied)")
					continue
				}
				for _, f := range v.Findings {
					fmt.Printf("  FAILED %s | %s | %s\n    %s\n", f.Clause, f.Site, f.Class, f.Detail)
					run.Violate(vk.Violation{Clause: f.Clause, Site: f.Site, Class: f.Class, Detail: f.Detail, Input: sc})
				}
			}
			run.Eval(3)
			run.AddStates(1, 1, 3)
			return
		}
		leaked := 0
		for _, c := range cfgs {
			x := &explorer{run: run, p: c.p, al: alphabet(c.p), b: c.b, shardDepth: 3, shrunk: map[string]*vk.Violation{}}
			x.letters, x.onlyWith, x.atMostOne = configLetters(c.p, c.extra, c.trail, c.bad, c.reuse)
			if c.reuse {
				x.recordIf = func(nmsgs, dev int) bool { return nmsgs == 4 && dev == 2 }
			}
			root := x.visit(nil, 0, run.Shard() == 0)
			x.explore(nil, 0, 0, root, run.Shard() == 0)
			leaked += x.leaked
			if x.stop {
				break
			}
		}
		if leaked > 0 {
			// goroutines of the code under test are still parked in this bubble:
			// leave through os.Exit so that they cannot turn into a synctest
			// "deadlock" panic of the harness (DESIGN.md 2.2)
			run.Note("%d goroutine(s) were still alive after draining; left the bubble through os.Exit", leaked)
			finish()
			os.Exit(0)
		}
	})
}

// configLetters: the main configuration of a protocol enumerates every letter of the
// design's alphabet plus the first kind of undeterminable document (unparsable); the
// extra configuration enumerates a small alphabet (init, query, subscription and
// complete/stop for id 1, all three kinds of undeterminable documents) and records only
// the paths that contain one of the two kinds the main configuration does not have.
func configLetters(p proto, extra, trail, bad, reuse bool) (letters []int, onlyWith, atMostOne map[int]bool) {
	al := alphabet(p)
	if reuse {
		// connection_init, subscribe(1,query), subscribe(1,subscription), complete(1)
		for i, l := range al {
			if !l.Trail && !l.Undet && !l.BadPayload && (l.Kind == kInit || l.Kind == kSubscribe && l.ID == "1" || l.Kind == kComplete && l.ID == "1") {
				letters = append(letters, i)
			}
		}
		return letters, nil, nil
	}
	if bad {
		// connection_init, subscribe/start(1,query), complete/stop(1) and the four undecodable
		// payloads; only the sequences that contain one of them are recorded
		onlyWith = map[int]bool{}
		for i, l := range al {
			switch {
			case l.BadPayload:
				letters = append(letters, i)
				onlyWith[i] = true
			case l.Trail, l.Undet:
			case l.Kind == kInit, l.Kind == kSubscribe && l.ID == "1" && !l.Sub, l.Kind == kComplete && l.ID == "1":
				letters = append(letters, i)
			}
		}
		return letters, onlyWith, nil
	}
	if trail {
		// connection_init, subscribe/start(1,subscription), complete/stop(1) and every trailing-content
		// frame; only the sequences that contain such a frame (exactly one) are recorded
		onlyWith = map[int]bool{}
		for i, l := range al {
			switch {
			case l.Trail:
				letters = append(letters, i)
				onlyWith[i] = true
			case l.BadPayload:
			case l.Kind == kInit, l.Kind == kSubscribe && l.ID == "1" && l.Sub, l.Kind == kComplete && l.ID == "1":
				letters = append(letters, i)
			}
		}
		return letters, onlyWith, onlyWith
	}
	first := -1
	for i, l := range al {
		if l.Undet {
			first = i
			break
		}
	}
	if !extra {
		for i := 0; i <= first; i++ {
			letters = append(letters, i)
		}
		return letters, nil, nil
	}
	onlyWith = map[int]bool{}
	for i, l := range al {
		switch {
		case l.Undet:
			letters = append(letters, i)
			if i != first {
				onlyWith[i] = true
			}
		case l.Trail, l.BadPayload:
		case l.Kind == kInit, l.Kind == kSubscribe && l.ID == "1", l.Kind == kComplete && l.ID == "1":
			letters = append(letters, i)
		}
	}
	return letters, onlyWith, nil
}

func names(al []letter) []string {
	var out []string
	for _, l := range al {
		out = append(out, l.Name)
	}
	return out
}

// TestOne runs one scenario given as JSON in C19_SCENARIO and prints the word
// (debugging aid, not part of the check).
func TestOne(t *testing.T) {
	js := os.Getenv("C19_SCENARIO")
	if js == "" {
		t.Skip("C19_SCENARIO not set")
	}
	var sc scenario
	if err := json.Unmarshal([]byte(js), &sc); err != nil {
		t.Fatal(err)
	}
	synctest.Test(t, func(t *testing.T) {
		stopEngine := setupRealEngine()
		defer func() { stopEngine(); synctest.Wait() }()
		res, v := judge(sc)
		fmt.Println(sc.describe())
		for _, e := range res.Log {
			fmt.Printf("    %-70s   [%s]\n", e.String(), e.Cause)
		}
		fmt.Printf("closed=%v enabled=%v executed=%v undeliverable=%v returned=%v leaked=%d\n", res.Closed, res.Enabled, res.Executed, res.Undeliverable, res.HandlerReturned, res.Leaked)
		if v != nil {
			for _, f := range v.Findings {
				fmt.Printf("  FAILED %s | %s | %s\n    %s\n", f.Clause, f.Site, f.Class, f.Detail)
			}
			fmt.Printf("  not judged: %v\n  features: %v\n", v.NotJudged, v.Features)
		}
	})
}
