package c17

// Bounded type-system grammar of check C17: a base family (every multiset of
// <= N user types over 7 kinds, wired to a Query root by fixed rules) and a menu
// of local decorations applied at every applicable site. A case is
// Spec{Kinds, Decos}; Build(spec) produces the SDL text. Everything here is
// deterministic; there is no randomness anywhere.

import (
	"fmt"
	"sort"
	"strings"
)

// ---- structured schema

type Arg struct { // argument, input field or directive argument
	Name, Desc, Type, Wrap, Default, Dirs string
}

type Field struct {
	Name, Desc, Type, Wrap, Dirs string
	Args                         []*Arg
}

type EnumVal struct{ Name, Desc, Dirs string }

type TypeDef struct {
	Kind    byte // O I U E N S
	Name    string
	Desc    string
	Dirs    string
	Impl    []string
	Fields  []*Field   // O, I: own (non inherited) fields
	Inputs  []*Arg     // N
	Values  []*EnumVal // E
	Members []string   // U
	// Ext: how the definition is split into definition + extension
	//  "" none; "member": the last own field / value / member / input field
	//  moves into an `extend` block; "impl": the implements list (with the
	//  inherited fields) moves into an `extend` block.
	Ext string
}

type DirDef struct {
	Applied    bool // used on a definition: a required argument cannot be added any more
	Name, Desc string
	Args       []*Arg
	Rep        bool
	Locs       []string
}

type Schema struct {
	Desc      string // description of the schema definition (needs Explicit)
	Explicit  bool   // print a schema { } block
	Query     string // names of the root types ("" = none)
	Mutation  string
	Subscr    string
	Types     []*TypeDef
	Dirs      []*DirDef
	Order     string // "" as built, "reverse", "querylast"
	Normalize bool   // the schema contains `extend`: run the repo's Schema.Normalize() first
}

// Deco is one decoration: operation, site (stable name) and variant.
type Deco struct {
	Op   string `json:"op"`
	Site string `json:"site"`
	Var  string `json:"var"`
}

func (d Deco) String() string { return d.Op + "@" + d.Site + "=" + d.Var }

// Spec is one enumerated case.
type Spec struct {
	Kinds string `json:"kinds"` // e.g. "IJOE": user types in canonical order
	Decos []Deco `json:"decos"`
}

func (s Spec) String() string {
	parts := make([]string, len(s.Decos))
	for i, d := range s.Decos {
		parts[i] = d.String()
	}
	return "kinds=" + s.Kinds + " decos=[" + strings.Join(parts, " ; ") + "]"
}

// kind alphabet, simplest first
const kindAlphabet = "OEINSUJ"

// O object, E enum, I interface, N input object, S custom scalar, U union,
// J interface implementing an interface (emits the parent P<k> and the child J<k>)

// multisets of size n over the kind alphabet in canonical (alphabet) order
func kindMultisets(n int) []string {
	var out []string
	var rec func(start int, cur []byte)
	rec = func(start int, cur []byte) {
		if len(cur) == n {
			out = append(out, string(cur))
			return
		}
		for i := start; i < len(kindAlphabet); i++ {
			rec(i, append(cur, kindAlphabet[i]))
		}
	}
	rec(0, nil)
	return out
}

// ---- base builder

func (s *Schema) typ(name string) *TypeDef {
	for _, t := range s.Types {
		if t.Name == name {
			return t
		}
	}
	return nil
}

func (s *Schema) firstOfKind(k byte) *TypeDef {
	for _, t := range s.Types {
		if t.Kind == k && t.Name != s.Query && t.Name != s.Mutation && t.Name != s.Subscr && !strings.HasPrefix(t.Name, "Decoy") {
			return t
		}
	}
	return nil
}

// BuildBase builds the base schema of a kind multiset.
func BuildBase(kinds string) *Schema {
	s := &Schema{Query: "Query"}
	q := &TypeDef{Kind: 'O', Name: "Query", Fields: []*Field{{Name: "q", Type: "Int", Wrap: "T"}}}
	s.Types = append(s.Types, q)
	cnt := map[byte]int{}
	var ifaces []string
	for i := 0; i < len(kinds); i++ {
		k := kinds[i]
		cnt[k]++
		n := cnt[k]
		switch k {
		case 'I':
			name := fmt.Sprintf("I%d", n)
			s.Types = append(s.Types, &TypeDef{Kind: 'I', Name: name, Fields: []*Field{
				{Name: fmt.Sprintf("key%d", n), Type: "ID", Wrap: "T"}, {Name: strings.ToLower(name), Type: "Int", Wrap: "T"}}})
			ifaces = append(ifaces, name)
		case 'J':
			p, c := fmt.Sprintf("P%d", n), fmt.Sprintf("J%d", n)
			s.Types = append(s.Types, &TypeDef{Kind: 'I', Name: p, Fields: []*Field{{Name: fmt.Sprintf("pid%d", n), Type: "ID", Wrap: "T"}}})
			s.Types = append(s.Types, &TypeDef{Kind: 'I', Name: c, Impl: []string{p}, Fields: []*Field{{Name: strings.ToLower(c), Type: "Int", Wrap: "T"}}})
			ifaces = append(ifaces, p, c)
		}
	}
	cnt = map[byte]int{}
	var objects []string
	for i := 0; i < len(kinds); i++ {
		k := kinds[i]
		cnt[k]++
		n := cnt[k]
		name := fmt.Sprintf("%c%d", k, n)
		lname := strings.ToLower(name)
		switch k {
		case 'O':
			s.Types = append(s.Types, &TypeDef{Kind: 'O', Name: name, Impl: append([]string(nil), ifaces...), Fields: []*Field{
				{Name: "a", Type: "Int", Wrap: "T"}, {Name: "b", Type: "String", Wrap: "T"}}})
			objects = append(objects, name)
			q.Fields = append(q.Fields, &Field{Name: lname, Type: name, Wrap: "T"})
		case 'I', 'J':
			q.Fields = append(q.Fields, &Field{Name: lname, Type: name, Wrap: "T"})
		case 'E':
			s.Types = append(s.Types, &TypeDef{Kind: 'E', Name: name, Values: []*EnumVal{{Name: "A"}, {Name: "B"}}})
			q.Fields = append(q.Fields, &Field{Name: lname, Type: name, Wrap: "T", Args: []*Arg{{Name: "v", Type: name, Wrap: "T"}}})
		case 'N':
			s.Types = append(s.Types, &TypeDef{Kind: 'N', Name: name, Inputs: []*Arg{{Name: "a", Type: "Int", Wrap: "T"}, {Name: "b", Type: "String", Wrap: "T"}}})
			q.Fields = append(q.Fields, &Field{Name: lname, Type: "Int", Wrap: "T", Args: []*Arg{{Name: "v", Type: name, Wrap: "T"}}})
		case 'S':
			s.Types = append(s.Types, &TypeDef{Kind: 'S', Name: name})
			q.Fields = append(q.Fields, &Field{Name: lname, Type: name, Wrap: "T", Args: []*Arg{{Name: "v", Type: name, Wrap: "T"}}})
		}
	}
	cnt = map[byte]int{}
	for i := 0; i < len(kinds); i++ {
		if kinds[i] != 'U' {
			continue
		}
		cnt['U']++
		name := fmt.Sprintf("U%d", cnt['U'])
		m := append([]string(nil), objects...)
		if len(m) == 0 {
			m = []string{"Query"}
		}
		s.Types = append(s.Types, &TypeDef{Kind: 'U', Name: name, Members: m})
		q.Fields = append(q.Fields, &Field{Name: strings.ToLower(name), Type: name, Wrap: "T"})
	}
	return s
}

// inherited fields of an object / interface: copied from every implemented
// interface (name, type, arguments with types and defaults), first wins.
func (s *Schema) inherited(t *TypeDef) []*Field {
	var out []*Field
	seen := map[string]bool{}
	for _, f := range t.Fields {
		seen[f.Name] = true
	}
	var visit func(name string, depth int)
	visit = func(name string, depth int) {
		it := s.typ(name)
		if it == nil || depth > 4 {
			return
		}
		for _, p := range it.Impl {
			visit(p, depth+1)
		}
		for _, f := range it.Fields {
			if seen[f.Name] {
				continue
			}
			seen[f.Name] = true
			c := &Field{Name: f.Name, Type: f.Type, Wrap: f.Wrap}
			for _, a := range f.Args {
				c.Args = append(c.Args, &Arg{Name: a.Name, Type: a.Type, Wrap: a.Wrap, Default: a.Default})
			}
			out = append(out, c)
		}
	}
	for _, i := range t.Impl {
		visit(i, 0)
	}
	return out
}

// ---- printing

func wrapType(wrap, name string) string { return strings.Replace(wrap, "T", name, 1) }

func pDesc(b *strings.Builder, desc, indent string) {
	if desc != "" {
		b.WriteString(indent)
		b.WriteString(desc)
		b.WriteString("\n")
	}
}

func pArg(b *strings.Builder, a *Arg) {
	if a.Desc != "" {
		b.WriteString(a.Desc)
		b.WriteString(" ")
	}
	b.WriteString(a.Name)
	b.WriteString(": ")
	b.WriteString(wrapType(a.Wrap, a.Type))
	if a.Default != "" {
		b.WriteString(" = ")
		b.WriteString(a.Default)
	}
	if a.Dirs != "" {
		b.WriteString(" ")
		b.WriteString(a.Dirs)
	}
}

func pArgs(b *strings.Builder, args []*Arg) {
	if len(args) == 0 {
		return
	}
	b.WriteString("(")
	for i, a := range args {
		if i > 0 {
			b.WriteString(", ")
		}
		pArg(b, a)
	}
	b.WriteString(")")
}

func pField(b *strings.Builder, f *Field) {
	pDesc(b, f.Desc, "  ")
	b.WriteString("  ")
	b.WriteString(f.Name)
	pArgs(b, f.Args)
	b.WriteString(": ")
	b.WriteString(wrapType(f.Wrap, f.Type))
	if f.Dirs != "" {
		b.WriteString(" ")
		b.WriteString(f.Dirs)
	}
	b.WriteString("\n")
}

func kindKeyword(k byte) string {
	switch k {
	case 'O':
		return "type"
	case 'I':
		return "interface"
	case 'U':
		return "union"
	case 'E':
		return "enum"
	case 'N':
		return "input"
	}
	return "scalar"
}

func (s *Schema) printType(b *strings.Builder, t *TypeDef) {
	kw := kindKeyword(t.Kind)
	head := func(ext bool, impl []string) {
		if ext {
			b.WriteString("extend ")
		} else {
			pDesc(b, t.Desc, "")
		}
		b.WriteString(kw + " " + t.Name)
		if len(impl) > 0 {
			b.WriteString(" implements " + strings.Join(impl, " & "))
		}
		if !ext && t.Dirs != "" {
			b.WriteString(" " + t.Dirs)
		}
	}
	switch t.Kind {
	case 'S':
		head(false, nil)
		b.WriteString("\n")
	case 'O', 'I':
		inh := s.inherited(t)
		own := t.Fields
		switch t.Ext {
		case "member":
			if len(own) >= 2 {
				head(false, t.Impl)
				b.WriteString(" {\n")
				for _, f := range inh {
					pField(b, f)
				}
				for _, f := range own[:len(own)-1] {
					pField(b, f)
				}
				b.WriteString("}\n")
				head(true, nil)
				b.WriteString(" {\n")
				pField(b, own[len(own)-1])
				b.WriteString("}\n")
				return
			}
		case "impl":
			if len(t.Impl) > 0 {
				head(false, nil)
				b.WriteString(" {\n")
				for _, f := range own {
					pField(b, f)
				}
				b.WriteString("}\n")
				head(true, t.Impl)
				if len(inh) > 0 {
					b.WriteString(" {\n")
					for _, f := range inh {
						pField(b, f)
					}
					b.WriteString("}")
				}
				b.WriteString("\n")
				return
			}
		}
		head(false, t.Impl)
		b.WriteString(" {\n")
		for _, f := range inh {
			pField(b, f)
		}
		for _, f := range own {
			pField(b, f)
		}
		b.WriteString("}\n")
	case 'N':
		ins := t.Inputs
		var extra []*Arg
		if t.Ext == "member" && len(ins) >= 2 {
			extra = ins[len(ins)-1:]
			ins = ins[:len(ins)-1]
		}
		head(false, nil)
		b.WriteString(" {\n")
		for _, a := range ins {
			b.WriteString("  ")
			pArg(b, a)
			b.WriteString("\n")
		}
		b.WriteString("}\n")
		if extra != nil {
			head(true, nil)
			b.WriteString(" {\n  ")
			pArg(b, extra[0])
			b.WriteString("\n}\n")
		}
	case 'E':
		vs := t.Values
		var extra []*EnumVal
		if t.Ext == "member" && len(vs) >= 2 {
			extra = vs[len(vs)-1:]
			vs = vs[:len(vs)-1]
		}
		pv := func(v *EnumVal) {
			pDesc(b, v.Desc, "  ")
			b.WriteString("  " + v.Name)
			if v.Dirs != "" {
				b.WriteString(" " + v.Dirs)
			}
			b.WriteString("\n")
		}
		head(false, nil)
		b.WriteString(" {\n")
		for _, v := range vs {
			pv(v)
		}
		b.WriteString("}\n")
		if extra != nil {
			head(true, nil)
			b.WriteString(" {\n")
			pv(extra[0])
			b.WriteString("}\n")
		}
	case 'U':
		ms := t.Members
		var extra []string
		if t.Ext == "member" && len(ms) >= 2 {
			extra = ms[len(ms)-1:]
			ms = ms[:len(ms)-1]
		}
		head(false, nil)
		b.WriteString(" = " + strings.Join(ms, " | ") + "\n")
		if extra != nil {
			head(true, nil)
			b.WriteString(" = " + extra[0] + "\n")
		}
	}
}

func (s *Schema) SDL() string {
	var b strings.Builder
	var blocks []string
	if s.Explicit {
		var sb strings.Builder
		pDesc(&sb, s.Desc, "")
		sb.WriteString("schema {\n  query: " + s.Query + "\n")
		if s.Mutation != "" {
			sb.WriteString("  mutation: " + s.Mutation + "\n")
		}
		if s.Subscr != "" {
			sb.WriteString("  subscription: " + s.Subscr + "\n")
		}
		sb.WriteString("}\n")
		blocks = append(blocks, sb.String())
	}
	for _, t := range s.Types {
		var tb strings.Builder
		s.printType(&tb, t)
		blocks = append(blocks, tb.String())
	}
	for _, d := range s.Dirs {
		var db strings.Builder
		pDesc(&db, d.Desc, "")
		db.WriteString("directive @" + d.Name)
		pArgs(&db, d.Args)
		if d.Rep {
			db.WriteString(" repeatable")
		}
		db.WriteString(" on " + strings.Join(d.Locs, " | ") + "\n")
		blocks = append(blocks, db.String())
	}
	switch s.Order {
	case "reverse":
		for i, j := 0, len(blocks)-1; i < j; i, j = i+1, j-1 {
			blocks[i], blocks[j] = blocks[j], blocks[i]
		}
	case "querylast":
		// move the query root type block (index of the first type block) to the end
		idx := 0
		if s.Explicit {
			idx = 1
		}
		if idx < len(blocks) {
			qb := blocks[idx]
			blocks = append(append(blocks[:idx:idx], blocks[idx+1:]...), qb)
		}
	}
	for _, bl := range blocks {
		b.WriteString(bl)
	}
	return b.String()
}

// ---- decoration menus (ordered simplest first)

var wrapMenu = []string{"T!", "[T]", "[T]!", "[T!]", "[[T]]", "[T!]!", "[[T]]!", "[[T]!]", "[[T!]]", "[[[T]]]"}

type argVariant struct {
	Name    string
	Type    string // named type; "E", "N", "S" = first user enum / input object / custom scalar
	Wrap    string
	Default string
}

var argMenu = []argVariant{
	{"int", "Int", "T", ""},
	{"int_req", "Int", "T!", ""},
	{"int_1", "Int", "T", "1"},
	{"int_neg", "Int", "T", "-7"},
	{"int_null", "Int", "T", "null"},
	{"float", "Float", "T", "1.5"},
	{"float_exp", "Float", "T", "1e3"},
	{"str", "String", "T", `"s"`},
	{"str_empty", "String", "T", `""`},
	{"str_esc", "String", "T", `"a \"q\" \\ b\n"`},
	{"str_uni", "String", "T", `"é"`},
	{"str_block", "String", "T", `"""blk"""`},
	{"str_block_q", "String", "T", `"""a "q" b"""`},
	{"str_block_ml", "String", "T", "\"\"\"\n    l1\n      l2\n    \"\"\""},
	{"bool", "Boolean", "T", "true"},
	{"id_str", "ID", "T", `"i"`},
	{"id_int", "ID", "T", "2"},
	{"list", "Int", "[T]", "[1, 2]"},
	{"list_empty", "Int", "[T]", "[]"},
	{"list_nn", "Int", "[T!]!", "[1]"},
	{"list2", "Int", "[[T!]]!", "[[1], [2, 3]]"},
	{"list_null", "Int", "[T]", "[1, null]"},
	{"list_str", "String", "[T]", `["a", "b"]`},
	{"enum", "E", "T", "B"},
	{"enum_list", "E", "[T!]", "[A, B]"},
	{"inobj", "N", "T", "{a: 1}"},
	{"inobj2", "N", "T", `{a: 2, b: "x"}`},
	{"inobj_empty", "N", "T", "{}"},
	{"inobj_list", "N", "[T!]", `[{a: 1}, {b: "y"}]`},
	{"scalar_str", "S", "T", `"any"`},
	{"scalar_obj", "S", "T", `{k: [1, {z: true}]}`},
	{"scalar_int", "S", "T", "1"},
}

func argVariantByName(n string) *argVariant {
	for i := range argMenu {
		if argMenu[i].Name == n {
			return &argMenu[i]
		}
	}
	return nil
}

var deprecateMenu = []struct{ Name, Text string }{
	{"noreason", `@deprecated`},
	{"plain", `@deprecated(reason: "r")`},
	{"empty", `@deprecated(reason: "")`},
	{"esc", `@deprecated(reason: "a \"q\" \\ b")`},
	{"nl", `@deprecated(reason: "l1\nl2")`},
	{"block", `@deprecated(reason: """blk""")`},
	{"blockml", "@deprecated(reason: \"\"\"\n    l1\n      l2\n    \"\"\")"},
}

var describeMenu = []struct{ Name, Text string }{
	{"plain", `"d"`},
	{"esc", `"a \"q\" \\ b"`},
	{"block", `"""blk"""`},
	{"blockml", "\"\"\"\n  l1\n    l2\n  \"\"\""},
	{"empty", `""`},
}

var execLocs = []string{"QUERY", "MUTATION", "SUBSCRIPTION", "FIELD", "FRAGMENT_DEFINITION", "FRAGMENT_SPREAD", "INLINE_FRAGMENT", "VARIABLE_DEFINITION"}
var tsLocs = []string{"SCHEMA", "SCALAR", "OBJECT", "FIELD_DEFINITION", "ARGUMENT_DEFINITION", "INTERFACE", "UNION", "ENUM", "ENUM_VALUE", "INPUT_OBJECT", "INPUT_FIELD_DEFINITION"}

var directiveMenu = func() []string {
	var m []string
	for _, l := range execLocs {
		m = append(m, "loc:"+l)
	}
	for _, l := range tsLocs {
		m = append(m, "loc:"+l)
	}
	return append(m, "exec_all", "ts_all", "rep", "rep_ts", "arg_default", "arg_dep", "arg_req", "described", "applied", "applied_rep", "applied_dep")
}()

var rootsMenu = []string{"explicit", "renamed", "mutation", "subscription", "both", "explicit_mutation_renamed", "decoy_mutation", "decoy_query"}

var builtinScalars = []string{"Int", "Float", "String", "Boolean", "ID"}

func isInputTypeName(s *Schema, n string) bool {
	for _, b := range builtinScalars {
		if b == n {
			return true
		}
	}
	t := s.typ(n)
	return t != nil && (t.Kind == 'E' || t.Kind == 'N' || t.Kind == 'S')
}

func outputTypeNames(s *Schema) []string {
	out := append([]string(nil), builtinScalars...)
	for _, t := range s.Types {
		if t.Kind != 'N' && t.Name != s.Query && t.Name != s.Mutation && t.Name != s.Subscr {
			out = append(out, t.Name)
		}
	}
	return out
}

func inputTypeNames(s *Schema) []string {
	out := append([]string(nil), builtinScalars...)
	for _, t := range s.Types {
		if t.Kind == 'E' || t.Kind == 'N' || t.Kind == 'S' {
			out = append(out, t.Name)
		}
	}
	return out
}

// ---- sites

type argSite struct {
	name  string
	arg   *Arg
	owner *TypeDef // input object for input fields, nil otherwise
}

func (s *Schema) fieldSites() (names []string, fields []*Field) {
	for _, t := range s.Types {
		if t.Kind == 'O' || t.Kind == 'I' {
			for _, f := range t.Fields {
				names = append(names, t.Name+"."+f.Name)
				fields = append(fields, f)
			}
		}
	}
	return
}

func (s *Schema) argSites() []argSite {
	var out []argSite
	for _, t := range s.Types {
		switch t.Kind {
		case 'O', 'I':
			for _, f := range t.Fields {
				for _, a := range f.Args {
					out = append(out, argSite{t.Name + "." + f.Name + "(" + a.Name + ")", a, nil})
				}
			}
		case 'N':
			for _, a := range t.Inputs {
				out = append(out, argSite{t.Name + "." + a.Name, a, t})
			}
		}
	}
	for _, d := range s.Dirs {
		for _, a := range d.Args {
			out = append(out, argSite{"@" + d.Name + "(" + a.Name + ")", a, nil})
		}
	}
	return out
}

func canDeprecateArg(a *Arg) bool {
	return a.Dirs == "" && (!strings.HasSuffix(a.Wrap, "!") || a.Default != "")
}

// depmix: SEVERAL deprecated siblings in one container with pairwise different
// reasons (the k-th deprecated sibling gets depmixReasons[k-1]), mixed with
// non-deprecated ones. A pattern is a string over {d, n}: position i says whether
// the i-th member of the container (enum values; own fields of an object /
// interface; arguments of a field; input fields; directive arguments) is
// deprecated; missing members are added (values C, D; fields / input fields m3,
// m4 : Int; arguments p1..p4 : Int), members beyond the pattern stay as they are.
// Enums get every pattern of length <= 4 with 2 or 3 d's (every position), the
// other containers every pattern of length <= 3 with >= 2 d's.
var depmixReasons = []string{`@deprecated(reason: "r1")`, `@deprecated`, `@deprecated(reason: "r3")`}

func depmixPatterns(maxLen int) []string {
	var out []string
	for l := 2; l <= maxLen; l++ {
		for m := 0; m < 1<<l; m++ {
			p, nd := "", 0
			for i := 0; i < l; i++ {
				if m&(1<<(l-1-i)) != 0 {
					p += "d"
					nd++
				} else {
					p += "n"
				}
			}
			if nd >= 2 && nd <= 3 {
				out = append(out, p)
			}
		}
	}
	// simplest first: fewer members, then fewer deprecated ones
	sort.SliceStable(out, func(i, j int) bool {
		if len(out[i]) != len(out[j]) {
			return len(out[i]) < len(out[j])
		}
		return strings.Count(out[i], "d") < strings.Count(out[j], "d")
	})
	return out
}

var (
	depmixEnumPatterns    = depmixPatterns(4)
	depmixSiblingPatterns = depmixPatterns(3)
)

func validPattern(p string, menu []string) bool { return inList(menu, p) }

// applyDepmix applies (or, with dry, only checks) a depmix pattern at a site.
func (s *Schema) applyDepmix(site, pat string, dry bool) bool {
	reason := func(k int) string { return depmixReasons[k] }
	if f := s.findField(site); f != nil { // arguments of a field
		if !validPattern(pat, depmixSiblingPatterns) {
			return false
		}
		args := f.Args
		for i := range pat {
			if i < len(args) {
				if pat[i] == 'd' && !canDeprecateArg(args[i]) || args[i].Dirs != "" {
					return false
				}
			}
		}
		if dry {
			return true
		}
		for i := len(f.Args); i < len(pat); i++ {
			f.Args = append(f.Args, &Arg{Name: fmt.Sprintf("p%d", i+1), Type: "Int", Wrap: "T"})
		}
		k := 0
		for i := range pat {
			if pat[i] == 'd' {
				f.Args[i].Dirs = reason(k)
				k++
			}
		}
		return true
	}
	if dir := s.findDir(site); dir != nil { // arguments of a directive
		if !validPattern(pat, depmixSiblingPatterns) {
			return false
		}
		for i := range pat {
			if i < len(dir.Args) {
				if pat[i] == 'd' && !canDeprecateArg(dir.Args[i]) || dir.Args[i].Dirs != "" {
					return false
				}
			}
		}
		if dry {
			return true
		}
		for i := len(dir.Args); i < len(pat); i++ {
			dir.Args = append(dir.Args, &Arg{Name: fmt.Sprintf("p%d", i+1), Type: "Int", Wrap: "T"})
		}
		k := 0
		for i := range pat {
			if pat[i] == 'd' {
				dir.Args[i].Dirs = reason(k)
				k++
			}
		}
		return true
	}
	t := s.typ(site)
	if t == nil {
		return false
	}
	switch t.Kind {
	case 'E':
		if !validPattern(pat, depmixEnumPatterns) {
			return false
		}
		for i := range pat {
			if i < len(t.Values) && t.Values[i].Dirs != "" {
				return false
			}
		}
		if dry {
			return true
		}
		for i := len(t.Values); i < len(pat); i++ {
			t.Values = append(t.Values, &EnumVal{Name: string(rune('A' + i))})
		}
		k := 0
		for i := range pat {
			if pat[i] == 'd' {
				t.Values[i].Dirs = reason(k)
				k++
			}
		}
		return true
	case 'O', 'I':
		if !validPattern(pat, depmixSiblingPatterns) {
			return false
		}
		for i := range pat {
			if i < len(t.Fields) && t.Fields[i].Dirs != "" {
				return false
			}
		}
		if dry {
			return true
		}
		for i := len(t.Fields); i < len(pat); i++ {
			t.Fields = append(t.Fields, &Field{Name: fmt.Sprintf("m%d", i+1), Type: "Int", Wrap: "T"})
		}
		k := 0
		for i := range pat {
			if pat[i] == 'd' {
				t.Fields[i].Dirs = reason(k)
				k++
			}
		}
		return true
	case 'N':
		if !validPattern(pat, depmixSiblingPatterns) {
			return false
		}
		for i := range pat {
			if i < len(t.Inputs) {
				if pat[i] == 'd' && !canDeprecateArg(t.Inputs[i]) || t.Inputs[i].Dirs != "" {
					return false
				}
			}
		}
		if dry {
			return true
		}
		for i := len(t.Inputs); i < len(pat); i++ {
			t.Inputs = append(t.Inputs, &Arg{Name: fmt.Sprintf("m%d", i+1), Type: "Int", Wrap: "T"})
		}
		k := 0
		for i := range pat {
			if pat[i] == 'd' {
				t.Inputs[i].Dirs = reason(k)
				k++
			}
		}
		return true
	}
	return false
}

// coreVariants: the sub-menu used when decorations are combined in pairs
// (every operation and every site stays; of the purely textual variant families
// only the representatives listed here). Single decorations use the full menus.
var coreVariants = map[string]map[string]bool{
	"deprecate": {"noreason": true, "plain": true, "esc": true},
	"wrap":      {"T!": true, "[T]": true, "[T!]!": true, "[[T!]]": true},
	"addarg":    {"int": true, "int_req": true, "int_1": true, "int_null": true, "str_esc": true, "list2": true, "enum": true, "inobj2": true, "inobj_list": true, "scalar_obj": true},
	"describe":  {"plain": true, "blockml": true},
	"directive": {"loc:FIELD": true, "loc:ARGUMENT_DEFINITION": true, "ts_all": true, "rep": true, "arg_default": true, "arg_dep": true, "applied_dep": true},
	"depmix":    {}, // single decoration only (two plain deprecate decorations already give two deprecated siblings in a pair)
}

func isCore(d Deco) bool {
	m, ok := coreVariants[d.Op]
	return !ok || m[d.Var]
}

// CoreDecos is ListDecos restricted to the core sub-menu.
func CoreDecos(s *Schema) []Deco {
	all := ListDecos(s)
	out := all[:0]
	for _, d := range all {
		if isCore(d) {
			out = append(out, d)
		}
	}
	return out
}

// ListDecos enumerates every decoration applicable to the current state of s.
func ListDecos(s *Schema) []Deco {
	var out []Deco
	add := func(op, site, v string) { out = append(out, Deco{op, site, v}) }
	fnames, fields := s.fieldSites()
	asites := s.argSites()

	// deprecations (judged by the property) first
	for i, f := range fields {
		if f.Dirs == "" || !strings.Contains(f.Dirs, "@deprecated") {
			for _, v := range deprecateMenu {
				add("deprecate", fnames[i], v.Name)
			}
		}
	}
	for _, a := range asites {
		if canDeprecateArg(a.arg) {
			for _, v := range deprecateMenu {
				add("deprecate", a.name, v.Name)
			}
		}
	}
	for _, t := range s.Types {
		if t.Kind == 'E' {
			for _, v := range t.Values {
				if v.Dirs == "" {
					for _, m := range deprecateMenu {
						add("deprecate", t.Name+"."+v.Name, m.Name)
					}
				}
			}
		}
	}
	// several deprecated siblings with different reasons in one container
	for _, t := range s.Types {
		pats := depmixSiblingPatterns
		if t.Kind == 'E' {
			pats = depmixEnumPatterns
		}
		if t.Kind == 'E' || t.Kind == 'O' || t.Kind == 'I' || t.Kind == 'N' {
			for _, p := range pats {
				if s.applyDepmix(t.Name, p, true) {
					add("depmix", t.Name, p)
				}
			}
		}
	}
	for i := range fields {
		for _, p := range depmixSiblingPatterns {
			if s.applyDepmix(fnames[i], p, true) {
				add("depmix", fnames[i], p)
			}
		}
	}
	for _, d := range s.Dirs {
		if !d.Applied {
			for _, p := range depmixSiblingPatterns {
				if s.applyDepmix("@"+d.Name, p, true) {
					add("depmix", "@"+d.Name, p)
				}
			}
		}
	}
	// wrappers
	for i, f := range fields {
		for _, w := range wrapMenu {
			if w != f.Wrap {
				add("wrap", fnames[i], w)
			}
		}
	}
	for _, a := range asites {
		if a.arg.Default != "" {
			continue
		}
		for _, w := range wrapMenu {
			if w == a.arg.Wrap {
				continue
			}
			if strings.HasSuffix(w, "!") && a.arg.Dirs != "" {
				continue // a required argument must not be deprecated
			}
			if w == "T!" && a.owner != nil {
				if t := s.typ(a.arg.Type); t != nil && t.Kind == 'N' {
					continue // non-null input object cycle
				}
			}
			add("wrap", a.name, w)
		}
	}
	// retarget the named type
	outs := outputTypeNames(s)
	ins := inputTypeNames(s)
	for i, f := range fields {
		for _, n := range outs {
			if n != f.Type {
				add("retarget", fnames[i], n)
			}
		}
	}
	for _, a := range asites {
		if a.arg.Default != "" {
			continue
		}
		for _, n := range ins {
			if n == a.arg.Type {
				continue
			}
			if a.owner != nil && a.arg.Wrap == "T!" {
				if t := s.typ(n); t != nil && t.Kind == 'N' {
					continue
				}
			}
			add("retarget", a.name, n)
		}
	}
	// new arguments / input fields / directive arguments
	avail := func(v argVariant) bool {
		switch v.Type {
		case "E":
			return s.firstOfKind('E') != nil
		case "N":
			return s.firstOfKind('N') != nil
		case "S":
			return s.firstOfKind('S') != nil
		}
		return true
	}
	for i, f := range fields {
		if len(f.Args) >= 2 {
			continue
		}
		for _, v := range argMenu {
			if avail(v) {
				add("addarg", fnames[i], v.Name)
			}
		}
	}
	for _, t := range s.Types {
		if t.Kind == 'N' && len(t.Inputs) < 4 {
			for _, v := range argMenu {
				if avail(v) {
					add("addarg", t.Name, v.Name)
				}
			}
		}
	}
	for _, d := range s.Dirs {
		if len(d.Args) < 2 {
			for _, v := range argMenu {
				if avail(v) && !(d.Applied && strings.HasSuffix(v.Wrap, "!") && v.Default == "") {
					add("addarg", "@"+d.Name, v.Name)
				}
			}
		}
	}
	// descriptions
	for _, t := range s.Types {
		if t.Desc == "" {
			for _, v := range describeMenu {
				add("describe", t.Name, v.Name)
			}
		}
		if t.Kind == 'E' {
			for _, ev := range t.Values {
				if ev.Desc == "" {
					for _, v := range describeMenu {
						add("describe", t.Name+"."+ev.Name, v.Name)
					}
				}
			}
		}
	}
	for i, f := range fields {
		if f.Desc == "" {
			for _, v := range describeMenu {
				add("describe", fnames[i], v.Name)
			}
		}
	}
	for _, a := range asites {
		if a.arg.Desc == "" {
			for _, v := range describeMenu {
				add("describe", a.name, v.Name)
			}
		}
	}
	for _, d := range s.Dirs {
		if d.Desc == "" {
			for _, v := range describeMenu {
				add("describe", "@"+d.Name, v.Name)
			}
		}
	}
	if s.Desc == "" {
		for _, v := range describeMenu {
			add("describe", "schema", v.Name)
		}
	}
	// directive definitions
	if len(s.Dirs) < 2 {
		q := s.typ(s.Query)
		for _, v := range directiveMenu {
			if strings.HasPrefix(v, "applied") && (q == nil || len(q.Fields) == 0) {
				continue
			}
			if v == "applied_dep" && strings.Contains(q.Fields[0].Dirs, "@deprecated") {
				continue
			}
			add("directive", "schema", v)
		}
	}
	for _, d := range s.Dirs {
		if !d.Rep {
			add("repeatable", "@"+d.Name, "on")
		}
	}
	// root operation types
	if !s.Explicit && s.Mutation == "" && s.Subscr == "" && s.typ("Query") != nil && s.Query == "Query" {
		for _, v := range rootsMenu {
			add("roots", "schema", v)
		}
	}
	// extend
	for _, t := range s.Types {
		if t.Ext != "" {
			continue
		}
		n := 0
		switch t.Kind {
		case 'O', 'I':
			n = len(t.Fields)
		case 'N':
			n = len(t.Inputs)
		case 'E':
			n = len(t.Values)
		case 'U':
			n = len(t.Members)
		}
		if n >= 2 {
			add("extend", t.Name, "member")
		}
		if t.Kind == 'O' && len(t.Impl) > 0 {
			// (gqlparser v2.5.30 cannot parse `extend interface X implements Y`, so
			// there is no independent reading of that form: not enumerated)
			add("extend", t.Name, "impl")
		}
	}
	// objects that do not implement the interfaces; dropped members
	for _, t := range s.Types {
		if t.Kind == 'O' && len(t.Impl) > 0 {
			add("unimplement", t.Name, "all")
		}
		switch t.Kind {
		case 'O', 'I':
			if len(t.Fields) >= 2 {
				add("drop", t.Name, "last")
			}
		case 'N':
			if len(t.Inputs) >= 2 {
				add("drop", t.Name, "last")
			}
		case 'E':
			if len(t.Values) >= 2 {
				add("drop", t.Name, "last")
			}
		case 'U':
			if len(t.Members) >= 2 {
				add("drop", t.Name, "last")
			}
		}
	}
	// scalar @specifiedBy
	for _, t := range s.Types {
		if t.Kind == 'S' && t.Dirs == "" {
			add("specifiedBy", t.Name, "url")
		}
	}
	// order of definitions
	if s.Order == "" {
		add("order", "schema", "reverse")
		add("order", "schema", "querylast")
	}
	return out
}

// ---- applying a decoration

func (s *Schema) findField(site string) *Field {
	names, fields := s.fieldSites()
	for i, n := range names {
		if n == site {
			return fields[i]
		}
	}
	return nil
}

func (s *Schema) findArg(site string) *argSite {
	as := s.argSites()
	for i := range as {
		if as[i].name == site {
			return &as[i]
		}
	}
	return nil
}

func (s *Schema) findDir(site string) *DirDef {
	for _, d := range s.Dirs {
		if "@"+d.Name == site {
			return d
		}
	}
	return nil
}

func (s *Schema) findEnumVal(site string) *EnumVal {
	for _, t := range s.Types {
		if t.Kind == 'E' {
			for _, v := range t.Values {
				if t.Name+"."+v.Name == site {
					return v
				}
			}
		}
	}
	return nil
}

func menuText(menu []struct{ Name, Text string }, name string) (string, bool) {
	for _, m := range menu {
		if m.Name == name {
			return m.Text, true
		}
	}
	return "", false
}

func inList(l []string, x string) bool {
	for _, y := range l {
		if x == y {
			return true
		}
	}
	return false
}

// Apply applies d to s; false when the site does not exist (any more) or the
// decoration is not applicable in the current state.
func (s *Schema) Apply(d Deco) bool {
	switch d.Op {
	case "deprecate":
		txt, ok := menuText(deprecateMenu, d.Var)
		if !ok {
			return false
		}
		if f := s.findField(d.Site); f != nil {
			if strings.Contains(f.Dirs, "@deprecated") {
				return false
			}
			f.Dirs = strings.TrimSpace(f.Dirs + " " + txt)
			return true
		}
		if a := s.findArg(d.Site); a != nil {
			if !canDeprecateArg(a.arg) {
				return false
			}
			a.arg.Dirs = txt
			return true
		}
		if v := s.findEnumVal(d.Site); v != nil && v.Dirs == "" {
			v.Dirs = txt
			return true
		}
		return false
	case "depmix":
		return s.applyDepmix(d.Site, d.Var, false)
	case "wrap":
		if !inList(wrapMenu, d.Var) && d.Var != "T" {
			return false
		}
		if f := s.findField(d.Site); f != nil {
			f.Wrap = d.Var
			return true
		}
		if a := s.findArg(d.Site); a != nil {
			if a.arg.Default != "" || (strings.HasSuffix(d.Var, "!") && a.arg.Dirs != "") {
				return false
			}
			if d.Var == "T!" && a.owner != nil {
				if t := s.typ(a.arg.Type); t != nil && t.Kind == 'N' {
					return false
				}
			}
			a.arg.Wrap = d.Var
			return true
		}
		return false
	case "retarget":
		if f := s.findField(d.Site); f != nil {
			if !inList(outputTypeNames(s), d.Var) {
				return false
			}
			f.Type = d.Var
			return true
		}
		if a := s.findArg(d.Site); a != nil {
			if a.arg.Default != "" || !inList(inputTypeNames(s), d.Var) {
				return false
			}
			if a.owner != nil && a.arg.Wrap == "T!" {
				if t := s.typ(d.Var); t != nil && t.Kind == 'N' {
					return false
				}
			}
			a.arg.Type = d.Var
			return true
		}
		return false
	case "addarg":
		v := argVariantByName(d.Var)
		if v == nil {
			return false
		}
		tn := v.Type
		switch tn {
		case "E", "N", "S":
			t := s.firstOfKind(tn[0])
			if t == nil {
				return false
			}
			tn = t.Name
		}
		mk := func(existing []*Arg, names []string) *Arg {
			for _, n := range names {
				used := false
				for _, e := range existing {
					if e.Name == n {
						used = true
					}
				}
				if !used {
					return &Arg{Name: n, Type: tn, Wrap: v.Wrap, Default: v.Default}
				}
			}
			return nil
		}
		if f := s.findField(d.Site); f != nil {
			a := mk(f.Args, []string{"x", "y"})
			if a == nil || len(f.Args) >= 2 {
				return false
			}
			f.Args = append(f.Args, a)
			return true
		}
		if dir := s.findDir(d.Site); dir != nil {
			a := mk(dir.Args, []string{"x", "y"})
			if a == nil || len(dir.Args) >= 2 || (dir.Applied && strings.HasSuffix(v.Wrap, "!") && v.Default == "") {
				return false
			}
			dir.Args = append(dir.Args, a)
			return true
		}
		if t := s.typ(d.Site); t != nil && t.Kind == 'N' {
			a := mk(t.Inputs, []string{"c", "d"})
			if a == nil {
				return false
			}
			t.Inputs = append(t.Inputs, a)
			return true
		}
		return false
	case "describe":
		txt, ok := menuText(describeMenu, d.Var)
		if !ok {
			return false
		}
		if d.Site == "schema" {
			if s.Desc != "" {
				return false
			}
			s.Explicit = true
			s.Desc = txt
			return true
		}
		if f := s.findField(d.Site); f != nil {
			f.Desc = txt
			return true
		}
		if a := s.findArg(d.Site); a != nil {
			a.arg.Desc = txt
			return true
		}
		if v := s.findEnumVal(d.Site); v != nil {
			v.Desc = txt
			return true
		}
		if dir := s.findDir(d.Site); dir != nil {
			dir.Desc = txt
			return true
		}
		if t := s.typ(d.Site); t != nil {
			t.Desc = txt
			return true
		}
		return false
	case "directive":
		if len(s.Dirs) >= 2 {
			return false
		}
		dd := &DirDef{Name: fmt.Sprintf("d%d", len(s.Dirs)+1)}
		q := s.typ(s.Query)
		switch {
		case strings.HasPrefix(d.Var, "loc:"):
			l := strings.TrimPrefix(d.Var, "loc:")
			if !inList(execLocs, l) && !inList(tsLocs, l) {
				return false
			}
			dd.Locs = []string{l}
		case d.Var == "exec_all":
			dd.Locs = append([]string(nil), execLocs...)
		case d.Var == "ts_all":
			dd.Locs = append([]string(nil), tsLocs...)
		case d.Var == "rep":
			dd.Locs, dd.Rep = []string{"FIELD"}, true
		case d.Var == "rep_ts":
			dd.Locs, dd.Rep = []string{"OBJECT", "FIELD_DEFINITION"}, true
		case d.Var == "arg_default":
			dd.Locs, dd.Args = []string{"FIELD"}, []*Arg{{Name: "a", Type: "Int", Wrap: "T", Default: "3"}}
		case d.Var == "arg_dep":
			dd.Locs, dd.Args = []string{"FIELD"}, []*Arg{{Name: "a", Type: "Int", Wrap: "T", Dirs: `@deprecated(reason: "r")`}}
		case d.Var == "arg_req":
			dd.Locs, dd.Args = []string{"FIELD"}, []*Arg{{Name: "a", Type: "Int", Wrap: "T!"}}
		case d.Var == "described":
			dd.Locs, dd.Desc = []string{"FIELD"}, `"dir"`
		case d.Var == "applied", d.Var == "applied_rep", d.Var == "applied_dep":
			if q == nil || len(q.Fields) == 0 {
				return false
			}
			dd.Locs = []string{"FIELD_DEFINITION"}
			dd.Applied = true
			use := "@" + dd.Name
			if d.Var == "applied_rep" {
				dd.Rep = true
				use = use + " " + use
			}
			if d.Var == "applied_dep" {
				if strings.Contains(q.Fields[0].Dirs, "@deprecated") {
					return false
				}
				use = use + ` @deprecated(reason: "r")`
			}
			q.Fields[0].Dirs = strings.TrimSpace(use + " " + q.Fields[0].Dirs)
		default:
			return false
		}
		s.Dirs = append(s.Dirs, dd)
		return true
	case "repeatable":
		if dir := s.findDir(d.Site); dir != nil && !dir.Rep {
			dir.Rep = true
			return true
		}
		return false
	case "roots":
		if s.Explicit && s.Desc == "" || s.Mutation != "" || s.Subscr != "" || s.Query != "Query" {
			return false
		}
		q := s.typ("Query")
		if q == nil {
			return false
		}
		addRoot := func(name, field string) {
			s.Types = append(s.Types, &TypeDef{Kind: 'O', Name: name, Fields: []*Field{{Name: field, Type: "Int", Wrap: "T"}}})
		}
		rename := func(old, nw string) {
			q.Name = nw
			for _, t := range s.Types {
				for i, m := range t.Members {
					if m == old {
						t.Members[i] = nw
					}
				}
				for _, f := range t.Fields {
					if f.Type == old {
						f.Type = nw
					}
				}
			}
		}
		switch d.Var {
		case "explicit":
			s.Explicit = true
		case "renamed":
			s.Explicit = true
			rename("Query", "Q")
			s.Query = "Q"
		case "mutation":
			addRoot("Mutation", "m")
			s.Mutation = "Mutation"
		case "subscription":
			addRoot("Subscription", "s")
			s.Subscr = "Subscription"
		case "both":
			addRoot("Mutation", "m")
			addRoot("Subscription", "s")
			s.Mutation, s.Subscr = "Mutation", "Subscription"
		case "explicit_mutation_renamed":
			s.Explicit = true
			addRoot("M", "m")
			s.Mutation = "M"
		case "decoy_mutation":
			// an explicit schema block without mutation, plus an ordinary object type named Mutation
			s.Explicit = true
			addRoot("Mutation", "m")
		case "decoy_query":
			// the query root is Q; an ordinary object type named Query also exists
			s.Explicit = true
			rename("Query", "Q")
			s.Query = "Q"
			addRoot("Query", "decoy")
		default:
			return false
		}
		return true
	case "extend":
		t := s.typ(d.Site)
		if t == nil || t.Ext != "" || (d.Var != "member" && d.Var != "impl") {
			return false
		}
		if d.Var == "impl" && (len(t.Impl) == 0 || t.Kind != 'O') {
			return false
		}
		t.Ext = d.Var
		s.Normalize = true
		return true
	case "unimplement":
		t := s.typ(d.Site)
		if t == nil || t.Kind != 'O' || len(t.Impl) == 0 {
			return false
		}
		t.Impl = nil
		return true
	case "drop":
		t := s.typ(d.Site)
		if t == nil {
			return false
		}
		switch t.Kind {
		case 'O', 'I':
			if len(t.Fields) < 2 {
				return false
			}
			t.Fields = t.Fields[:len(t.Fields)-1]
		case 'N':
			if len(t.Inputs) < 2 {
				return false
			}
			t.Inputs = t.Inputs[:len(t.Inputs)-1]
		case 'E':
			if len(t.Values) < 2 {
				return false
			}
			t.Values = t.Values[:len(t.Values)-1]
		case 'U':
			if len(t.Members) < 2 {
				return false
			}
			t.Members = t.Members[:len(t.Members)-1]
		default:
			return false
		}
		return true
	case "specifiedBy":
		t := s.typ(d.Site)
		if t == nil || t.Kind != 'S' || t.Dirs != "" {
			return false
		}
		t.Dirs = `@specifiedBy(url: "https://x.example/s")`
		return true
	case "order":
		if s.Order != "" || (d.Var != "reverse" && d.Var != "querylast") {
			return false
		}
		s.Order = d.Var
		return true
	}
	return false
}

// Build builds the schema of a spec; ok=false if a decoration is not applicable.
func Build(sp Spec) (*Schema, bool) {
	s := BuildBase(sp.Kinds)
	for _, d := range sp.Decos {
		if !s.Apply(d) {
			return s, false
		}
	}
	return s, true
}

// typeOfSite: the type name a site belongs to ("" for schema / directive sites)
func typeOfSite(site string) string {
	if site == "schema" || strings.HasPrefix(site, "@") {
		return ""
	}
	if i := strings.IndexByte(site, '.'); i >= 0 {
		return site[:i]
	}
	return site
}

// conflict: pairs of decorations that cannot be combined into a valid schema
// (the second would invalidate a default value brought in by the first, ...).
func conflict(base *Schema, a, b Deco) bool {
	if a.Op == b.Op && a.Site == b.Site {
		switch a.Op {
		case "wrap", "retarget", "deprecate", "describe", "roots", "order", "extend", "depmix":
			return true // same slot: the second replaces the first (equals a single decoration)
		}
	}
	usesInobj := func(d Deco) bool { return d.Op == "addarg" && strings.HasPrefix(d.Var, "inobj") }
	usesEnum := func(d Deco) bool { return d.Op == "addarg" && strings.HasPrefix(d.Var, "enum") }
	touches := func(d Deco, kind byte) bool {
		tn := typeOfSite(d.Site)
		t := base.firstOfKind(kind)
		if t == nil || tn != t.Name {
			return false
		}
		switch d.Op {
		case "wrap", "retarget", "drop":
			return true
		case "addarg":
			v := argVariantByName(d.Var)
			return v != nil && strings.HasSuffix(v.Wrap, "!") && v.Default == "" // new required input field
		}
		return false
	}
	for _, p := range [][2]Deco{{a, b}, {b, a}} {
		if usesInobj(p[0]) && touches(p[1], 'N') {
			return true
		}
		if usesEnum(p[0]) && touches(p[1], 'E') {
			return true
		}
	}
	return false
}

func sortedKeys[M ~map[string]V, V any](m M) []string {
	out := make([]string, 0, len(m))
	for k := range m {
		out = append(out, k)
	}
	sort.Strings(out)
	return out
}
