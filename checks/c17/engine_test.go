package c17

import (
	"context"
	"encoding/json"
	"fmt"
	"sort"
	"strings"

	"github.com/jensneuse/abstractlogger"

	"github.com/wundergraph/graphql-go-tools/execution/engine"
	"github.com/wundergraph/graphql-go-tools/execution/graphql"
	"github.com/wundergraph/graphql-go-tools/v2/pkg/engine/resolve"
)

// engineClause executes the introspection operations through a fresh
// ExecutionEngine configured with the schema and nothing else (introspection
// is what NewExecutionEngine adds on its own) and compares the answers with the
// reference model.
func engineClause(schema *graphql.Schema, ref *Model) (diffs []Diff, stats map[string]int64) {
	stats = map[string]int64{}
	ctx, cancel := context.WithCancel(context.Background())
	defer cancel()
	conf := engine.NewConfiguration(schema)
	eng, err := engine.NewExecutionEngine(ctx, abstractlogger.Noop{}, conf, resolve.ResolverOptions{MaxConcurrency: 4})
	if err != nil {
		return []Diff{{Site: "NewExecutionEngine", Class: "error: " + sanitize(err.Error()), Detail: err.Error()}}, stats
	}
	add := func(op string, ds ...Diff) {
		for _, d := range ds {
			d.Op = op
			diffs = append(diffs, d)
		}
	}
	// kind: stable name of the operation family (goes into the site); what: the concrete operation (detail only)
	exec := func(kind, what, q, vars string) (map[string]any, bool) {
		req := graphql.Request{Query: q}
		if vars != "" {
			req.Variables = []byte(vars)
		}
		w := graphql.NewEngineResultWriter()
		stats["engine_operations"]++
		if err := eng.Execute(ctx, &req, &w); err != nil {
			add(what, Diff{Site: "engine.Execute(" + kind + ")", Class: "error: " + sanitize(err.Error()), Detail: err.Error()})
			return nil, false
		}
		var resp map[string]any
		if err := json.Unmarshal(w.Bytes(), &resp); err != nil {
			add(what, Diff{Site: "engine response(" + kind + ")", Class: "not JSON", Detail: err.Error() + ": " + clip(w.String(), 300)})
			return nil, false
		}
		if e, has := resp["errors"]; has && e != nil {
			b, _ := json.Marshal(e)
			add(what, Diff{Site: "engine response(" + kind + ")", Class: "errors: " + sanitize(string(b)), Detail: "errors in the response: " + clip(string(b), 400)})
			return nil, false
		}
		data, ok := resp["data"].(map[string]any)
		if !ok {
			add(what, Diff{Site: "engine response(" + kind + ")", Class: "no data object", Detail: clip(w.String(), 300)})
			return nil, false
		}
		return data, true
	}

	// (a) the full introspection query, both ways
	refNoDep := withoutDeprecated(ref)
	for _, inc := range []bool{true, false} {
		what := fmt.Sprintf("full introspection query, includeDeprecated=%v", inc)
		data, ok := exec("full query", what, fullQuery(inc), "")
		if !ok {
			continue
		}
		sv, has := data["__schema"]
		if !has {
			add(what, Diff{Site: "engine response(full query)", Class: "__schema absent", Detail: what})
			continue
		}
		dec := &decoder{strict: true}
		got := dec.schemaModel(sv)
		x := &differ{}
		e := ref
		if !inc {
			e = refNoDep
		}
		x.Models(e, got, modeIntrospection)
		add(what, dec.diffs...)
		add(what, x.diffs...)
	}

	// (b) __type(name: "T") with the full type selection for every user type,
	// includeDeprecated: true, all literals, one operation (aliases t0, t1, ...)
	var user []string
	for _, n := range ref.TypeOrder {
		if !isIntrospectionName(n) && !builtinScalarSet[n] {
			user = append(user, n)
		}
	}
	if data, ok := exec("__type", "__type(name:) for every user type, full selection, includeDeprecated=true", typesQuery(user), ""); ok {
		for i, n := range user {
			what := fmt.Sprintf("__type(name: %q), full selection, includeDeprecated=true", n)
			stats["types_queried"]++
			tv, has := data[fmt.Sprintf("t%d", i)]
			et := ref.Types[n]
			switch {
			case !has:
				add(what, Diff{Site: "engine response(__type)", Class: "alias absent", Detail: n})
			case tv == nil:
				add(what, Diff{Site: "__type(name:)", Class: "null for an existing type (" + et.Kind + ")", Detail: fmt.Sprintf("__type(name: %q) is null", n)})
			default:
				dec := &decoder{strict: true}
				gt := dec.fullType(tv)
				add(what, dec.diffs...)
				if gt != nil {
					x := &differ{}
					x.typ(et, gt)
					add(what, x.diffs...)
				}
			}
		}
	}

	// member name lists of one type as answered under an alias
	members := func(kind, name string, tv any) *MType {
		o, ok := tv.(map[string]any)
		if !ok {
			return nil
		}
		dec := &decoder{strict: false}
		return dec.fullType(map[string]any{"kind": kind, "name": name, "fields": o["fields"], "inputFields": o["inputFields"], "enumValues": o["enumValues"]})
	}
	dirArgs := func(sv any) *Model {
		so, _ := sv.(map[string]any)
		dl, _ := so["directives"].([]any)
		got := &Model{Dirs: map[string]*MDir{}}
		for _, e := range dl {
			do, _ := e.(map[string]any)
			name, _ := do["name"].(string)
			md := &MDir{Name: name}
			al, _ := do["args"].([]any)
			for _, a := range al {
				ao, _ := a.(map[string]any)
				an, _ := ao["name"].(string)
				md.Args = append(md.Args, MInput{Name: an})
			}
			got.Dirs[name] = md
		}
		return got
	}

	// (c) includeDeprecated false (literal false at fields / enumValues, left out
	// at args / inputFields) for every user type by __type(name: "T"): the member
	// name lists (the complete attributes under false are judged by the full
	// query above); plus the built-in scalars and a name that is not a type
	refd := referencedBuiltinScalars(ref)
	nn := append(append([]string(nil), builtinScalars...), "Zz9Unknown")
	if data, ok := exec("__type members", "__type(name:) member lists for every user type, includeDeprecated=false, and built-in / unknown names", membersQuery(user, nn, false, false), ""); ok {
		for i, n := range user {
			what := fmt.Sprintf("__type(name: %q), member names, includeDeprecated=false", n)
			stats["types_queried"]++
			et := typeWithoutDeprecated(ref.Types[n])
			tv, has := data[fmt.Sprintf("t%d", i)]
			if !has || tv == nil {
				add(what, Diff{Site: "__type(name:)", Class: "null for an existing type (" + et.Kind + ")", Detail: fmt.Sprintf("__type(name: %q) is null or absent", n)})
				continue
			}
			gt := members(et.Kind, n, tv)
			if gt == nil {
				add(what, Diff{Site: "engine response(__type members)", Class: "malformed", Detail: fmt.Sprint(tv)})
				continue
			}
			x := &differ{}
			x.members(et, gt)
			add(what, x.diffs...)
		}
		for i, n := range nn {
			tv, has := data[fmt.Sprintf("n%d", i)]
			switch {
			case !has:
				add("", Diff{Site: "engine response(__type members)", Class: "alias absent", Detail: n})
			case n == "Zz9Unknown":
				if tv != nil {
					add("", Diff{Site: "__type(name:)", Class: "non-null for an unknown type name", Detail: fmt.Sprintf("__type(name: %q) = %v", n, tv)})
				}
			case tv == nil:
				if refd[n] || n == "String" || n == "Boolean" {
					add("", Diff{Site: "__type(name:)", Class: "null for a referenced built-in scalar", Detail: fmt.Sprintf("__type(name: %q) is null", n)})
				}
			default:
				o, _ := tv.(map[string]any)
				if o["kind"] != "SCALAR" || o["name"] != n {
					add("", Diff{Site: "__type(name:)", Class: "built-in scalar mis-described", Detail: fmt.Sprintf("__type(name: %q) = %v", n, tv)})
				}
			}
		}
	}

	// (d) the type names and includeDeprecated given as operation variables,
	// both values: the member name lists must be those of the flag's value
	memberLists := func(t *MType) string {
		// order of list members is not judged: names are sorted
		srt := func(l []string) string { sort.Strings(l); return strings.Join(l, ",") }
		var fs []string
		for _, f := range t.Fields {
			fs = append(fs, f.Name+"("+srt(names(f.Args, func(i MInput) string { return i.Name }))+")")
		}
		return t.Name + "{fields[" + srt(fs) + "] inputFields[" + srt(names(t.Inputs, func(i MInput) string { return i.Name })) + "]" +
			" enumValues[" + srt(names(t.Enums, func(e MEnum) string { return e.Name })) + "]}"
	}
	dirLists := func(m *Model) string {
		var parts []string
		for _, n := range sortedKeys(m.Dirs) {
			if _, ok := specDirectives[n]; ok || engineDirectives[n] {
				continue
			}
			an := names(m.Dirs[n].Args, func(i MInput) string { return i.Name })
			sort.Strings(an)
			parts = append(parts, "@"+n+"("+strings.Join(an, ",")+")")
		}
		return strings.Join(parts, " ")
	}
	expectLists := func(m *Model) string {
		var parts []string
		for _, n := range user {
			parts = append(parts, memberLists(m.Types[n]))
		}
		return strings.Join(parts, " ") + " directives[" + dirLists(m) + "]"
	}
	for _, inc := range []bool{true, false} {
		vm := map[string]any{"d": inc}
		for i, n := range user {
			vm[fmt.Sprintf("n%d", i)] = n
		}
		vars, _ := json.Marshal(vm)
		what := "query Members with variables " + string(vars)
		data, ok := exec("__type with variables", what, membersQuery(user, nil, true, inc), string(vars))
		if !ok {
			continue
		}
		var parts []string
		bad := false
		for i, n := range user {
			tv := data[fmt.Sprintf("t%d", i)]
			if tv == nil {
				add(what, Diff{Site: "__type(name:)", Class: "null for an existing type (" + ref.Types[n].Kind + ") named by a variable", Detail: n})
				bad = true
				continue
			}
			gt := members(ref.Types[n].Kind, n, tv)
			if gt == nil {
				bad = true
				continue
			}
			parts = append(parts, memberLists(gt))
		}
		if bad {
			continue
		}
		got := strings.Join(parts, " ") + " directives[" + dirLists(dirArgs(data["__schema"])) + "]"
		exp, other := expectLists(ref), expectLists(refNoDep)
		if !inc {
			exp, other = other, exp
		}
		if got != exp {
			class := "answer differs from both values of the flag"
			if got == other {
				class = fmt.Sprintf("%v is answered as if it were %v", inc, !inc)
			}
			add(what, Diff{Site: "includeDeprecated given as an operation variable", Class: class, Detail: fmt.Sprintf("expected %s, got %s", exp, got)})
		}
	}
	// (e) history independence: the answers of ONE engine must not depend on the
	// introspection operations it answered before. The same-shaped __type(name:)
	// operation (so the second and later ones are served from the engine's plan
	// cache and by the same planned fetch / data source instance) is asked for
	// every user type name, a built-in scalar and an unknown name in ascending and
	// then descending order, with a __schema operation in between, once with the
	// name as an inline literal and once as an operation variable; EACH answer is
	// compared with the reference for THAT name.
	const histSite = "__type(name:) asked repeatedly on one engine"
	seqNames := append(append([]string(nil), user...), "String", "Zz9Unknown")
	order := append([]string(nil), seqNames...)
	order = append(order, "") // "" = the interleaved __schema operation
	for i := len(seqNames) - 1; i >= 0; i-- {
		order = append(order, seqNames[i])
	}
	for _, asVar := range []bool{false, true} {
		form := "inline literal"
		if asVar {
			form = "operation variable"
		}
		var asked []string
		for _, n := range order {
			if n == "" {
				what := fmt.Sprintf("__schema { queryType types } between the __type operations (%s form), after %v", form, asked)
				data, ok := exec("__schema between __type operations", what, historySchemaQuery, "")
				if !ok {
					continue
				}
				so, _ := data["__schema"].(map[string]any)
				qt, _ := so["queryType"].(map[string]any)
				var got []string
				tl, _ := so["types"].([]any)
				for _, e := range tl {
					o, _ := e.(map[string]any)
					tn, _ := o["name"].(string)
					if !isIntrospectionName(tn) && !builtinScalarSet[tn] {
						got = append(got, tn)
					}
				}
				if qt["name"] != ref.Query || !sameSet(got, user) {
					add(what, Diff{Site: histSite, Class: "__schema answer differs after __type operations",
						Detail: fmt.Sprintf("expected queryType %q and types %v, got %v and %v", ref.Query, user, qt["name"], got)})
				}
				asked = append(asked, "__schema")
				continue
			}
			q, vars := historyTypeQuery(n, asVar)
			what := fmt.Sprintf("__type(name: %q) as %s, after %v on the same engine", n, form, asked)
			asked = append(asked, n)
			data, ok := exec("__type repeated", what, q, vars)
			if !ok {
				continue
			}
			stats["history_type_operations"]++
			tv, has := data["__type"]
			if !has {
				add(what, Diff{Site: "engine response(__type repeated)", Class: "__type absent", Detail: n})
				continue
			}
			et := ref.Types[n]
			switch {
			case n == "Zz9Unknown":
				if tv != nil {
					add(what, Diff{Site: histSite, Class: "non-null for an unknown type name (" + form + ")", Detail: fmt.Sprintf("__type(name: %q) = %v", n, clip(fmt.Sprint(tv), 200))})
				}
				continue
			case tv == nil:
				add(what, Diff{Site: histSite, Class: "null for an existing type (" + form + ")", Detail: fmt.Sprintf("__type(name: %q) is null", n)})
				continue
			}
			o, _ := tv.(map[string]any)
			if o["name"] != n {
				add(what, Diff{Site: histSite, Class: "answer describes another type (" + form + ")", Detail: fmt.Sprintf("__type(name: %q) answered with the type named %v (kind %v)", n, o["name"], o["kind"])})
				continue
			}
			if builtinScalarSet[n] {
				if o["kind"] != "SCALAR" {
					add(what, Diff{Site: "__type(name:)", Class: "built-in scalar mis-described", Detail: fmt.Sprintf("__type(name: %q) = %v", n, tv)})
				}
				continue
			}
			if o["kind"] != et.Kind {
				add(what, Diff{Site: "__Type.kind", Class: "kind differs", Detail: fmt.Sprintf("type %s: kind expected %s, got %v", n, et.Kind, o["kind"])})
				continue
			}
			gt := members(et.Kind, n, tv)
			if gt == nil {
				add(what, Diff{Site: "engine response(__type repeated)", Class: "malformed", Detail: clip(fmt.Sprint(tv), 200)})
				continue
			}
			x := &differ{}
			x.members(et, gt)
			add(what, x.diffs...)
		}
	}
	return diffs, stats
}
