package c17

// The introspection operations sent through the engine (clause 3).

import (
	"fmt"
	"strings"
)

const typeRef7 = "fragment TypeRef on __Type { kind name ofType { kind name ofType { kind name ofType { kind name ofType { kind name ofType { kind name ofType { kind name ofType { kind name } } } } } } } }\n"


func fragments(fieldsArg, argsArg, typeRef string) string {
	return "fragment FullType on __Type { kind name description specifiedByURL " +
		"fields" + fieldsArg + " { name description args" + argsArg + " { ...InputValue } type { ...TypeRef } isDeprecated deprecationReason } " +
		"inputFields" + argsArg + " { ...InputValue } interfaces { ...TypeRef } " +
		"enumValues" + fieldsArg + " { name description isDeprecated deprecationReason } possibleTypes { ...TypeRef } }\n" +
		"fragment InputValue on __InputValue { name description type { ...TypeRef } defaultValue isDeprecated deprecationReason }\n" +
		typeRef
}

// incArgs: how includeDeprecated is spelled. inc=true: the literal true at all
// sites. inc=false: the literal false at fields / enumValues and the argument
// left out (default false) at args / inputFields / directive args, so both
// spellings of "do not include" are exercised.
func incArgs(inc bool) (fieldsArg, argsArg string) {
	if inc {
		return "(includeDeprecated: true)", "(includeDeprecated: true)"
	}
	return "(includeDeprecated: false)", ""
}

// fullQuery is the standard full introspection query (graphql-js
// getIntrospectionQuery with descriptions, specifiedByUrl,
// directiveIsRepeatable, schemaDescription and inputValueDeprecation on).
func fullQuery(inc bool) string {
	f, a := incArgs(inc)
	return "query IntrospectionQuery { __schema { description queryType { name } mutationType { name } subscriptionType { name } " +
		"types { ...FullType } directives { name description isRepeatable locations args" + a + " { ...InputValue } } } }\n" + fragments(f, a, typeRef7)
}

// five levels are enough for the enumerated wrapper depth ([[T!]]! = 4 wrappers
// + the named type); a deeper reference would be reported as a wrapper without ofType
const typeRef5 = "fragment TypeRef on __Type { kind name ofType { kind name ofType { kind name ofType { kind name ofType { kind name } } } } }\n"

// typesQuery describes every named type by __type(name: "T") with the full type
// selection; names and includeDeprecated: true are literals.
func typesQuery(names []string) string {
	f, a := incArgs(true)
	var b strings.Builder
	b.WriteString("query Types {")
	for i, n := range names {
		fmt.Fprintf(&b, " t%d: __type(name: %q) { ...FullType }", i, n)
	}
	b.WriteString(" }\n")
	return b.String() + fragments(f, a, typeRef5)
}

// membersQuery asks the member name lists of every named type (aliases t<i>)
// and, with asVars, of the directives' arguments; with asVars the type names
// ($n<i>) and includeDeprecated ($d) are operation variables, otherwise literals
// (inc spelled as in incArgs). plain: names asked with { kind name } only
// (aliases n<i>).
func membersQuery(types, plain []string, asVars, inc bool) string {
	f, a := incArgs(inc)
	var b strings.Builder
	if asVars {
		f, a = "(includeDeprecated: $d)", "(includeDeprecated: $d)"
		b.WriteString("query Members($d: Boolean!")
		for i := range types {
			fmt.Fprintf(&b, ", $n%d: String!", i)
		}
		b.WriteString(") {")
	} else {
		b.WriteString("query Members {")
	}
	for i, n := range types {
		arg := fmt.Sprintf("%q", n)
		if asVars {
			arg = fmt.Sprintf("$n%d", i)
		}
		fmt.Fprintf(&b, " t%d: __type(name: %s) { fields%s { name args%s { name } } inputFields%s { name } enumValues%s { name } }", i, arg, f, a, a, f)
	}
	for i, n := range plain {
		fmt.Fprintf(&b, " n%d: __type(name: %q) { kind name }", i, n)
	}
	if asVars {
		b.WriteString(" __schema { directives { name args" + a + " { name } } }")
	}
	b.WriteString(" }")
	return b.String()
}

// historyTypeQuery: one fixed-shape __type(name:) operation; only the name
// differs between two uses (inline literal or the value of $n), so all uses
// normalise to the same operation and share one cached plan.
func historyTypeQuery(name string, asVar bool) (query, variables string) {
	const sel = "{ kind name fields(includeDeprecated: true) { name args(includeDeprecated: true) { name } } inputFields(includeDeprecated: true) { name } enumValues(includeDeprecated: true) { name } }"
	if asVar {
		return "query Again($n: String!) { __type(name: $n) " + sel + " }", fmt.Sprintf(`{"n":%q}`, name)
	}
	return fmt.Sprintf("query Again { __type(name: %q) ", name) + sel + " }", ""
}

const historySchemaQuery = "query Between { __schema { queryType { name } types { name } } }"
