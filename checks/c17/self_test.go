package c17

import "testing"

// selfTest pins the pieces of the oracle that do not come from gqlparser.
func selfTest(t *testing.T) {
	for _, c := range [][2]string{
		{"blk", "blk"},
		{"\n    l1\n      l2\n    ", "l1\n  l2"},
		{"l1\n      l2", "l1\nl2"}, // the first line does not take part in the common indentation
		{"\n  Hello,\n    World!\n\n  Yours,\n    GraphQL.\n", "Hello,\n  World!\n\nYours,\n  GraphQL."},
	} {
		if got := specBlockStringValue(c[0]); got != c[1] {
			t.Fatalf("self-test: specBlockStringValue(%q) = %q, want %q", c[0], got, c[1])
		}
	}
	s, err := loadSDL("type Query { \"é\" q(a: String = \"\"\"l1\n      l2\"\"\", b: String = \"\"\"\n   x\n     y\n  \"\"\", c: In = {a: [1, 2.50], b: \"s\\n\"}): Int }\ninput In { a: [Float] b: String }\n", false)
	if err != nil {
		t.Fatalf("self-test: %v", err)
	}
	m := ReferenceModel(s)
	args := m.Types["Query"].Fields[0].Args
	want := []string{"s:l1\nl2", "s:x\n  y", `{"a":[i:1,f:2.5],"b":s:s` + "\n}"}
	for i, a := range args {
		if a.Default != want[i] {
			t.Fatalf("self-test: default of %s = %q, want %q", a.Name, a.Default, want[i])
		}
	}
	for _, c := range [][2]string{{`"""l1` + "\n      l2" + `"""`, "s:l1\nl2"}, {`{b: "x", a: [1]}`, `{"a":[i:1],"b":s:x}`}, {"1e3", "f:1000"}} {
		got, err := parseValueString(c[0])
		if err != nil || got != c[1] {
			t.Fatalf("self-test: parseValueString(%q) = %q, %v; want %q", c[0], got, err, c[1])
		}
	}
	if _, err := parseValueString("{a: 1"); err == nil {
		t.Fatalf("self-test: parseValueString accepts a truncated value")
	}
	if _, err := parseValueString("1 2"); err == nil {
		t.Fatalf("self-test: parseValueString accepts two values")
	}
}
