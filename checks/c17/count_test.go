package c17

import (
	"fmt"
	"os"
	"strings"
	"testing"
)

// TestEnumerationCounts prints the size of the enumerated space (development aid; VERIF_C17_COUNT=1).
func TestEnumerationCounts(t *testing.T) {
	if os.Getenv("VERIF_C17_COUNT") == "" {
		t.Skip("set VERIF_C17_COUNT=1")
	}
	bad := map[string]int{}
	defer func() {
		for k, v := range bad {
			fmt.Println("INVALID", v, k)
		}
	}()
	for n := 0; n <= 4; n++ {
		singles, pairs, bases := 0, 0, 0
		for _, kinds := range kindMultisets(n) {
			bases++
			base := BuildBase(kinds)
			decos := ListDecos(base)
			singles += len(decos)
			if os.Getenv("VERIF_C17_VALIDATE") != "" {
				for _, d1 := range decos {
					sp, ok := Build(Spec{Kinds: kinds, Decos: []Deco{d1}})
					if !ok {
						t.Fatalf("not applicable: %v %v", kinds, d1)
					}
					if _, err := loadSDL(sp.SDL(), false); err != nil {
						bad[err.Error()[strings.Index(err.Error(), " ")+1:]+" :: "+d1.Op+"/"+d1.Var]++
					}
				}
			}
			if n <= 2 {
				idx := map[Deco]int{}
				for i, d := range decos {
					idx[d] = i
				}
				for i, d1 := range decos {
					if !isCore(d1) {
						continue
					}
					s1, ok := Build(Spec{Kinds: kinds, Decos: []Deco{d1}})
					if !ok {
						t.Fatalf("not applicable: %v %v", kinds, d1)
					}
					for _, d2 := range CoreDecos(s1) {
						if j, in := idx[d2]; in && j <= i {
							continue
						}
						if conflict(base, d1, d2) {
							continue
						}
						sp, ok := Build(Spec{Kinds: kinds, Decos: []Deco{d1, d2}})
						if !ok {
							t.Fatalf("pair not applicable: %v %v %v", kinds, d1, d2)
						}
						if os.Getenv("VERIF_C17_VALIDATE") != "" {
							if _, err := loadSDL(sp.SDL(), false); err != nil {
								bad[err.Error()[strings.Index(err.Error(), " ")+1:]+" :: "+d1.Op+"/"+d1.Var+" + "+d2.Op+"/"+d2.Var]++
							}
						}
						pairs++
					}
				}
			}
		}
		fmt.Printf("n=%d bases=%d singles=%d pairs=%d\n", n, bases, singles, pairs)
	}
	if p := os.Getenv("VERIF_C17_PRINT"); p != "" {
		s := BuildBase(p)
		fmt.Println(s.SDL())
		for _, d := range ListDecos(s) {
			fmt.Println(d)
		}
	}
}
