// Check C17: introspection describes exactly the configured schema.
// Engine E: every schema of a bounded type-system grammar (base family in full
// + every single / every pair of decorations at every applicable site), three
// oracle clauses:
//
//	(1) introspection.Generator output == independent introspection computed
//	    from the gqlparser-loaded schema,
//	(2) astprinter(JsonConverter(json(generate(S)))) loaded with gqlparser is
//	    type-system-equal to S (built-ins aside),
//	(3) the ExecutionEngine's answers to the full introspection query and to
//	    __type(name:) for every type, includeDeprecated both ways, == (1)'s
//	    reference.
//
// See DESIGN.md section 3 C17.
package c17

import (
	"bytes"
	"encoding/json"
	"fmt"
	"os"
	"regexp"
	"runtime/debug"
	"strings"
	"testing"

	"github.com/wundergraph/graphql-go-tools/execution/graphql"
	"github.com/wundergraph/graphql-go-tools/v2/pkg/astprinter"
	"github.com/wundergraph/graphql-go-tools/v2/pkg/introspection"
	"github.com/wundergraph/graphql-go-tools/v2/pkg/operationreport"

	"verif/internal/vk"
)

const (
	clause1 = "(1) generated introspection data equals the reference introspection of the schema"
	clause2 = "(2) introspection converted back to SDL is type-system-equal to the schema"
	clause3 = "(3) engine answers to __schema/__type equal the reference introspection"
)

var clauseNames = map[int]string{1: clause1, 2: clause2, 3: clause3}

// caseInput is what a replay needs.
type caseInput struct {
	SDL       string `json:"sdl"`
	Normalize bool   `json:"normalize"`
	Spec      *Spec  `json:"spec,omitempty"`
}

type evalResult struct {
	invalid string // not "" : the independent loader rejects the SDL (generator bug of the check) - not evaluated
	diffs   map[int][]Diff
	nj      map[string]int64
	njEx    map[string]string
	genJSON []byte
	conv    string // converted SDL
	stats   map[string]int64
}

var (
	reQuoted = regexp.MustCompile(`"[^"]*"|'[^']*'`)
	reNum    = regexp.MustCompile(`[0-9]+`)
	reFrame  = regexp.MustCompile(`github\.com/wundergraph/graphql-go-tools/[^\s(]+(?:\([^)]*\))?[^\s(]*`)
)

func sanitize(msg string) string {
	msg = reQuoted.ReplaceAllString(msg, `"…"`)
	msg = reNum.ReplaceAllString(msg, "N")
	msg = strings.Join(strings.Fields(msg), " ")
	if len(msg) > 90 {
		msg = msg[:90]
	}
	return msg
}

func panicDiff(r any) Diff {
	st := string(debug.Stack())
	frame := "unknown frame"
	// the first repository frame below the panic
	if i := strings.Index(st, "panic("); i >= 0 {
		st = st[i:]
	}
	if m := reFrame.FindString(st); m != "" {
		frame = m
	}
	return Diff{Site: "panic in " + frame, Class: sanitize(fmt.Sprint(r)), Detail: fmt.Sprintf("panic: %v", r)}
}

// evaluate runs the requested clauses (bit 1, 2, 4) on one SDL text.
func evaluate(sdl string, normalize bool, mask int) (res evalResult) {
	res.diffs = map[int][]Diff{}
	res.nj = map[string]int64{}
	res.njEx = map[string]string{}
	res.stats = map[string]int64{}
	addNJ := func(m map[string]int64) {
		for k, v := range m {
			res.nj[k] += v
		}
	}

	// the independent reading of S
	gs, err := loadSDL(sdl, false)
	if err != nil {
		res.invalid = err.Error()
		return
	}
	ref := ReferenceModel(gs)

	// the repository's reading of S, as the engine is configured with it
	var schema *graphql.Schema
	var js []byte
	ok := func() (ok bool) {
		defer func() {
			if r := recover(); r != nil {
				res.diffs[1] = append(res.diffs[1], panicDiff(r))
				ok = false
			}
		}()
		var err error
		schema, err = graphql.NewSchemaFromString(sdl)
		if err != nil {
			res.diffs[1] = append(res.diffs[1], Diff{Site: "schema construction", Class: "valid schema rejected: " + sanitize(err.Error()), Detail: "NewSchemaFromString: " + err.Error()})
			return false
		}
		if normalize {
			nr, err := schema.Normalize()
			if err != nil || !nr.Successful {
				res.diffs[1] = append(res.diffs[1], Diff{Site: "schema normalization", Class: "valid schema rejected", Detail: fmt.Sprintf("Schema.Normalize: %v %v", err, nr.Errors)})
				return false
			}
		}
		gen := introspection.NewGenerator()
		var data introspection.Data
		var report operationreport.Report
		gen.Generate(schema.Document(), &report, &data)
		if report.HasErrors() {
			res.diffs[1] = append(res.diffs[1], Diff{Site: "Generator.Generate", Class: "error: " + sanitize(report.Error()), Detail: "Generate: " + report.Error()})
			return false
		}
		js, err = json.Marshal(data)
		if err != nil {
			res.diffs[1] = append(res.diffs[1], Diff{Site: "introspection.Data JSON", Class: "marshal error", Detail: err.Error()})
			return false
		}
		return true
	}()
	if !ok {
		return
	}
	res.genJSON = js

	// clause 1
	var top map[string]any
	if err := json.Unmarshal(js, &top); err != nil {
		res.diffs[1] = append(res.diffs[1], Diff{Site: "introspection.Data JSON", Class: "not JSON", Detail: err.Error()})
		return
	}
	dec := &decoder{strict: false}
	got := dec.schemaModel(top["__schema"])
	x := &differ{}
	x.Models(ref, got, modeIntrospection)
	res.diffs[1] = append(res.diffs[1], dec.diffs...)
	res.diffs[1] = append(res.diffs[1], x.diffs...)
	addNJ(x.nj)
	for k, v := range x.njEx {
		res.njEx["clause 1: "+k] = v
	}
	in1 := map[string]bool{}
	for _, d := range res.diffs[1] {
		in1[d.Key()+"|"+d.Same()] = true
	}
	suppress := func(clause int, ds []Diff) []Diff {
		out := ds[:0]
		for _, d := range ds {
			if in1[d.Key()+"|"+d.Same()] {
				res.stats[fmt.Sprintf("clause%d_diffs_explained_by_clause1", clause)]++
				continue
			}
			out = append(out, d)
		}
		return out
	}

	// clause 2
	if mask&2 != 0 {
		func() {
			defer func() {
				if r := recover(); r != nil {
					res.diffs[2] = append(res.diffs[2], panicDiff(r))
				}
			}()
			conv := introspection.JsonConverter{}
			doc, err := conv.GraphQLDocument(bytes.NewReader(js))
			if err != nil {
				res.diffs[2] = append(res.diffs[2], Diff{Site: "JsonConverter.GraphQLDocument", Class: "error: " + sanitize(err.Error()), Detail: err.Error()})
				return
			}
			out, err := astprinter.PrintStringIndent(doc, "  ")
			if err != nil {
				res.diffs[2] = append(res.diffs[2], Diff{Site: "astprinter", Class: "error: " + sanitize(err.Error()), Detail: err.Error()})
				return
			}
			res.conv = out
			gs2, err := loadSDL(out, true)
			if err != nil {
				res.diffs[2] = append(res.diffs[2], Diff{Site: "converted SDL", Class: "does not load: " + sanitize(err.Error()), Detail: "the SDL printed from the converted introspection is rejected by the independent loader: " + err.Error()})
				return
			}
			x2 := &differ{}
			x2.Models(ref, ReferenceModel(gs2), modeUserOnly)
			res.diffs[2] = suppress(2, x2.diffs)
			for k, v := range x2.nj {
				res.nj["rt_"+k] += v
			}
			for k, v := range x2.njEx {
				res.njEx["clause 2 (after the round trip): "+k] = v
			}
		}()
	}

	// clause 3
	if mask&4 != 0 {
		func() {
			defer func() {
				if r := recover(); r != nil {
					res.diffs[3] = append(res.diffs[3], panicDiff(r))
				}
			}()
			ds, st := engineClause(schema, ref)
			res.diffs[3] = suppress(3, ds)
			for k, v := range st {
				res.stats[k] += v
			}
		}()
	}
	return
}

func clip(s string, n int) string {
	if len(s) > n {
		return s[:n] + "..."
	}
	return s
}

// ---- shrinking

func hasKey(ds []Diff, key string) *Diff {
	for i := range ds {
		if ds[i].Key() == key {
			return &ds[i]
		}
	}
	return nil
}

// removeKind removes the i-th user type of the base and renumbers the names of
// the later types of the same kind inside the decorations (O2 -> O1, o2 -> o1, ...).
func removeKind(sp Spec, i int) Spec {
	k := sp.Kinds[i]
	ord := 0
	for j := 0; j <= i; j++ {
		if sp.Kinds[j] == k {
			ord++
		}
	}
	total := strings.Count(sp.Kinds, string(k))
	out := Spec{Kinds: sp.Kinds[:i] + sp.Kinds[i+1:]}
	prefixes := []string{string(k), strings.ToLower(string(k))}
	switch k {
	case 'I':
		prefixes = append(prefixes, "key")
	case 'J':
		prefixes = append(prefixes, "P", "pid")
	}
	for _, d := range sp.Decos {
		nd := d
		for m := ord + 1; m <= total; m++ {
			for _, p := range prefixes {
				re := regexp.MustCompile(`\b` + p + fmt.Sprint(m) + `\b`)
				nd.Site = re.ReplaceAllString(nd.Site, p+fmt.Sprint(m-1))
				if nd.Op == "retarget" {
					nd.Var = re.ReplaceAllString(nd.Var, p+fmt.Sprint(m-1))
				}
			}
		}
		out.Decos = append(out.Decos, nd)
	}
	return out
}

// simplestVariants: per operation, the variants a shrunk case is rewritten to
// when the same difference persists (simplest first).
var simplestVariants = map[string][]string{
	"deprecate": {"noreason", "plain"},
	"depmix":    {"dd"},
	"describe":  {"plain"},
	"wrap":      {"T!", "[T]"},
	"addarg":    {"int", "int_1"},
	"directive": {"loc:FIELD", "rep"},
}

// applicableSpec drops the decorations that are not applicable (any more).
func applicableSpec(sp Spec) (Spec, *Schema) {
	s := BuildBase(sp.Kinds)
	out := Spec{Kinds: sp.Kinds}
	for _, d := range sp.Decos {
		if s.Apply(d) {
			out.Decos = append(out.Decos, d)
		}
	}
	return out, s
}

// shrink removes decorations and base types while the same (clause, site,
// class) difference persists.
func shrink(sp Spec, clause int, key string) (Spec, *Schema, *Diff) {
	mask := 1 << (clause - 1)
	if clause == 3 {
		mask |= 1
	}
	cur, curS := applicableSpec(sp)
	var curDiff *Diff
	if r := evaluate(curS.SDL(), curS.Normalize, mask); r.invalid == "" {
		curDiff = hasKey(r.diffs[clause], key)
	}
	if curDiff == nil {
		return cur, curS, nil
	}
	for changed := true; changed; {
		changed = false
		var cands []Spec
		for i := range cur.Decos {
			c := Spec{Kinds: cur.Kinds}
			c.Decos = append(append([]Deco(nil), cur.Decos[:i]...), cur.Decos[i+1:]...)
			cands = append(cands, c)
		}
		for i := range cur.Kinds {
			cands = append(cands, removeKind(cur, i))
		}
		for _, c := range cands {
			c2, s2 := applicableSpec(c)
			if len(c2.Kinds)+len(c2.Decos) >= len(cur.Kinds)+len(cur.Decos) {
				continue
			}
			r := evaluate(s2.SDL(), s2.Normalize, mask)
			if r.invalid != "" {
				continue
			}
			if d := hasKey(r.diffs[clause], key); d != nil {
				cur, curS, curDiff = c2, s2, d
				changed = true
				break
			}
		}
		if changed {
			continue
		}
		// nothing can be removed: try the simplest variant of each decoration
		cands = cands[:0]
		for i, d := range cur.Decos {
			for _, v := range simplestVariants[d.Op] {
				if v == d.Var {
					break
				}
				c := Spec{Kinds: cur.Kinds, Decos: append([]Deco(nil), cur.Decos...)}
				c.Decos[i].Var = v
				cands = append(cands, c)
			}
		}
		for _, c := range cands {
			c2, s2 := applicableSpec(c)
			if len(c2.Decos) != len(cur.Decos) {
				continue
			}
			r := evaluate(s2.SDL(), s2.Normalize, mask)
			if r.invalid != "" {
				continue
			}
			if d := hasKey(r.diffs[clause], key); d != nil {
				cur, curS, curDiff = c2, s2, d
				changed = true
				break
			}
		}
	}
	return cur, curS, curDiff
}

// ---- the check

type checker struct {
	run     *vk.Run
	shrunk  map[string]bool
	classes map[string]bool
	njSeen  map[string]bool
}

func (c *checker) evalSpec(sp Spec, withEngine bool) {
	run := c.run
	s, ok := Build(sp)
	if !ok {
		run.Count("decoration_not_applicable", 1)
		return
	}
	sdl := s.SDL()
	mask := 3
	if withEngine {
		mask = 7
	}
	res := evaluate(sdl, s.Normalize, mask)
	if res.invalid != "" {
		// the enumerator produced something the independent loader rejects: a
		// bug of the check's grammar, never a verdict
		run.Count("enumerated_schema_rejected_by_gqlparser", 1)
		run.Note("rejected by gqlparser (%s): %s", clip(res.invalid, 120), sp.String())
		if os.Getenv("VERIF_OUT") == "" {
			fmt.Printf("rejected by gqlparser (%s): %s\n%s\n", clip(res.invalid, 200), sp.String(), sdl)
		}
		return
	}
	run.Eval(1)
	run.Count("schemas_with_"+fmt.Sprint(len(sp.Decos))+"_decorations", 1)
	if s.Normalize {
		run.Count("schemas_with_extend_normalized_first", 1)
	}
	run.Outcome(string(res.genJSON))
	for k, v := range res.nj {
		run.Count(k, v)
	}
	for _, k := range sortedKeys(res.njEx) {
		if !c.njSeen[k] {
			c.njSeen[k] = true
			run.Note("not judged, %s: %s [%s]", k, res.njEx[k], sp.String())
		}
	}
	for k, v := range res.stats {
		run.Count(k, v)
	}
	for cl := 1; cl <= 3; cl++ {
		if cl == 3 && !withEngine {
			continue
		}
		ds := res.diffs[cl]
		if len(ds) == 0 {
			run.Count(fmt.Sprintf("clause%d_holds", cl), 1)
			continue
		}
		run.Count(fmt.Sprintf("clause%d_fails", cl), 1)
		seen := map[string]bool{}
		for _, d := range ds {
			k := d.Key()
			if seen[k] {
				continue
			}
			seen[k] = true
			c.report(sp, s, cl, d)
		}
	}
	cls := "plain"
	if len(sp.Decos) > 0 {
		cls = sp.Decos[0].Op
	}
	if !c.classes[cls] {
		c.classes[cls] = true
		run.Sample(cls, map[string]any{"spec": sp.String(), "sdl": sdl})
	}
}

func (c *checker) report(sp Spec, s *Schema, clause int, d Diff) {
	fpKey := fmt.Sprint(clause) + "|" + d.Key()
	v := vk.Violation{Clause: clauseNames[clause], Site: d.Site, Class: d.Class}
	if c.shrunk[fpKey] {
		// already shrunk and recorded in this shard: only counted
		c.run.Violate(v)
		return
	}
	c.shrunk[fpKey] = true
	msp, ms, md := shrink(sp, clause, d.Key())
	if md == nil { // not reproducible on re-evaluation: report the original
		msp, ms, md = sp, s, &d
		c.run.Count("shrink_not_reproduced", 1)
	}
	sdl := ms.SDL()
	v.Detail = fmt.Sprintf("%s\nschema (%s):\n%s", md.Detail, msp.String(), sdl)
	if md.Op != "" {
		v.Detail = "[" + md.Op + "] " + v.Detail
	}
	if clause == 2 {
		r := evaluate(sdl, ms.Normalize, 3)
		v.Detail += "\nconverted back:\n" + userPart(r.conv)
	}
	v.Input = caseInput{SDL: sdl, Normalize: ms.Normalize, Spec: &msp}
	c.run.Violate(v)
}

// userPart cuts the built-in definitions the repository prints after the user's.
func userPart(sdl string) string {
	if i := strings.Index(sdl, "\"The `Int` scalar type"); i >= 0 {
		return strings.TrimSpace(sdl[:i]) + "\n[... built-in scalars and directives ...]"
	}
	return sdl
}

func TestCheck(t *testing.T) {
	debug.SetGCPercent(400)
	selfTest(t)
	run := vk.Start("C17", "exploration")
	defer run.Finish()
	c := &checker{run: run, shrunk: map[string]bool{}, classes: map[string]bool{}, njSeen: map[string]bool{}}

	if run.Replay != "" {
		var in caseInput
		if err := run.ReplayInput(&in); err != nil {
			t.Fatalf("replay input: %v", err)
		}
		res := evaluate(in.SDL, in.Normalize, 7)
		if res.invalid != "" {
			t.Fatalf("replay: SDL rejected by gqlparser: %s", res.invalid)
		}
		run.Eval(1)
		for cl := 1; cl <= 3; cl++ {
			for _, d := range res.diffs[cl] {
				run.Violate(vk.Violation{Clause: clauseNames[cl], Site: d.Site, Class: d.Class, Detail: d.Detail + "\nschema:\n" + in.SDL, Input: in})
			}
		}
		return
	}

	// bounds: number of user types of the base, per clause group and per number of decorations
	maxSingle := vk.Pick(run, 3, 4)     // clauses 1+2, <= 1 decoration
	maxSingleEng := vk.Pick(run, 2, 3)  // clause 3, <= 1 decoration
	maxPair := vk.Pick(run, -1, 2)      // clauses 1+2, 2 decorations
	maxPairEng := vk.Pick(run, -1, 1)   // clause 3, 2 decorations
	run.Rule("every multiset of <= N user types over {object, enum, interface, input object, custom scalar, union, interface-implementing-interface} wired to a Query root by fixed rules (base family, in full), each with 0 and with every single decoration of the menu at every applicable site; thorough: additionally every unordered pair of decorations from the core sub-menu (all operations and sites; of the purely textual variant families - deprecation reasons, descriptions, wrappers, argument variants, directive variants - the representatives listed in coreVariants), the second enumerated on the schema produced by the first, so it may sit on a site the first created. N per clause group and decoration count is in bounds (clauses 1+2 are cheap, clause 3 costs 6 planned operations per schema). Decorations: 10 list/non-null wrappers (depth <= 3) and every named type at every field / argument / input field; 32 argument / input field / directive argument variants with default values of every kind (int, float, string with escapes, block strings, boolean, null, enum, lists, nested lists, input objects, lists of input objects, custom scalar literals); 7 @deprecated forms on fields, arguments, input fields, enum values, directive arguments; several deprecated siblings with pairwise different reasons in ONE container as a single decoration (enum values: every d/n pattern of length <= 4 with 2-3 deprecated values, i.e. every position among non-deprecated ones; own fields of a type, arguments of a field, input fields, directive arguments: every pattern of length <= 3 with >= 2 deprecated; reasons r1, the default reason, r3), judged per element like every deprecation; 5 description forms at every describable site incl. the schema; 30 directive definitions (every location, repeatable, arguments, applied uses); 8 root-operation layouts; extend (member / implements); unimplement; drop member; @specifiedBy; definition order. A distinct outcome is a distinct introspection document produced by the generator.")
	run.Assume(
		"github.com/vektah/gqlparser/v2 v2.5.30 (parser, schema validator, prelude) reads the SDL correctly; the reference introspection is computed from its ast.Schema by this check, not by repository code",
		"schemas containing `extend` are passed through the repository's own Schema.Normalize() before the engine / generator see them (the engine does not understand un-normalized extensions anywhere, e.g. operation validation rejects fields defined in an extension); the un-normalized form is not judged",
		"not judged (outside the property's list, counted under nj_*): description texts, specifiedByURL, the schema description, whitespace-only differences of a deprecation reason, order of list members, null versus [] for lists that do not apply to a kind, presence of introspection types (__Type ...) in __schema.types, presence of unreferenced built-in scalars, the engine's own directives @defer and @oneOf; built-in directives @skip/@include/@deprecated/@specifiedBy are compared with the signatures fixed by the specification",
		"a clause-2 / clause-3 difference that is literally the same difference already reported under clause 1 for the same schema is attributed to clause 1 only",
		"clause 3 operations per schema (6 planned + the history sequence): the full introspection query (TypeRef 7 levels) with includeDeprecated true everywhere / false-or-omitted everywhere; __type(name: \"T\") with the full type selection (TypeRef 5 levels), includeDeprecated true, for every user type; __type(name: \"T\") member name lists with includeDeprecated false for every user type (complete attributes under false are judged by the full query) plus the five built-in scalars and an unknown name; the member name lists with every type name and includeDeprecated given as operation variables, both values; history independence: on the same engine one fixed-shape __type(name:) operation for every user type name, String and an unknown name, ascending then descending with a __schema operation in between, once with inline literal names and once with the name as a variable (4*types+10 small operations, all but the first of each form served from the plan cache), each answer compared with the reference for that name",
	)
	run.Bound("max_user_types_clause12_single", maxSingle)
	run.Bound("max_user_types_clause3_single", maxSingleEng)
	run.Bound("max_user_types_clause12_pair", maxPair)
	run.Bound("max_user_types_clause3_pair", maxPairEng)
	run.Bound("max_decorations", vk.Pick(run, 1, 2))
	run.Bound("max_wrapper_depth", 3)
	run.Bound("fields_per_type_base", 2)
	run.Bound("wrapper_forms", len(wrapMenu))
	run.Bound("argument_variants", len(argMenu))
	run.Bound("deprecation_forms", len(deprecateMenu))
	run.Bound("deprecated_sibling_patterns_enum", depmixEnumPatterns)
	run.Bound("deprecated_sibling_patterns_other", depmixSiblingPatterns)
	run.Bound("description_forms", len(describeMenu))
	run.Bound("directive_definition_variants", len(directiveMenu))
	run.Bound("root_layouts", len(rootsMenu))
	run.Bound("pair_core_variants", coreVariants)

	// pass 1: every base with 0 and with every single decoration (simplest cases
	// first); pass 2 (thorough): every pair of core decorations. A unit of work
	// (what is dealt to a shard) is one base, one (base, decoration), or in pass 2
	// one (base, first decoration) with all its second decorations.
	unit := int64(0)
	bases := 0
outer:
	for pass := 1; pass <= 2; pass++ {
		top := maxSingle
		if pass == 2 {
			top = maxPair
		}
		for n := 0; n <= top; n++ {
			for _, kinds := range kindMultisets(n) {
				base := BuildBase(kinds)
				decos := ListDecos(base)
				if pass == 1 {
					bases++
					if run.Mine(unit) {
						c.evalSpec(Spec{Kinds: kinds}, n <= maxSingleEng)
					}
					unit++
					for _, d1 := range decos {
						mine := run.Mine(unit)
						unit++
						if !mine {
							continue
						}
						if run.Expired() {
							break outer
						}
						c.evalSpec(Spec{Kinds: kinds, Decos: []Deco{d1}}, n <= maxSingleEng)
					}
					continue
				}
				baseIdx := map[Deco]int{}
				for i, d := range decos {
					baseIdx[d] = i
				}
				for i, d1 := range decos {
					if !isCore(d1) {
						continue
					}
					mine := run.Mine(unit)
					unit++
					if !mine {
						continue
					}
					s1, ok := Build(Spec{Kinds: kinds, Decos: []Deco{d1}})
					if !ok {
						continue
					}
					for _, d2 := range CoreDecos(s1) {
						if j, inBase := baseIdx[d2]; inBase && j <= i {
							continue // the unordered pair is enumerated once
						}
						if conflict(base, d1, d2) {
							continue
						}
						if run.Expired() {
							break outer
						}
						c.evalSpec(Spec{Kinds: kinds, Decos: []Deco{d1, d2}}, n <= maxPairEng)
					}
				}
			}
		}
	}
	if run.Shard() == 0 {
		run.Count("base_schemas", int64(bases))
		run.Count("units", unit)
	}
}
