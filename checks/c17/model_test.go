package c17

// The introspection model both sides are mapped to, the INDEPENDENT reference
// (computed from the gqlparser-loaded schema, never from repository code), the
// strict decoder of introspection-shaped JSON (generator data and engine
// responses), and the diff that yields (site, class) pairs.

import (
	"fmt"
	"sort"
	"strconv"
	"strings"

	gast "github.com/vektah/gqlparser/v2/ast"
	gparser "github.com/vektah/gqlparser/v2/parser"
	"github.com/vektah/gqlparser/v2/validator"
)

type MRef struct {
	S    string // printed type reference, e.g. [Int!]
	Leaf string // kind of the named type
}

type MInput struct {
	Name, Desc string
	Type       MRef
	HasDefault bool
	Default    string // canonical form of the default value (see canonValue); for decoded JSON: canonical form of the parsed string
	DefaultRaw string
	DefaultBad string // non-empty: the defaultValue string is not a GraphQL value
	Dep        bool
	Reason     *string
}

type MField struct {
	Name, Desc string
	Args       []MInput
	Type       MRef
	Dep        bool
	Reason     *string
}

type MEnum struct {
	Name, Desc string
	Dep        bool
	Reason     *string
}

type MType struct {
	Kind, Name, Desc string
	Fields           []MField // nil: not applicable
	Inputs           []MInput
	Interfaces       []string
	Possible         []string
	Enums            []MEnum
	SpecifiedBy      *string
	HasFields        bool // applicability per kind
	HasInputs        bool
	HasInterfaces    bool
	HasPossible      bool
	HasEnums         bool
}

type MDir struct {
	Name, Desc string
	Locs       []string
	Args       []MInput
	Rep        bool
}

type Model struct {
	Query, Mutation, Subscr string
	Desc                    *string
	Types                   map[string]*MType
	TypeOrder               []string
	Dirs                    map[string]*MDir
	DirOrder                []string
}

// ---- built-ins: what the spec fixes

var builtinScalarSet = map[string]bool{"Int": true, "Float": true, "String": true, "Boolean": true, "ID": true}

// directives whose definition the spec fixes (October 2021, section 3.13)
var specDirectives = map[string]struct {
	Locs []string
	Args [][3]string // name, printed type, canonical default ("" = none)
}{
	"skip":        {[]string{"FIELD", "FRAGMENT_SPREAD", "INLINE_FRAGMENT"}, [][3]string{{"if", "Boolean!", ""}}},
	"include":     {[]string{"FIELD", "FRAGMENT_SPREAD", "INLINE_FRAGMENT"}, [][3]string{{"if", "Boolean!", ""}}},
	"deprecated":  {[]string{"FIELD_DEFINITION", "ARGUMENT_DEFINITION", "INPUT_FIELD_DEFINITION", "ENUM_VALUE"}, [][3]string{{"reason", "String|String!", `s:No longer supported`}}},
	"specifiedBy": {[]string{"SCALAR"}, [][3]string{{"url", "String!", ""}}},
}

// directives the engine adds on its own (base schema); tolerated, not judged
var engineDirectives = map[string]bool{"defer": true, "oneOf": true}

func isIntrospectionName(n string) bool { return strings.HasPrefix(n, "__") }

// ---- canonical GraphQL values

func canonValue(v *gast.Value) string {
	if v == nil {
		return "<none>"
	}
	switch v.Kind {
	case gast.IntValue:
		return "i:" + v.Raw
	case gast.FloatValue:
		if f, err := strconv.ParseFloat(v.Raw, 64); err == nil {
			return "f:" + strconv.FormatFloat(f, 'g', -1, 64)
		}
		return "f:" + v.Raw
	case gast.BlockValue:
		// see parseValueString: the block string is read by the specification's
		// algorithm from its token text when that is available
		if p := v.Position; p != nil && p.Src != nil && p.Start >= 0 && p.Start < p.End {
			t := ""
			if r := []rune(p.Src.Input); p.End <= len(r) { // positions are in runes
				t = strings.TrimSpace(string(r[p.Start:p.End]))
			}
			if len(t) >= 6 && strings.HasPrefix(t, `"""`) && strings.HasSuffix(t, `"""`) {
				return "s:" + specBlockStringValue(strings.ReplaceAll(t[3:len(t)-3], `\"""`, `"""`))
			}
		}
		return "s:" + v.Raw
	case gast.StringValue:
		return "s:" + v.Raw
	case gast.BooleanValue:
		return "b:" + v.Raw
	case gast.NullValue:
		return "null"
	case gast.EnumValue:
		return "e:" + v.Raw
	case gast.Variable:
		return "$" + v.Raw
	case gast.ListValue:
		parts := make([]string, len(v.Children))
		for i, c := range v.Children {
			parts[i] = canonValue(c.Value)
		}
		return "[" + strings.Join(parts, ",") + "]"
	case gast.ObjectValue:
		parts := make([]string, len(v.Children))
		for i, c := range v.Children {
			parts[i] = strconv.Quote(c.Name) + ":" + canonValue(c.Value)
		}
		sort.Strings(parts)
		return "{" + strings.Join(parts, ",") + "}"
	}
	return "?"
}

func valueKindName(canon string) string {
	switch {
	case strings.HasPrefix(canon, "i:"):
		return "int"
	case strings.HasPrefix(canon, "f:"):
		return "float"
	case strings.HasPrefix(canon, "s:"):
		return "string"
	case strings.HasPrefix(canon, "b:"):
		return "boolean"
	case strings.HasPrefix(canon, "e:"):
		return "enum"
	case canon == "null":
		return "null"
	case strings.HasPrefix(canon, "["):
		return "list"
	case strings.HasPrefix(canon, "{"):
		return "object"
	}
	return "none"
}

// parseValueString parses the text of an introspection defaultValue with the
// independent parser.
func parseValueString(s string) (canon string, err error) {
	defer func() {
		if r := recover(); r != nil {
			err = fmt.Errorf("parser panic: %v", r)
		}
	}()
	doc, perr := gparser.ParseQuery(&gast.Source{Input: "{f(a: " + s + "\n)}"})
	if perr != nil {
		return "", perr
	}
	if len(doc.Operations) != 1 || len(doc.Operations[0].SelectionSet) != 1 {
		return "", fmt.Errorf("not a single value")
	}
	f, ok := doc.Operations[0].SelectionSet[0].(*gast.Field)
	if !ok || len(f.Arguments) != 1 || f.Arguments[0].Name != "a" {
		return "", fmt.Errorf("not a single value")
	}
	v := f.Arguments[0].Value
	if v.Kind == gast.BlockValue {
		// gqlparser v2.5.30 lets the first line take part in the common
		// indentation (the specification excludes it); a block string whose
		// first line has content and whose later lines are indented is read by
		// the specification's BlockStringValue() here instead.
		t := strings.TrimSpace(s)
		if len(t) >= 6 && strings.HasPrefix(t, `"""`) && strings.HasSuffix(t, `"""`) {
			return "s:" + specBlockStringValue(strings.ReplaceAll(t[3:len(t)-3], `\"""`, `"""`)), nil
		}
	}
	return canonValue(v), nil
}

// specBlockStringValue implements BlockStringValue() of the October 2021 specification.
func specBlockStringValue(raw string) string {
	lines := strings.Split(strings.ReplaceAll(strings.ReplaceAll(raw, "\r\n", "\n"), "\r", "\n"), "\n")
	indentOf := func(l string) (int, bool) {
		for i, r := range l {
			if r != ' ' && r != '\t' {
				return i, true
			}
		}
		return 0, false // whitespace only
	}
	common := -1
	for i, l := range lines {
		if i == 0 {
			continue
		}
		if n, ok := indentOf(l); ok && (common < 0 || n < common) {
			common = n
		}
	}
	if common > 0 {
		for i := 1; i < len(lines); i++ {
			if len(lines[i]) >= common {
				lines[i] = lines[i][common:]
			} else {
				lines[i] = ""
			}
		}
	}
	for len(lines) > 0 {
		if _, ok := indentOf(lines[0]); ok {
			break
		}
		lines = lines[1:]
	}
	for len(lines) > 0 {
		if _, ok := indentOf(lines[len(lines)-1]); ok {
			break
		}
		lines = lines[:len(lines)-1]
	}
	return strings.Join(lines, "\n")
}

// ---- reference model from gqlparser

type loaded struct {
	schema *gast.Schema
	doc    *gast.SchemaDocument
}

// loadSDL loads user SDL with gqlparser (prelude + validation). When
// stripBuiltins is set, definitions of built-in scalars and built-in directives
// found in the SDL are removed first ("built-ins aside": the repository prints
// them, gqlparser brings its own).
func loadSDL(sdl string, stripBuiltins bool) (s *gast.Schema, err error) {
	defer func() {
		if r := recover(); r != nil {
			err = fmt.Errorf("gqlparser panic: %v", r)
		}
	}()
	doc, perr := gparser.ParseSchema(&gast.Source{Name: "s.graphql", Input: sdl})
	if perr != nil {
		return nil, perr
	}
	if stripBuiltins {
		defs := doc.Definitions[:0]
		for _, d := range doc.Definitions {
			if d.Kind == gast.Scalar && builtinScalarSet[d.Name] {
				continue
			}
			defs = append(defs, d)
		}
		doc.Definitions = defs
		dirs := doc.Directives[:0]
		for _, d := range doc.Directives {
			if _, ok := specDirectives[d.Name]; ok || engineDirectives[d.Name] {
				continue
			}
			dirs = append(dirs, d)
		}
		doc.Directives = dirs
	}
	pre, perr := gparser.ParseSchema(validator.Prelude)
	if perr != nil {
		return nil, perr
	}
	pre.Merge(doc)
	sch, verr := validator.ValidateSchemaDocument(pre)
	if verr != nil {
		return nil, verr
	}
	return sch, nil
}

func refOf(s *gast.Schema, t *gast.Type) MRef {
	leaf := ""
	if d := s.Types[t.Name()]; d != nil {
		leaf = string(d.Kind)
	}
	return MRef{S: t.String(), Leaf: leaf}
}

func deprecationOf(dl gast.DirectiveList) (bool, *string) {
	d := dl.ForName("deprecated")
	if d == nil {
		return false, nil
	}
	reason := "No longer supported"
	if a := d.Arguments.ForName("reason"); a != nil && a.Value != nil {
		if a.Value.Kind == gast.NullValue {
			return true, nil
		}
		reason = a.Value.Raw
	}
	return true, &reason
}

func inputOf(s *gast.Schema, name, desc string, t *gast.Type, def *gast.Value, dl gast.DirectiveList) MInput {
	in := MInput{Name: name, Desc: desc, Type: refOf(s, t)}
	if def != nil {
		in.HasDefault = true
		in.Default = canonValue(def)
		in.DefaultRaw = def.String()
	}
	in.Dep, in.Reason = deprecationOf(dl)
	return in
}

// ReferenceModel computes the introspection of a gqlparser schema on its own.
func ReferenceModel(s *gast.Schema) *Model {
	m := &Model{Types: map[string]*MType{}, Dirs: map[string]*MDir{}}
	if s.Query != nil {
		m.Query = s.Query.Name
	}
	if s.Mutation != nil {
		m.Mutation = s.Mutation.Name
	}
	if s.Subscription != nil {
		m.Subscr = s.Subscription.Name
	}
	if s.Description != "" {
		d := s.Description
		m.Desc = &d
	}
	names := sortedKeys(s.Types)
	for _, n := range names {
		d := s.Types[n]
		t := &MType{Kind: string(d.Kind), Name: d.Name, Desc: d.Description}
		switch d.Kind {
		case gast.Object, gast.Interface:
			t.HasFields, t.HasInterfaces = true, true
			t.Fields = []MField{}
			for _, f := range d.Fields {
				if isIntrospectionName(f.Name) {
					continue
				}
				mf := MField{Name: f.Name, Desc: f.Description, Type: refOf(s, f.Type), Args: []MInput{}}
				for _, a := range f.Arguments {
					mf.Args = append(mf.Args, inputOf(s, a.Name, a.Description, a.Type, a.DefaultValue, a.Directives))
				}
				mf.Dep, mf.Reason = deprecationOf(f.Directives)
				t.Fields = append(t.Fields, mf)
			}
			t.Interfaces = append([]string{}, d.Interfaces...)
			if d.Kind == gast.Interface {
				t.HasPossible = true
				t.Possible = []string{}
				for _, on := range names {
					o := s.Types[on]
					if o.Kind == gast.Object && inList(o.Interfaces, d.Name) {
						t.Possible = append(t.Possible, o.Name)
					}
				}
			}
		case gast.Union:
			t.HasPossible = true
			t.Possible = append([]string{}, d.Types...)
		case gast.Enum:
			t.HasEnums = true
			t.Enums = []MEnum{}
			for _, v := range d.EnumValues {
				e := MEnum{Name: v.Name, Desc: v.Description}
				e.Dep, e.Reason = deprecationOf(v.Directives)
				t.Enums = append(t.Enums, e)
			}
		case gast.InputObject:
			t.HasInputs = true
			t.Inputs = []MInput{}
			for _, f := range d.Fields {
				t.Inputs = append(t.Inputs, inputOf(s, f.Name, f.Description, f.Type, f.DefaultValue, f.Directives))
			}
		case gast.Scalar:
			if sb := d.Directives.ForName("specifiedBy"); sb != nil {
				if a := sb.Arguments.ForName("url"); a != nil && a.Value != nil {
					u := a.Value.Raw
					t.SpecifiedBy = &u
				}
			}
		}
		m.Types[n] = t
		m.TypeOrder = append(m.TypeOrder, n)
	}
	for _, n := range sortedKeys(s.Directives) {
		d := s.Directives[n]
		md := &MDir{Name: d.Name, Desc: d.Description, Rep: d.IsRepeatable, Args: []MInput{}}
		for _, l := range d.Locations {
			md.Locs = append(md.Locs, string(l))
		}
		for _, a := range d.Arguments {
			md.Args = append(md.Args, inputOf(s, a.Name, a.Description, a.Type, a.DefaultValue, a.Directives))
		}
		m.Dirs[n] = md
		m.DirOrder = append(m.DirOrder, n)
	}
	return m
}

// referencedBuiltinScalars: built-in scalars used by a field, argument or input
// field of the user schema (these must be listed, spec section 3.5).
func referencedBuiltinScalars(m *Model) map[string]bool {
	out := map[string]bool{}
	note := func(r MRef) {
		n := strings.Trim(r.S, "[]!")
		if builtinScalarSet[n] {
			out[n] = true
		}
	}
	for _, t := range m.Types {
		if isIntrospectionName(t.Name) {
			continue
		}
		for _, f := range t.Fields {
			note(f.Type)
			for _, a := range f.Args {
				note(a.Type)
			}
		}
		for _, a := range t.Inputs {
			note(a.Type)
		}
	}
	for n, d := range m.Dirs {
		if _, ok := specDirectives[n]; ok || engineDirectives[n] {
			continue
		}
		for _, a := range d.Args {
			note(a.Type)
		}
	}
	return out
}

// withoutDeprecated: the model as introspection must show it when
// includeDeprecated is false at every site.
func withoutDeprecated(m *Model) *Model {
	c := *m
	c.Types = map[string]*MType{}
	for n, t := range m.Types {
		c.Types[n] = typeWithoutDeprecated(t)
	}
	c.Dirs = map[string]*MDir{}
	for n, d := range m.Dirs {
		dc := *d
		dc.Args = filterInputs(d.Args)
		c.Dirs[n] = &dc
	}
	return &c
}

func filterInputs(in []MInput) []MInput {
	if in == nil {
		return nil
	}
	out := []MInput{}
	for _, a := range in {
		if !a.Dep {
			out = append(out, a)
		}
	}
	return out
}

func typeWithoutDeprecated(t *MType) *MType {
	tc := *t
	if t.Fields != nil {
		tc.Fields = []MField{}
		for _, f := range t.Fields {
			if f.Dep {
				continue
			}
			fc := f
			fc.Args = filterInputs(f.Args)
			tc.Fields = append(tc.Fields, fc)
		}
	}
	tc.Inputs = filterInputs(t.Inputs)
	if t.Enums != nil {
		tc.Enums = []MEnum{}
		for _, e := range t.Enums {
			if !e.Dep {
				tc.Enums = append(tc.Enums, e)
			}
		}
	}
	return &tc
}

// ---- strict decoding of introspection-shaped JSON

type decoder struct {
	strict bool // every selected key must be present (engine responses)
	diffs  []Diff
}

func (d *decoder) bad(site, format string, a ...any) {
	d.diffs = append(d.diffs, Diff{Site: site, Class: "malformed", Detail: fmt.Sprintf(format, a...)})
}

func jsonKind(v any) string {
	switch v.(type) {
	case nil:
		return "null"
	case string:
		return "string"
	case bool:
		return "boolean"
	case float64:
		return "number"
	case []any:
		return "list"
	case map[string]any:
		return "object"
	}
	return fmt.Sprintf("%T", v)
}

func (d *decoder) get(o map[string]any, site, key string) (any, bool) {
	v, ok := o[key]
	if !ok {
		if d.strict {
			d.bad(site+"."+key, "key %q is absent", key)
		}
		return nil, false
	}
	return v, true
}

func (d *decoder) str(o map[string]any, site, key string) string {
	v, ok := d.get(o, site, key)
	if !ok {
		return ""
	}
	s, ok := v.(string)
	if !ok {
		d.bad(site+"."+key, "expected a string, got %s", jsonKind(v))
	}
	return s
}

func (d *decoder) optStr(o map[string]any, site, key string) *string {
	v, ok := d.get(o, site, key)
	if !ok || v == nil {
		return nil
	}
	s, ok := v.(string)
	if !ok {
		d.bad(site+"."+key, "expected a string or null, got %s", jsonKind(v))
		return nil
	}
	return &s
}

func (d *decoder) boolean(o map[string]any, site, key string) bool {
	v, ok := d.get(o, site, key)
	if !ok {
		return false
	}
	b, ok := v.(bool)
	if !ok {
		d.bad(site+"."+key, "expected a boolean, got %s", jsonKind(v))
	}
	return b
}

// list: null / absent -> nil,false
func (d *decoder) list(o map[string]any, site, key string) ([]any, bool) {
	v, ok := d.get(o, site, key)
	if !ok || v == nil {
		return nil, false
	}
	l, ok := v.([]any)
	if !ok {
		d.bad(site+"."+key, "expected a list or null, got %s", jsonKind(v))
		return nil, false
	}
	return l, true
}

func (d *decoder) obj(v any, site string) (map[string]any, bool) {
	o, ok := v.(map[string]any)
	if !ok {
		d.bad(site, "expected an object, got %s", jsonKind(v))
	}
	return o, ok
}

func (d *decoder) typeRef(v any, site string, depth int) MRef {
	o, ok := d.obj(v, site)
	if !ok {
		return MRef{S: "<malformed>"}
	}
	kind := d.str(o, site, "kind")
	name := d.optStr(o, site, "name")
	of, hasOf := o["ofType"]
	switch kind {
	case "LIST", "NON_NULL":
		if name != nil {
			d.bad(site+".name", "wrapper type %s has a name %q", kind, *name)
		}
		if !hasOf || of == nil {
			d.bad(site+".ofType", "wrapper type %s has no ofType (depth %d)", kind, depth)
			return MRef{S: "<malformed>"}
		}
		in := d.typeRef(of, site, depth+1)
		if kind == "LIST" {
			return MRef{S: "[" + in.S + "]", Leaf: in.Leaf}
		}
		if strings.HasSuffix(in.S, "!") {
			d.bad(site, "NON_NULL wraps NON_NULL")
		}
		return MRef{S: in.S + "!", Leaf: in.Leaf}
	default:
		if name == nil {
			d.bad(site+".name", "named type reference of kind %q has no name", kind)
			return MRef{S: "<malformed>", Leaf: kind}
		}
		if hasOf && of != nil {
			d.bad(site+".ofType", "named type has ofType")
		}
		return MRef{S: *name, Leaf: kind}
	}
}

func (d *decoder) namedRefs(l []any, site string) []string {
	out := []string{}
	for _, e := range l {
		r := d.typeRef(e, site, 0)
		out = append(out, r.S)
	}
	return out
}

func (d *decoder) input(v any, site string) MInput {
	o, ok := d.obj(v, site)
	if !ok {
		return MInput{}
	}
	in := MInput{Name: d.str(o, site, "name"), Desc: d.descr(o, site)}
	if tv, ok := d.get(o, site, "type"); ok {
		in.Type = d.typeRef(tv, site+".type", 0)
	}
	if dv := d.optStr(o, site, "defaultValue"); dv != nil {
		in.HasDefault = true
		in.DefaultRaw = *dv
		c, err := parseValueString(*dv)
		if err != nil {
			in.DefaultBad = err.Error()
		}
		in.Default = c
	}
	in.Dep = d.boolean(o, site, "isDeprecated")
	in.Reason = d.optStr(o, site, "deprecationReason")
	return in
}

func (d *decoder) descr(o map[string]any, site string) string {
	if p := d.optStr(o, site, "description"); p != nil {
		return *p
	}
	return ""
}

func (d *decoder) inputs(l []any, site string) []MInput {
	out := []MInput{}
	for _, e := range l {
		out = append(out, d.input(e, site))
	}
	return out
}

func (d *decoder) fullType(v any) *MType {
	site := "__Type"
	o, ok := d.obj(v, site)
	if !ok {
		return nil
	}
	t := &MType{Kind: d.str(o, site, "kind")}
	if n := d.optStr(o, site, "name"); n != nil {
		t.Name = *n
	} else {
		d.bad(site+".name", "type of kind %s without a name", t.Kind)
	}
	site = "__Type(" + t.Kind + ")"
	t.Desc = d.descr(o, site)
	t.SpecifiedBy = d.optStr(o, site, "specifiedByURL")
	if l, ok := d.list(o, site, "fields"); ok {
		t.Fields = []MField{}
		for _, e := range l {
			fo, ok := d.obj(e, "__Field")
			if !ok {
				continue
			}
			f := MField{Name: d.str(fo, "__Field", "name"), Desc: d.descr(fo, "__Field"), Args: []MInput{}}
			if al, ok := d.list(fo, "__Field", "args"); ok {
				f.Args = d.inputs(al, "__InputValue")
			} else if d.strict {
				d.bad("__Field.args", "args is null")
			}
			if tv, ok := d.get(fo, "__Field", "type"); ok {
				f.Type = d.typeRef(tv, "__Field.type", 0)
			}
			f.Dep = d.boolean(fo, "__Field", "isDeprecated")
			f.Reason = d.optStr(fo, "__Field", "deprecationReason")
			t.Fields = append(t.Fields, f)
		}
	}
	if l, ok := d.list(o, site, "inputFields"); ok {
		t.Inputs = d.inputs(l, "__InputValue")
	}
	if l, ok := d.list(o, site, "interfaces"); ok {
		t.Interfaces = d.namedRefs(l, site+".interfaces")
	}
	if l, ok := d.list(o, site, "possibleTypes"); ok {
		t.Possible = d.namedRefs(l, site+".possibleTypes")
	}
	if l, ok := d.list(o, site, "enumValues"); ok {
		t.Enums = []MEnum{}
		for _, e := range l {
			eo, ok := d.obj(e, "__EnumValue")
			if !ok {
				continue
			}
			t.Enums = append(t.Enums, MEnum{Name: d.str(eo, "__EnumValue", "name"), Desc: d.descr(eo, "__EnumValue"),
				Dep: d.boolean(eo, "__EnumValue", "isDeprecated"), Reason: d.optStr(eo, "__EnumValue", "deprecationReason")})
		}
	}
	return t
}

func (d *decoder) rootName(o map[string]any, key string) string {
	v, ok := d.get(o, "__Schema", key)
	if !ok || v == nil {
		return ""
	}
	ro, ok := d.obj(v, "__Schema."+key)
	if !ok {
		return ""
	}
	if n := d.optStr(ro, "__Schema."+key, "name"); n != nil {
		return *n
	}
	return ""
}

// schemaModel decodes the value of __schema.
func (d *decoder) schemaModel(v any) *Model {
	m := &Model{Types: map[string]*MType{}, Dirs: map[string]*MDir{}}
	o, ok := d.obj(v, "__Schema")
	if !ok {
		return m
	}
	m.Query = d.rootName(o, "queryType")
	m.Mutation = d.rootName(o, "mutationType")
	m.Subscr = d.rootName(o, "subscriptionType")
	m.Desc = d.optStr(o, "__Schema", "description")
	if l, ok := d.list(o, "__Schema", "types"); ok {
		for _, e := range l {
			t := d.fullType(e)
			if t == nil {
				continue
			}
			if _, dup := m.Types[t.Name]; dup {
				d.diffs = append(d.diffs, Diff{Site: "__Schema.types", Class: "duplicate", Detail: "type " + t.Name + " is listed twice"})
				continue
			}
			m.Types[t.Name] = t
			m.TypeOrder = append(m.TypeOrder, t.Name)
		}
	} else {
		d.bad("__Schema.types", "types is null or absent")
	}
	if l, ok := d.list(o, "__Schema", "directives"); ok {
		for _, e := range l {
			do, ok := d.obj(e, "__Directive")
			if !ok {
				continue
			}
			md := &MDir{Name: d.str(do, "__Directive", "name"), Desc: d.descr(do, "__Directive"), Rep: d.boolean(do, "__Directive", "isRepeatable"), Args: []MInput{}}
			if ll, ok := d.list(do, "__Directive", "locations"); ok {
				for _, x := range ll {
					s, ok := x.(string)
					if !ok {
						d.bad("__Directive.locations", "expected a string, got %s", jsonKind(x))
					}
					md.Locs = append(md.Locs, s)
				}
			}
			if al, ok := d.list(do, "__Directive", "args"); ok {
				md.Args = d.inputs(al, "__InputValue")
			}
			if _, dup := m.Dirs[md.Name]; dup {
				d.diffs = append(d.diffs, Diff{Site: "__Schema.directives", Class: "duplicate", Detail: "directive " + md.Name + " is listed twice"})
				continue
			}
			m.Dirs[md.Name] = md
			m.DirOrder = append(m.DirOrder, md.Name)
		}
	} else {
		d.bad("__Schema.directives", "directives is null or absent")
	}
	return m
}

// ---- diff

type Diff struct {
	Site   string // introspection object type + attribute, e.g. __Type(INTERFACE).interfaces
	Class  string // missing | invented | differs ... (structural class of the difference)
	Detail string
	Op     string // clause 3: which operation showed it (not part of any key)
	Subj   string // identity of the difference for "same difference under another clause" (default: Detail)
}

func (d Diff) Same() string {
	if d.Subj != "" {
		return d.Subj
	}
	return d.Detail
}

func (d Diff) Key() string { return d.Site + " | " + d.Class }

type differ struct {
	diffs []Diff
	nj    map[string]int64  // not-judged observations
	njEx  map[string]string // one example per not-judged observation
}

func (x *differ) noteEx(k, format string, a ...any) {
	x.note(k)
	if x.njEx == nil {
		x.njEx = map[string]string{}
	}
	if _, ok := x.njEx[k]; !ok {
		x.njEx[k] = fmt.Sprintf(format, a...)
	}
}

func (x *differ) add(site, class, format string, a ...any) {
	x.diffs = append(x.diffs, Diff{Site: site, Class: class, Detail: fmt.Sprintf(format, a...)})
}

func (x *differ) note(k string) {
	if x.nj == nil {
		x.nj = map[string]int64{}
	}
	x.nj[k]++
}

func pstr(p *string) string {
	if p == nil {
		return "null"
	}
	return strconv.Quote(*p)
}

// classifyString: how a string differs from the expected one
func classifyString(exp, got string) string {
	if u, err := strconv.Unquote(`"` + strings.ReplaceAll(got, "\n", `\n`) + `"`); err == nil && u == exp && got != exp {
		return "escape sequences left undecoded"
	}
	if strings.Join(strings.Fields(exp), " ") == strings.Join(strings.Fields(got), " ") {
		return "whitespace differs (indentation of a block string)"
	}
	return "text differs"
}

func (x *differ) deprecation(site, where string, eDep bool, eReason *string, gDep bool, gReason *string) {
	if eDep != gDep {
		if eDep {
			x.add(site+".isDeprecated", "true expected, false reported (deprecation lost)", "%s: isDeprecated expected true, got false", where)
		} else {
			x.add(site+".isDeprecated", "false expected, true reported (deprecation invented)", "%s: isDeprecated expected false, got true", where)
		}
		return
	}
	switch {
	case eReason == nil && gReason == nil:
	case eReason == nil:
		if eDep {
			x.add(site+".deprecationReason", "reason invented", "%s: deprecationReason expected null, got %s", where, pstr(gReason))
		} else {
			x.add(site+".deprecationReason", "reason on a non-deprecated element", "%s: deprecationReason expected null, got %s", where, pstr(gReason))
		}
	case gReason == nil:
		x.add(site+".deprecationReason", "reason lost", "%s: deprecationReason expected %s, got null", where, pstr(eReason))
	case *eReason != *gReason:
		cls := classifyString(*eReason, *gReason)
		if strings.HasPrefix(cls, "whitespace") {
			// the exact whitespace of a (block string) reason is outside the property's sentence
			x.noteEx("nj_deprecation_reason_whitespace_differs", "%s: deprecationReason expected %s, got %s", where, pstr(eReason), pstr(gReason))
			return
		}
		x.add(site+".deprecationReason", cls, "%s: deprecationReason expected %s, got %s", where, pstr(eReason), pstr(gReason))
	}
}

func (x *differ) description(where, exp, got string) {
	if exp != got {
		if strings.TrimSpace(exp) == strings.TrimSpace(got) || strings.Join(strings.Fields(exp), " ") == strings.Join(strings.Fields(got), " ") {
			x.noteEx("nj_description_whitespace_differs", "%s: description expected %q, got %q", where, exp, got)
		} else if got == "" {
			x.noteEx("nj_description_lost", "%s: description expected %q, got none", where, exp)
		} else {
			x.noteEx("nj_description_text_differs", "%s: description expected %q, got %q", where, exp, got)
		}
	}
}

func (x *differ) ref(site, where string, e, g MRef) {
	if e.S != g.S {
		x.add(site, "type reference differs", "%s: type expected %s, got %s", where, e.S, g.S)
		return
	}
	if e.Leaf != g.Leaf {
		x.add(site, "kind of the named type differs", "%s: named type of %s expected kind %s, got %q", where, e.S, e.Leaf, g.Leaf)
	}
}

func names[T any](l []T, f func(T) string) []string {
	out := make([]string, len(l))
	for i := range l {
		out[i] = f(l[i])
	}
	return out
}

func sameSet(a, b []string) bool {
	if len(a) != len(b) {
		return false
	}
	as, bs := append([]string(nil), a...), append([]string(nil), b...)
	sort.Strings(as)
	sort.Strings(bs)
	for i := range as {
		if as[i] != bs[i] {
			return false
		}
	}
	return true
}

func (x *differ) orderNote(a, b []string, what string) {
	if sameSet(a, b) && strings.Join(a, ",") != strings.Join(b, ",") {
		x.note("nj_order_differs_" + what)
	}
}

// nameSets reports missing / invented names of a keyed list.
func (x *differ) nameSets(site, where string, exp, got []string) {
	gs := map[string]int{}
	for _, n := range got {
		gs[n]++
	}
	es := map[string]bool{}
	for _, n := range exp {
		es[n] = true
		if gs[n] == 0 {
			x.add(site, "missing", "%s: %s is missing (expected %v, got %v)", where, n, exp, got)
		}
	}
	for _, n := range got {
		if !es[n] {
			x.add(site, "invented", "%s: %s is not in the schema (expected %v, got %v)", where, n, exp, got)
		} else if gs[n] > 1 {
			x.add(site, "duplicate", "%s: %s is listed %d times", where, n, gs[n])
			gs[n] = 1
		}
	}
}

func (x *differ) inputs(ctx, where string, exp, got []MInput) {
	site := "__InputValue"
	en := names(exp, func(i MInput) string { return i.Name })
	gn := names(got, func(i MInput) string { return i.Name })
	x.nameSets(site+"("+ctx+")", where, en, gn)
	x.orderNote(en, gn, ctx)
	for _, e := range exp {
		for _, g := range got {
			if g.Name != e.Name {
				continue
			}
			w := where + " " + ctx + " " + e.Name
			x.description(w, e.Desc, g.Desc)
			x.ref(site+".type", w, e.Type, g.Type)
			switch {
			case g.DefaultBad != "":
				x.add(site+".defaultValue", "not a GraphQL value", "%s: defaultValue %q does not parse as a GraphQL value (%s); expected %s", w, g.DefaultRaw, g.DefaultBad, e.DefaultRaw)
			case e.HasDefault && !g.HasDefault:
				x.add(site+".defaultValue", "missing ("+valueKindName(e.Default)+")", "%s: defaultValue expected %s, got null", w, e.DefaultRaw)
			case !e.HasDefault && g.HasDefault:
				x.add(site+".defaultValue", "invented", "%s: defaultValue expected null, got %q", w, g.DefaultRaw)
			case e.HasDefault && e.Default != g.Default:
				cls := "value differs (" + valueKindName(e.Default) + ")"
				if strings.HasPrefix(e.Default, "s:") && strings.HasPrefix(g.Default, "s:") {
					cls = "string value differs: " + classifyString(e.Default[2:], g.Default[2:])
				}
				x.add(site+".defaultValue", cls, "%s: defaultValue expected %s, got %q (as values: %q vs %q)", w, e.DefaultRaw, g.DefaultRaw, e.Default, g.Default)
				x.diffs[len(x.diffs)-1].Subj = w + " default " + g.Default
			}
			x.deprecation(site, w, e.Dep, e.Reason, g.Dep, g.Reason)
			break
		}
	}
}

func optList(applicable bool, l []string) []string {
	if !applicable || l == nil {
		return []string{}
	}
	return l
}

// typ compares one type. exp == nil means "no such type".
func (x *differ) typ(e, g *MType) {
	site := "__Type(" + e.Kind + ")"
	where := "type " + e.Name
	if e.Kind != g.Kind {
		x.add("__Type.kind", "kind differs", "%s: kind expected %s, got %s", where, e.Kind, g.Kind)
		return
	}
	if e.Name != g.Name {
		x.add("__Type.name", "name differs", "%s: name expected %s, got %s", where, e.Name, g.Name)
	}
	x.description(where, e.Desc, g.Desc)
	if (e.SpecifiedBy == nil) != (g.SpecifiedBy == nil) || (e.SpecifiedBy != nil && *e.SpecifiedBy != *g.SpecifiedBy) {
		x.noteEx("nj_specifiedByURL_differs", "%s: specifiedByURL expected %s, got %s", where, pstr(e.SpecifiedBy), pstr(g.SpecifiedBy))
	}
	// fields
	ef, gf := e.Fields, g.Fields
	if (g.Fields == nil) != (e.Fields == nil) && len(ef) == 0 && len(gf) == 0 {
		x.note("nj_null_vs_empty_list")
	}
	en := names(ef, func(f MField) string { return f.Name })
	gn := names(gf, func(f MField) string { return f.Name })
	x.nameSets(site+".fields", where, en, gn)
	x.orderNote(en, gn, "fields")
	for _, f := range ef {
		for _, h := range gf {
			if h.Name != f.Name {
				continue
			}
			w := where + " field " + f.Name
			x.description(w, f.Desc, h.Desc)
			x.ref("__Field.type", w, f.Type, h.Type)
			x.inputs("args", w, f.Args, h.Args)
			x.deprecation("__Field", w, f.Dep, f.Reason, h.Dep, h.Reason)
			break
		}
	}
	// input fields
	if (g.Inputs == nil) != (e.Inputs == nil) && len(e.Inputs) == 0 && len(g.Inputs) == 0 {
		x.note("nj_null_vs_empty_list")
	}
	if e.HasInputs || len(g.Inputs) > 0 {
		x.inputs("inputFields", where, e.Inputs, g.Inputs)
	}
	// interfaces, possible types
	ei, gi := optList(e.HasInterfaces, e.Interfaces), optList(true, g.Interfaces)
	if (g.Interfaces == nil) != !e.HasInterfaces && len(gi) == 0 {
		x.note("nj_null_vs_empty_list")
	}
	x.nameSets(site+".interfaces", where, ei, gi)
	x.orderNote(ei, gi, "interfaces")
	ep, gp := optList(e.HasPossible, e.Possible), optList(true, g.Possible)
	if (g.Possible == nil) != !e.HasPossible && len(gp) == 0 {
		x.note("nj_null_vs_empty_list")
	}
	x.nameSets(site+".possibleTypes", where, ep, gp)
	x.orderNote(ep, gp, "possibleTypes")
	// enum values
	een := names(e.Enums, func(v MEnum) string { return v.Name })
	gen := names(g.Enums, func(v MEnum) string { return v.Name })
	x.nameSets(site+".enumValues", where, een, gen)
	x.orderNote(een, gen, "enumValues")
	for _, v := range e.Enums {
		for _, u := range g.Enums {
			if u.Name != v.Name {
				continue
			}
			w := where + " value " + v.Name
			x.description(w, v.Desc, u.Desc)
			x.deprecation("__EnumValue", w, v.Dep, v.Reason, u.Dep, u.Reason)
			break
		}
	}
}

// members compares only the member name lists of a type (fields and their
// arguments, input fields, enum values).
func (x *differ) members(e, g *MType) {
	site := "__Type(" + e.Kind + ")"
	where := "type " + e.Name
	nf := func(f MField) string { return f.Name }
	ni := func(i MInput) string { return i.Name }
	x.nameSets(site+".fields", where, names(e.Fields, nf), names(g.Fields, nf))
	for _, f := range e.Fields {
		for _, h := range g.Fields {
			if h.Name == f.Name {
				x.nameSets("__InputValue(args)", where+" field "+f.Name, names(f.Args, ni), names(h.Args, ni))
			}
		}
	}
	if e.HasInputs || len(g.Inputs) > 0 {
		x.nameSets("__InputValue(inputFields)", where, names(e.Inputs, ni), names(g.Inputs, ni))
	}
	ne := func(v MEnum) string { return v.Name }
	x.nameSets(site+".enumValues", where, names(e.Enums, ne), names(g.Enums, ne))
}

func (x *differ) directive(e, g *MDir) {
	where := "directive @" + e.Name
	x.description(where, e.Desc, g.Desc)
	x.nameSets("__Directive.locations", where, e.Locs, g.Locs)
	x.orderNote(e.Locs, g.Locs, "locations")
	x.inputs("directive args", where, e.Args, g.Args)
	if e.Rep != g.Rep {
		if e.Rep {
			x.add("__Directive.isRepeatable", "true expected, false reported (repeatable lost)", "%s: isRepeatable expected true, got false", where)
		} else {
			x.add("__Directive.isRepeatable", "false expected, true reported (repeatable invented)", "%s: isRepeatable expected false, got true", where)
		}
	}
}

func (x *differ) specDirective(name string, g *MDir) {
	sd := specDirectives[name]
	where := "built-in directive @" + name
	if !sameSet(sd.Locs, g.Locs) {
		x.add("__Directive(built-in).locations", "differs from the specification", "%s: locations expected %v, got %v", where, sd.Locs, g.Locs)
	}
	if g.Rep {
		x.add("__Directive(built-in).isRepeatable", "differs from the specification", "%s: isRepeatable expected false", where)
	}
	gn := names(g.Args, func(i MInput) string { return i.Name })
	var en []string
	for _, a := range sd.Args {
		en = append(en, a[0])
	}
	if !sameSet(en, gn) {
		x.add("__Directive(built-in).args", "differs from the specification", "%s: args expected %v, got %v", where, en, gn)
		return
	}
	for _, a := range sd.Args {
		for _, h := range g.Args {
			if h.Name != a[0] {
				continue
			}
			if !inList(strings.Split(a[1], "|"), h.Type.S) {
				x.add("__Directive(built-in).args", "differs from the specification", "%s: type of %s expected %s, got %s", where, a[0], a[1], h.Type.S)
			}
			if (a[2] == "") != !h.HasDefault || (h.HasDefault && h.Default != a[2]) {
				x.add("__Directive(built-in).args", "differs from the specification", "%s: default of %s expected %q, got %q", where, a[0], a[2], h.DefaultRaw)
			}
		}
	}
}

type diffMode int

const (
	modeIntrospection diffMode = iota // got = introspection of the repository: built-ins judged as far as the spec fixes them
	modeUserOnly                      // both sides loaded by gqlparser (clause 2): only user definitions
)

// Models compares a whole schema.
func (x *differ) Models(e, g *Model, mode diffMode) {
	if e.Query != g.Query {
		x.add("__Schema.queryType", "differs", "queryType expected %q, got %q", e.Query, g.Query)
	}
	rootDiff := func(site, en, gn string) {
		switch {
		case en == gn:
		case en == "":
			x.add(site, "invented", "%s expected null, got %q", site, gn)
		case gn == "":
			x.add(site, "missing", "%s expected %q, got null", site, en)
		default:
			x.add(site, "differs", "%s expected %q, got %q", site, en, gn)
		}
	}
	rootDiff("__Schema.mutationType", e.Mutation, g.Mutation)
	rootDiff("__Schema.subscriptionType", e.Subscr, g.Subscr)
	if (e.Desc == nil) != (g.Desc == nil) || (e.Desc != nil && *e.Desc != *g.Desc) {
		x.noteEx("nj_schema_description_differs", "schema description expected %s, got %s", pstr(e.Desc), pstr(g.Desc))
	}
	refd := referencedBuiltinScalars(e)
	var eUser, gUser []string
	for _, n := range e.TypeOrder {
		t := e.Types[n]
		if isIntrospectionName(n) {
			continue
		}
		if builtinScalarSet[n] {
			if mode == modeIntrospection && refd[n] {
				if gt := g.Types[n]; gt == nil {
					x.add("__Schema.types(built-in scalar)", "missing", "referenced built-in scalar %s is not listed", n)
				} else if gt.Kind != "SCALAR" {
					x.add("__Schema.types(built-in scalar)", "kind differs", "built-in scalar %s has kind %s", n, gt.Kind)
				}
			}
			continue
		}
		eUser = append(eUser, n)
		gt := g.Types[n]
		if gt == nil {
			x.add("__Schema.types", "missing ("+t.Kind+")", "type %s (%s) is missing", n, t.Kind)
			continue
		}
		x.typ(t, gt)
	}
	for _, n := range g.TypeOrder {
		if isIntrospectionName(n) {
			x.note("nj_introspection_type_listed")
			continue
		}
		if builtinScalarSet[n] {
			if mode == modeIntrospection && !refd[n] && n != "String" && n != "Boolean" {
				x.note("nj_unreferenced_builtin_scalar_listed")
			}
			continue
		}
		gUser = append(gUser, n)
		if e.Types[n] == nil {
			x.add("__Schema.types", "invented ("+g.Types[n].Kind+")", "type %s (%s) is not in the schema", n, g.Types[n].Kind)
		}
	}
	if mode == modeIntrospection {
		for _, n := range []string{"__Schema", "__Type"} {
			if g.Types[n] == nil {
				x.note("nj_introspection_types_not_listed")
				break
			}
		}
	}
	_, _ = eUser, gUser // (the order of __schema.types is not judged and not even noted: the reference has no order)
	for _, n := range e.DirOrder {
		if _, ok := specDirectives[n]; ok || engineDirectives[n] {
			continue
		}
		gd := g.Dirs[n]
		if gd == nil {
			x.add("__Schema.directives", "missing", "directive @%s is missing", n)
			continue
		}
		x.directive(e.Dirs[n], gd)
	}
	for _, n := range g.DirOrder {
		if _, ok := specDirectives[n]; ok {
			if mode == modeIntrospection {
				x.specDirective(n, g.Dirs[n])
			}
			continue
		}
		if engineDirectives[n] {
			if mode == modeIntrospection {
				x.note("nj_engine_directive_listed")
			}
			continue
		}
		if e.Dirs[n] == nil {
			x.add("__Schema.directives", "invented", "directive @%s is not in the schema", n)
		}
	}
	if mode == modeIntrospection {
		for _, n := range sortedKeys(specDirectives) {
			if g.Dirs[n] == nil {
				x.add("__Schema.directives(built-in)", "missing", "built-in directive @%s is not listed", n)
			}
		}
	}
}
