// Check C07: subgraph failures are isolated to the data that depended on them.
// Fault enumeration on fedlab: for every (layout, operation) of a sub-corpus the
// fault-free run records the emitted requests; then every non-empty subset F
// (|F| <= 1 quick / <= 2 thorough) x every fault kind is injected in the
// simulated subgraphs and the real engine's response is judged against the
// fault-free response with a provenance-based oracle (DESIGN.md section 3 C07).
package c07

import (
	"encoding/json"
	"errors"
	"fmt"
	"github.com/wundergraph/graphql-go-tools/execution/engine"
	"github.com/wundergraph/graphql-go-tools/v2/pkg/engine/resolve"
	"net/http"
	"sort"
	"strings"
	"testing"
	"testing/synctest"

	"github.com/vektah/gqlparser/v2"
	gast "github.com/vektah/gqlparser/v2/ast"

	"verif/internal/fedlab"
	"verif/internal/fedorders"
	"verif/internal/refexec"
	"verif/internal/vk"
)

type family struct {
	name    string
	s       *fedlab.Supergraph
	u       *fedlab.Universe
	schema  *gast.Schema
	layouts []*fedlab.Layout
	ops     []*fedlab.Op
}

func mustSchema(sdl string) *gast.Schema {
	s, err := gqlparser.LoadSchema(&gast.Source{Input: sdl})
	if err != nil {
		panic(err)
	}
	return s
}

// curated operations: the same entity reached through two paths (identical
// subgraph requests in flight together), chains of @requires
var curated = map[string][]string{
	"S-core": {`{me {nick} user(id: "u1") {nick}}`, `{me {reviews {body}} user(id: "u1") {reviews {body}}}`, `{me {favorite {title}} topProducts(first: 1) {title}}`},
	"S-nv":   {`{ things { ... on User { ref: id nick } ... on Admin { ref: code level } } }`, `{ things { __typename ... on Admin { ref: id code level } ... on User { ref: id name nick } } }`, `{ thing { ... on User { ref: id nick } ... on Admin { ref: code level name } } }`},
	"S-areq": {`{parcels {dims {size(unit: INCH)} shipping label}}`, `{parcels {weight box dims {size kind} shipping}}`, `{parcel {weight(unit: G) label shipping}}`},
	"S-nreq": {`{accounts {label name}}`, `{accounts {id label note name}}`, `{accounts {badge label address {city} note}}`, `{account {label name}}`},
	"S-req":  {`{items {summary}}`, `{items {id summary volume}}`, `{boxes {content {summary}}}`, `{item(id: "i1") {summary shipping}}`},
}

var faultKinds = []string{"transport-error", "http-500-empty", "http-200-empty", "http-200-nonjson", "http-502-html", "http-502-html-quotes", "http-500-truncated-json", "http-500-json-other", "http-200-json-other", "errors-without-data", "entities-one-short", "entities-one-long", "entities-empty", "entities-null"}

// partialKind: an entity request answers with data AND an error whose path
// points at one field of the first entity, which is null ("this subgraph could
// not resolve that field for that entity"). It is judged on the engine built
// with ValidateRequiredExternalFields (tainted objects): dependants must leave
// the entity out instead of being sent a fabricated null input.
const partialKind = "entity-field-error"

func families(run *vk.Run) []*family {
	mk := func(name string, s *fedlab.Supergraph, u *fedlab.Universe, menu func(t, f string) [][]fedlab.ArgUse, bases ...func(fedlab.FieldRef) int) *family {
		f := &family{name: name, s: s, u: u, schema: mustSchema(s.SDL())}
		for bi, b := range bases {
			n := 2
			for _, r := range s.Distributable() {
				if b(r)+1 > n {
					n = b(r) + 1
				}
			}
			f.layouts = append(f.layouts, fedlab.ByType(s, n, b, fmt.Sprintf("base%d", bi)))
		}
		if run.Thorough() {
			// every layout at Hamming distance 1 from the first base layout
			b0 := f.layouts[0]
			for _, nl := range fedlab.NearLayouts(s, b0.N, b0.OwnerVector(), 1)[1:] {
				used := map[int]bool{}
				for _, o := range nl.OwnerVector() {
					used[o] = true
				}
				if len(used) == nl.N { // every subgraph keeps something
					f.layouts = append(f.layouts, nl)
				}
			}
		}
		f.ops = fedlab.GenOps(fedlab.GenConfig{Schema: f.schema, Widths: vk.Pick(run, []int{1, 2, 1}, []int{1, 2, 2}), ArgMenu: menu}, "query")
		for _, q := range curated[name] {
			f.ops = append(f.ops, &fedlab.Op{Kind: "query", Raw: q})
		}
		return f
	}
	core, abs, req, shapes, nreq, areq, nv := fedlab.SCore(), fedlab.SAbs(), fedlab.SReq(), fedlab.SShapes(), fedlab.SNReq(), fedlab.SAReq(), fedlab.SNV()
	// a subgraph stricter than the supergraph (ID! vs ID): member fields fetched
	// under generated merge aliases
	fnv := mk("S-nv", nv, fedlab.SNVUniverse(nv), nil, func(r fedlab.FieldRef) int {
		switch r.String() {
		case "User.nick", "Admin.level":
			return 1
		case "Admin.code":
			return 2
		}
		return 0
	})
	for _, l := range fnv.layouts {
		l.SubgraphType = map[fedlab.FieldRef]map[int]string{
			{Type: "User", Field: "id"}:  {0: "ID!", 1: "ID!", 2: "ID!"},
			{Type: "Admin", Field: "id"}: {0: "ID!", 1: "ID!", 2: "ID!"},
		}
	}
	fams := []*family{
		mk("S-core", core, fedlab.SCoreUniverse(core), func(t, f string) [][]fedlab.ArgUse {
			switch t + "." + f {
			case "Query.user":
				return [][]fedlab.ArgUse{{{Name: "id", Value: `"u3"`}}}
			}
			return nil
		}, func(r fedlab.FieldRef) int {
			if r.Type == "Product" || r.Field == "topProducts" {
				return 1
			}
			return 0
		}, func(r fedlab.FieldRef) int {
			switch {
			case r.Type == "Product" || r.Field == "topProducts":
				return 1
			case r.Field == "reviews" || r.Field == "friends" || r.Field == "nick":
				return 2
			}
			return 0
		}),
		mk("S-abs", abs, fedlab.SAbsUniverse(abs), func(t, f string) [][]fedlab.ArgUse {
			if t+"."+f == "Query.node" {
				return [][]fedlab.ArgUse{{{Name: "id", Value: `"b1"`}}}
			}
			return nil
		}, func(r fedlab.FieldRef) int {
			if r.Type == "Book" || r.Field == "search" {
				return 1
			}
			return 0
		}),
		mk("S-req", req, fedlab.SReqUniverse(req), func(t, f string) [][]fedlab.ArgUse {
			if t+"."+f == "Query.item" {
				return [][]fedlab.ArgUse{{{Name: "id", Value: `"i2"`}}}
			}
			return nil
		}, func(r fedlab.FieldRef) int {
			switch r.String() {
			case "Item.shipping", "Item.volume", "Query.boxes", "Box.size", "Box.content":
				return 1
			}
			return 0
		}, func(r fedlab.FieldRef) int {
			// a chain: dims (0) -> volume @requires(dims) (1) -> summary @requires(volume) (2), price/weight (3) -> shipping (1)
			switch r.String() {
			case "Item.shipping", "Item.volume", "Query.boxes", "Box.size", "Box.content":
				return 1
			case "Item.summary", "Maker.label":
				return 2
			case "Item.price", "Item.weight":
				return 3
			}
			return 0
		}),
		// entities below lists of lists and non-null list wrappers: faults of the
		// fetches that collect their items from / merge into nested lists
		mk("S-shapes", shapes, fedlab.SShapesUniverse(shapes), nil, func(r fedlab.FieldRef) int {
			if r.Type == "Owner" || r.Field == "secret" || r.Field == "tags" || r.Field == "open" || r.Field == "ratio" || r.Field == "meta" || r.Field == "nums" || r.Field == "code" {
				return 1
			}
			return 0
		}),
		// two-jump key routes: sg0 -sku-> sg1 -upc-> sg2 (a failed first jump must
		// take the second one with it)
		keysChain(run),
		// @requires inputs that cross an entity boundary: the fetch that provides the
		// input runs on accounts.@.address, the dependant is built from accounts - a
		// failed entity is NESTED in the dependant's parent object
		mk("S-nreq", nreq, fedlab.SNReqUniverse(nreq), nil, func(r fedlab.FieldRef) int {
			switch r.String() {
			case "Address.zip", "Address.city":
				return 1
			case "Account.label", "Account.badge":
				return 2
			}
			return 0
		}, func(r fedlab.FieldRef) int {
			switch r.String() {
			case "Address.zip", "Account.badge":
				return 1
			case "Account.label", "Address.city", "Account.note":
				return 2
			}
			return 0
		}),
		// @requires field sets with arguments: the required copies are fetched under
		// aliases next to the client's own selection of the same fields
		mk("S-areq", areq, fedlab.SAReqUniverse(areq), func(t, f string) [][]fedlab.ArgUse {
			switch t + "." + f {
			case "Dims.size":
				return [][]fedlab.ArgUse{nil, {{Name: "unit", Value: "INCH"}}}
			case "Parcel.weight":
				return [][]fedlab.ArgUse{nil, {{Name: "unit", Value: "G"}}}
			}
			return nil
		}, func(r fedlab.FieldRef) int {
			switch r.String() {
			case "Parcel.weight":
				return 1
			case "Parcel.shipping", "Parcel.box":
				return 2
			}
			return 0
		}),
	}
	return append(fams, fnv)
}

// keysChain: S-keys with a chain of keys over three subgraphs.
func keysChain(run *vk.Run) *family {
	s := fedlab.SKeys()
	f := &family{name: "S-keys", s: s, u: fedlab.SKeysUniverse(s), schema: mustSchema(s.SDL())}
	l := fedlab.ByType(s, 3, func(r fedlab.FieldRef) int {
		switch r.String() {
		case "Query.newest", "Product.price":
			return 1
		case "Product.stock":
			return 2
		}
		return 0
	}, "chain3")
	l.SetKeyUse("Product", 0, &fedlab.KeyUse{Keys: []string{"sku"}})
	l.SetKeyUse("Product", 1, &fedlab.KeyUse{Keys: []string{"sku", "upc"}})
	l.SetKeyUse("Product", 2, &fedlab.KeyUse{Keys: []string{"upc"}})
	f.layouts = []*fedlab.Layout{l}
	f.ops = fedlab.GenOps(fedlab.GenConfig{Schema: f.schema, Widths: []int{1, 2}, ArgMenu: func(t, fn string) [][]fedlab.ArgUse {
		if t+"."+fn == "Query.product" {
			return [][]fedlab.ArgUse{{{Name: "sku", Value: `"s2"`}}}
		}
		return nil
	}}, "query")
	return f
}

// pos is one response position of the fault-free response with its provenance.
type pos struct {
	path      []any
	nonNull   bool     // declared type of the field at this position is non-null (list items: the item type)
	suppliers []string // keys of the fault-free requests that supplied (object, field)
}

type baseline struct {
	data   any
	reqs   []*fedlab.Request
	keys   []string            // distinct request keys in order of first appearance
	byKey  map[string][]string // key -> canonical representations (union over requests with that key)
	canon  map[string][]string // key -> canonical full requests
	prov   map[string]map[string]bool
	fields []pos
	types  map[string]*gast.Type // field path -> declared type
}

// nonNullAt reports whether the position (a field path possibly followed by
// list indices) has a non-null type.
func (b *baseline) nonNullAt(path []any) bool {
	n := len(path)
	for n > 0 && isIndex(path[n-1]) {
		n--
	}
	t := b.types[pathKey(path[:n])]
	for i := n; i < len(path) && t != nil; i++ {
		t = t.Elem
	}
	return t != nil && t.NonNull
}

func pathKey(p []any) string {
	var sb strings.Builder
	for _, x := range p {
		sb.WriteString(fmt.Sprint(x))
		sb.WriteByte('/')
	}
	return sb.String()
}

type execObs struct {
	out  []byte
	reqs []*fedlab.Request
	err  error
}

// gatedExec runs one execution inside the bubble with every subgraph request
// parked and released in canonical order: identical requests overlap (so the
// subgraph single flight is exercised) and a wedged execution is detected by
// quiescence, not by a clock.
func gatedExec(lab *fedlab.Lab, q string) (execObs, bool) {
	x := fedorders.RunOne(lab.Sim, nil, func() any {
		out, reqs, err := lab.Exec(q, "", nil)
		return execObs{out, reqs, err}
	})
	if x.Stuck {
		return execObs{}, true
	}
	o, _ := x.Obs.(execObs)
	return o, false
}

// faultFree runs the operation without faults, recording provenance.
func sortedJoin(ss []string) string {
	c := append([]string(nil), ss...)
	sort.Strings(c)
	return strings.Join(c, "\n")
}

func faultFree(f *family, lab *fedlab.Lab, q string) (*baseline, error) {
	b := &baseline{byKey: map[string][]string{}, canon: map[string][]string{}, prov: map[string]map[string]bool{}, types: map[string]*gast.Type{}}
	lab.Sim.Intercept, lab.Sim.PostProcess = nil, nil
	lab.Sim.Provenance = func(r *fedlab.Request, obj any, field string) {
		k := fmt.Sprint(obj) + "." + field
		if b.prov[k] == nil {
			b.prov[k] = map[string]bool{}
		}
		b.prov[k][r.Key()] = true
	}
	o, stuck := gatedExec(lab, q)
	lab.Sim.Provenance = nil
	if stuck {
		return nil, fmt.Errorf("fault-free execution wedged")
	}
	out, reqs, err := o.out, o.reqs, o.err
	if err != nil {
		return nil, err
	}
	m, err := refexec.DecodeObject(out)
	if err != nil {
		return nil, err
	}
	b.data = m["data"]
	b.reqs = reqs
	for _, r := range reqs {
		k := r.Key()
		if _, ok := b.byKey[k]; !ok {
			b.keys = append(b.keys, k)
			b.byKey[k] = []string{}
		}
		b.byKey[k] = append(b.byKey[k], r.RepKeys()...)
		b.canon[k] = append(b.canon[k], r.Canon())
		if len(r.Problems) > 0 {
			return nil, fmt.Errorf("fault-free request problem: %v", r.Problems)
		}
	}
	// provenance of every response position: run the monolith and look up who
	// supplied (object, field) in the federated fault-free run
	doc, errs := gqlparser.LoadQuery(f.schema, q)
	if errs != nil {
		return nil, errs
	}
	refexec.Execute(f.schema, doc, fedlab.Mono{U: f.u}, refexec.Options{Root: fedlab.RootObj("Query"), OnField: func(path []any, parentType string, parent fedlab.Obj, fd *gast.Field) {
		k := fmt.Sprint(fedlab.Identity(parentType, parent)) + "." + fd.Name
		p := pos{path: append([]any(nil), path...)}
		if fd.Definition != nil {
			p.nonNull = fd.Definition.Type.NonNull
			b.types[pathKey(path)] = fd.Definition.Type
		}
		for s := range b.prov[k] {
			p.suppliers = append(p.suppliers, s)
		}
		sort.Strings(p.suppliers)
		b.fields = append(b.fields, p)
	}})
	return b, nil
}

func get(v any, path []any) (any, bool) {
	cur := v
	for _, x := range path {
		switch c := cur.(type) {
		case map[string]any:
			n, ok := c[fmt.Sprint(x)]
			if !ok {
				return nil, false
			}
			cur = n
		case []any:
			i, ok := x.(int)
			if !ok || i >= len(c) {
				return nil, false
			}
			cur = c[i]
		default:
			return nil, false
		}
	}
	return cur, true
}

// nulling: got must be obtainable from base only by replacing subtrees with
// null. Returns the paths of the topmost new nulls, or a description of the
// first violation.
func nulling(base, got any, path []any, newNulls *[][]any) string {
	if got == nil {
		if base != nil {
			*newNulls = append(*newNulls, append([]any(nil), path...))
		}
		return ""
	}
	switch b := base.(type) {
	case map[string]any:
		g, ok := got.(map[string]any)
		if !ok {
			return fmt.Sprintf("at %v: object became %s", path, refexec.Canon(got))
		}
		for k := range g {
			if _, ok := b[k]; !ok {
				return fmt.Sprintf("at %v: invented key %q", path, k)
			}
		}
		for k, bv := range b {
			gv, ok := g[k]
			if !ok {
				return fmt.Sprintf("at %v: key %q is missing (must be null, not absent)", path, k)
			}
			if d := nulling(bv, gv, append(path, k), newNulls); d != "" {
				return d
			}
		}
		return ""
	case []any:
		g, ok := got.([]any)
		if !ok || len(g) != len(b) {
			return fmt.Sprintf("at %v: list changed shape: %s vs %s", path, refexec.Canon(got), refexec.Canon(base))
		}
		for i := range b {
			if d := nulling(b[i], g[i], append(path, i), newNulls); d != "" {
				return d
			}
		}
		return ""
	default:
		if refexec.Canon(base) != refexec.Canon(got) {
			return fmt.Sprintf("at %v: value changed from %s to %s", path, refexec.Canon(base), refexec.Canon(got))
		}
		return ""
	}
}

func hasPrefix(p, prefix []any) bool {
	if len(prefix) > len(p) {
		return false
	}
	for i := range prefix {
		if fmt.Sprint(p[i]) != fmt.Sprint(prefix[i]) {
			return false
		}
	}
	return true
}

type fail struct{ clause, site, detail string }

// possiblyLost computes the closure of F: requests whose representations may
// have been built from data supplied by a lost request.
func possiblyLost(b *baseline, F map[string]bool) map[string]bool {
	lost := map[string]bool{}
	for k := range F {
		lost[k] = true
	}
	// a request with representations is possibly lost when ANY datum it could
	// have been built from was supplied by a possibly lost request. Without
	// per-representation provenance we over-approximate: any request carrying
	// representations that was first emitted after a lost request.
	changed := true
	for changed {
		changed = false
		seenLost := false
		for _, r := range b.reqs {
			k := r.Key()
			if lost[k] {
				seenLost = true
				continue
			}
			if seenLost && len(r.Reps) > 0 && !lost[k] {
				lost[k] = true
				changed = true
			}
		}
	}
	return lost
}

func judgeFault(f *family, lab *fedlab.Lab, q string, b *baseline, F []string, kind string) (string, []fail) {
	inF := map[string]bool{}
	for _, k := range F {
		inF[k] = true
	}
	if strings.HasPrefix(kind, "entities-") || kind == partialKind {
		// the entity-count faults only exist for requests with representations;
		// a set containing another request is covered by its applicable subset
		for _, k := range F {
			for _, r := range b.reqs {
				if r.Key() == k && len(r.Reps) == 0 {
					return "n/a", nil
				}
			}
		}
	}
	applicable := false
	notOnlyBatches := false
	partial := false
	lab.Sim.Intercept = func(r *fedlab.Request) (*http.Response, error, bool) {
		if !inF[r.Key()] {
			return nil, nil, false
		}
		switch kind {
		case "transport-error":
			applicable = true
			return nil, errors.New("connection refused"), true
		case "http-500-empty":
			applicable = true
			return fedlab.JSONResponse(500, "", nil), nil, true
		case "http-200-empty":
			applicable = true
			return fedlab.JSONResponse(200, "", nil), nil, true
		case "http-200-nonjson":
			applicable = true
			return fedlab.JSONResponse(200, "<html>bad gateway</html>", nil), nil, true
		case "http-502-html":
			// a proxy in front of the subgraph answers (status fallback: non-2xx, not JSON)
			applicable = true
			return fedlab.JSONResponse(502, "<html><body>502 Bad Gateway</body></html>", nil), nil, true
		case "http-502-html-quotes":
			// the same with characters that need escaping wherever the body is quoted
			applicable = true
			return fedlab.JSONResponse(502, "<html lang=\"en\"><body class='x'>Bad \\ Gateway\n\t</body></html>", nil), nil, true
		case "http-500-truncated-json":
			// a JSON document cut off in the middle (connection dropped by a proxy)
			applicable = true
			return fedlab.JSONResponse(500, `{"data":{"_ent`, nil), nil, true
		case "http-500-json-other":
			// JSON with neither data nor errors and a non-2xx status
			applicable = true
			return fedlab.JSONResponse(500, `{"message":"internal server error","code":500}`, nil), nil, true
		case "http-200-json-other":
			applicable = true
			return fedlab.JSONResponse(200, `{"message":"not a GraphQL response"}`, nil), nil, true
		case "errors-without-data":
			applicable = true
			return fedlab.JSONResponse(200, `{"errors":[{"message":"boom"}]}`, nil), nil, true
		}
		return nil, nil, false
	}
	lab.Sim.PostProcess = func(r *fedlab.Request, body []byte) (int, []byte) {
		if !inF[r.Key()] || len(r.Reps) == 0 {
			return 200, body
		}
		var m map[string]any
		if json.Unmarshal(body, &m) != nil {
			return 200, body
		}
		d, _ := m["data"].(map[string]any)
		ents, _ := d["_entities"].([]any)
		if d == nil || ents == nil {
			return 200, body
		}
		switch kind {
		case partialKind:
			// the first nullable scalar field of the first non-null entity
			e0, _ := first(ents).(map[string]any)
			fname := ""
			var names []string
			for k := range e0 {
				names = append(names, k)
			}
			sort.Strings(names)
			for _, k := range names {
				if k == "__typename" || e0[k] == nil {
					continue
				}
				switch e0[k].(type) {
				case map[string]any, []any:
					continue
				}
				if nullableEntityField(f, r, k) {
					fname = k
					break
				}
			}
			if fname == "" {
				return 200, body
			}
			applicable = true
			partial = true
			e0[fname] = nil
			m["errors"] = []any{map[string]any{"message": "could not resolve " + fname, "path": []any{"_entities", firstIndex(ents), fname}}}
		case "entities-null":
			// {"data":{"_entities":null}} without errors: neither entities nor a reason
			if len(ents) == 0 {
				return 200, body
			}
			applicable = true
			d["_entities"] = nil
		case "entities-one-short":
			if len(ents) == 0 {
				return 200, body
			}
			applicable = true
			d["_entities"] = ents[:len(ents)-1]
		case "entities-empty":
			// a BATCH answered with no entity at all (for one representation this
			// is entities-one-short)
			if len(ents) < 2 {
				// the same request text is also sent for a single representation: the
				// fault set (identified by request text) is then not a set of batches
				notOnlyBatches = true
				return 200, body
			}
			applicable = true
			d["_entities"] = []any{}
		case "entities-one-long":
			applicable = true
			d["_entities"] = append(ents, ents[len(ents)-1:]...)
			if len(ents) == 0 {
				d["_entities"] = []any{nil}
			}
		default:
			return 200, body
		}
		nb, _ := json.Marshal(m)
		return 200, nb
	}
	defer func() { lab.Sim.Intercept, lab.Sim.PostProcess = nil, nil }()
	o, stuck := gatedExec(lab, q)
	if stuck {
		return "wedged", []fail{{"the gateway still returns promptly one well-formed response", "execution wedged with no request in flight", "the engine call never returned although every subgraph request had been answered"}}
	}
	out, reqs, err := o.out, o.reqs, o.err
	if !applicable || notOnlyBatches {
		return "n/a", nil
	}
	var fails []fail
	if err != nil {
		return "engine-error", []fail{{"the gateway still returns one well-formed response", "Execute returned an error", err.Error()}}
	}
	m, derr := refexec.DecodeObject(out)
	if derr != nil {
		return "bad-json", []fail{{"the gateway still returns one well-formed response", "response is not one JSON value", derr.Error() + ": " + string(out)}}
	}
	for k := range m {
		if k != "data" && k != "errors" && k != "extensions" {
			fails = append(fails, fail{"the gateway still returns one well-formed response", "unexpected top-level key", k})
		}
	}
	errs, _ := m["errors"].([]any)
	if len(errs) == 0 {
		fails = append(fails, fail{"at least one error is reported", "errors missing", string(out)})
	}
	data, hasData := m["data"]
	if !hasData {
		fails = append(fails, fail{"the gateway still returns one well-formed response", "data key missing", string(out)})
		return "no-data", fails
	}
	// (3) nulling relation
	var newNulls [][]any
	if d := nulling(b.data, data, nil, &newNulls); d != "" {
		fails = append(fails, fail{"every part of data is identical to the fault-free response or null-propagated (never changed, invented or missing)", "nulling relation", d + "\nfault-free: " + refexec.Canon(b.data) + "\nunder fault: " + refexec.Canon(data)})
		return "corrupt", fails
	}
	lost := possiblyLost(b, inF)
	// (5) completeness: a position all of whose suppliers failed is null or under a null
	// (not for a partial failure: the other data of that response is good)
	for _, p := range b.fields {
		if len(p.suppliers) == 0 || partial {
			continue
		}
		all := true
		for _, s := range p.suppliers {
			if !inF[s] {
				all = false
			}
		}
		if !all {
			continue
		}
		if v, ok := get(data, p.path); ok && v != nil {
			if bv, _ := get(b.data, p.path); bv != nil {
				fails = append(fails, fail{"every part that depends on a failed request is null-propagated", "datum of a failed request present", fmt.Sprintf("position %v was supplied only by failed request(s) %v but is %s", p.path, p.suppliers, refexec.Canon(v))})
				break
			}
		}
	}
	// (4) explanation: every topmost new null has a possibly affected position in
	// its subtree that is connected to it by non-null fields only
	for _, nn := range newNulls {
		explained := false
		for _, p := range b.fields {
			if !hasPrefix(p.path, nn) {
				continue
			}
			aff := false
			for _, s := range p.suppliers {
				if lost[s] {
					aff = true
				}
			}
			if !aff {
				continue
			}
			if len(p.path) == len(nn) {
				explained = true
				break
			}
			// every position strictly below nn down to p (inclusive) must be non-null
			// typed for the null to propagate up to nn
			ok := true
			for k := len(nn) + 1; k <= len(p.path); k++ {
				if !b.nonNullAt(p.path[:k]) {
					ok = false
					break
				}
			}
			if ok {
				explained = true
				break
			}
		}
		if !explained {
			fails = append(fails, fail{"every part of data that does not depend on a failed request is identical to the fault-free response", "unexplained null", fmt.Sprintf("position %v became null although nothing in its subtree that reaches it through non-null fields depends on the failed request(s) %v\nfault-free: %s\nunder fault: %s", nn, F, refexec.Canon(b.data), refexec.Canon(data))})
			break
		}
	}
	// (6) request rule
	for _, r := range reqs {
		k := r.Key()
		base, ok := b.byKey[k]
		if !ok {
			fails = append(fails, fail{"after a failure the gateway sends no request it would not also have sent without it", "new request", fmt.Sprintf("%s variables %s", k, refexec.Canon(r.Variables))})
			continue
		}
		set := map[string]bool{}
		for _, x := range base {
			set[x] = true
		}
		for _, x := range r.RepKeys() {
			if !set[x] {
				fails = append(fails, fail{"after a failure the gateway sends no request it would not also have sent without it", "new representation", fmt.Sprintf("%s carries representation %s which the fault-free run never sent", k, x)})
				break
			}
		}
		if !lost[k] {
			same := false
			for _, c := range b.canon[k] {
				if c == r.Canon() {
					same = true
				}
			}
			if !same {
				fails = append(fails, fail{"a failure never changes what is sent to an independent subgraph", "independent request changed", fmt.Sprintf("under fault: %s\nfault-free: %v", r.Canon(), b.canon[k])})
			}
		}
	}
	// independent requests must still be sent
	sent := map[string]bool{}
	for _, r := range reqs {
		sent[r.Key()] = true
	}
	for _, k := range b.keys {
		if !lost[k] && !sent[k] {
			fails = append(fails, fail{"a failure never changes what is sent to an independent subgraph", "independent request not sent", k})
		}
	}
	return fmt.Sprintf("nulls=%d reqs=%d/%d", len(newNulls), len(reqs), len(b.reqs)), fails
}

func first(ents []any) any {
	for _, e := range ents {
		if e != nil {
			return e
		}
	}
	return nil
}

func firstIndex(ents []any) int {
	for i, e := range ents {
		if e != nil {
			return i
		}
	}
	return 0
}

// nullableEntityField: the field of the entity type the request asks for is
// declared nullable in the supergraph.
func nullableEntityField(f *family, r *fedlab.Request, field string) bool {
	for _, rep := range r.Reps {
		tn, _ := rep["__typename"].(string)
		if t := f.s.Type(tn); t != nil {
			if fd := t.Field(field); fd != nil {
				return !strings.HasSuffix(fd.Type, "!")
			}
		}
	}
	return false
}

// faultClass refines the fault kind by the shape of the failed requests, so
// that a known finding about single-representation entity requests does not
// mask a different defect on batches or root requests.
func faultClass(b *baseline, F []string, kind string) string {
	shape := ""
	for _, k := range F {
		sh := "root request"
		for _, r := range b.reqs {
			if r.Key() != k || r.Reps == nil {
				continue
			}
			// one request text can be sent for one representation AND for a batch in
			// the same execution: the single-representation behaviour dominates
			if len(r.Reps) == 1 {
				sh = "single-representation entity request"
			} else if sh != "single-representation entity request" {
				sh = "batch entity request"
			}
		}
		switch {
		case shape == "" || shape == sh:
			shape = sh
		case sh == "single-representation entity request" || shape == "single-representation entity request":
			// the single-representation behaviour dominates a mixed set
			shape = "single-representation entity request"
		default:
			shape = "mixed"
		}
	}
	return kind + " / " + shape
}

func isIndex(x any) bool { _, ok := x.(int); return ok }

func subsets(keys []string, max int) [][]string {
	var out [][]string
	var rec func(start int, cur []string)
	rec = func(start int, cur []string) {
		if len(cur) > 0 {
			out = append(out, append([]string(nil), cur...))
		}
		if len(cur) == max {
			return
		}
		for i := start; i < len(keys); i++ {
			rec(i+1, append(cur, keys[i]))
		}
	}
	rec(0, nil)
	return out
}

func TestCheck(t *testing.T) {
	run := vk.Start("C07", "fault_enumeration")
	defer run.Finish()
	synctest.Test(t, func(t *testing.T) { check(t, run) })
}

func check(t *testing.T, run *vk.Run) {
	run.Rule("sub-corpus of (layout, operation) with 2..6 emitted subgraph requests; for each, every non-empty set F of emitted requests (matched by subgraph+operation text) with |F| <= bound x every fault kind; distinct = distinct (operation, F, kind, outcome)")
	run.Assume("provenance from the reference executor and the subgraph simulator: which fault-free request supplied which (object, field)",
		"dependents of a failed request are over-approximated (any later request carrying representations), which only weakens the 'unexplained null' and 'independent request' clauses",
		"hang detection: the engine call returns (synchronous harness); no wall-clock oracle")
	maxF := vk.Pick(run, 2, 4)
	run.Bound("max_fault_set", maxF)
	run.Bound("fault_kinds", faultKinds)
	var caseNo int64
	if run.Replay != "" {
		var in struct {
			Family string   `json:"family"`
			Layout []int    `json:"layout"`
			N      int      `json:"n"`
			Op     string   `json:"op"`
			F      []string `json:"F"`
			Kind   string   `json:"kind"`
			Again  bool     `json:"again"`
		}
		if err := run.ReplayInput(&in); err != nil {
			t.Fatal(err)
		}
		for _, f := range families(run) {
			if f.name != in.Family {
				continue
			}
			l := fedlab.NewLayout(f.s, in.N, in.Layout, "replay")
			if f.name == "S-keys" {
				l = f.layouts[0] // the key declarations are part of the layout
			}
			lo := fedlab.LabOptions{}
			if in.Kind == partialKind {
				lo = fedlab.LabOptions{
					Resolver:  resolve.ResolverOptions{ValidateRequiredExternalFields: true},
					Configure: func(conf *engine.Configuration) { conf.VerifPlannerConfig().BuildFetchReasons = true },
				}
			}
			lab, err := fedlab.NewLab(l, f.u, lo)
			if err != nil {
				t.Fatal(err)
			}
			b, err := faultFree(f, lab, in.Op)
			if err != nil {
				t.Fatal(err)
			}
			fmt.Printf("operation %s\nfault-free data %s\n", in.Op, refexec.Canon(b.data))
			for _, r := range b.reqs {
				fmt.Printf("  -> %s reps=%v\n", r.Key(), r.RepKeys())
			}
			out, fails := judgeFault(f, lab, in.Op, b, in.F, in.Kind)
			fmt.Printf("F=%v kind=%s outcome=%s\n", in.F, in.Kind, out)
			run.Eval(1)
			for _, fl := range fails {
				fmt.Printf("FAILED %s [%s]\n%s\n", fl.clause, fl.site, fl.detail)
				run.Violate(vk.Violation{Clause: fl.clause, Site: fl.site, Class: faultClass(b, in.F, in.Kind), Detail: fl.detail})
			}
			if in.Again {
				b2, err2 := faultFree(f, lab, in.Op)
				why := ""
				switch {
				case err2 != nil:
					why = "the fault-free run fails now: " + err2.Error()
				case refexec.Canon(b2.data) != refexec.Canon(b.data):
					why = fmt.Sprintf("data differs\nbefore: %s\nafter:  %s", refexec.Canon(b.data), refexec.Canon(b2.data))
				case sortedJoin(b2.keys) != sortedJoin(b.keys):
					why = fmt.Sprintf("requests differ\nbefore: %v\nafter:  %v", b.keys, b2.keys)
				}
				fmt.Printf("fault-free run repeated: %s\n", map[bool]string{true: "as before", false: why}[why == ""])
				if why != "" {
					run.Violate(vk.Violation{Clause: "every part of data that does not depend on a failed request is identical to the fault-free response (the fault-free run repeated on the same engine after the fault)", Site: "fault-free run after a fault", Class: in.Kind + " / a later fault-free run", Detail: why})
				}
			}
		}
		return
	}
	for _, f := range families(run) {
		for _, l := range f.layouts {
			lab, err := fedlab.NewLab(l, f.u, fedlab.LabOptions{})
			if err != nil {
				t.Fatalf("lab: %v", err)
			}
			for _, op := range f.ops {
				caseNo++
				if !run.Mine(caseNo) {
					continue
				}
				if run.Expired() {
					lab.Close() // leave the bubble without blocked engine goroutines
					synctest.Wait()
					return
				}
				q := op.String()
				b, err := faultFree(f, lab, q)
				if err != nil {
					run.Count("fault_free_failed", 1)
					continue
				}
				if len(b.keys) < 2 || len(b.keys) > 6 {
					run.Count("skipped_request_count", 1)
					continue
				}
				run.Count("corpus", 1)
				for _, F := range subsets(b.keys, maxF) {
					for _, kind := range faultKinds {
						outcome, fails := judgeFault(f, lab, q, b, F, kind)
						if outcome == "n/a" {
							continue
						}
						run.Eval(1)
						run.Count("kind:"+kind, 1)
						if run.Outcome(q + "|" + strings.Join(F, ";") + "|" + kind + "|" + outcome) {
							run.Sample(f.name+"/"+kind, map[string]any{"layout": l.String(), "operation": q, "failed": F, "kind": kind, "outcome": outcome})
						}
						for _, fl := range fails {
							run.Violate(vk.Violation{Clause: fl.clause, Site: fl.site, Class: faultClass(b, F, kind),
								Detail: fmt.Sprintf("layout %s\noperation %s\nfailed requests %v\nfault %s\n%s", l.String(), q, F, kind, fl.detail),
								Input:  map[string]any{"family": f.name, "layout": l.OwnerVector(), "n": l.N, "op": q, "F": F, "kind": kind}})
						}
						// the faults are over: on the SAME engine the operation gets its
						// fault-free response again and sends the same requests (a failure
						// leaves nothing behind). Checked after every fault of a single
						// request, so that the fault that did it is known.
						if len(F) == 1 {
							run.Count("fault_free_again", 1)
							b2, err2 := faultFree(f, lab, q)
							why := ""
							switch {
							case err2 != nil:
								why = "the fault-free run fails now: " + err2.Error()
							case refexec.Canon(b2.data) != refexec.Canon(b.data):
								why = fmt.Sprintf("data differs\nbefore: %s\nafter:  %s", refexec.Canon(b.data), refexec.Canon(b2.data))
							case sortedJoin(b2.keys) != sortedJoin(b.keys): // parallel requests arrive in any order
								why = fmt.Sprintf("requests differ\nbefore: %v\nafter:  %v", b.keys, b2.keys)
							}
							if why != "" {
								run.Violate(vk.Violation{Clause: "every part of data that does not depend on a failed request is identical to the fault-free response (the fault-free run repeated on the same engine after the fault)", Site: "fault-free run after a fault", Class: kind + " / a later fault-free run",
									Detail: fmt.Sprintf("layout %s\noperation %s\nearlier failed request %v\nfault %s\n%s", l.String(), q, F, kind, why),
									Input:  map[string]any{"family": f.name, "layout": l.OwnerVector(), "n": l.N, "op": q, "F": F, "kind": kind, "again": true}})
								// continue on a fresh engine
								lab.Close()
								lab, err = fedlab.NewLab(l, f.u, fedlab.LabOptions{})
								if err != nil {
									t.Fatalf("lab: %v", err)
								}
							}
						}
					}
				}
			}
			lab.Close()
			// partial failures on the engine with tainted-object bookkeeping
			labT, err := fedlab.NewLab(l, f.u, fedlab.LabOptions{
				Resolver:  resolve.ResolverOptions{ValidateRequiredExternalFields: true},
				Configure: func(conf *engine.Configuration) { conf.VerifPlannerConfig().BuildFetchReasons = true },
			})
			if err != nil {
				t.Fatalf("lab (tainting): %v", err)
			}
			for _, op := range f.ops {
				caseNo++
				if !run.Mine(caseNo) {
					continue
				}
				if run.Expired() {
					labT.Close()
					synctest.Wait()
					return
				}
				q := op.String()
				b, err := faultFree(f, labT, q)
				if err != nil || len(b.keys) < 2 || len(b.keys) > 6 {
					continue
				}
				for _, F := range subsets(b.keys, 1) {
					outcome, fails := judgeFault(f, labT, q, b, F, partialKind)
					if outcome == "n/a" {
						continue
					}
					run.Eval(1)
					run.Count("kind:"+partialKind, 1)
					if run.Outcome(q + "|" + strings.Join(F, ";") + "|" + partialKind + "|" + outcome) {
						run.Sample(f.name+"/"+partialKind, map[string]any{"layout": l.String(), "operation": q, "failed": F, "kind": partialKind, "outcome": outcome})
					}
					for _, fl := range fails {
						run.Violate(vk.Violation{Clause: fl.clause, Site: fl.site, Class: faultClass(b, F, partialKind),
							Detail: fmt.Sprintf("layout %s (engine with ValidateRequiredExternalFields)\noperation %s\nfailed requests %v\nfault %s\n%s", l.String(), q, F, partialKind, fl.detail),
							Input:  map[string]any{"family": f.name, "layout": l.OwnerVector(), "n": l.N, "op": q, "F": F, "kind": partialKind}})
					}
				}
			}
			labT.Close()
		}
	}
}
