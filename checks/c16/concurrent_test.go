package c16

import (
	"bytes"
	"context"
	"fmt"
	"strings"
	"sync"
	"testing"
	"testing/synctest"

	"github.com/wundergraph/graphql-go-tools/execution/engine"
	"github.com/wundergraph/graphql-go-tools/execution/graphql"

	"verif/internal/fedlab"
	"verif/internal/fedorders"
	"verif/internal/vk"
)

// Part (c): two client operations in flight TOGETHER on the cached engine. They
// differ as operations (no inbound de-duplication) but need the same entity
// fetch, so the second one joins the first one's subgraph request as a
// single-flight follower. Every completion order of the gated subgraph requests
// is explored; the storability clauses must hold for what BOTH of them write.

var concurrentPairs = [][2]string{
	{`{users {reviews {body}}}`, `{users {id reviews {body}}}`},
	{`{user(id: "u3") {friends {greeting(times: 2)}}}`, `{user(id: "u3") {id friends {greeting(times: 2)}}}`},
	{`{me {reviews {stars}}}`, `{me {id reviews {stars}}}`},
}

type pairObs struct {
	out  [2]string
	err  [2]error
	sets [][]string // keys of every SetMany call
	reqs int
}

func runPair(lab *fedlab.Lab, pair [2]string, cache *recCache) pairObs {
	var o pairObs
	lab.Sim.Reset()
	opt := engine.VerifWithResponseCache(cache, defaultTTL, func(error) {})
	var wg sync.WaitGroup
	for i := range pair {
		i := i
		wg.Add(1)
		go func() {
			defer wg.Done()
			var buf bytes.Buffer
			w := graphql.NewEngineResultWriterFromBuffer(&buf)
			o.err[i] = lab.Engine.Execute(context.Background(), &graphql.Request{Query: pair[i]}, &w, opt)
			o.out[i] = buf.String()
		}()
	}
	wg.Wait()
	cache.mu.Lock()
	for _, call := range cache.sets {
		var ks []string
		for _, it := range call {
			ks = append(ks, tailKey(it.Key))
		}
		o.sets = append(o.sets, ks)
	}
	cache.mu.Unlock()
	o.reqs = len(lab.Sim.Log())
	return o
}

func checkConcurrent(t *testing.T, run *vk.Run, ls *labs) {
	menu := headerMenu()
	const goodHeader = 2 // public, max-age=60
	var caseNo int64
	for pi, pair := range concurrentPairs {
		for _, class := range []string{"clean", "errors", "http500"} {
			caseNo++
			if !run.Mine(caseNo) {
				continue
			}
			pi, pair, class := pi, pair, class
			synctest.Test(t, func(t *testing.T) {
				setResponder(ls.with, menu[goodHeader], class)
				setResponder(ls.without, menu[goodHeader], class)
				// what each operation answers alone without a cache, under the same class
				var want [2]string
				for i, q := range pair {
					b, _, err := ls.without.Exec(q, "", nil)
					if err != nil {
						want[i] = "error: " + err.Error()
						continue
					}
					want[i], _ = canonResp(b)
				}
				var cache *recCache
				execs, points, capped := fedorders.Explore(ls.with.Sim, 400, func() any {
					cache = newCache()
					return runPair(ls.with, pair, cache)
				}, func(x *fedorders.Exec) {
					o, _ := x.Obs.(pairObs)
					key := fmt.Sprintf("pair%d|%s|reqs=%d sets=%d", pi, class, o.reqs, len(o.sets))
					if run.Outcome(key) {
						run.Sample("concurrent/"+class, map[string]any{"pair": pair, "class": class, "order": x.Choices, "requests": o.reqs, "set_calls": o.sets})
					}
					viol := func(clause, site, detail string) {
						run.Violate(vk.Violation{Clause: clause, Site: site, Class: "two operations in flight together",
							Detail: fmt.Sprintf("operations %q and %q in flight together, response class %s, completion order %v\n%s", pair[0], pair[1], class, x.Choices, detail),
							Input:  map[string]any{"concurrent_pair": pi, "class": class, "order": x.Choices}})
					}
					if x.Stuck {
						viol("cache failures never fail a request / caching is transparent", "execution wedged", "the engine calls never returned although every subgraph request had been answered")
						return
					}
					for i := range pair {
						if o.err[i] != nil {
							if !strings.HasPrefix(want[i], "error: ") {
								viol("cache failures never fail a request / caching is transparent", "engine error differs", fmt.Sprintf("%s: %v", pair[i], o.err[i]))
							}
							continue
						}
						got, _ := canonResp([]byte(o.out[i]))
						if got != want[i] {
							viol("every response equals the response the same request gets with no cache", "response differs", fmt.Sprintf("%s\nwith cache (concurrent): %s\nwithout cache (alone):   %s", pair[i], o.out[i], want[i]))
						}
					}
					if class != "clean" && len(o.sets) > 0 {
						viol("an entity is stored only from an error-free successful subgraph response", "stored from "+class+" response", fmt.Sprintf("SetMany calls: %v", o.sets))
					}
				})
				run.Eval(int64(execs))
				run.AddStates(int64(points)+1, int64(points), int64(execs))
				run.Count("concurrent_pair_executions", int64(execs))
				if capped {
					run.Cap("more than 400 completion orders for a concurrent pair")
				}
			})
		}
	}
}

// replayConcurrent re-runs one concurrent pair under one completion order.
func replayConcurrent(t *testing.T, run *vk.Run, ls *labs, pi int, class string, order []int) {
	menu := headerMenu()
	pair := concurrentPairs[pi]
	synctest.Test(t, func(t *testing.T) {
		setResponder(ls.with, menu[2], class)
		cache := newCache()
		x := fedorders.RunOne(ls.with.Sim, order, func() any { return runPair(ls.with, pair, cache) })
		o, _ := x.Obs.(pairObs)
		run.Eval(1)
		fmt.Printf("operations %q and %q in flight together, class %s, order %v (released %v)\nresponses %q %q\nerrors %v %v\nSetMany calls %v\n", pair[0], pair[1], class, x.Choices, x.Order, o.out[0], o.out[1], o.err[0], o.err[1], o.sets)
		if class != "clean" && len(o.sets) > 0 {
			run.Violate(vk.Violation{Clause: "an entity is stored only from an error-free successful subgraph response", Site: "stored from " + class + " response", Class: "two operations in flight together", Detail: fmt.Sprint(o.sets)})
		}
	})
}
