// Check C16: entity response caching is transparent and honours Cache-Control.
package c16

import (
	"context"
	"encoding/json"
	"errors"
	"fmt"
	"net/http"
	"os"
	"sort"
	"strings"
	"sync"
	"testing"
	"time"

	"github.com/wundergraph/graphql-go-tools/execution/engine"
	"github.com/wundergraph/graphql-go-tools/v2/pkg/caching"

	"verif/internal/fedlab"
	"verif/internal/refexec"
	"verif/internal/vk"
)

// ---- recording cache implementing the documented contract, with fault hooks

type recCache struct {
	mu      sync.Mutex
	m       map[string]caching.Item
	sets    [][]caching.Item // every SetMany call
	gets    int
	hits    int
	failGet bool
	failSet bool
}

func newCache() *recCache { return &recCache{m: map[string]caching.Item{}} }

func (c *recCache) GetMany(_ context.Context, keys []string) (map[string]caching.Item, error) {
	c.mu.Lock()
	defer c.mu.Unlock()
	c.gets++
	if c.failGet {
		return nil, errors.New("cache unavailable (get)")
	}
	out := map[string]caching.Item{}
	for _, k := range keys {
		if it, ok := c.m[k]; ok && it.TTL > 0 {
			out[k] = it
			c.hits++
		}
	}
	return out, nil
}

func (c *recCache) SetMany(_ context.Context, items []caching.Item) error {
	c.mu.Lock()
	defer c.mu.Unlock()
	cp := append([]caching.Item(nil), items...)
	c.sets = append(c.sets, cp)
	if c.failSet {
		return errors.New("cache unavailable (set)")
	}
	for _, it := range items {
		if it.TTL <= 0 {
			return caching.ErrMissingTTL
		}
	}
	for _, it := range items {
		c.m[it.Key] = caching.Item{Key: it.Key, Value: append([]byte(nil), it.Value...), TTL: it.TTL}
	}
	return nil
}

// ---- header menu and its meaning by RFC 9111 (written out by hand)

type headerCase struct {
	name     string
	lines    []string
	storable bool
	lifetime time.Duration // 0 = default TTL applies
}

const defaultTTL = 45 * time.Second

// cfgTTL: the default lifetime the cache is attached with; 0 = none configured
// (an entity is then stored only when the response itself gives a lifetime).
var cfgTTL = defaultTTL

func headerMenu() []headerCase {
	return []headerCase{
		{"absent", nil, false, 0},
		{"public", []string{"public"}, true, 0},
		{"public,max-age=60", []string{"public, max-age=60"}, true, 60 * time.Second},
		{"s-maxage wins", []string{"s-maxage=10, max-age=60, public"}, true, 10 * time.Second},
		{"max-age=0", []string{"max-age=0, public"}, false, 0},
		{"private", []string{"private, max-age=60"}, false, 0},
		{"no-store", []string{"public, no-store, max-age=60"}, false, 0},
		{"no-cache", []string{"public, no-cache, max-age=60"}, false, 0},
		{"no-cache=field", []string{`public, no-cache="x", max-age=60`}, false, 0},
		{"upper case", []string{"PUBLIC, MAX-AGE=5"}, true, 5 * time.Second},
		{"two lines", []string{"public", "max-age=7"}, true, 7 * time.Second},
		{"two lines refusing", []string{"public, max-age=60", "no-store"}, false, 0},
		{"max-age only", []string{"max-age=60"}, false, 0},
	}
}

type step struct {
	Op     int    `json:"op"`
	Header int    `json:"header"`
	Class  string `json:"class"` // clean | errors | http500
}

var opAlphabet = []string{
	`{users {reviews {body}}}`,  // batch u1,u2,u3 (u3's reviews contain a non-null null -> subgraph error)
	`{me {reviews {body}}}`,     // u1: overlapping representation set, same selection
	`{users {reviews {stars}}}`, // same entities, different selection
	`{user(id: "u2") {reviews {body} greeting}}`,
	`{users {greeting(times: 2)}}`, // argument value
	`{users {greeting}}`,           // same field, other argument value
	`{users {greeting(times: 3)}}`, // same operation after variable extraction, same entities, another value of the extracted variable
	// a batch that is served completely from the cache (no null entity in it): u3's friends are [u1, null]
	`{user(id: "u3") {friends {greeting(times: 2)}}}`,
	`{user(id: "u3") {friends {greeting(times: 3)}}}`,
	`{me {friends {reviews {body}} favorite {title}}}`, // u2,u1 through another path + Product entity
	`{me {friends {reviews {stars}}}}`,                 // (u2,u1): covered by the keys of the users batch; u2 is a null entity in sg1
	// one operation text, an argument variable that is undefined (the argument's
	// default applies at the subgraph) / explicitly null / set: three different
	// subgraph requests for the same entities ("query§variables")
	// (on a batch that can be served completely from the cache)
	`query Q($s: Style) {user(id: "u3") {friends {greeting(style: $s)}}}§{}`,
	`query Q($s: Style) {user(id: "u3") {friends {greeting(style: $s)}}}§{"s":null}`,
	`query Q($s: Style) {user(id: "u3") {friends {greeting(style: $s)}}}§{"s":"LOUD"}`,
	// SINGLE (not batched) entity fetches with one selection for different entities
	`{user(id: "u1") {reviews {stars}}}`,
	`{user(id: "u3") {reviews {stars}}}`,
	// two nullable argument variables, ONE undefined and the other explicitly null, and
	// the other way round: both render alike before the undefined one is removed
	`query Q($s: Style, $t: Int) {user(id: "u3") {friends {greeting(style: $s, times: $t)}}}§{"t":null}`,
	`query Q($s: Style, $t: Int) {user(id: "u3") {friends {greeting(style: $s, times: $t)}}}§{"s":null}`,
}

// splitOp splits an alphabet entry into operation text and variables.
func splitOp(entry string) (string, []byte) {
	if i := strings.Index(entry, "§"); i >= 0 {
		return entry[:i], []byte(entry[i+len("§"):])
	}
	return entry, nil
}

func layout(s *fedlab.Supergraph) *fedlab.Layout {
	return fedlab.ByType(s, 2, func(r fedlab.FieldRef) int {
		if r.Type == "Product" || r.Field == "topProducts" || r.Field == "reviews" || r.Field == "greeting" {
			return 1
		}
		return 0
	}, "cache-base")
}

type fail struct{ clause, site, detail string }

type labs struct {
	with, without *fedlab.Lab
}

func newLabs() (*labs, error) {
	s := fedlab.SCore()
	u := fedlab.SCoreUniverse(s)
	// only error-free data: the universe's non-null null would make every users
	// batch an "errors" response; keep it for the explicit errors class instead
	// u2 is not known to subgraph 1 (which owns reviews / greeting / Product):
	// it answers null for it inside a batch, in a non-last position
	for _, o := range u.Objs["User"] {
		if o["id"] == "u2" {
			o["reviews"], o["greeting"] = nil, nil
		}
	}
	nullEntity := func(sg int, tn string, e fedlab.Obj) bool { return sg == 1 && tn == "User" && e["id"] == "u2" }
	a, err := fedlab.NewLab(layout(s), u, fedlab.LabOptions{})
	if err != nil {
		return nil, err
	}
	b, err := fedlab.NewLab(layout(s), u, fedlab.LabOptions{})
	if err != nil {
		return nil, err
	}
	a.Sim.NullEntity, b.Sim.NullEntity = nullEntity, nullEntity
	return &labs{a, b}, nil
}

func setResponder(l *fedlab.Lab, h headerCase, class string) {
	l.Sim.RespHeader = func(r *fedlab.Request) http.Header {
		hd := http.Header{}
		for _, ln := range h.lines {
			hd.Add("Cache-Control", ln)
		}
		return hd
	}
	l.Sim.PostProcess = func(r *fedlab.Request, body []byte) (int, []byte) {
		if len(r.Reps) == 0 {
			return 200, body
		}
		switch class {
		case "entities-empty", "entities-short":
			// an error-free 200 whose _entities list does not line up with the
			// representations: "not found" as an empty list / a batch one short
			var m map[string]any
			if json.Unmarshal(body, &m) != nil {
				return 200, body
			}
			d, _ := m["data"].(map[string]any)
			ents, _ := d["_entities"].([]any)
			if d == nil || len(ents) == 0 {
				return 200, body
			}
			if class == "entities-empty" {
				d["_entities"] = []any{}
			} else {
				d["_entities"] = ents[:len(ents)-1]
			}
			nb, _ := json.Marshal(m)
			return 200, nb
		case "http500":
			return 500, body
		case "errors":
			if !strings.Contains(string(body), `"errors"`) {
				return 200, []byte(strings.Replace(string(body), `{"data":`, `{"errors":[{"message":"partial"}],"data":`, 1))
			}
		}
		return 200, body
	}
}

// runHistory executes the history on the cached engine and each step alone on
// the cache-less engine.
// noCallback: the cache is attached WITHOUT an error callback (nil is allowed).
var noCallback bool

var cacheErrMu sync.Mutex

func runHistory(ls *labs, hist []step, fault string, faultAt int) (out string, fails []fail) {
	defer func() {
		if r := recover(); r != nil {
			fails = append(fails, fail{"cache failures never fail a request", "panic", fmt.Sprintf("history %+v fault %s@%d (error callback nil: %v): %v", hist, fault, faultAt, noCallback, r)})
		}
	}()
	return runHistory0(ls, hist, fault, faultAt)
}

func runHistory0(ls *labs, hist []step, fault string, faultAt int) (string, []fail) {
	menu := headerMenu()
	cache := newCache()
	var fails []fail
	var cacheErrs []string
	var outcome []string
	for i, st := range hist {
		h := menu[st.Header]
		q := opAlphabet[st.Op]
		setResponder(ls.with, h, st.Class)
		setResponder(ls.without, h, st.Class)
		cache.failGet, cache.failSet = false, false
		if i == faultAt {
			switch fault {
			case "get-error":
				cache.failGet = true
			case "set-error":
				cache.failSet = true
			case "drop-one-key":
				cache.mu.Lock()
				keys := make([]string, 0, len(cache.m))
				for k := range cache.m {
					keys = append(keys, k)
				}
				sort.Strings(keys)
				if len(keys) > 0 {
					delete(cache.m, keys[0])
				}
				cache.mu.Unlock()
			case "expire-all":
				cache.mu.Lock()
				for k, it := range cache.m {
					it.TTL = 0
					cache.m[k] = it
				}
				cache.mu.Unlock()
			case "lose-one-value", "lose-all-values":
				// the entry is still there and not expired, but its bytes were lost: the
				// cache hands out a zero-length value (no error)
				cache.mu.Lock()
				keys := make([]string, 0, len(cache.m))
				for k := range cache.m {
					keys = append(keys, k)
				}
				sort.Strings(keys)
				for i, k := range keys {
					if i > 0 && fault == "lose-one-value" {
						break
					}
					it := cache.m[k]
					it.Value = nil
					cache.m[k] = it
				}
				cache.mu.Unlock()
			}
		}
		nsets := len(cache.sets)
		hits0 := cache.hits
		// the engine reports cache errors from the goroutines of parallel fetches
		opt := engine.VerifWithResponseCache(cache, cfgTTL, func(err error) {
			cacheErrMu.Lock()
			defer cacheErrMu.Unlock()
			cacheErrs = append(cacheErrs, err.Error())
		})
		if noCallback {
			opt = engine.VerifWithResponseCache(cache, cfgTTL, nil)
		}
		qt, qv := splitOp(q)
		got, reqs, err := ls.with.Exec(qt, "", qv, opt)
		want, reqs0, err0 := ls.without.Exec(qt, "", qv)
		if (err != nil) != (err0 != nil) {
			fails = append(fails, fail{"cache failures never fail a request / caching is transparent", "engine error differs", fmt.Sprintf("step %d %s: with cache err=%v, without err=%v", i, q, err, err0)})
			continue
		}
		if os.Getenv("VERIF_C16_DUMP") != "" { // development aid
			fmt.Printf("step %d %s\n  with cache:    %s\n  without cache: %s\n", i, q, got, want)
			for _, r := range reqs {
				fmt.Printf("    -> %s %s\n", r.Host, r.RawBody)
			}
		}
		gc, e1 := canonResp(got)
		wc, e2 := canonResp(want)
		if e1 != nil || e2 != nil || gc != wc {
			fails = append(fails, fail{"every response equals the response the same request gets with no cache", "response differs", fmt.Sprintf("step %d %s (header %q, class %s)\nwith cache:    %s\nwithout cache: %s", i, q, h.name, st.Class, got, want)})
		}
		// storability of everything written during this step
		for _, call := range cache.sets[nsets:] {
			for _, it := range call {
				switch {
				case st.Class != "clean":
					fails = append(fails, fail{"an entity is stored only from an error-free successful subgraph response", "stored from " + st.Class + " response", fmt.Sprintf("step %d %s: item %s stored although the subgraph responses of this step are %s", i, q, tailKey(it.Key), st.Class)})
				case !h.storable:
					fails = append(fails, fail{"an entity is stored only when the response is explicitly public and carries no no-store, no-cache or private", "stored under header: " + h.name, fmt.Sprintf("step %d %s: item stored with Cache-Control %q", i, q, h.lines)})
				default:
					lim := h.lifetime
					if lim == 0 {
						lim = cfgTTL // 0 when no default is configured: nothing may be stored then
					}
					if it.TTL > lim || it.TTL <= 0 {
						site := "ttl under header: " + h.name
						if cfgTTL == 0 {
							site += " (no default lifetime configured)"
						}
						fails = append(fails, fail{"lifetime no longer than the response's s-maxage/max-age (else the configured default)", site, fmt.Sprintf("step %d %s: ttl %v > %v", i, q, it.TTL, lim)})
					}
				}
			}
		}
		// a step whose subgraph error comes from the data itself (non-null null)
		// is an "errors" response too: detect via the cache-less run
		_ = reqs0
		outcome = append(outcome, fmt.Sprintf("reqs=%d/%d sets=%d hits=%d", len(reqs), len(reqs0), len(cache.sets)-nsets, cache.hits-hits0))
	}
	return strings.Join(outcome, " ; "), fails
}

// canonResp: the response as a JSON value with the errors compared as a
// multiset (the order of errors of parallel fetches is not deterministic with or
// without a cache).
func canonResp(b []byte) (string, error) {
	m, err := refexec.DecodeObject(b)
	if err != nil {
		return "", err
	}
	if es, ok := m["errors"].([]any); ok {
		var ss []string
		for _, e := range es {
			ss = append(ss, refexec.Canon(e))
		}
		sort.Strings(ss)
		m["errors"] = ss
	}
	return refexec.Canon(m), nil
}

func tailKey(k string) string {
	if len(k) > 24 {
		return "…" + k[len(k)-24:]
	}
	return k
}

func histories(n int, ops, headers int, classes []string) [][]step {
	var out [][]step
	var rec func(cur []step)
	rec = func(cur []step) {
		if len(cur) > 0 {
			out = append(out, append([]step(nil), cur...))
		}
		if len(cur) == n {
			return
		}
		for o := 0; o < ops; o++ {
			rec(append(cur, step{Op: o}))
		}
	}
	rec(nil)
	return out
}

func TestCheck(t *testing.T) {
	run := vk.Start("C16", "exploration")
	defer run.Finish()
	run.Rule("(a) all operation histories of length <= n over the alphabet x one Cache-Control menu entry and response class for the FIRST step (later steps: clean, public max-age=60) plus, for the storability clause, every (header, class) on every step position x <=1 cache fault; (b) caching.TTL over all header atom strings <= k and their two-line splits; (c) pairs of different operations with the same entity fetch in flight together x response class x EVERY completion order of the gated subgraph requests; distinct = distinct (history, header, class, fault, outcome) resp. distinct (verdict, ttl)")
	run.Assume("subgraph data does not change between steps", "the recording cache follows the documented Cache contract (expired or TTL<=0 entries are misses)")
	ls, err := newLabs()
	if err != nil {
		t.Fatal(err)
	}
	// the universe's u3 review with a null non-null body makes `users{reviews{body}}`
	// an errors response by itself: that is intended (natural errors class)
	n := vk.Pick(run, 2, 3)
	run.Bound("history_length", n)
	menu := headerMenu()
	classes := []string{"clean", "errors", "http500", "entities-empty", "entities-short"}
	faults := []string{"", "get-error", "set-error", "drop-one-key", "expire-all", "lose-one-value", "lose-all-values"}
	var rin *struct {
		Hist    []step `json:"hist"`
		Fault   string `json:"fault"`
		FaultAt int    `json:"fault_at"`
	}
	if run.Replay != "" {
		rin = &struct {
			Hist    []step `json:"hist"`
			Fault   string `json:"fault"`
			FaultAt int    `json:"fault_at"`
		}{}
		if err := run.ReplayInput(rin); err != nil {
			t.Fatal(err)
		}
		var cin struct {
			Pair  *int   `json:"concurrent_pair"`
			Class string `json:"class"`
			Order []int  `json:"order"`
		}
		if err := run.ReplayInput(&cin); err == nil && cin.Pair != nil {
			replayConcurrent(t, run, ls, *cin.Pair, cin.Class, cin.Order)
			return
		}
		out, fails := runHistory(ls, rin.Hist, rin.Fault, rin.FaultAt)
		fmt.Printf("history %+v fault %s@%d\noutcome %s\n", rin.Hist, rin.Fault, rin.FaultAt, out)
		run.Eval(1)
		for _, fl := range fails {
			fmt.Printf("FAILED %s [%s]\n%s\n", fl.clause, fl.site, fl.detail)
			run.Violate(vk.Violation{Clause: fl.clause, Site: fl.site, Class: "replay", Detail: fl.detail})
		}
		return
	}
	var caseNo int64
	emit := func(hist []step, fault string, faultAt int) {
		caseNo++
		if !run.Mine(caseNo) {
			return
		}
		run.Eval(1)
		out, fails := runHistory(ls, hist, fault, faultAt)
		if fault == "" {
			// once more with NO default lifetime configured
			cfgTTL = 0
			_, f3 := runHistory(ls, hist, fault, faultAt)
			cfgTTL = defaultTTL
			run.Count("histories_without_default_lifetime", 1)
			fails = append(fails, f3...)
		}
		if fault != "" {
			// once more with the cache attached without an error callback
			noCallback = true
			_, f2 := runHistory(ls, hist, fault, faultAt)
			noCallback = false
			run.Count("faulted_histories_without_callback", 1)
			for _, fl := range f2 {
				fl.site += " (no error callback)"
				fails = append(fails, fl)
			}
		}
		var hs []string
		for _, st := range hist {
			hs = append(hs, fmt.Sprintf("%d/%s/%s", st.Op, menu[st.Header].name, st.Class))
		}
		key := strings.Join(hs, ",") + "|" + fault + fmt.Sprint(faultAt)
		if run.Outcome(key + "|" + out) {
			run.Sample(fault+"/"+hist[0].Class, map[string]any{"history": hs, "fault": fault, "fault_at": faultAt, "outcome": out})
		}
		for _, fl := range fails {
			run.Violate(vk.Violation{Clause: fl.clause, Site: fl.site, Class: faultClass(fault),
				Detail: fmt.Sprintf("history %v\nfault %q at step %d\n%s", hs, fault, faultAt, fl.detail),
				Input:  map[string]any{"hist": hist, "fault": fault, "fault_at": faultAt}})
		}
	}
	const goodHeader = 2 // public, max-age=60
	for _, base := range histories(n, len(opAlphabet), 0, nil) {
		if run.Expired() {
			break
		}
		// the response class is a property of the subgraph ("subgraph data does not
		// change"), so it is uniform over a history; the header varies at one
		// position, everything else carries the storable header
		for _, cl := range classes {
			for pos := range base {
				for hi := range menu {
					if pos > 0 && hi == goodHeader {
						continue // identical to the pos=0 variant
					}
					hist := make([]step, len(base))
					for i := range base {
						hist[i] = step{Op: base[i].Op, Header: goodHeader, Class: cl}
					}
					hist[pos].Header = hi
					emit(hist, "", -1)
				}
			}
		}
		// cache faults on the all-storable history
		hist := make([]step, len(base))
		for i := range base {
			hist[i] = step{Op: base[i].Op, Header: goodHeader, Class: "clean"}
		}
		for _, f := range faults[1:] {
			for at := range hist {
				emit(hist, f, at)
			}
		}
	}
	checkTTLStrings(run)
	checkConcurrent(t, run, ls)
}

func faultClass(f string) string {
	if f == "" {
		return "no cache fault"
	}
	return "cache fault " + f
}

// ---- (b) header atom strings through caching.TTL

var atoms = []string{"public", "private", "no-store", "no-cache", "max-age", "s-maxage", "=", ",", `"`, " ", "0", "60", "-1", "x"}

// refParse is an independent, deliberately simple RFC 9111 style tokenizer:
// directives separated by commas, name[=value], value a token or quoted string.
// It reports which directive names occur and the numeric values of max-age /
// s-maxage occurrences (ok=false when the field is not parseable by it, in
// which case nothing is judged).
func refParse(lines []string) (names map[string]bool, maxAges, sMaxAges []int, ok bool) {
	names = map[string]bool{}
	for _, ln := range lines {
		i := 0
		n := len(ln)
		for i < n {
			for i < n && (ln[i] == ' ' || ln[i] == ',') {
				i++
			}
			if i >= n {
				break
			}
			st := i
			for i < n && ln[i] != '=' && ln[i] != ',' && ln[i] != ' ' && ln[i] != '"' {
				i++
			}
			name := strings.ToLower(ln[st:i])
			if name == "" {
				return nil, nil, nil, false
			}
			val := ""
			hasVal := false
			for i < n && ln[i] == ' ' {
				i++
			}
			if i < n && ln[i] == '=' {
				i++
				hasVal = true
				for i < n && ln[i] == ' ' {
					i++
				}
				if i < n && ln[i] == '"' {
					i++
					vs := i
					for i < n && ln[i] != '"' {
						i++
					}
					if i >= n {
						return nil, nil, nil, false
					}
					val = ln[vs:i]
					i++
				} else {
					vs := i
					for i < n && ln[i] != ',' && ln[i] != ' ' && ln[i] != '"' && ln[i] != '=' {
						i++
					}
					val = ln[vs:i]
				}
			}
			for i < n && ln[i] == ' ' {
				i++
			}
			if i < n && ln[i] != ',' {
				return nil, nil, nil, false
			}
			names[name] = true
			if name == "max-age" || name == "s-maxage" {
				if !hasVal {
					return nil, nil, nil, false
				}
				var v int
				if _, err := fmt.Sscanf(val, "%d", &v); err != nil || fmt.Sprint(v) != val {
					return nil, nil, nil, false
				}
				if name == "max-age" {
					maxAges = append(maxAges, v)
				} else {
					sMaxAges = append(sMaxAges, v)
				}
			}
		}
	}
	return names, maxAges, sMaxAges, true
}

func maxOf(xs []int) int {
	m := xs[0]
	for _, x := range xs {
		if x > m {
			m = x
		}
	}
	return m
}

var directives = []string{"public", "private", "no-store", "no-cache", `no-cache="x"`, "max-age=0", "max-age=60", "max-age=-1", "max-age", "s-maxage=0", "s-maxage=10", "s-maxage=x", "MAX-AGE=5", "x=1", "must-revalidate"}

// checkTTLDirectives: every sequence of <= k whole directives, joined by ", "
// or split over two header lines at every boundary.
func checkTTLDirectives(run *vk.Run, judge func(lines []string)) {
	k := vk.Pick(run, 3, 4)
	run.Bound("header_directives", k)
	var rec func(cur []string)
	rec = func(cur []string) {
		if len(cur) > 0 {
			judge([]string{strings.Join(cur, ", ")})
			for i := 1; i < len(cur); i++ {
				judge([]string{strings.Join(cur[:i], ","), strings.Join(cur[i:], " , ")})
			}
		}
		if len(cur) == k {
			return
		}
		for _, d := range directives {
			rec(append(cur, d))
		}
	}
	rec(nil)
}

func checkTTLStrings(run *vk.Run) {
	k := vk.Pick(run, 4, 5)
	run.Bound("header_atoms", k)
	var idx int64
	var rec func(cur []string)
	judge := func(lines []string) {
		idx++
		if !run.Mine(idx) {
			return
		}
		run.Eval(1)
		h := http.Header{}
		for _, ln := range lines {
			h.Add("Cache-Control", ln)
		}
		ttl, stored := caching.TTL(h, defaultTTL)
		run.Outcome(fmt.Sprintf("ttl-verdict %v %v", stored, ttl))
		if !stored {
			return // refusing to store is never an alarm
		}
		names, ma, sma, ok := refParse(lines)
		if !ok {
			run.Count("ttl_strings_not_judged", 1)
			return
		}
		viol := func(site, why string) {
			run.Violate(vk.Violation{Clause: "an entity is stored only when the response is explicitly public, carries no no-store/no-cache/private and for no longer than its s-maxage/max-age", Site: site, Class: "header string", Detail: fmt.Sprintf("Cache-Control lines %q: stored with ttl %v; %s", lines, ttl, why), Input: map[string]any{"lines": lines}})
		}
		if !names["public"] {
			viol("stored without public", "no public directive")
		}
		for _, r := range []string{"no-store", "no-cache", "private"} {
			if names[r] {
				viol("stored despite "+r, r+" present")
			}
		}
		switch {
		case len(sma) > 0:
			if ttl > time.Duration(maxOf(sma))*time.Second {
				viol("ttl exceeds s-maxage", fmt.Sprintf("s-maxage values %v", sma))
			}
		case len(ma) > 0:
			if ttl > time.Duration(maxOf(ma))*time.Second {
				viol("ttl exceeds max-age", fmt.Sprintf("max-age values %v", ma))
			}
		default:
			if ttl > defaultTTL {
				viol("ttl exceeds default", "")
			}
		}
	}
	checkTTLDirectives(run, judge)
	rec = func(cur []string) {
		if len(cur) > 0 {
			s := strings.Join(cur, "")
			judge([]string{s})
			// every split into two header lines at an atom boundary
			for i := 1; i < len(cur); i++ {
				judge([]string{strings.Join(cur[:i], ""), strings.Join(cur[i:], "")})
			}
		}
		if len(cur) == k {
			return
		}
		for _, a := range atoms {
			rec(append(cur, a))
		}
	}
	rec(nil)
}
