package c18

import (
	"bytes"
	"runtime"
	"strconv"

	"github.com/coder/websocket"

	"github.com/wundergraph/graphql-go-tools/v2/pkg/vsync"

	"verif/internal/sched"
)

func goid() int64 {
	var buf [64]byte
	n := runtime.Stack(buf[:], false)
	s := buf[len("goroutine "):n]
	i := bytes.IndexByte(s, ' ')
	id, _ := strconv.ParseInt(string(s[:i]), 10, 64)
	return id
}

// fuseG is the goroutine that has just been granted a "close" point.
var fuseG int64

// install routes every schedule point of the instrumented packages (sync,
// sync/atomic, close/send/cancel statements) to the explorer's scheduler and
// takes ownership of the two places where the Go runtime would otherwise pick
// at random among several ready select cases:
//
//  1. websocket.VerifSelect exists only in the local copy of coder/websocket
//     (testdata/websocket, swapped in through the go.mod overlay of check.json;
//     the only change is in (*mu).lock, see there): "context done" against "lock
//     free" becomes an environment choice of the explorer (alternative 1 costs
//     one deviation).
//  2. WSTransport.getOrDial: `select { case <-ctx.Done(): case <-result.done: }`
//     is evaluated with both cases ready only by a caller whose context is
//     already cancelled and that arrives between the dialer's close(result.done)
//     and its delete(t.dialing, key). The Mutex.Lock that directly follows a
//     granted close point of the same goroutine (and the instrumenter's
//     "after-close" point between them) is therefore fused with it (no
//     schedule point in between, as long as the mutex is free): that window is
//     executed atomically and the ambiguous select state is unreachable.
func install(s *sched.Sched) {
	vsync.Hook = func(kind string, obj any, ready func() bool) {
		if fuseG != 0 {
			if g := goid(); g == fuseG {
				if kind == "after-close" {
					return // the instrumenter's point behind the close statement: stay fused
				}
				fuseG = 0
				if kind == "Mutex.Lock" && ready() {
					return
				}
			}
		}
		s.Hook(kind, obj, ready)
		if kind == "close" {
			fuseG = goid()
		}
	}
	// A message write takes two of these locks back to back (message writer,
	// then frame writer). Only "lock wins" on both differs observably from
	// "context wins" on the first (the write then runs with a dead context and
	// its watchdog closes the connection), so the answer "lock wins" also covers
	// the directly following lock of the same goroutine: one deviation, not two.
	websocket.VerifRand = &counterReader{}
	websocket.VerifSelect = func(site string, n int) int {
		g := goid()
		if selSticky && g == selG {
			selSticky = false
			return 1
		}
		a := s.Choose(site, n)
		selG, selSticky = g, a == 1
		return a
	}
}

var (
	selG      int64
	selSticky bool
)

// counterReader is the deterministic stand-in for crypto/rand inside the local
// coder/websocket copy (frame masks, Sec-WebSocket-Key).
type counterReader struct{ n uint32 }

func (r *counterReader) Read(p []byte) (int, error) {
	for i := range p {
		r.n = r.n*1664525 + 1013904223
		p[i] = byte(r.n >> 24)
	}
	return len(p), nil
}
