package c18

import (
	"fmt"
	"sort"
	"strings"
)

// The sentences of property C18 (fixed strings: they are part of the fingerprints).
const (
	clRoute  = "every upstream message is delivered to the one subscription it belongs to, in upstream order"
	clEnds   = "a complete or error for one subscription ends only that one"
	clCancel = "a subscriber cancelling never fails or stalls another subscriber"
	clShare  = "connections are shared only between subscriptions with the same endpoint, protocol, headers and init payload"
	clIdle   = "a connection does not outlive its last subscription by more than the configured idle period"
	clDead   = "no deadlock or stall: every Subscribe and unsubscribe call returns and every stream on a lost connection ends"
)

type finding struct {
	Clause, Site, Class, Detail string
}

func (f finding) fp() string { return f.Clause + "\x00" + f.Site + "\x00" + f.Class }

func transportClass(o optTuple) string {
	if o.SSE {
		return "sse"
	}
	return "ws"
}

// pairClass is the structural class of a finding about subscriber j in a
// scenario where subscriber i cancels.
func pairClass(sc *scenario, j int) string {
	oj := optTuples[sc.Subs[j].Opt]
	cls := transportClass(oj)
	same := false
	who := "canceller"
	for i, s := range sc.Subs {
		if i != j && s.Deadline > 0 {
			who = "subscriber whose deadline expires"
		}
		if i != j && s.ends() && optTuples[s.Opt].handshake() == oj.handshake() {
			same = true
		}
	}
	if oj.SSE {
		return cls
	}
	if same {
		return cls + ", " + who + " has the same connection key"
	}
	return cls + ", " + who + " has a different connection key"
}

// expectedFull is what a subscriber receives when nothing goes wrong: its script
// up to and including the first terminal frame.
func expectedFull(idx int, script []string) []string {
	var out []string
	for n, k := range script {
		switch k {
		case "next":
			out = append(out, "next:"+payloadFor(idx, n))
		case "error":
			out = append(out, "error:"+payloadFor(idx, n))
			return out
		case "complete":
			out = append(out, "complete")
			return out
		}
	}
	return out
}

// symptom names how the outcome of a subscriber differs from the reference
// (stable vocabulary, no raw text).
func symptom(o subOutcome, want []string) string {
	if !o.Finished {
		if o.Err == "never-returned" {
			return "Subscribe never returns"
		}
		return "stream never ends (stall)"
	}
	const (
		symClosed = "connection closed under a live subscriber (ErrConnectionClosed)"
		symLost   = "connection torn down under a live subscriber (read / write error)"
	)
	// a local close (ErrConnectionClosed) anywhere in the outcome names the cause
	if o.Err == "connection-closed(local)" {
		return symClosed
	}
	for _, m := range o.Msgs {
		if m == "connerr:connection-closed(local)" {
			return symClosed
		}
	}
	switch {
	case o.Err == "":
	case o.Err == "context-canceled":
		return "Subscribe fails with another caller's context cancellation"
	case o.Err == "net-closed" || strings.HasPrefix(o.Err, "connection-lost"):
		return symLost
	default:
		return "Subscribe fails: " + o.Err
	}
	for _, m := range o.Msgs {
		if strings.HasPrefix(m, "connerr:") {
			cls := strings.TrimPrefix(m, "connerr:")
			if cls == "net-closed" || strings.HasPrefix(cls, "connection-lost") {
				return symLost
			}
			return "stream fails: " + cls
		}
	}
	if len(o.Msgs) < len(want) {
		return "messages lost"
	}
	return "unexpected messages"
}

// judge is the oracle for one finished execution. twin holds, per subscriber
// index, the outcomes observed in the explored twin scenario (nil when the
// scenario has no cancellers).
func judge(in *instance, twin map[int]map[string]bool) (string, []finding, map[string]int64) {
	sc := in.sc
	var fs []finding
	counts := map[string]int64{}
	add := func(clause, site, class, format string, a ...any) {
		fs = append(fs, finding{Clause: clause, Site: site, Class: class, Detail: fmt.Sprintf(format, a...)})
	}
	u := in.up
	u.mu.Lock()
	defer u.mu.Unlock()

	sentBy := map[int][]*sentFrame{}
	for _, f := range u.sent {
		sentBy[f.Sub] = append(sentBy[f.Sub], f)
	}

	var keyParts []string
	outs := make([]subOutcome, len(in.subs))
	allGone := true
	for i, st := range in.subs {
		if st.absent {
			continue
		}
		o := st.outcome()
		outs[i] = o
		keyParts = append(keyParts, st.spec.Name+":"+o.key())
		cls := transportClass(st.opt)
		if !o.Finished || st.spec.Stay {
			allGone = false
		}

		if len(sc.Frames) > 0 {
			continue // hand-built frames: judged by judgeFrames
		}
		// -- routing: own messages only, in upstream order, only what was sent, nothing after the terminal frame
		st.mu.Lock()
		lastN := -1
		ended := ""
		for _, m := range st.msgs {
			if ended == "complete" || ended == "error" {
				add(clRoute, "message delivered after the subscription's complete / error", cls,
					"%s received %s:%s after its %s", st.spec.Name, m.Kind, m.Tag, ended)
			} else if ended == "connerr" {
				counts["not_judged:message_after_connection_error"]++
			}
			switch m.Kind {
			case "next", "error":
				var si, sn int
				if _, err := fmt.Sscanf(m.Tag, "s%d.%d", &si, &sn); err != nil || si != i {
					add(clRoute, "message of another subscription delivered (cross-talk)", cls,
						"%s (subscription s%d) received %s %q %s", st.spec.Name, i, m.Kind, m.Tag, m.Text)
					break
				}
				if sn <= lastN {
					add(clRoute, "message repeated or out of upstream order", cls, "%s received frame %d after frame %d", st.spec.Name, sn, lastN)
				}
				lastN = sn
				found := false
				for _, f := range sentBy[i] {
					if f.N == sn && f.Kind == m.Kind && f.Begin < m.Seq {
						found = true
					}
				}
				if !found {
					add(clRoute, "message delivered that the upstream never sent", cls, "%s received %s %q", st.spec.Name, m.Kind, m.Tag)
				}
				if m.Kind == "error" {
					ended = "error"
				}
			case "complete":
				found := false
				for _, f := range sentBy[i] {
					if f.Kind == "complete" && f.Begin < m.Seq {
						found = true
					}
				}
				if !found {
					add(clEnds, "complete delivered that the upstream never sent for this subscription", cls, "%s received complete", st.spec.Name)
				}
				ended = "complete"
			case "connerr":
				ended = "connerr"
			default:
				add(clRoute, "message of unknown type delivered", cls, "%s received an unknown message", st.spec.Name)
			}
			if st.remRet > 0 && m.Seq > st.remRet {
				counts["not_judged:delivery_after_unsubscribe_returned"]++
			}
		}
		st.mu.Unlock()

		want := expectedFull(i, st.spec.Script)
		switch {
		case st.spec.ends():
			// its own cancellation may end it anywhere: only the routing checks above
		case twin != nil:
			// differential non-interference
			if !twin[i][o.refKey(sc.faulty())] {
				add(clCancel, symptom(o, want), pairClass(sc, i),
					"%s (never cancelled) ended as %s; in the twin scenario without the cancellation it only ends as %v",
					st.spec.Name, o.key(), sortedKeys(twin[i]))
			}
		case !sc.faulty():
			// nothing goes wrong upstream and nobody cancels: exactly the script
			got := subOutcome{Err: o.Err, Msgs: o.Msgs, Finished: o.Finished}
			ref := subOutcome{Msgs: want, Finished: true}
			if got.key() != ref.key() {
				// a connection level failure of this subscription while the upstream
				// ended (complete / error) another one: "ends only that one"; else routing
				clause := clRoute
				otherEnded := false
				for k, ot := range in.subs {
					if k != i && !ot.absent && hasTerminal(ot.spec.Script) {
						otherEnded = true
					}
				}
				if sym := symptom(o, want); otherEnded && (strings.HasPrefix(sym, "connection") || strings.HasPrefix(sym, "stream fails") || strings.HasPrefix(sym, "Subscribe fails")) {
					clause = clEnds
				}
				add(clause, symptom(o, want), cls, "%s ended as %s, the upstream sent exactly %v and nothing failed", st.spec.Name, o.key(), want)
			}
		default:
			// upstream faults: the stream must still end, and be a prefix of the script
			if !o.Finished {
				add(clDead, "stream never ends after an upstream fault", cls, "%s: %s", st.spec.Name, o.key())
			}
			for k, m := range o.Msgs {
				if strings.HasPrefix(m, "connerr:") {
					break
				}
				if k >= len(want) || want[k] != m {
					add(clRoute, "delivered sequence is not a prefix of what the upstream sent", cls, "%s received %v, script %v", st.spec.Name, o.Msgs, want)
					break
				}
			}
		}
	}

	// -- sharing: every subscribe frame travelled on a connection whose handshake equals its own options
	shareWS, shareSSE := "ws", "sse"
	if sc.ShareClass != "" {
		shareWS, shareSSE = sc.ShareClass, sc.ShareClass
	}
	var connParts []string
	for _, c := range u.conns {
		var names []string
		for _, sb := range c.Subs {
			if sb.Sub < 0 || sb.Sub >= len(in.subs) {
				add(clShare, "subscribe frame of an unknown subscription", "ws", "connection %d carried an unparsable subscribe frame", c.K)
				continue
			}
			st := in.subs[sb.Sub]
			names = append(names, st.spec.Name)
			if got, want := c.handshake(), st.opt.handshake(); got != want {
				add(clShare, "subscription multiplexed onto a connection with a different handshake", shareWS,
					"%s (options %s) was subscribed on connection %d with handshake %s", st.spec.Name, want, c.K, got)
			}
		}
		state := "open"
		switch {
		case c.Refused:
			state = "refused"
		case !c.Upgraded:
			state = "aborted"
		case c.Dropped:
			state = "dropped"
		case c.Closed:
			state = "closed"
		}
		connParts = append(connParts, fmt.Sprintf("c%d[%s]%s", c.K, strings.Join(names, "+"), state))
		if len(c.Unknown) > 0 {
			counts["unknown_client_frames"] += int64(len(c.Unknown))
		}
	}
	for _, s := range u.streams {
		if s.Sub >= 0 && s.Sub < len(in.subs) {
			st := in.subs[s.Sub]
			if got, want := s.handshake(), st.opt.handshake(); got != want {
				add(clShare, "SSE request with a different endpoint, method or headers", shareSSE, "%s (options %s) was requested as %s", st.spec.Name, want, got)
			}
		}
		state := "open"
		switch {
		case s.Refused:
			state = "refused"
		case s.pw == nil:
			state = "aborted"
		case s.Dropped:
			state = "dropped"
		case s.BodyClosed:
			state = "closed"
		}
		connParts = append(connParts, fmt.Sprintf("e%d%s", s.K, state))
	}

	// -- no deadlock
	d := in.drain
	if d.Horizon {
		add(clDead, "step horizon reached (livelock candidate)", "any", "drain did not quiesce")
	}
	var stuck []string
	for _, name := range d.Unfinished {
		kind := strings.TrimRight(name, "0123456789.")
		if strings.HasPrefix(name, "sub") {
			kind = "sub"
			// a never-cancelled subscriber of a cancel scenario is judged by the differential clause
			judgedElsewhere := false
			for _, st := range in.subs {
				if "sub"+st.spec.Name == name && !st.spec.ends() && (twin != nil || sc.faulty()) {
					judgedElsewhere = true
				}
				if "sub"+st.spec.Name == name && !st.spec.ends() && twin == nil && !sc.faulty() {
					judgedElsewhere = true // reported by the exactness clause above
				}
			}
			if judgedElsewhere {
				continue
			}
		} else if strings.HasPrefix(name, "emit") {
			kind = "emit"
		} else if strings.HasPrefix(name, "cancel") {
			kind = "cancel"
		}
		stuck = append(stuck, kind)
	}
	for _, p := range d.Parked {
		if i := strings.LastIndex(p, "@"); i >= 0 {
			k := p[i+1:]
			if strings.Contains(k, "Mutex") || strings.Contains(k, "Once") {
				stuck = append(stuck, "thread blocked at "+k)
			}
		}
	}
	if len(stuck) > 0 {
		sort.Strings(stuck)
		stuck = uniq(stuck)
		add(clDead, "blocked forever: "+strings.Join(stuck, ", "), "any", "unfinished=%v parked=%v", d.Unfinished, d.Parked)
	}

	// -- connections are gone once the last subscription is gone and the idle period has passed
	stats := "n/a"
	if allGone && len(d.Unfinished) == 0 && len(d.Parked) == 0 && !d.Horizon {
		for _, c := range u.conns {
			if c.Upgraded && !c.Closed {
				var who []string
				for _, sb := range c.Subs {
					if sb.Sub >= 0 && sb.Sub < len(in.subs) {
						who = append(who, in.subs[sb.Sub].spec.Name)
					}
				}
				add(clIdle, "upstream connection still open after the idle period", "ws",
					"connection %d (carried the subscriptions %v) is still open although every subscription is gone and 64s of virtual time passed", c.K, who)
			}
		}
		for _, s := range u.streams {
			if s.pw != nil && !s.BodyClosed && !s.Dropped {
				add(clIdle, "SSE response body never closed", "sse", "stream %d is still open although every subscription is gone", s.K)
			}
		}
		u.mu.Unlock()
		cs := in.cl.Stats()
		u.mu.Lock()
		stats = fmt.Sprintf("ws=%d,sse=%d", cs.WSConns, cs.SSEConns)
		if cs.WSConns != 0 {
			add(clIdle, "Stats() still counts WebSocket connections after the last subscription is gone", "ws", "Stats()=%+v, upstream view %v", cs, connParts)
		}
		if cs.SSEConns != 0 {
			add(clIdle, "Stats() still counts SSE connections after the last subscription is gone", "sse", "Stats()=%+v, upstream view %v", cs, connParts)
		}
	} else {
		counts["not_judged:connection_count_while_a_subscription_stays"]++
	}
	key := strings.Join(keyParts, " ") + " | " + strings.Join(connParts, " ") + " | stats " + stats
	return key, dedupe(fs), counts
}

func uniq(in []string) []string {
	var out []string
	for i, s := range in {
		if i == 0 || s != in[i-1] {
			out = append(out, s)
		}
	}
	return out
}

func dedupe(fs []finding) []finding {
	seen := map[string]bool{}
	var out []finding
	for _, f := range fs {
		if seen[f.fp()] {
			continue
		}
		seen[f.fp()] = true
		out = append(out, f)
	}
	return out
}
