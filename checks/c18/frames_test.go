package c18

// Part "frame shapes" of check C18 (default schedule only, like the collision
// pairs): the scripted upstream of the other parts only sends well-formed
// frames with every member present. Here two subscriptions are multiplexed on
// one connection (WebSocket, both sub-protocols) or run side by side (SSE) and
// the upstream sends every sequence of two hand-built frames, one addressed to
// each subscription, in both orders, from an alphabet of shapes: payload member
// absent / null / of another JSON kind, unknown extra members, id absent / of
// another JSON kind, payload on a complete, an unknown message type.
//
// Oracle (routing, R4u): a handler only ever sees bytes the upstream sent in a
// frame addressed to its own subscription (a frame without payload yields an
// empty payload, never somebody else's), and only message kinds such a frame can
// produce; a malformed frame may be dropped or reported as a connection error,
// never mis-delivered; a well-formed frame is delivered unless the connection
// was reported lost.

import (
	"context"
	"fmt"
	"io"
	"sort"
	"strings"
	"testing/synctest"

	"github.com/coder/websocket"

	"verif/internal/sched"
)

type frameSpec struct {
	To   int    // subscriber the frame is meant for
	Tmpl string // name of the shape
}

type frameTmpl struct {
	name    string
	wire    string   // message type / SSE event
	id      string   // "own" | "absent" | "number"
	payload string   // "absent" or a JSON text with %s = tag
	extra   string   // extra members (JSON fragment beginning with a comma) with %s = tag
	may     []string // message kinds this frame may legitimately produce at its addressee (a connection error is always allowed)
	well    bool     // well-formed: must be delivered unless the connection is reported lost
}

func wsTemplates(legacy bool) []frameTmpl {
	next, errOK, errOther := "next", `[{"message":"e%s"}]`, `{"message":"e%s"}`
	if legacy {
		next, errOK, errOther = "data", `{"message":"e%s"}`, `[{"message":"e%s"}]`
	}
	d := `{"data":{"v":"%s"}}`
	return []frameTmpl{
		{name: "next", wire: next, id: "own", payload: d, may: []string{"next"}, well: true},
		{name: "next-without-payload", wire: next, id: "own", payload: "absent", may: []string{"next"}},
		{name: "next-payload-null", wire: next, id: "own", payload: "null", may: []string{"next"}},
		{name: "next-payload-string", wire: next, id: "own", payload: `"%s"`, may: []string{"next"}},
		{name: "next-payload-number", wire: next, id: "own", payload: "7", may: []string{"next"}},
		{name: "next-errors-only", wire: next, id: "own", payload: `{"errors":[{"message":"%s"}]}`, may: []string{"next"}, well: true},
		{name: "next-extra-members", wire: next, id: "own", payload: d, extra: `,"zz":{"data":{"v":"%s.zz"}},"extensions":{"v":"%s.ext"}`, may: []string{"next"}, well: true},
		{name: "next-without-id", wire: next, id: "absent", payload: d},
		{name: "next-id-number", wire: next, id: "number", payload: d},
		{name: "error", wire: "error", id: "own", payload: errOK, may: []string{"error"}, well: true},
		{name: "error-without-payload", wire: "error", id: "own", payload: "absent", may: []string{"error"}},
		{name: "error-payload-null", wire: "error", id: "own", payload: "null", may: []string{"error"}},
		{name: "error-payload-other-kind", wire: "error", id: "own", payload: errOther, may: []string{"error"}},
		{name: "error-without-id", wire: "error", id: "absent", payload: errOK},
		{name: "complete", wire: "complete", id: "own", payload: "absent", may: []string{"complete"}, well: true},
		{name: "complete-with-payload", wire: "complete", id: "own", payload: d, may: []string{"complete"}},
		{name: "complete-without-id", wire: "complete", id: "absent", payload: "absent"},
		{name: "unknown-type", wire: "bogus", id: "own", payload: d},
	}
}

// SSE: the "frame" is one event of the subscription's own stream.
func sseTemplates() []frameTmpl {
	d := `{"data":{"v":"%s"}}`
	return []frameTmpl{
		{name: "next", wire: "next", payload: d, may: []string{"next"}, well: true},
		{name: "next-without-data", wire: "next", payload: "absent", may: []string{"next", "complete"}},
		{name: "next-data-null", wire: "next", payload: "null", may: []string{"next"}},
		{name: "next-data-string", wire: "next", payload: `"%s"`, may: []string{"next"}},
		{name: "next-extra-fields", wire: "next", payload: d, extra: "id: %s.id\nretry: 5\nzz: %s.zz\n", may: []string{"next"}, well: true},
		{name: "data-without-event", wire: "", payload: d, may: []string{"next"}},
		{name: "unknown-event", wire: "bogus", payload: d, may: []string{"next"}},
		{name: "unknown-event-without-data", wire: "bogus", payload: "absent", may: []string{"complete"}},
		{name: "error", wire: "error", payload: `[{"message":"e%s"}]`, may: []string{"error"}, well: true},
		{name: "complete-with-data", wire: "complete", payload: d, may: []string{"complete"}},
	}
}

// rawFrame is one hand-built frame as sent.
type rawFrame struct {
	To        int
	Tmpl      frameTmpl
	Addressed bool   // carries the id of (or travels on the stream of) subscriber To
	Payload   string // canonical JSON of everything in the frame that carries bytes for the addressee
	Text      string
	Begin     int64
	End       int64
}

func frameTag(sub, n int) string { return fmt.Sprintf("s%d.%d", sub, n) }

func fill(format, tag string) string { return strings.ReplaceAll(format, "%s", tag) }

func (u *upstream) tmplByName(name string, c *upConn) frameTmpl {
	ts := sseTemplates()
	if c != nil {
		ts = wsTemplates(c.Proto == "graphql-ws")
	}
	for _, t := range ts {
		if t.name == name {
			return t
		}
	}
	panic("unknown frame template " + name)
}

// maybeEmitFrames starts the frame emitter once every subscriber's subscribe
// frame / SSE request has been seen.
func (u *upstream) maybeEmitFrames() {
	if len(u.in.sc.Frames) == 0 {
		return
	}
	u.mu.Lock()
	seen := map[int]bool{}
	for _, c := range u.conns {
		for _, sb := range c.Subs {
			seen[sb.Sub] = true
		}
	}
	for _, st := range u.streams {
		if st.pw != nil {
			seen[st.Sub] = true
		}
	}
	start := !u.framesStarted && len(seen) == len(u.in.subs)
	if start {
		u.framesStarted = true
	}
	u.mu.Unlock()
	if start {
		u.s.Go("emitF", u.emitFrames)
	}
}

func (u *upstream) emitFrames() {
	for n, fs := range u.in.sc.Frames {
		// the frames go out once the Subscribe call of every subscriber has returned
		u.s.PointWhen(fmt.Sprintf("emitF:%d:%s", n, fs.Tmpl), func() bool {
			for _, st := range u.in.subs {
				st.mu.Lock()
				r := st.returned
				st.mu.Unlock()
				if !r {
					return false
				}
			}
			return true
		})
		tag := frameTag(fs.To, n)
		u.mu.Lock()
		var conn *upConn
		var id string
		for _, c := range u.conns {
			for _, sb := range c.Subs {
				if sb.Sub == fs.To {
					conn, id = c, sb.ID
				}
			}
		}
		var stream *sseStream
		for _, st := range u.streams {
			if st.Sub == fs.To && st.pw != nil {
				stream = st
			}
		}
		u.mu.Unlock()
		rf := &rawFrame{To: fs.To}
		switch {
		case conn != nil:
			t := u.tmplByName(fs.Tmpl, conn)
			rf.Tmpl = t
			var b strings.Builder
			b.WriteString(`{"type":"` + t.wire + `"`)
			switch t.id {
			case "own":
				b.WriteString(`,"id":"` + id + `"`)
				rf.Addressed = true
			case "number":
				b.WriteString(`,"id":5`)
			}
			if t.payload != "absent" {
				b.WriteString(`,"payload":` + fill(t.payload, tag))
				rf.Payload = canonJSON([]byte(fill(t.payload, tag)))
			}
			b.WriteString(fill(t.extra, tag) + "}")
			rf.Text = b.String()
			rf.Begin = u.in.tick()
			u.mu.Lock()
			u.rawSent = append(u.rawSent, rf)
			u.mu.Unlock()
			if err := conn.srv.Write(context.Background(), websocket.MessageText, []byte(rf.Text)); err != nil {
				continue
			}
		case stream != nil:
			t := u.tmplByName(fs.Tmpl, nil)
			rf.Tmpl = t
			rf.Addressed = true
			var b strings.Builder
			if t.wire != "" {
				b.WriteString("event: " + t.wire + "\n")
			}
			b.WriteString(fill(t.extra, tag))
			if t.payload != "absent" {
				b.WriteString("data: " + fill(t.payload, tag) + "\n")
				rf.Payload = canonJSON([]byte(fill(t.payload, tag)))
			}
			b.WriteString("\n")
			rf.Text = b.String()
			rf.Begin = u.in.tick()
			u.mu.Lock()
			u.rawSent = append(u.rawSent, rf)
			u.mu.Unlock()
			if _, err := io.WriteString(stream.pw, rf.Text); err != nil {
				continue
			}
		default:
			continue
		}
		e := u.in.tick()
		u.mu.Lock()
		rf.End = e
		u.mu.Unlock()
	}
}

// ---- scenarios

type frameFamily struct {
	name  string
	optA  string
	optB  string
	tmpls []frameTmpl
}

func frameFamilies() []frameFamily {
	return []frameFamily{
		{"graphql-transport-ws", "A", "A2", wsTemplates(false)},
		{"graphql-ws", "L", "L2", wsTemplates(true)},
		{"sse", "S", "S2", sseTemplates()},
	}
}

func frameScenarios() []*scenario {
	var out []*scenario
	for _, fam := range frameFamilies() {
		for _, t1 := range fam.tmpls {
			for _, t2 := range fam.tmpls {
				for _, first := range []int{0, 1} {
					out = append(out, &scenario{
						Name:       fmt.Sprintf("F/%s/%s>%s/%s-first", fam.name, t1.name, t2.name, []string{"A", "B"}[first]),
						ShareClass: fam.name,
						Subs: []subSpec{
							{Name: "A", Opt: fam.optA, Stay: true},
							{Name: "B", Opt: fam.optB, Stay: true, After: "A"},
						},
						Frames: []frameSpec{{To: first, Tmpl: t1.name}, {To: 1 - first, Tmpl: t2.name}},
					})
				}
			}
		}
	}
	return out
}

func contains(set []string, k string) bool {
	for _, s := range set {
		if s == k {
			return true
		}
	}
	return false
}

// judgeFrames is the oracle of the part; it also returns, per frame, how the
// frame was handled (for the outcome statistics).
func judgeFrames(in *instance) ([]finding, []string) {
	var fs []finding
	u := in.up
	u.mu.Lock()
	defer u.mu.Unlock()
	proto := in.sc.ShareClass
	var handled []string
	for i, st := range in.subs {
		var mine []*rawFrame
		var meant *rawFrame
		for _, rf := range u.rawSent {
			if rf.To == i {
				meant = rf
				if rf.Addressed {
					mine = append(mine, rf)
				}
			}
		}
		shape := "none"
		if meant != nil {
			shape = meant.Tmpl.name
		}
		class := proto + ", frame meant for the subscription: " + shape
		add := func(site, format string, a ...any) {
			fs = append(fs, finding{Clause: clRoute, Site: site, Class: class, Detail: fmt.Sprintf(format, a...)})
		}
		st.mu.Lock()
		lost := false
		var kinds []string
		for _, m := range st.msgs {
			kinds = append(kinds, m.Kind)
			if m.Kind == "connerr" {
				lost = true
				continue
			}
			if m.Kind == "unknown" {
				add("message of unknown type delivered", "%s received a message of unknown type", st.spec.Name)
				continue
			}
			okKind := false
			for _, rf := range mine {
				if contains(rf.Tmpl.may, m.Kind) && rf.Begin < m.Seq {
					okKind = true
				}
			}
			if !okKind {
				add("message delivered that no frame addressed to the subscription can produce",
					"%s received a %s message (data=%q errors=%q); frames sent: %s", st.spec.Name, m.Kind, m.Data, m.Errors, framesText(u.rawSent))
			}
			for _, b := range []string{m.Data, m.Errors, m.Ext} {
				if b == "" {
					continue
				}
				cb := canonJSON([]byte(b))
				own := false
				for _, rf := range mine {
					if rf.Payload != "" && strings.Contains(rf.Payload, cb) {
						own = true
					}
				}
				if own {
					continue
				}
				foreign := false
				for _, rf := range u.rawSent {
					if (rf.To != i || !rf.Addressed) && strings.Contains(rf.Text, strings.Trim(cb, `"`)) {
						foreign = true
					}
				}
				if foreign {
					add("message of another subscription delivered (cross-talk)",
						"%s received %s bytes %s, which the upstream sent in a frame that is not addressed to it; frames sent: %s", st.spec.Name, m.Kind, b, framesText(u.rawSent))
				} else {
					add("delivered bytes that the upstream never sent to the subscription",
						"%s received %s bytes %s; frames sent: %s", st.spec.Name, m.Kind, b, framesText(u.rawSent))
				}
			}
		}
		// a well-formed frame is delivered unless the connection was reported lost
		for _, rf := range mine {
			if !rf.Tmpl.well || rf.End == 0 || lost {
				continue
			}
			got := false
			for _, m := range st.msgs {
				if !contains(rf.Tmpl.may, m.Kind) {
					continue
				}
				all := canonOrEmpty(m.Data) + canonOrEmpty(m.Errors)
				if rf.Payload == "" || (all != "" && strings.Contains(rf.Payload, canonOrEmpty(m.Data)) && strings.Contains(rf.Payload, canonOrEmpty(m.Errors))) {
					got = true
				}
			}
			if !got {
				add("well-formed frame not delivered", "%s never received its %s frame %s (received kinds %v); frames sent: %s", st.spec.Name, rf.Tmpl.name, rf.Text, kinds, framesText(u.rawSent))
			}
		}
		st.mu.Unlock()
		if meant != nil {
			res := "dropped"
			switch {
			case len(kinds) > 0:
				res = "-> " + strings.Join(kinds, ",")
			}
			pos := "first"
			if len(u.rawSent) > 1 && u.rawSent[1] == meant {
				pos = "second"
			}
			if pos == "first" {
				handled = append(handled, proto+" "+shape+" "+res)
			}
		}
	}
	sort.Strings(handled)
	return dedupe(fs), handled
}

func canonOrEmpty(b string) string {
	if b == "" {
		return ""
	}
	return canonJSON([]byte(b))
}

func framesText(fr []*rawFrame) string {
	var out []string
	for _, f := range fr {
		out = append(out, fmt.Sprintf("[to %s] %s", []string{"A", "B", "C"}[f.To], strings.TrimSpace(strings.ReplaceAll(f.Text, "\n", "\\n"))))
	}
	return strings.Join(out, "  ")
}

// runFrames runs this shard's share of the frame sequences under the default schedule.
func (es *explorerState) runFrames() {
	run := es.run
	all := frameScenarios()
	run.Bound("frame_shape_sequences", len(all))
	run.Bound("frame_shape_alphabet", fmt.Sprintf("%d WebSocket shapes (both sub-protocols), %d SSE shapes; all ordered pairs (one frame per subscription), both orders of addressee", len(wsTemplates(false)), len(sseTemplates())))
	counts := map[string]int64{}
	for fi, sc := range all {
		if !run.Mine(int64(fi)) {
			continue
		}
		if es.expired() {
			run.Cap("frame shapes not finished (internal deadline)")
			break
		}
		var inst *instance
		scn, last := es.buildScenario(sc, nil, nil, counts)
		body := scn.Body
		scn.Body = func(s *sched.Sched) { body(s); inst = lastInstance }
		x := es.s.RunOne(nil, nil, func() { scn.Body(es.s) })
		scn.Check(es.s, x)
		fs := *last
		for _, p := range es.s.Panics {
			fs = append(fs, finding{Clause: "no panic", Site: "panic", Class: "any", Detail: p})
		}
		_, handled := judgeFrames(inst)
		es.s.Finish()
		scn.Cleanup()
		synctest.Wait()
		run.Eval(1)
		run.AddStates(int64(len(x.Points)), int64(len(x.Points)), 1)
		run.Count("frame_sequences_explored", 1)
		for _, h := range handled {
			if run.Outcome("frame shape: " + h) {
				run.Sample("frame shape: "+h, map[string]any{"sequence": sc.Name, "handled": h})
			}
		}
		for _, f := range fs {
			es.addWitness(f, sc, x, true)
		}
	}
	for k, v := range counts {
		run.Count(k, v)
	}
}
