package c18

import (
	"fmt"
	"os"
	"runtime"
	"strings"
	"testing"
	"testing/synctest"

	"verif/internal/sched"
	"verif/internal/vk"
)

// TestDebugOne runs the default schedule of one scenario (VERIF_C18_SCENARIO)
// and prints its trace; a development aid, not part of the check.
func TestDebugOne(t *testing.T) {
	name := os.Getenv("VERIF_C18_SCENARIO")
	if name == "" {
		t.Skip("set VERIF_C18_SCENARIO")
	}
	run := vk.Start("C18", "model_checking")
	synctest.Test(t, func(t *testing.T) {
		s := sched.New()
		s.MaxSteps = 3000
		install(s)
		synctest.Wait()
		baseGoroutines = runtime.NumGoroutine()
		es := &explorerState{run: run, s: s, b: bounds{1, 2, 3}, cands: map[string]*candidate{}}
		for _, g := range scenarioGroups(true) {
			for _, sc := range append([]*scenario{g.Twin}, g.Variants...) {
				if sc.Name != name {
					continue
				}
				counts := map[string]int64{}
				var prefix []int
				for _, f := range strings.Fields(os.Getenv("VERIF_C18_CHOICES")) {
					var n int
					fmt.Sscanf(f, "%d", &n)
					prefix = append(prefix, n)
				}
				for rep := 0; rep < 4; rep++ {
					scn, last := es.buildScenario(sc, nil, nil, counts)
					fmt.Println("running", sc.Name)
					x := s.RunOne(prefix, nil, func() { scn.Body(s) })
					fmt.Printf("trace (%d points, deadlock=%v unfinished=%v parked=%v):\n  %s\n", len(x.Points), x.Deadlock, x.Unfinished, x.Parked, strings.Join(x.Trace(), "\n  "))
					key, _ := scn.Check(s, x)
					fmt.Println("outcome:", key)
					for _, f := range *last {
						fmt.Printf("FINDING %s | %s | %s: %s\n", f.Clause, f.Site, f.Class, f.Detail)
					}
					s.Finish()
					scn.Cleanup()
					synctest.Wait()
					fmt.Println("counts", counts, "goroutines", runtime.NumGoroutine(), "base", baseGoroutines)
				}
			}
		}
		os.Exit(0)
	})
}
