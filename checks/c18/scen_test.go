package c18

import (
	"context"
	"encoding/json"
	"errors"
	"fmt"
	"io"
	"net"
	"net/http"
	"runtime"
	"sort"
	"strings"
	"sync"
	"sync/atomic"
	"testing/synctest"
	"time"

	"github.com/coder/websocket"

	client "github.com/wundergraph/graphql-go-tools/v2/pkg/engine/datasource/graphql_datasource/subscriptionclient"
	"github.com/wundergraph/graphql-go-tools/v2/pkg/engine/datasource/graphql_datasource/subscriptionclient/common"

	"verif/internal/sched"
)

// ---- option tuples

type optTuple struct {
	Name     string
	SSE      bool
	Endpoint string
	Proto    common.WSSubprotocol
	Hdr      string // value of X-H ("" = no header)
	Init     string // value of init payload member "t" ("" = no payload)
	Method   common.SSEMethod
	// collision menu (pairs_test.go): literal headers / init payload instead of Hdr / Init
	Headers http.Header
	RawInit bool
	InitMap map[string]any
	Kind    string // which component this menu entry varies
}

var optTuples = map[string]optTuple{
	// A and A2 are equal in every component of the connection key
	"A":  {Name: "A", Endpoint: "ws://up.test/graphql", Proto: common.SubprotocolGraphQLTransportWS, Hdr: "h1", Init: "a"},
	"A2": {Name: "A2", Endpoint: "ws://up.test/graphql", Proto: common.SubprotocolGraphQLTransportWS, Hdr: "h1", Init: "a"},
	"Bh": {Name: "Bh", Endpoint: "ws://up.test/graphql", Proto: common.SubprotocolGraphQLTransportWS, Hdr: "h2", Init: "a"},
	"Bi": {Name: "Bi", Endpoint: "ws://up.test/graphql", Proto: common.SubprotocolGraphQLTransportWS, Hdr: "h1", Init: "b"},
	"Bp": {Name: "Bp", Endpoint: "ws://up.test/graphql", Proto: common.SubprotocolGraphQLWS, Hdr: "h1", Init: "a"},
	"Be": {Name: "Be", Endpoint: "ws://up.test/other", Proto: common.SubprotocolGraphQLTransportWS, Hdr: "h1", Init: "a"},
	// legacy protocol on both
	"L":  {Name: "L", Endpoint: "ws://up.test/graphql", Proto: common.SubprotocolGraphQLWS, Hdr: "h1", Init: "a"},
	"L2": {Name: "L2", Endpoint: "ws://up.test/graphql", Proto: common.SubprotocolGraphQLWS, Hdr: "h1", Init: "a"},
	// SSE
	"S":  {Name: "S", SSE: true, Endpoint: "http://up.test/sse", Hdr: "h1", Method: common.SSEMethodPOST},
	"S2": {Name: "S2", SSE: true, Endpoint: "http://up.test/sse", Hdr: "h1", Method: common.SSEMethodPOST},
	"Sg": {Name: "Sg", SSE: true, Endpoint: "http://up.test/sse", Hdr: "h2", Method: common.SSEMethodGET},
}

func (o optTuple) options() common.Options {
	opts := common.Options{Endpoint: o.Endpoint, Transport: common.TransportWS, WSSubprotocol: o.Proto}
	if o.SSE {
		opts.Transport = common.TransportSSE
		opts.SSEMethod = o.Method
	}
	switch {
	case o.Headers != nil:
		opts.Headers = o.Headers.Clone()
	case o.Hdr != "":
		opts.Headers = http.Header{"X-H": []string{o.Hdr}}
	}
	switch {
	case o.RawInit:
		opts.InitPayload = o.InitMap
	case o.Init != "":
		opts.InitPayload = map[string]any{"t": o.Init}
	}
	return opts
}

// handshake is what the upstream must have seen on a connection that carries a
// subscription with these options: endpoint, offered sub-protocols, application
// headers as a server sees them, connection_init payload as canonical JSON (a
// nil map is "no payload"; an empty non-nil map is the payload {} - that is what
// the protocols' Init puts on the wire, omitempty does not drop a non-nil
// interface value).
func (o optTuple) handshake() string {
	opts := o.options()
	url := strings.Replace(o.Endpoint, "ws://", "http://", 1)
	hdr := canonHdr(opts.Headers)
	if o.SSE {
		return fmt.Sprintf("sse url=%s method=%s hdr=%s", url, o.Method, hdr)
	}
	init := ""
	if opts.InitPayload != nil {
		b, _ := json.Marshal(opts.InitPayload)
		init = canonJSON(b)
	}
	return fmt.Sprintf("ws url=%s protos=%s hdr=%s init=%s", url, strings.Join(o.Proto.Subprotocols(), ","), hdr, init)
}

func (c *upConn) handshake() string {
	return fmt.Sprintf("ws url=%s protos=%s hdr=%s init=%s", c.URL, c.ReqProto, c.Hdr, c.InitPayload)
}

func (s *sseStream) handshake() string {
	return fmt.Sprintf("sse url=%s method=%s hdr=%s", s.URL, s.Method, s.Hdr)
}

// ---- scenarios

type subSpec struct {
	Name   string
	Opt    string   // key of optTuples
	Script []string // frames the upstream sends for this subscription: next | complete | error
	Cancel bool     // a canceller actor cancels this subscriber's context at an arbitrary moment
	Stay   bool     // the subscriber does not wait for the end of its stream (it stays subscribed)
	After  string   // the subscriber arrives only after the Subscribe call of this other subscriber has returned
	Late   bool     // the canceller acts only after the subscriber's own Subscribe call has returned
	// Deadline > 0: the subscriber's context carries this time-out (context.WithTimeout
	// in virtual time): it ends when the explorer advances the clock past it, not by a cancel() call
	Deadline time.Duration
}

// ends: the subscriber's own context ends during the scenario (explicit cancel or deadline).
func (s subSpec) ends() bool { return s.Cancel || s.Deadline > 0 }

type scenario struct {
	Name       string
	Subs       []subSpec
	Up         upSpec
	Idle       time.Duration
	Ping       bool
	Ticks      []time.Duration
	Twin       *scenario     // the same scenario without the cancellations (nil for a scenario without cancellers)
	Solo       int           // 1+j: only subscriber j exists (reference run of j on its own)
	AckTimeout time.Duration // 0: ackTimeoutFor()
	// Frames (frame-shape part): instead of per-subscription scripts the upstream sends
	// this sequence of hand-built frames once every subscriber has subscribed
	Frames []frameSpec
	// ShareClass (collision pairs): structural class of a sharing finding
	ShareClass string
}

func (sc *scenario) hasCancel() bool {
	for _, s := range sc.Subs {
		if s.ends() {
			return true
		}
	}
	return false
}

// faulty: the upstream behaviour alone can fail or cut a stream (refused, late
// or missing ack, drop, unanswered or - under an adverse schedule - late pongs).
func (sc *scenario) faulty() bool {
	lateCanFail := sc.Up.Ack == "late" && sc.ackTimeoutFor() < time.Minute
	return sc.Up.Refuse || lateCanFail || sc.Up.Ack == "never" || sc.Up.Drop != 0 || sc.Ping
}

// ackTimeoutFor: where the upstream acks at once the time-out is out of reach
// of the explored time advances (a starved ack actor is not an upstream fault
// this scenario wants to model); the late / never scenarios use the short one.
func (sc *scenario) ackTimeoutFor() time.Duration {
	if sc.AckTimeout > 0 {
		return sc.AckTimeout
	}
	if sc.Up.Ack == "" || sc.Up.Ack == "step" {
		return 100 * time.Second
	}
	return ackTimeout
}

func hasTerminal(script []string) bool {
	for _, k := range script {
		if k == "complete" || k == "error" {
			return true
		}
	}
	return false
}

const (
	ackTimeout   = 10 * time.Second
	idleTimeout  = 8 * time.Second
	pingInterval = 10 * time.Second
	pingTimeout  = 5 * time.Second
)

// ---- one execution

type delivered struct {
	Seq  int64
	Kind string // next | error | complete | connerr | unknown
	Tag  string
	Text string
	// raw bytes of the payload as handed to the handler (frame-shape part)
	Data, Errors, Ext string
}

type subState struct {
	idx    int
	spec   subSpec
	opt    optTuple
	ctx    context.Context
	cancel context.CancelFunc

	mu        sync.Mutex
	regCall   int64
	regRet    int64
	returned  bool
	subErr    error
	remCall   int64
	remRet    int64
	ctxCancel int64 // logical time of the cancellation of ctx (0: never)
	msgs      []delivered
	done      bool
	absent    bool // solo reference run: this subscriber does not exist
}

type instance struct {
	sc         *scenario
	s          *sched.Sched
	clk        atomic.Int64
	rootCancel context.CancelFunc
	cl         *client.Client
	up         *upstream
	subs       []*subState
	drain      sched.DrainInfo
}

func (in *instance) tick() int64 { return in.clk.Add(1) }

func (st *subState) terminal() bool {
	st.mu.Lock()
	defer st.mu.Unlock()
	for _, m := range st.msgs {
		if m.Kind == "complete" || m.Kind == "error" || m.Kind == "connerr" {
			return true
		}
	}
	return false
}

// errClass maps an error to a small stable vocabulary (never raw text).
func errClass(err error) string {
	if err == nil {
		return ""
	}
	var up client.ErrFailedUpgrade
	var sp client.ErrInvalidSubprotocol
	var ce websocket.CloseError
	switch {
	case errors.Is(err, client.ErrClientClosed):
		return "client-closed"
	case errors.As(err, &up):
		return fmt.Sprintf("upgrade-refused(%d)", up.StatusCode)
	case errors.As(err, &sp):
		return "invalid-subprotocol"
	case errors.Is(err, client.ErrAckTimeout):
		return "ack-timeout"
	case errors.Is(err, context.Canceled):
		return "context-canceled"
	case errors.Is(err, context.DeadlineExceeded):
		return "deadline-exceeded"
	case errors.Is(err, client.ErrInitFailed):
		return "init-failed"
	case errors.Is(err, client.ErrDialFailed):
		return "dial-failed"
	case errors.Is(err, client.ErrConnectionClosed):
		if err == client.ErrConnectionClosed {
			return "connection-closed(local)"
		}
		if errors.As(err, &ce) {
			return fmt.Sprintf("connection-lost(close %d)", ce.Code)
		}
		return "connection-lost(read)"
	case errors.Is(err, net.ErrClosed):
		return "net-closed"
	case errors.Is(err, io.ErrClosedPipe):
		return "connection-lost(pipe)"
	case strings.Contains(err.Error(), "unexpected status"):
		return "sse-status"
	case strings.Contains(err.Error(), "EOF"):
		return "eof"
	}
	return "other"
}

func (st *subState) handler(in *instance) common.Handler {
	return func(msg *common.Message) {
		d := delivered{Seq: in.tick()}
		switch msg.Type {
		case common.MessageTypeData:
			d.Kind = "next"
			if msg.Payload != nil {
				d.Tag = strings.TrimSuffix(strings.TrimPrefix(string(msg.Payload.Data), `{"v":"`), `"}`)
			}
		case common.MessageTypeError:
			d.Kind = "error"
			if msg.Payload != nil {
				d.Text = string(msg.Payload.Errors)
				if i := strings.Index(d.Text, `"es`); i >= 0 {
					rest := d.Text[i+2:]
					if j := strings.IndexByte(rest, '"'); j >= 0 {
						d.Tag = rest[:j]
					}
				}
			}
		case common.MessageTypeComplete:
			d.Kind = "complete"
		case common.MessageTypeConnectionError:
			d.Kind = "connerr"
			d.Tag = errClass(msg.Err)
			if msg.Err != nil {
				d.Text = msg.Err.Error()
			}
		default:
			d.Kind = "unknown"
		}
		if msg.Payload != nil {
			d.Data, d.Errors, d.Ext = string(msg.Payload.Data), string(msg.Payload.Errors), string(msg.Payload.Extensions)
		}
		st.mu.Lock()
		st.msgs = append(st.msgs, d)
		st.mu.Unlock()
	}
}

// body builds a fresh client + upstream and spawns the actors.
func (sc *scenario) body(s *sched.Sched) *instance {
	in := &instance{sc: sc, s: s}
	lastInstance = in
	fuseG, selSticky = 0, false
	root, cancel := context.WithCancel(context.Background())
	in.rootCancel = cancel
	in.up = &upstream{s: s, in: in, spec: sc.Up}
	cfg := client.Config{
		UpgradeClient:   &http.Client{Transport: wsRT{in.up}},
		StreamingClient: &http.Client{Transport: sseRT{in.up}},
		AckTimeout:      sc.ackTimeoutFor(),
		WSIdleTimeout:   sc.Idle,
	}
	if sc.Ping {
		cfg.PingInterval = pingInterval
		cfg.PingTimeout = pingTimeout
	}
	in.cl = client.New(root, cfg)
	if len(sc.Ticks) > 0 {
		s.SetClock(sc.Ticks...)
	}
	for i, sp := range sc.Subs {
		st := &subState{idx: i, spec: sp, opt: optTuples[sp.Opt]}
		base := context.WithValue(context.Background(), ctxKey{}, i)
		if sp.Deadline > 0 {
			st.ctx, st.cancel = context.WithTimeout(base, sp.Deadline)
		} else {
			st.ctx, st.cancel = context.WithCancel(base)
		}
		in.subs = append(in.subs, st)
	}
	for _, st := range in.subs {
		st := st
		if sc.Solo != 0 && sc.Solo != 1+st.idx {
			st.absent = true
			continue
		}
		s.Go("sub"+st.spec.Name, func() {
			defer func() {
				st.mu.Lock()
				st.done = true
				st.mu.Unlock()
			}()
			if st.spec.After != "" && sc.Solo == 0 {
				for _, o := range in.subs {
					if o.spec.Name == st.spec.After {
						o := o
						s.PointWhen("sub"+st.spec.Name+":arrive", func() bool {
							o.mu.Lock()
							defer o.mu.Unlock()
							return o.returned
						})
					}
				}
			}
			req := &common.Request{Query: fmt.Sprintf("subscription { s%d }", st.idx)}
			t0 := in.tick()
			st.mu.Lock()
			st.regCall = t0
			st.mu.Unlock()
			unsub, err := in.cl.Subscribe(st.ctx, req, st.opt.options(), st.handler(in))
			t1 := in.tick()
			st.mu.Lock()
			st.regRet, st.returned, st.subErr = t1, true, err
			st.mu.Unlock()
			if err != nil || st.spec.Stay {
				return
			}
			// like the data source glue: the unsubscribe function runs when the
			// subscriber's context ends (client gone, or the resolver is done with
			// the stream after its terminal message)
			s.PointWhen("sub"+st.spec.Name+":await", func() bool { return st.ctx.Err() != nil || st.terminal() })
			t2 := in.tick()
			st.mu.Lock()
			st.remCall = t2
			st.mu.Unlock()
			unsub()
			t3 := in.tick()
			st.mu.Lock()
			st.remRet = t3
			st.mu.Unlock()
		})
	}
	for _, st := range in.subs {
		st := st
		if st.spec.Cancel {
			s.Go("cancel"+st.spec.Name, func() {
				if st.spec.Late {
					s.PointWhen("cancel"+st.spec.Name+":late", func() bool {
						st.mu.Lock()
						defer st.mu.Unlock()
						return st.returned
					})
				}
				t := in.tick()
				st.mu.Lock()
				st.ctxCancel = t
				st.mu.Unlock()
				st.cancel()
			})
		}
	}
	return in
}

// finish completes the execution after the explored schedule ended: pending
// timers fire (deterministic default schedule), so that "still waiting" means
// "waiting for something that never comes".
func (in *instance) finish() {
	in.drain = in.s.Drain(4, 16*time.Second, 4000, nil)
}

var baseGoroutines int

// lastInstance is the instance built by the most recent body call.
var lastInstance *instance

// cleanup tears the instance down; afterwards no goroutine of this execution is left.
func (in *instance) cleanup() int {
	for _, st := range in.subs {
		st.cancel()
	}
	in.rootCancel()
	in.up.closeAll()
	left := 0
	for r := 0; r < 6; r++ {
		synctest.Wait()
		left = runtime.NumGoroutine() - baseGoroutines
		if left <= 0 {
			break
		}
		time.Sleep(20 * time.Second)
	}
	return left
}

// ---- outcomes

type subOutcome struct {
	Err      string
	Msgs     []string
	Finished bool
}

func (o subOutcome) key() string {
	k := "ok"
	if o.Err != "" {
		k = "err=" + o.Err
	}
	k += "[" + strings.Join(o.Msgs, ",") + "]"
	if !o.Finished {
		k += " UNFINISHED"
	}
	return k
}

// refKey is the key under which an outcome is compared with the reference set
// of the differential clause. Where the upstream itself can cut a connection
// (faulty scenarios) the identity of a connection level failure is not
// compared: a stream that the upstream's fault ends anyway may be told so
// through another error value when somebody else cancels meanwhile.
func (o subOutcome) refKey(faulty bool) string {
	if !faulty {
		return o.key()
	}
	n := subOutcome{Err: o.Err, Finished: o.Finished}
	switch {
	case o.Err == "connection-closed(local)" || o.Err == "net-closed" || strings.HasPrefix(o.Err, "connection-lost"):
		n.Err = "connection-failed"
	}
	for _, m := range o.Msgs {
		if strings.HasPrefix(m, "connerr:") {
			m = "connerr"
		}
		n.Msgs = append(n.Msgs, m)
	}
	return n.key()
}

func (st *subState) outcome() subOutcome {
	st.mu.Lock()
	defer st.mu.Unlock()
	o := subOutcome{Finished: st.done}
	if st.returned {
		o.Err = errClass(st.subErr)
	} else {
		o.Err = "never-returned"
	}
	for _, m := range st.msgs {
		switch m.Kind {
		case "next", "error", "connerr":
			o.Msgs = append(o.Msgs, m.Kind+":"+m.Tag)
		default:
			o.Msgs = append(o.Msgs, m.Kind)
		}
	}
	return o
}

func sortedKeys(m map[string]bool) []string {
	out := make([]string, 0, len(m))
	for k := range m {
		out = append(out, k)
	}
	sort.Strings(out)
	return out
}
