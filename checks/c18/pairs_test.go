package c18

// The Kind of a menu entry names its collision family; the class of a finding is
// the pair of families, so that one sloppy key construction is a handful of
// fingerprints (one per family it confuses), not one per pair, and a known
// finding in one family does not hide a regression in another.
//
// Part "collision pairs" of check C18 (engine E style: no interleaving
// exploration, the default schedule only): ALL ordered pairs of a menu of option
// tuples that are different but chosen to (nearly) collide under a sloppy
// connection key - values that print alike (%v), list joins, name case, boundary
// shifts between the components of the key. Both subscriptions are alive at the
// same time on one client (B arrives once A is established, so that a pooled
// connection is there to be reused). Judged by the sharing clause of the common
// oracle: every subscribe frame / SSE request was served on a connection whose
// handshake, as recorded by the scripted upstream, equals the handshake its own
// options demand; hence two subscriptions on one connection have equal
// (endpoint, offered sub-protocols, headers as a server sees them, init payload).

import (
	"fmt"
	"net/http"
	"sort"
	"strings"
	"testing/synctest"

	"github.com/wundergraph/graphql-go-tools/v2/pkg/engine/datasource/graphql_datasource/subscriptionclient/common"

	"verif/internal/sched"
)

const (
	menuEndpoint = "ws://up.test/graphql"
	menuSSE      = "http://up.test/sse"
)

type menuEntry struct {
	name string
	t    optTuple
}

func wsInit(name, fam string, m map[string]any) menuEntry {
	return menuEntry{name, optTuple{Name: name, Kind: "init payload (" + fam + ")", Endpoint: menuEndpoint, Proto: common.SubprotocolGraphQLTransportWS,
		Headers: http.Header{"X-H": {"h1"}}, RawInit: true, InitMap: m}}
}

func wsHdr(name, fam string, h http.Header) menuEntry {
	if h == nil {
		h = http.Header{}
	}
	return menuEntry{name, optTuple{Name: name, Kind: "headers (" + fam + ")", Endpoint: menuEndpoint, Proto: common.SubprotocolGraphQLTransportWS,
		Headers: h, RawInit: true, InitMap: map[string]any{"t": "a"}}}
}

func wsEnd(name, endpoint string, p common.WSSubprotocol) menuEntry {
	return menuEntry{name, optTuple{Name: name, Kind: "endpoint / sub-protocol", Endpoint: endpoint, Proto: p,
		Headers: http.Header{"X-H": {"h1"}}, RawInit: true, InitMap: map[string]any{"t": "a"}}}
}

func sseOpt(name string, m common.SSEMethod, h http.Header) menuEntry {
	if h == nil {
		h = http.Header{}
	}
	return menuEntry{name, optTuple{Name: name, Kind: "sse method / headers", SSE: true, Endpoint: menuSSE, Method: m, Headers: h}}
}

// wsMenu: header values with CR / LF are left out - the real net/http transport
// refuses such a request before anything is sent.
func wsMenu() []menuEntry {
	return []menuEntry{
		// values that print alike under %v but are different JSON
		wsInit("I00", "scalar spelling", map[string]any{"t": "42"}),
		wsInit("I01", "scalar spelling", map[string]any{"t": 42}),
		wsInit("I02", "scalar spelling", map[string]any{"t": true}),
		wsInit("I03", "scalar spelling", map[string]any{"t": "true"}),
		wsInit("I04", "scalar spelling", map[string]any{"t": nil}),
		wsInit("I05", "scalar spelling", map[string]any{"t": "<nil>"}),
		wsInit("I06", "list join", map[string]any{"t": []any{"a b"}}),
		wsInit("I07", "list join", map[string]any{"t": []any{"a", "b"}}),
		wsInit("I08", "map flattening", map[string]any{"t": "a u:b"}),
		wsInit("I09", "map flattening", map[string]any{"t": "a", "u": "b"}),
		wsInit("I10", "map flattening", map[string]any{"t": map[string]any{"u": "b"}}),
		wsInit("I11", "map flattening", map[string]any{"t": "map[u:b]"}),
		// no payload in two spellings, and two Go values with one JSON text (these may share)
		wsInit("I12", "absent / empty", map[string]any{}),
		wsInit("I13", "absent / empty", nil),
		wsInit("I14", "scalar spelling", map[string]any{"t": float64(42)}),
		wsInit("I15", "list join", map[string]any{"t": []string{"a", "b"}}),
		// header lists and joins
		wsHdr("H00", "value list", http.Header{"X-H": {"a", "b"}}),
		wsHdr("H01", "value list", http.Header{"X-H": {"a, b"}}),
		wsHdr("H02", "value list", http.Header{"X-H": {"a b"}}),
		wsHdr("H03", "value list", http.Header{"X-H": {"a"}}),
		wsHdr("H04", "value list", http.Header{"X-H": {"a", "c"}}),
		wsHdr("H05", "join across names", http.Header{"X-H": {"a"}, "X-I": {"b"}}),
		wsHdr("H06", "join across names", http.Header{"X-H": {"a] X-I:[b"}}),
		wsHdr("H07", "join across names", http.Header{"X-H": {"a X-I: b"}}),
		// name case (a server sees the same name), blanks (trimmed on the wire), empty against absent
		wsHdr("H08", "name case / blanks", http.Header{"x-h": {"a"}}),
		wsHdr("H09", "name case / blanks", http.Header{"X-H": {" a"}}),
		wsHdr("H10", "absent / empty", http.Header{"X-H": {""}}),
		wsHdr("H11", "absent / empty", nil),
		wsHdr("H12", "absent / empty", http.Header{"X-H": {}}),
		// boundary between endpoint and sub-protocol ("" = negotiate)
		wsEnd("E00", "ws://up.test/g", common.SubprotocolGraphQLWS),
		wsEnd("E01", "ws://up.test/ggraphql-ws", common.SubprotocolAuto),
		wsEnd("E02", "ws://up.test/g", common.SubprotocolAuto),
		wsEnd("E03", "ws://up.test/g", common.SubprotocolGraphQLTransportWS),
	}
}

func sseMenu() []menuEntry {
	var out []menuEntry
	for _, m := range []common.SSEMethod{common.SSEMethodPOST, common.SSEMethodGET} {
		p := "SP"
		if m == common.SSEMethodGET {
			p = "SG"
		}
		out = append(out,
			sseOpt(p+"0", m, http.Header{"X-H": {"a", "b"}}),
			sseOpt(p+"1", m, http.Header{"X-H": {"a, b"}}),
			sseOpt(p+"2", m, http.Header{"X-H": {"a"}}),
			sseOpt(p+"3", m, http.Header{"X-H": {"a"}, "X-I": {"b"}}),
			sseOpt(p+"4", m, http.Header{"x-h": {"a"}}),
			sseOpt(p+"5", m, nil),
		)
	}
	return out
}

func init() {
	for _, e := range append(wsMenu(), sseMenu()...) {
		optTuples[e.name] = e.t
	}
}

func menuClass(a, b optTuple) string {
	tr := "ws"
	if a.SSE {
		tr = "sse"
	}
	if a.Kind == b.Kind {
		return tr + ", option tuples differ in: " + a.Kind
	}
	ks := []string{a.Kind, b.Kind}
	sort.Strings(ks)
	return tr + ", option tuples differ in: " + strings.Join(ks, " + ")
}

// pairScenarios returns one scenario per ordered pair of each menu.
func pairScenarios() []*scenario {
	var out []*scenario
	for _, menu := range [][]menuEntry{wsMenu(), sseMenu()} {
		for _, a := range menu {
			for _, b := range menu {
				out = append(out, &scenario{
					Name:       "P/" + a.name + "+" + b.name,
					ShareClass: menuClass(a.t, b.t),
					Subs: []subSpec{
						{Name: "A", Opt: a.name, Script: []string{"next"}, Stay: true},
						{Name: "B", Opt: b.name, Script: []string{"next"}, Stay: true, After: "A"},
					},
				})
			}
		}
	}
	return out
}

// pairOutcome is the structural outcome of a pair: were the demanded handshakes
// equal, and were the two subscriptions served on one connection.
func pairOutcome(in *instance) string {
	a, b := in.subs[0].opt, in.subs[1].opt
	demand := "different handshakes demanded"
	if a.handshake() == b.handshake() {
		demand = "equal handshakes demanded"
		if a.Name != b.Name {
			demand += " by different option values"
		}
	}
	if a.SSE {
		return "sse: " + demand + ", one request each"
	}
	in.up.mu.Lock()
	defer in.up.mu.Unlock()
	served := "served on separate connections"
	for _, c := range in.up.conns {
		if len(c.Subs) > 1 {
			served = "served on one connection"
		}
	}
	return "ws: " + demand + ", " + served
}

// runPairs runs this shard's share of the pairs under the default schedule.
func (es *explorerState) runPairs() {
	run := es.run
	all := pairScenarios()
	run.Bound("collision_pairs", len(all))
	run.Bound("collision_menu", fmt.Sprintf("%d WebSocket tuples, %d SSE tuples, all ordered pairs of each", len(wsMenu()), len(sseMenu())))
	counts := map[string]int64{}
	for pi, sc := range all {
		if !run.Mine(int64(pi)) {
			continue
		}
		if es.expired() {
			run.Cap("collision pairs not finished (internal deadline)")
			break
		}
		var inst *instance
		scn, last := es.buildScenario(sc, nil, nil, counts)
		body := scn.Body
		scn.Body = func(s *sched.Sched) { body(s); inst = lastInstance }
		x := es.s.RunOne(nil, nil, func() { scn.Body(es.s) })
		scn.Check(es.s, x)
		fs := *last
		for _, p := range es.s.Panics {
			fs = append(fs, finding{Clause: "no panic", Site: "panic", Class: "any", Detail: p})
		}
		out := pairOutcome(inst)
		es.s.Finish()
		scn.Cleanup()
		synctest.Wait()
		run.Eval(1)
		run.AddStates(int64(len(x.Points)), int64(len(x.Points)), 1)
		run.Count("pairs_explored", 1)
		run.Count("pairs: "+out, 1)
		if run.Outcome("collision pair: " + out) {
			run.Sample("collision pair: "+out, map[string]any{"pair": sc.Name, "A": inst.subs[0].opt.handshake(), "B": inst.subs[1].opt.handshake(), "outcome": out})
		}
		for _, f := range fs {
			es.addWitness(f, sc, x, true)
		}
	}
	for k, v := range counts {
		run.Count(k, v)
	}
}
