package c18

// The scripted upstream of check C18: a WebSocket server that speaks through
// coder/websocket.Accept on the server end of a net.Pipe (the client's dial
// reaches it through the RoundTripper of the injected http.Client and a fake
// hijacker) and an SSE server whose response body is an io.Pipe.
//
// Every frame the client writes is consumed immediately by an uninstrumented
// pump goroutine (it runs inside the step of the writing thread), so client
// writes never wait for the scheduler; everything the upstream *sends* is sent
// by a named actor at a schedule point, so the explorer decides when.

import (
	"bufio"
	"context"
	"encoding/json"
	"errors"
	"fmt"
	"io"
	"net"
	"net/http"
	"net/textproto"
	"sort"
	"strconv"
	"strings"
	"sync"
	"time"

	"github.com/coder/websocket"
	"github.com/coder/websocket/wsjson"

	"verif/internal/sched"
)

type ctxKey struct{}

// upSpec is the behaviour of the upstream in one scenario.
type upSpec struct {
	Refuse bool   // every upgrade / SSE request is refused (403)
	Ack    string // "" = at once, inside the step that delivered connection_init | "step" = at once but as a separate step of an ack actor | "late" (>= lateAck after the init) | "never"
	Drop   int    // 1+i: the connection / stream dialled by subscriber i is dropped by the upstream at an arbitrary moment; 0: never
	NoPong bool   // protocol level pings are not answered
	Protos []string
}

const lateAck = 5 * time.Second

// sentFrame is one frame the upstream wrote for a subscription.
type sentFrame struct {
	Sub   int
	Kind  string // next | complete | error
	N     int    // position in the subscriber's script
	Conn  int
	Begin int64 // logical time of the write call
	End   int64 // logical time of its return, 0 if the write failed
}

type upSub struct {
	ID  string
	Sub int
	At  int64
}

// upConn is what the upstream saw of one WebSocket connection.
type upConn struct {
	K        int
	Dialer   int    // subscriber whose Subscribe call performed the dial
	URL      string // as requested
	Hdr      string // canonical X-* request headers
	ReqProto string // offered sub-protocols
	Proto    string // negotiated
	Refused  bool
	Upgraded bool

	InitSeen    bool
	InitPayload string
	InitAt      time.Time
	Acked       bool
	Subs        []upSub
	Stops       []string
	Unknown     []string
	Pings       int
	Pongs       int
	Dropped     bool
	Closed      bool // the pump ended: close frame from the client, or the pipe broke
	CloseErr    string

	srv    *websocket.Conn
	cliEnd net.Conn
	srvEnd net.Conn
}

// sseStream is what the upstream saw of one SSE request.
type sseStream struct {
	K          int
	Sub        int
	URL        string
	Method     string
	Hdr        string
	Refused    bool
	BodyClosed bool // the client closed the response body
	Dropped    bool
	pw         *io.PipeWriter
}

type upstream struct {
	s    *sched.Sched
	in   *instance
	spec upSpec

	mu      sync.Mutex // never held across a schedule point or a blocking call
	conns   []*upConn
	streams []*sseStream
	sent    []*sentFrame
	// frame-shape part
	framesStarted bool
	rawSent       []*rawFrame
}

// canonHdr is the view an HTTP server has of the application headers (X-*) of a
// request: names canonicalised (header names are case-insensitive), the lines of
// names that canonicalise equal merged in the order the client writes them
// (http.Header.Write sorts by the raw name), values as written on the wire (line
// breaks become spaces, surrounding blanks are trimmed), every value quoted so
// that ["a","b"], ["a, b"] and ["a b"] stay different.
func canonHdr(h http.Header) string {
	var raw []string
	for k := range h {
		raw = append(raw, k)
	}
	sort.Strings(raw)
	merged := map[string][]string{}
	var names []string
	for _, k := range raw {
		ck := textproto.CanonicalMIMEHeaderKey(k)
		if !strings.HasPrefix(ck, "X-") || len(h[k]) == 0 {
			continue
		}
		if _, ok := merged[ck]; !ok {
			names = append(names, ck)
		}
		for _, v := range h[k] {
			v = strings.NewReplacer("\r", " ", "\n", " ").Replace(v)
			merged[ck] = append(merged[ck], strings.Trim(v, " \t"))
		}
	}
	sort.Strings(names)
	var b strings.Builder
	for _, k := range names {
		b.WriteString(k + "=[")
		for i, v := range merged[k] {
			if i > 0 {
				b.WriteString(",")
			}
			b.WriteString(strconv.Quote(v))
		}
		b.WriteString("];")
	}
	return b.String()
}

func canonJSON(raw []byte) string {
	if len(raw) == 0 {
		return ""
	}
	var v any
	if json.Unmarshal(raw, &v) != nil {
		return string(raw)
	}
	b, _ := json.Marshal(v)
	return string(b)
}

// subOfQuery recovers the subscriber index from the operation text "subscription { s<i> }".
func subOfQuery(q string) int {
	i := strings.Index(q, "{ s")
	if i < 0 {
		return -1
	}
	rest := q[i+3:]
	j := strings.IndexAny(rest, " }")
	if j < 0 {
		return -1
	}
	n, err := strconv.Atoi(rest[:j])
	if err != nil {
		return -1
	}
	return n
}

// ---- WebSocket side

type fakeHijackWriter struct {
	hdr  http.Header
	code int
	body strings.Builder
	conn net.Conn
}

func (w *fakeHijackWriter) Header() http.Header         { return w.hdr }
func (w *fakeHijackWriter) Write(p []byte) (int, error) { return w.body.Write(p) }
func (w *fakeHijackWriter) WriteHeader(code int)        { w.code = code }
func (w *fakeHijackWriter) Hijack() (net.Conn, *bufio.ReadWriter, error) {
	return w.conn, bufio.NewReadWriter(bufio.NewReader(w.conn), bufio.NewWriter(w.conn)), nil
}

type wsRT struct{ u *upstream }

func refusal(req *http.Request) *http.Response {
	return &http.Response{Status: "403 Forbidden", StatusCode: 403, Proto: "HTTP/1.1", ProtoMajor: 1, ProtoMinor: 1,
		Header: http.Header{}, Body: io.NopCloser(strings.NewReader("")), Request: req}
}

func (r wsRT) RoundTrip(req *http.Request) (*http.Response, error) {
	u := r.u
	dialer, ok := req.Context().Value(ctxKey{}).(int)
	if !ok {
		dialer = -1
	}
	u.mu.Lock()
	c := &upConn{K: len(u.conns), Dialer: dialer, URL: req.URL.String(), Hdr: canonHdr(req.Header), ReqProto: req.Header.Get("Sec-WebSocket-Protocol")}
	u.conns = append(u.conns, c)
	u.mu.Unlock()
	// the TCP connect + upgrade request is in flight: the explorer decides what happens meanwhile
	u.s.Point(fmt.Sprintf("up:dial#%d", c.K))
	if err := req.Context().Err(); err != nil {
		return nil, err
	}
	if u.spec.Refuse {
		u.mu.Lock()
		c.Refused = true
		u.mu.Unlock()
		return refusal(req), nil
	}
	cli, srv := net.Pipe()
	w := &fakeHijackWriter{hdr: http.Header{}, conn: srv}
	protos := u.spec.Protos
	if protos == nil {
		protos = []string{"graphql-transport-ws", "graphql-ws"}
	}
	sc, err := websocket.Accept(w, req, &websocket.AcceptOptions{Subprotocols: protos, InsecureSkipVerify: true, CompressionMode: websocket.CompressionDisabled})
	if err != nil {
		cli.Close()
		srv.Close()
		return nil, fmt.Errorf("harness: accept: %w", err)
	}
	sc.SetReadLimit(1 << 20)
	u.mu.Lock()
	c.srv, c.cliEnd, c.srvEnd = sc, cli, srv
	c.Proto = sc.Subprotocol()
	c.Upgraded = true
	u.mu.Unlock()
	go u.pump(c)
	if u.spec.Drop == 1+c.Dialer {
		u.s.Go(fmt.Sprintf("drop%d", c.K), func() { u.drop(c) })
	}
	return &http.Response{Status: "101 Switching Protocols", StatusCode: w.code, Proto: "HTTP/1.1", ProtoMajor: 1, ProtoMinor: 1,
		Header: w.hdr, Body: cli, Request: req}, nil
}

type wireMsg struct {
	ID      string          `json:"id,omitempty"`
	Type    string          `json:"type"`
	Payload json.RawMessage `json:"payload,omitempty"`
}

// pump consumes every frame of the client at once and records it. It never
// writes application frames itself (a pump blocked in a write would stop
// reading and could wedge the client artificially).
func (u *upstream) pump(c *upConn) {
	for {
		_, data, err := c.srv.Read(context.Background())
		if err != nil {
			u.mu.Lock()
			c.Closed = true
			c.CloseErr = err.Error()
			u.mu.Unlock()
			_ = c.srv.CloseNow()
			return
		}
		var m wireMsg
		_ = json.Unmarshal(data, &m)
		spawnEmit, spawnAck, spawnPong, inlineAck := -1, false, false, false
		u.mu.Lock()
		switch m.Type {
		case "connection_init":
			c.InitSeen = true
			c.InitPayload = canonJSON(m.Payload)
			c.InitAt = time.Now()
			spawnAck = u.spec.Ack == "step" || u.spec.Ack == "late"
			inlineAck = u.spec.Ack == ""
			if inlineAck {
				c.Acked = true
			}
		case "subscribe", "start":
			var p struct {
				Query string `json:"query"`
			}
			_ = json.Unmarshal(m.Payload, &p)
			i := subOfQuery(p.Query)
			c.Subs = append(c.Subs, upSub{ID: m.ID, Sub: i, At: u.in.tick()})
			spawnEmit = i
		case "complete", "stop":
			c.Stops = append(c.Stops, m.ID)
		case "ping":
			c.Pings++
			spawnPong = !u.spec.NoPong
		case "pong":
		default:
			c.Unknown = append(c.Unknown, m.Type)
		}
		nth := c.Pings
		u.mu.Unlock()
		if inlineAck {
			// the client that sent connection_init is reading for the ack and nothing
			// else can write on this connection yet: answering from the pump cannot wedge
			_ = wsjson.Write(context.Background(), c.srv, wireMsg{Type: "connection_ack"})
		}
		if spawnAck {
			u.s.Go(fmt.Sprintf("ack%d", c.K), func() { u.ack(c) })
		}
		if spawnEmit >= 0 && spawnEmit < len(u.in.subs) && len(u.in.subs[spawnEmit].spec.Script) > 0 {
			i, id := spawnEmit, m.ID
			u.s.Go("emit"+u.in.subs[i].spec.Name, func() { u.emitWS(c, i, id) })
		}
		if spawnEmit >= 0 {
			u.maybeEmitFrames()
		}
		if spawnPong {
			u.s.Go(fmt.Sprintf("pong%d.%d", c.K, nth), func() { u.pong(c) })
		}
	}
}

func (u *upstream) ack(c *upConn) {
	if u.spec.Ack == "late" {
		u.s.PointWhen(fmt.Sprintf("ack%d:late", c.K), func() bool {
			u.mu.Lock()
			defer u.mu.Unlock()
			return c.Closed || c.Dropped || time.Since(c.InitAt) >= lateAck
		})
	}
	u.mu.Lock()
	gone := c.Closed || c.Dropped
	if !gone {
		c.Acked = true
	}
	u.mu.Unlock()
	if gone {
		return
	}
	_ = wsjson.Write(context.Background(), c.srv, wireMsg{Type: "connection_ack"})
}

func (u *upstream) pong(c *upConn) {
	u.mu.Lock()
	c.Pongs++
	legacy := c.Proto == "graphql-ws"
	u.mu.Unlock()
	if legacy {
		return
	}
	_ = wsjson.Write(context.Background(), c.srv, wireMsg{Type: "pong"})
}

func (u *upstream) drop(c *upConn) {
	u.mu.Lock()
	c.Dropped = true
	u.mu.Unlock()
	// abrupt: no close frame
	_ = c.srvEnd.Close()
}

func payloadFor(sub, n int) string { return fmt.Sprintf("s%d.%d", sub, n) }

// emitWS sends the script of subscriber i on the connection that carried its
// subscribe frame, one frame per step.
func (u *upstream) emitWS(c *upConn, i int, id string) {
	st := u.in.subs[i]
	legacy := c.Proto == "graphql-ws"
	for n, kind := range st.spec.Script {
		if n > 0 {
			u.s.Point(fmt.Sprintf("emit%s:%s%d", st.spec.Name, kind, n))
		}
		var m wireMsg
		m.ID = id
		switch kind {
		case "next":
			m.Type = "next"
			if legacy {
				m.Type = "data"
			}
			m.Payload = json.RawMessage(fmt.Sprintf(`{"data":{"v":%q}}`, payloadFor(i, n)))
		case "error":
			m.Type = "error"
			m.Payload = json.RawMessage(fmt.Sprintf(`[{"message":%q}]`, "e"+payloadFor(i, n)))
			if legacy {
				m.Payload = json.RawMessage(fmt.Sprintf(`{"message":%q}`, "e"+payloadFor(i, n)))
			}
		case "complete":
			m.Type = "complete"
		}
		f := &sentFrame{Sub: i, Kind: kind, N: n, Conn: c.K, Begin: u.in.tick()}
		u.mu.Lock()
		u.sent = append(u.sent, f)
		u.mu.Unlock()
		err := wsjson.Write(context.Background(), c.srv, m)
		if err != nil {
			return
		}
		e := u.in.tick()
		u.mu.Lock()
		f.End = e
		u.mu.Unlock()
	}
}

// ---- SSE side

type sseBody struct {
	*io.PipeReader
	u  *upstream
	st *sseStream
}

func (b *sseBody) Close() error {
	b.u.mu.Lock()
	b.st.BodyClosed = true
	b.u.mu.Unlock()
	return b.PipeReader.Close()
}

type sseRT struct{ u *upstream }

func (r sseRT) RoundTrip(req *http.Request) (*http.Response, error) {
	u := r.u
	query := req.URL.Query().Get("query")
	if req.Body != nil {
		b, _ := io.ReadAll(req.Body)
		req.Body.Close()
		var p struct {
			Query string `json:"query"`
		}
		if json.Unmarshal(b, &p) == nil && p.Query != "" {
			query = p.Query
		}
	}
	url := *req.URL
	url.RawQuery = ""
	u.mu.Lock()
	st := &sseStream{K: len(u.streams), Sub: subOfQuery(query), URL: url.String(), Method: req.Method, Hdr: canonHdr(req.Header)}
	u.streams = append(u.streams, st)
	u.mu.Unlock()
	u.s.Point(fmt.Sprintf("up:sse#%d", st.K))
	if err := req.Context().Err(); err != nil {
		return nil, err
	}
	if u.spec.Refuse {
		u.mu.Lock()
		st.Refused = true
		u.mu.Unlock()
		return refusal(req), nil
	}
	pr, pw := io.Pipe()
	u.mu.Lock()
	st.pw = pw
	u.mu.Unlock()
	// like net/http: cancelling the request context fails the body read
	ctx := req.Context()
	context.AfterFunc(ctx, func() { pw.CloseWithError(ctx.Err()) })
	if st.Sub >= 0 && st.Sub < len(u.in.subs) && len(u.in.subs[st.Sub].spec.Script) > 0 {
		i := st.Sub
		u.s.Go("emit"+u.in.subs[i].spec.Name, func() { u.emitSSE(st, i) })
	}
	u.maybeEmitFrames()
	if u.spec.Drop == 1+st.Sub {
		u.s.Go(fmt.Sprintf("drop%d", st.K), func() {
			u.mu.Lock()
			st.Dropped = true
			u.mu.Unlock()
			pw.CloseWithError(io.ErrUnexpectedEOF)
		})
	}
	return &http.Response{Status: "200 OK", StatusCode: 200, Proto: "HTTP/1.1", ProtoMajor: 1, ProtoMinor: 1,
		Header: http.Header{"Content-Type": []string{"text/event-stream"}}, Body: &sseBody{PipeReader: pr, u: u, st: st}, Request: req}, nil
}

func (u *upstream) emitSSE(st *sseStream, i int) {
	sub := u.in.subs[i]
	for n, kind := range sub.spec.Script {
		if n > 0 {
			u.s.Point(fmt.Sprintf("emit%s:%s%d", sub.spec.Name, kind, n))
		}
		var ev string
		switch kind {
		case "next":
			ev = fmt.Sprintf("event: next\ndata: {\"data\":{\"v\":%q}}\n\n", payloadFor(i, n))
		case "error":
			ev = fmt.Sprintf("event: error\ndata: [{\"message\":%q}]\n\n", "e"+payloadFor(i, n))
		case "complete":
			ev = "event: complete\ndata:\n\n"
		}
		f := &sentFrame{Sub: i, Kind: kind, N: n, Conn: st.K, Begin: u.in.tick()}
		u.mu.Lock()
		u.sent = append(u.sent, f)
		u.mu.Unlock()
		if _, err := io.WriteString(st.pw, ev); err != nil {
			return
		}
		e := u.in.tick()
		u.mu.Lock()
		f.End = e
		u.mu.Unlock()
	}
}

// closeAll tears the upstream down (Cleanup): every pipe is closed so that every
// goroutine of the client and of coder/websocket unwinds.
func (u *upstream) closeAll() {
	u.mu.Lock()
	conns := append([]*upConn(nil), u.conns...)
	streams := append([]*sseStream(nil), u.streams...)
	u.mu.Unlock()
	for _, c := range conns {
		if c.srvEnd != nil {
			_ = c.srvEnd.Close()
			_ = c.cliEnd.Close()
		}
	}
	for _, st := range streams {
		if st.pw != nil {
			st.pw.CloseWithError(errors.New("harness teardown"))
		}
	}
}
