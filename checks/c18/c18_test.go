// Check C18: upstream subscription connections are multiplexed without
// cross-talk. Engine S (DESIGN.md 2.2): every interleaving, up to the bounds
// below, of 2-3 concurrent Subscribe / cancel calls on the real, overlay
// instrumented subscriptionclient.Client against a scripted WebSocket / SSE
// upstream, with virtual time. Oracle R4u (appendix A.3) plus the differential
// non-interference oracle against the explored twin scenario.
package c18

import (
	"fmt"
	"os"
	"runtime"
	"runtime/debug"
	"sort"
	"strconv"
	"strings"
	"syscall"
	"testing"
	"testing/synctest"

	"verif/internal/sched"
	"verif/internal/vk"
)

// group = one twin scenario (nobody cancels) and its cancel variants. The
// reference sets of the differential clause come from the complete exploration
// of the twin, so a group is explored by one shard - or, for a heavy group, by
// Split shards that each explore the reference completely and a share of the
// schedule tree of every variant.
type group struct {
	Name     string
	Twin     *scenario
	Variants []*scenario
	Weight   int  // measured executions at bounds (1,2,3), for load balancing only
	Big      bool // three subscribers, or a very long / near-duplicate scenario: the thorough tier explores it with the total bound lowered by one
}

type bounds struct{ pre, sw, tot int }

// witness = one violating execution; candidate = the cheapest witnesses of one
// fingerprint (a few, so that one execution that was disturbed from outside -
// runtime preemption on an overloaded machine - cannot shadow the reproducible ones).
type witness struct {
	f       finding
	sc      *scenario
	b       bounds
	choices []int
	labels  []string
	cost    int
	trace   string
}

type candidate struct {
	best  []witness
	count int64
}

const keepWitnesses = 3

type explorerState struct {
	run       *vk.Run
	s         *sched.Sched
	b         bounds
	deadline  int64
	cands     map[string]*candidate // fingerprint -> cheapest violating execution
	order     []string
	progress  bool
	replaying bool
	sinceGC   int
}

// mutexDeadlock: threads of the code under test are parked on a modelled mutex
// that can never become free. Such an execution cannot be torn down inside the
// process (released from the scheduler the threads would spin for ever).
func mutexDeadlock(d sched.DrainInfo) bool {
	for _, p := range d.Parked {
		if i := strings.LastIndex(p, "@"); i >= 0 && (strings.Contains(p[i:], "Mutex") || strings.Contains(p[i:], "Once")) {
			return true
		}
	}
	return false
}

// abortOnDeadlock records the findings of the deadlocked execution (and every
// candidate found so far) without the five re-runs, marks the run as not
// exhaustive and leaves the process.
func (es *explorerState) abortOnDeadlock(sc *scenario, x *sched.Exec, fs []finding) {
	trace := strings.Join(x.Trace(), " > ")
	for _, f := range fs {
		es.run.Violate(vk.Violation{Clause: f.Clause, Site: f.Site, Class: f.Class,
			Detail: fmt.Sprintf("scenario %s: %s\nschedule %v (not re-run: a deadlocked execution cannot be torn down in-process)\ntrace: %s", sc.Name, f.Detail, x.Choices, trace),
			Input:  map[string]any{"scenario": sc.Name, "choices": x.Choices, "bounds": []int{es.b.pre, es.b.sw, es.b.tot}}})
	}
	for _, fp := range es.order {
		c := es.cands[fp]
		if len(c.best) == 0 {
			continue
		}
		w := c.best[0]
		es.run.Violate(vk.Violation{Clause: w.f.Clause, Site: w.f.Site, Class: w.f.Class,
			Detail: fmt.Sprintf("scenario %s: %s\nschedule %v (not re-run: exploration aborted by a deadlocked execution)\ntrace: %s", w.sc.Name, w.f.Detail, w.choices, w.trace),
			Input:  map[string]any{"scenario": w.sc.Name, "choices": w.choices, "bounds": []int{w.b.pre, w.b.sw, w.b.tot}}})
	}
	es.run.Eval(1)
	es.run.Cap("exploration of this shard stopped at a deadlocked execution of " + sc.Name + " (threads blocked on a mutex for ever cannot be torn down in-process)")
	es.run.Finish()
	os.Exit(0)
}

// buildScenario binds a scenario to the explorer. collect (optional) receives
// the outcome of every subscriber of every execution; twin (optional) is the
// reference set of the differential clause.
func (es *explorerState) buildScenario(sc *scenario, twin map[int]map[string]bool, collect map[int]map[string]bool, counts map[string]int64) (*sched.Scenario, *[]finding) {
	var inst *instance
	var last []finding
	scn := &sched.Scenario{
		Name: sc.Name,
		Body: func(s *sched.Sched) { inst = sc.body(s) },
		Check: func(s *sched.Sched, x *sched.Exec) (string, []sched.Finding) {
			inst.finish()
			key, fs, cn := judge(inst, twin)
			if len(sc.Frames) > 0 {
				ffs, _ := judgeFrames(inst)
				fs = append(fs, ffs...)
			}
			for k, v := range cn {
				counts[k] += v
			}
			if x.Horizon {
				fs = append(fs, finding{Clause: clDead, Site: "step horizon reached (livelock candidate)", Class: "any", Detail: "explored schedule hit the step horizon"})
			}
			if collect != nil {
				for i, st := range inst.subs {
					if st.absent {
						continue
					}
					if collect[i] == nil {
						collect[i] = map[string]bool{}
					}
					collect[i][st.outcome().refKey(sc.faulty())] = true
				}
			}
			if mutexDeadlock(inst.drain) && !es.replaying {
				es.abortOnDeadlock(sc, x, fs)
			}
			last = fs
			out := make([]sched.Finding, 0, len(fs))
			for _, f := range fs {
				out = append(out, sched.Finding{Clause: f.Clause, Site: f.Site, Detail: f.Detail})
			}
			return key, out
		},
		Cleanup: func() {
			if inst != nil {
				if left := inst.cleanup(); left > 0 {
					counts["leftover_goroutines"] += int64(left)
				}
				inst = nil
				// the collector runs only here, between executions (see TestCheck)
				if es.sinceGC++; es.sinceGC >= 32 {
					es.sinceGC = 0
					runtime.GC()
				}
			}
		},
	}
	return scn, &last
}

// explore runs one scenario under every schedule within the bounds (share
// part/parts of the schedule tree). record=false: a duplicate exploration (the
// reference of a split group in the parts > 0) is not added to the statistics.
// It reports whether the exploration completed.
func (es *explorerState) explore(sc *scenario, twin, collect map[int]map[string]bool, part, parts int, record bool) bool {
	run := es.run
	counts := map[string]int64{}
	scn, last := es.buildScenario(sc, twin, collect, counts)
	ex := &sched.Explorer2{S: es.s, Bound: es.b.pre, DevBound: 1, SwitchBound: es.b.sw, TotalBound: es.b.tot, Shard: part, NShards: parts, Expired: es.expired}
	nexec := 0
	ex.OnExec = func(_ *sched.Scenario, x *sched.Exec, outcome string, sfs []sched.Finding) {
		nexec++
		if es.progress && nexec%2000 == 0 {
			fmt.Printf("progress %s: %d executions, %d outcomes, points=%d\n", sc.Name, nexec, len(ex.Stats.Outcomes), len(x.Points))
		}
		if record && run.Outcome(sc.Name+" "+outcome) {
			run.Sample(sc.Name, map[string]any{"scenario": sc.Name, "outcome": outcome, "schedule": x.Choices, "points": len(x.Points)})
		}
		fs := *last
		// panics are appended by the explorer
		for _, sf := range sfs[len(fs):] {
			fs = append(fs, finding{Clause: sf.Clause, Site: sf.Site, Class: "any", Detail: sf.Detail})
		}
		for _, f := range fs {
			es.addWitness(f, sc, x, record)
		}
	}
	ex.Explore(scn)
	st := ex.Stats
	if record {
		run.Eval(st.Executions)
		run.AddStates(st.States, st.Transitions, st.Executions)
		run.Count("executions:"+sc.Name, st.Executions)
		run.Count("horizons", st.Horizons)
		for k, v := range counts {
			run.Count(k, v)
		}
		if parts == 1 {
			run.Count("outcomes:"+sc.Name, int64(len(st.Outcomes)))
		}
		run.Bound("max_points:"+sc.Name, st.MaxPoints)
	}
	run.Count("divergences", st.Divergences)
	if st.Capped {
		run.Cap("scenario " + sc.Name + " stopped by the internal deadline")
	}
	if ex.SkippedSubtrees > 0 {
		run.Cap(fmt.Sprintf("%d subtrees of %s skipped after repeated replay divergence", ex.SkippedSubtrees, sc.Name))
	}
	if es.progress {
		var ks []string
		for k, n := range st.Outcomes {
			ks = append(ks, fmt.Sprintf("%6d  %s", n, k))
		}
		sort.Strings(ks)
		fmt.Printf("== %s: %d executions, outcomes:\n%s\n", sc.Name, st.Executions, strings.Join(ks, "\n"))
	}
	return !st.Capped && ex.SkippedSubtrees == 0
}

// addWitness files one violating execution under its fingerprint.
func (es *explorerState) addWitness(f finding, sc *scenario, x *sched.Exec, record bool) {
	pre, sw, dev := sched.Cost(x)
	cost := (pre+sw+dev)*10000 + len(x.Points)
	c, ok := es.cands[f.fp()]
	if !ok {
		c = &candidate{}
		es.cands[f.fp()] = c
		es.order = append(es.order, f.fp())
	}
	if record {
		c.count++
	}
	if len(c.best) < keepWitnesses || cost < c.best[len(c.best)-1].cost {
		w := witness{f: f, sc: sc, b: es.b, cost: cost, choices: append([]int(nil), x.Choices...), labels: x.Trace()}
		w.trace = strings.Join(w.labels, " > ")
		c.best = append(c.best, w)
		sort.SliceStable(c.best, func(a, b int) bool { return c.best[a].cost < c.best[b].cost })
		if len(c.best) > keepWitnesses {
			c.best = c.best[:keepWitnesses]
		}
	}
}

// reference explores the twin scenario of a group (nobody cancels) and, for
// every subscriber that some variant judges, the run of that subscriber on its
// own; the union of the outcomes is the reference set of the differential
// clause (a cancellation may legitimately leave a subscriber to dial for itself,
// with everything the scripted upstream can do to a dial).
func (es *explorerState) reference(g *group, twinSets map[string]map[int]map[string]bool, record bool) bool {
	sets := map[int]map[string]bool{}
	twinSets[g.Twin.Name] = sets
	if !es.explore(g.Twin, nil, sets, 0, 1, record) {
		return false
	}
	if len(g.Variants) == 0 {
		return true
	}
	for j := range g.Twin.Subs {
		judged := false
		for _, v := range g.Variants {
			if !v.Subs[j].ends() {
				judged = true
			}
		}
		if !judged {
			continue
		}
		solo := *g.Twin
		solo.Name = g.Name + "/solo-" + g.Twin.Subs[j].Name
		solo.Solo = 1 + j
		if !es.explore(&solo, nil, sets, 0, 1, record) {
			return false
		}
	}
	return true
}

// confirm re-runs the cheapest execution of every fingerprint five times from
// its schedule; only a finding that reproduces every time is recorded.
func (es *explorerState) confirm(twinFor func(sc *scenario) map[int]map[string]bool) {
	for _, fp := range es.order {
		c := es.cands[fp]
		confirmed := false
		var notes []string
		for _, w := range c.best {
			ok := 0
			diverged := ""
			for i := 0; i < 5; i++ {
				counts := map[string]int64{}
				scn, last := es.buildScenario(w.sc, twinFor(w.sc), nil, counts)
				x := es.s.RunOne(w.choices, w.labels, func() { scn.Body(es.s) })
				hit := false
				if x.Diverged == "" {
					scn.Check(es.s, x)
					fs := *last
					for _, p := range es.s.Panics {
						fs = append(fs, finding{Clause: "no panic", Site: "panic", Class: "any", Detail: p})
					}
					for _, f := range fs {
						if f.fp() == fp || (f.Clause == "no panic" && w.f.Clause == "no panic") {
							hit = true
						}
					}
				} else {
					diverged = x.Diverged
					es.run.Count("divergences_while_confirming", 1)
				}
				es.s.Finish()
				scn.Cleanup()
				synctest.Wait()
				if hit {
					ok++
				}
			}
			if ok != 5 {
				notes = append(notes, fmt.Sprintf("%s schedule %v reproduced %d of 5 times %s", w.sc.Name, w.choices, ok, diverged))
				continue
			}
			if c.count == 0 {
				c.count = 1
			}
			v := vk.Violation{Clause: w.f.Clause, Site: w.f.Site, Class: w.f.Class,
				Detail: fmt.Sprintf("scenario %s: %s\nschedule %v (cost %d deviations from the default schedule, reproduced 5/5)\ntrace: %s", w.sc.Name, w.f.Detail, w.choices, w.cost/10000, w.trace),
				Input:  map[string]any{"scenario": w.sc.Name, "choices": w.choices, "bounds": []int{w.b.pre, w.b.sw, w.b.tot}}}
			for n := int64(0); n < c.count; n++ {
				es.run.Violate(v)
			}
			confirmed = true
			break
		}
		if !confirmed && len(c.best) > 0 {
			es.run.Count("unconfirmed_violations", 1)
			es.run.Cap(fmt.Sprintf("a violation (%s / %s) did not reproduce 5 of 5 times from any of its %d cheapest schedules: %s", c.best[0].f.Clause, c.best[0].f.Site, len(c.best), strings.Join(notes, "; ")))
		}
	}
}

// realNow is the wall clock: inside the synctest bubble package time is virtual.
func realNow() int64 {
	var tv syscall.Timeval
	_ = syscall.Gettimeofday(&tv)
	return tv.Sec
}

func (es *explorerState) expired() bool {
	if es.deadline > 0 && realNow() >= es.deadline {
		es.run.Cap("internal deadline reached")
		return true
	}
	return false
}

// unit = one (group, part) piece of work.
type unit struct {
	g     *group
	part  int
	parts int
	w     int
}

// plan splits heavy groups and deals the units to the shards (longest
// processing time first). It is a pure function of the scenario list.
func plan(groups []*group, nshards int, thorough bool) [][]unit {
	weight := func(g *group) int {
		if g.Big && thorough {
			return g.Weight/6 + 1 // explored with a total bound that is lower by one
		}
		return g.Weight
	}
	total := 0
	for _, g := range groups {
		total += weight(g)
	}
	target := total/nshards + 1
	var units []unit
	for _, g := range groups {
		w := weight(g)
		parts := 1
		if len(g.Variants) > 0 && w > target {
			parts = (w + target - 1) / target
			if parts > 4 {
				parts = 4
			}
		}
		ref := w * 2 / 5 // the reference is explored by every part
		if len(g.Variants) == 0 {
			ref = w
		}
		for p := 0; p < parts; p++ {
			units = append(units, unit{g: g, part: p, parts: parts, w: ref + (w-ref)/parts})
		}
	}
	sort.SliceStable(units, func(a, b int) bool { return units[a].w > units[b].w })
	out := make([][]unit, nshards)
	load := make([]int, nshards)
	for _, u := range units {
		best := 0
		for s := 1; s < nshards; s++ {
			if load[s] < load[best] {
				best = s
			}
		}
		out[best] = append(out[best], u)
		load[best] += u.w + 1
	}
	// within a shard the light units run first: when the deadline cuts a run
	// short (overloaded machine) it cuts into the largest group, not the small ones
	for _, us := range out {
		sort.SliceStable(us, func(a, b int) bool { return us[a].w < us[b].w })
	}
	return out
}

func TestCheck(t *testing.T) {
	run := vk.Start("C18", "model_checking")
	run.Rule("every schedule within the bounds (DFS over all sync / atomic / close / send / cancel points of the instrumented subscriptionclient, transport and protocol packages, the harness points of the scripted upstream and the budgeted virtual time advances) of every scenario = (option tuples of 2-3 subscribers, upstream behaviour, who cancels); distinct = distinct (scenario, per-subscriber outcome, connection layout seen by the upstream, Stats())")
	run.Assume("sequentially consistent interleavings of instrumented synchronisation operations; code between two points, coder/websocket, net/http, r3labs/sse and the pipes are atomic inside the step of the calling thread",
		"the upstream is scripted: frames are a function of (subscriber, position in its script); transport = net.Pipe / io.Pipe, no TLS, no compression, virtual time",
		"schedules are bounded by preemptions, by non-default hand-overs at points where the running thread is not enabled (default = lowest logical thread id), by environment deviations and by their sum; within the bounds the search is exhaustive",
		"the twin scenario (same actors without the cancellation) and the solo run of every judged subscriber are explored with the same bounds; their observed per-subscriber outcomes are the reference set of the differential clause",
		"the random choice of Go's select among ready cases is owned in two places: coder/websocket (*mu).lock (local module copy, explorer choice) and getOrDial's close(result.done)/re-lock window (executed atomically)",
		"hash collisions of the connection key are not explored")
	t0 := realNow()
	b := bounds{pre: vk.Pick(run, 1, 2), sw: 2, tot: vk.Pick(run, 3, 4)}
	if e := os.Getenv("VERIF_C18_BOUNDS"); e != "" {
		fmt.Sscanf(e, "%d,%d,%d", &b.pre, &b.sw, &b.tot)
	}
	run.Bound("preemption_bound", b.pre)
	run.Bound("handover_bound", b.sw)
	run.Bound("deviation_bound", 1)
	run.Bound("total_bound(preemptions+handovers+deviations)", b.tot)
	run.Bound("total_bound_big_groups(three subscribers, W04-W07, W14, W16, W18, S02, M01)", b.tot-vk.Pick(run, 0, 1))
	run.Bound("max_time_advances", 2)
	run.Bound("max_subscribers", vk.Pick(run, 2, 3))
	synctest.Test(t, func(t *testing.T) {
		// No concurrent garbage collection while an execution runs: mark assists and
		// background workers park and reorder goroutines inside a step, which is
		// scheduling the explorer does not own. The collector is run explicitly
		// between executions instead.
		debug.SetGCPercent(-1)
		s := sched.New()
		s.MaxSteps = 3000
		install(s)
		synctest.Wait()
		baseGoroutines = runtime.NumGoroutine()
		es := &explorerState{run: run, s: s, b: b, cands: map[string]*candidate{}, progress: os.Getenv("VERIF_C18_PROGRESS") != ""}
		if d, _ := strconv.Atoi(os.Getenv("VERIF_DEADLINE_S")); d > 0 {
			es.deadline = t0 + int64(d)
		}
		groups := scenarioGroups(run.Thorough())
		twinSets := map[string]map[int]map[string]bool{}
		twinFor := func(sc *scenario) map[int]map[string]bool {
			if sc.Twin == nil {
				return nil
			}
			return twinSets[sc.Twin.Name]
		}

		if run.Replay != "" {
			replay(t, run, es, groups, twinSets, twinFor)
			run.Finish()
			os.Exit(0)
		}

		only := os.Getenv("VERIF_C18_ONLY")
		if only == "" || only == "pairs" {
			es.runPairs()
		}
		if only == "" || only == "frames" {
			es.runFrames()
		}
		for _, u := range plan(groups, run.NShards(), run.Thorough())[run.Shard()] {
			g := u.g
			if only != "" && !strings.Contains(g.Name, only) {
				continue
			}
			if es.expired() {
				run.Cap("group " + g.Name + " not started (internal deadline)")
				continue
			}
			es.b = b
			if g.Big && run.Thorough() {
				es.b.tot--
			}
			if !es.reference(g, twinSets, u.part == 0) {
				run.Cap("group " + g.Name + ": reference exploration incomplete, variants not judged")
				continue
			}
			for _, v := range g.Variants {
				es.explore(v, twinSets[g.Twin.Name], nil, u.part, u.parts, true)
			}
		}
		es.confirm(twinFor)
		run.Finish()
		// leave the bubble without waiting for goroutines of the code under test
		os.Exit(0)
	})
}

func replay(t *testing.T, run *vk.Run, es *explorerState, groups []*group, twinSets map[string]map[int]map[string]bool, twinFor func(sc *scenario) map[int]map[string]bool) {
	var in struct {
		Scenario string `json:"scenario"`
		Choices  []int  `json:"choices"`
		Bounds   []int  `json:"bounds"`
	}
	if err := run.ReplayInput(&in); err != nil {
		t.Fatal(err)
	}
	if len(in.Bounds) == 3 {
		es.b = bounds{in.Bounds[0], in.Bounds[1], in.Bounds[2]}
	}
	es.replaying = true
	for _, sc := range append(pairScenarios(), frameScenarios()...) {
		if sc.Name == in.Scenario {
			groups = append(groups, &group{Name: sc.Name, Twin: sc})
		}
	}
	for _, g := range groups {
		var target *scenario
		for _, sc := range append([]*scenario{g.Twin}, g.Variants...) {
			if sc.Name == in.Scenario {
				target = sc
			}
		}
		if target == nil {
			continue
		}
		if target.Twin != nil {
			// the reference sets of the differential clause
			es.reference(g, twinSets, false)
			es.cands = map[string]*candidate{}
			es.order = nil
		}
		for i := 0; i < 5; i++ {
			counts := map[string]int64{}
			scn, last := es.buildScenario(target, twinFor(target), nil, counts)
			x := es.s.RunOne(in.Choices, nil, func() { scn.Body(es.s) })
			outc, _ := scn.Check(es.s, x)
			fs := *last
			for _, p := range es.s.Panics {
				fs = append(fs, finding{Clause: "no panic", Site: "panic", Class: "any", Detail: p})
			}
			es.s.Finish()
			scn.Cleanup()
			synctest.Wait()
			fmt.Printf("replay %d: diverged=%q outcome=%s\n  trace: %s\n", i, x.Diverged, outc, strings.Join(x.Trace(), "\n         "))
			for _, f := range fs {
				fmt.Printf("  FAILED %s [%s | %s]: %s\n", f.Clause, f.Site, f.Class, f.Detail)
				run.Violate(vk.Violation{Clause: f.Clause, Site: f.Site, Class: f.Class, Detail: f.Detail})
			}
		}
		run.Eval(5)
		run.AddStates(1, 1, 5)
		return
	}
	t.Fatalf("replay: unknown scenario %q", in.Scenario)
}
