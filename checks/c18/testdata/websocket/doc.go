//go:build !js

// Package websocket implements the RFC 6455 WebSocket protocol.
//
// https://tools.ietf.org/html/rfc6455
//
// Use Dial to dial a WebSocket server.
//
// Use Accept to accept a WebSocket client.
//
// Conn represents the resulting WebSocket connection.
//
// The examples are the best way to understand how to correctly use the library.
//
// The wsjson subpackage contain helpers for JSON and protobuf messages.
//
// More documentation at https://github.com/coder/websocket.
//
// # Wasm
//
// The client side supports compiling to Wasm.
// It wraps the WebSocket browser API.
//
// See https://developer.mozilla.org/en-US/docs/Web/API/WebSocket
//
// Some important caveats to be aware of:
//
//   - Accept always errors out
//   - Conn.Ping is no-op
//   - Conn.CloseNow is Close(StatusGoingAway, "")
//   - HTTPClient, HTTPHeader and CompressionMode in DialOptions are no-op
//   - *http.Response from Dial is &http.Response{} with a 101 status code on success
package websocket // import "github.com/coder/websocket"
