//go:build !js

package websocket

import (
	"bufio"
	"encoding/binary"
	"fmt"
	"io"
	"math"

	"github.com/coder/websocket/internal/errd"
)

// opcode represents a WebSocket opcode.
type opcode int

// https://tools.ietf.org/html/rfc6455#section-11.8.
const (
	opContinuation opcode = iota
	opText
	opBinary
	// 3 - 7 are reserved for further non-control frames.
	_
	_
	_
	_
	_
	opClose
	opPing
	opPong
	// 11-16 are reserved for further control frames.
)

// header represents a WebSocket frame header.
// See https://tools.ietf.org/html/rfc6455#section-5.2.
type header struct {
	fin    bool
	rsv1   bool
	rsv2   bool
	rsv3   bool
	opcode opcode

	payloadLength int64

	masked  bool
	maskKey uint32
}

// readFrameHeader reads a header from the reader.
// See https://tools.ietf.org/html/rfc6455#section-5.2.
func readFrameHeader(r *bufio.Reader, readBuf []byte) (h header, err error) {
	defer errd.Wrap(&err, "failed to read frame header")

	b, err := r.ReadByte()
	if err != nil {
		return header{}, err
	}

	h.fin = b&(1<<7) != 0
	h.rsv1 = b&(1<<6) != 0
	h.rsv2 = b&(1<<5) != 0
	h.rsv3 = b&(1<<4) != 0

	h.opcode = opcode(b & 0xf)

	b, err = r.ReadByte()
	if err != nil {
		return header{}, err
	}

	h.masked = b&(1<<7) != 0

	payloadLength := b &^ (1 << 7)
	switch {
	case payloadLength < 126:
		h.payloadLength = int64(payloadLength)
	case payloadLength == 126:
		_, err = io.ReadFull(r, readBuf[:2])
		h.payloadLength = int64(binary.BigEndian.Uint16(readBuf))
	case payloadLength == 127:
		_, err = io.ReadFull(r, readBuf)
		h.payloadLength = int64(binary.BigEndian.Uint64(readBuf))
	}
	if err != nil {
		return header{}, err
	}

	if h.payloadLength < 0 {
		return header{}, fmt.Errorf("received negative payload length: %v", h.payloadLength)
	}

	if h.masked {
		_, err = io.ReadFull(r, readBuf[:4])
		if err != nil {
			return header{}, err
		}
		h.maskKey = binary.LittleEndian.Uint32(readBuf)
	}

	return h, nil
}

// maxControlPayload is the maximum length of a control frame payload.
// See https://tools.ietf.org/html/rfc6455#section-5.5.
const maxControlPayload = 125

// writeFrameHeader writes the bytes of the header to w.
// See https://tools.ietf.org/html/rfc6455#section-5.2
func writeFrameHeader(h header, w *bufio.Writer, buf []byte) (err error) {
	defer errd.Wrap(&err, "failed to write frame header")

	var b byte
	if h.fin {
		b |= 1 << 7
	}
	if h.rsv1 {
		b |= 1 << 6
	}
	if h.rsv2 {
		b |= 1 << 5
	}
	if h.rsv3 {
		b |= 1 << 4
	}

	b |= byte(h.opcode)

	err = w.WriteByte(b)
	if err != nil {
		return err
	}

	lengthByte := byte(0)
	if h.masked {
		lengthByte |= 1 << 7
	}

	switch {
	case h.payloadLength > math.MaxUint16:
		lengthByte |= 127
	case h.payloadLength > 125:
		lengthByte |= 126
	case h.payloadLength >= 0:
		lengthByte |= byte(h.payloadLength)
	}
	err = w.WriteByte(lengthByte)
	if err != nil {
		return err
	}

	switch {
	case h.payloadLength > math.MaxUint16:
		binary.BigEndian.PutUint64(buf, uint64(h.payloadLength))
		_, err = w.Write(buf)
	case h.payloadLength > 125:
		binary.BigEndian.PutUint16(buf, uint16(h.payloadLength))
		_, err = w.Write(buf[:2])
	}
	if err != nil {
		return err
	}

	if h.masked {
		binary.LittleEndian.PutUint32(buf, h.maskKey)
		_, err = w.Write(buf[:4])
		if err != nil {
			return err
		}
	}

	return nil
}
