// Package wsjson provides helpers for reading and writing JSON messages.
package wsjson // import "github.com/coder/websocket/wsjson"

import (
	"context"
	"encoding/json"
	"fmt"

	"github.com/coder/websocket"
	"github.com/coder/websocket/internal/bpool"
	"github.com/coder/websocket/internal/errd"
	"github.com/coder/websocket/internal/util"
)

// Read reads a JSON message from c into v.
// It will reuse buffers in between calls to avoid allocations.
func Read(ctx context.Context, c *websocket.Conn, v any) error {
	return read(ctx, c, v)
}

func read(ctx context.Context, c *websocket.Conn, v any) (err error) {
	defer errd.Wrap(&err, "failed to read JSON message")

	_, r, err := c.Reader(ctx)
	if err != nil {
		return err
	}

	b := bpool.Get()
	defer bpool.Put(b)

	_, err = b.ReadFrom(r)
	if err != nil {
		return err
	}

	err = json.Unmarshal(b.Bytes(), v)
	if err != nil {
		c.Close(websocket.StatusInvalidFramePayloadData, "failed to unmarshal JSON")
		return fmt.Errorf("failed to unmarshal JSON: %w", err)
	}

	return nil
}

// Write writes the JSON message v to c.
// It will reuse buffers in between calls to avoid allocations.
func Write(ctx context.Context, c *websocket.Conn, v any) error {
	return write(ctx, c, v)
}

func write(ctx context.Context, c *websocket.Conn, v any) (err error) {
	defer errd.Wrap(&err, "failed to write JSON message")

	// json.Marshal cannot reuse buffers between calls as it has to return
	// a copy of the byte slice but Encoder does as it directly writes to w.
	err = json.NewEncoder(util.WriterFunc(func(p []byte) (int, error) {
		err := c.Write(ctx, websocket.MessageText, p)
		if err != nil {
			return 0, err
		}
		return len(p), nil
	})).Encode(v)
	if err != nil {
		return fmt.Errorf("failed to marshal JSON: %w", err)
	}
	return nil
}
