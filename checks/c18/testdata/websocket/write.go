//go:build !js

package websocket

import (
	"bufio"
	"compress/flate"
	"context"
	"encoding/binary"
	"errors"
	"fmt"
	"io"
	"net"
	"time"

	"github.com/coder/websocket/internal/errd"
	"github.com/coder/websocket/internal/util"
)

// Writer returns a writer bounded by the context that will write
// a WebSocket message of type dataType to the connection.
//
// You must close the writer once you have written the entire message.
//
// Only one writer can be open at a time, multiple calls will block until the previous writer
// is closed.
func (c *Conn) Writer(ctx context.Context, typ MessageType) (io.WriteCloser, error) {
	w, err := c.writer(ctx, typ)
	if err != nil {
		return nil, fmt.Errorf("failed to get writer: %w", err)
	}
	return w, nil
}

// Write writes a message to the connection.
//
// See the Writer method if you want to stream a message.
//
// If compression is disabled or the compression threshold is not met, then it
// will write the message in a single frame.
func (c *Conn) Write(ctx context.Context, typ MessageType, p []byte) error {
	_, err := c.write(ctx, typ, p)
	if err != nil {
		return fmt.Errorf("failed to write msg: %w", err)
	}
	return nil
}

type msgWriter struct {
	c *Conn

	mu      *mu
	writeMu *mu
	closed  bool

	ctx    context.Context
	opcode opcode
	flate  bool

	trimWriter  *trimLastFourBytesWriter
	flateWriter *flate.Writer
}

func newMsgWriter(c *Conn) *msgWriter {
	mw := &msgWriter{
		c:       c,
		mu:      newMu(c),
		writeMu: newMu(c),
	}
	return mw
}

func (mw *msgWriter) ensureFlate() {
	if mw.trimWriter == nil {
		mw.trimWriter = &trimLastFourBytesWriter{
			w: util.WriterFunc(mw.write),
		}
	}

	if mw.flateWriter == nil {
		mw.flateWriter = getFlateWriter(mw.trimWriter)
	}
	mw.flate = true
}

func (mw *msgWriter) flateContextTakeover() bool {
	if mw.c.client {
		return !mw.c.copts.clientNoContextTakeover
	}
	return !mw.c.copts.serverNoContextTakeover
}

func (c *Conn) writer(ctx context.Context, typ MessageType) (io.WriteCloser, error) {
	err := c.msgWriter.reset(ctx, typ)
	if err != nil {
		return nil, err
	}
	return c.msgWriter, nil
}

func (c *Conn) write(ctx context.Context, typ MessageType, p []byte) (int, error) {
	mw, err := c.writer(ctx, typ)
	if err != nil {
		return 0, err
	}

	if !c.flate() {
		defer c.msgWriter.mu.unlock()
		return c.writeFrame(ctx, true, false, c.msgWriter.opcode, p)
	}

	n, err := mw.Write(p)
	if err != nil {
		return n, err
	}

	err = mw.Close()
	return n, err
}

func (mw *msgWriter) reset(ctx context.Context, typ MessageType) error {
	err := mw.mu.lock(ctx)
	if err != nil {
		return err
	}

	mw.ctx = ctx
	mw.opcode = opcode(typ)
	mw.flate = false
	mw.closed = false

	mw.trimWriter.reset()

	return nil
}

func (mw *msgWriter) putFlateWriter() {
	if mw.flateWriter != nil {
		putFlateWriter(mw.flateWriter)
		mw.flateWriter = nil
	}
}

// Write writes the given bytes to the WebSocket connection.
func (mw *msgWriter) Write(p []byte) (_ int, err error) {
	err = mw.writeMu.lock(mw.ctx)
	if err != nil {
		return 0, fmt.Errorf("failed to write: %w", err)
	}
	defer mw.writeMu.unlock()

	if mw.closed {
		return 0, errors.New("cannot use closed writer")
	}

	defer func() {
		if err != nil {
			err = fmt.Errorf("failed to write: %w", err)
		}
	}()

	if mw.c.flate() {
		// Only enables flate if the length crosses the
		// threshold on the first frame
		if mw.opcode != opContinuation && len(p) >= mw.c.flateThreshold {
			mw.ensureFlate()
		}
	}

	if mw.flate {
		return mw.flateWriter.Write(p)
	}

	return mw.write(p)
}

func (mw *msgWriter) write(p []byte) (int, error) {
	n, err := mw.c.writeFrame(mw.ctx, false, mw.flate, mw.opcode, p)
	if err != nil {
		return n, fmt.Errorf("failed to write data frame: %w", err)
	}
	mw.opcode = opContinuation
	return n, nil
}

// Close flushes the frame to the connection.
func (mw *msgWriter) Close() (err error) {
	defer errd.Wrap(&err, "failed to close writer")

	err = mw.writeMu.lock(mw.ctx)
	if err != nil {
		return err
	}
	defer mw.writeMu.unlock()

	if mw.closed {
		return errors.New("writer already closed")
	}
	mw.closed = true

	if mw.flate {
		err = mw.flateWriter.Flush()
		if err != nil {
			return fmt.Errorf("failed to flush flate: %w", err)
		}
	}

	_, err = mw.c.writeFrame(mw.ctx, true, mw.flate, mw.opcode, nil)
	if err != nil {
		return fmt.Errorf("failed to write fin frame: %w", err)
	}

	if mw.flate && !mw.flateContextTakeover() {
		mw.putFlateWriter()
	}
	mw.mu.unlock()
	return nil
}

func (mw *msgWriter) close() {
	if mw.c.client {
		mw.c.writeFrameMu.forceLock()
		putBufioWriter(mw.c.bw)
	}

	mw.writeMu.forceLock()
	mw.putFlateWriter()
}

func (c *Conn) writeControl(ctx context.Context, opcode opcode, p []byte) error {
	ctx, cancel := context.WithTimeout(ctx, time.Second*5)
	defer cancel()

	_, err := c.writeFrame(ctx, true, false, opcode, p)
	if err != nil {
		return fmt.Errorf("failed to write control frame %v: %w", opcode, err)
	}
	return nil
}

// writeFrame handles all writes to the connection.
func (c *Conn) writeFrame(ctx context.Context, fin bool, flate bool, opcode opcode, p []byte) (_ int, err error) {
	err = c.writeFrameMu.lock(ctx)
	if err != nil {
		return 0, err
	}
	defer c.writeFrameMu.unlock()

	defer func() {
		if c.isClosed() && opcode == opClose {
			err = nil
		}
		if err != nil {
			if ctx.Err() != nil {
				err = ctx.Err()
			} else if c.isClosed() {
				err = net.ErrClosed
			}
			err = fmt.Errorf("failed to write frame: %w", err)
		}
	}()

	c.closeStateMu.Lock()
	closeSentErr := c.closeSentErr
	c.closeStateMu.Unlock()
	if closeSentErr != nil {
		return 0, net.ErrClosed
	}

	select {
	case <-c.closed:
		return 0, net.ErrClosed
	default:
	}
	c.setupWriteTimeout(ctx)
	defer c.clearWriteTimeout()

	c.writeHeader.fin = fin
	c.writeHeader.opcode = opcode
	c.writeHeader.payloadLength = int64(len(p))

	if c.client {
		c.writeHeader.masked = true
		_, err = io.ReadFull(randReader(), c.writeHeaderBuf[:4])
		if err != nil {
			return 0, fmt.Errorf("failed to generate masking key: %w", err)
		}
		c.writeHeader.maskKey = binary.LittleEndian.Uint32(c.writeHeaderBuf[:])
	}

	c.writeHeader.rsv1 = false
	if flate && (opcode == opText || opcode == opBinary) {
		c.writeHeader.rsv1 = true
	}

	err = writeFrameHeader(c.writeHeader, c.bw, c.writeHeaderBuf[:])
	if err != nil {
		return 0, err
	}

	n, err := c.writeFramePayload(p)
	if err != nil {
		return n, err
	}

	if c.writeHeader.fin {
		err = c.bw.Flush()
		if err != nil {
			return n, fmt.Errorf("failed to flush: %w", err)
		}
	}

	if opcode == opClose {
		c.closeStateMu.Lock()
		c.closeSentErr = fmt.Errorf("sent close frame: %w", net.ErrClosed)
		closeReceived := c.closeReceivedErr != nil
		c.closeStateMu.Unlock()

		if closeReceived && !c.casClosing() {
			c.writeFrameMu.unlock()
			_ = c.close()
		}
	}

	return n, nil
}

func (c *Conn) writeFramePayload(p []byte) (n int, err error) {
	defer errd.Wrap(&err, "failed to write frame payload")

	if !c.writeHeader.masked {
		return c.bw.Write(p)
	}

	maskKey := c.writeHeader.maskKey
	for len(p) > 0 {
		// If the buffer is full, we need to flush.
		if c.bw.Available() == 0 {
			err = c.bw.Flush()
			if err != nil {
				return n, err
			}
		}

		// Start of next write in the buffer.
		i := c.bw.Buffered()

		j := min(len(p), c.bw.Available())

		_, err := c.bw.Write(p[:j])
		if err != nil {
			return n, err
		}

		maskKey = mask(c.writeBuf[i:c.bw.Buffered()], maskKey)

		p = p[j:]
		n += j
	}

	return n, nil
}

// extractBufioWriterBuf grabs the []byte backing a *bufio.Writer
// and returns it.
func extractBufioWriterBuf(bw *bufio.Writer, w io.Writer) []byte {
	var writeBuf []byte
	bw.Reset(util.WriterFunc(func(p2 []byte) (int, error) {
		writeBuf = p2[:cap(p2)]
		return len(p2), nil
	}))

	bw.WriteByte(0)
	bw.Flush()

	bw.Reset(w)

	return writeBuf
}

func (c *Conn) writeError(code StatusCode, err error) {
	c.writeClose(code, err.Error())
}
