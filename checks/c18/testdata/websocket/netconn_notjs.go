//go:build !js

package websocket

import "net"

func (nc *netConn) RemoteAddr() net.Addr {
	if unc, ok := nc.c.rwc.(net.Conn); ok {
		return unc.RemoteAddr()
	}
	return websocketAddr{}
}

func (nc *netConn) LocalAddr() net.Addr {
	if unc, ok := nc.c.rwc.(net.Conn); ok {
		return unc.LocalAddr()
	}
	return websocketAddr{}
}
