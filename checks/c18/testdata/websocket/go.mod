module github.com/coder/websocket

go 1.23
