//go:build !js

package websocket

import (
	"bufio"
	"bytes"
	"context"
	"encoding/base64"
	"fmt"
	"io"
	"net/http"
	"net/url"
	"strings"
	"sync"
	"time"

	"github.com/coder/websocket/internal/errd"
)

// DialOptions represents Dial's options.
type DialOptions struct {
	// HTTPClient is used for the connection.
	// Its Transport must return writable bodies for WebSocket handshakes.
	// http.Transport does beginning with Go 1.12.
	HTTPClient *http.Client

	// HTTPHeader specifies the HTTP headers included in the handshake request.
	HTTPHeader http.Header

	// Host optionally overrides the Host HTTP header to send. If empty, the value
	// of URL.Host will be used.
	Host string

	// Subprotocols lists the WebSocket subprotocols to negotiate with the server.
	Subprotocols []string

	// CompressionMode controls the compression mode.
	// Defaults to CompressionDisabled.
	//
	// See docs on CompressionMode for details.
	CompressionMode CompressionMode

	// CompressionThreshold controls the minimum size of a message before compression is applied.
	//
	// Defaults to 512 bytes for CompressionNoContextTakeover and 128 bytes
	// for CompressionContextTakeover.
	CompressionThreshold int

	// OnPingReceived is an optional callback invoked synchronously when a ping frame is received.
	//
	// The payload contains the application data of the ping frame.
	// If the callback returns false, the subsequent pong frame will not be sent.
	// To avoid blocking, any expensive processing should be performed asynchronously using a goroutine.
	OnPingReceived func(ctx context.Context, payload []byte) bool

	// OnPongReceived is an optional callback invoked synchronously when a pong frame is received.
	//
	// The payload contains the application data of the pong frame.
	// To avoid blocking, any expensive processing should be performed asynchronously using a goroutine.
	//
	// Unlike OnPingReceived, this callback does not return a value because a pong frame
	// is a response to a ping and does not trigger any further frame transmission.
	OnPongReceived func(ctx context.Context, payload []byte)
}

func (opts *DialOptions) cloneWithDefaults(ctx context.Context) (context.Context, context.CancelFunc, *DialOptions) {
	var cancel context.CancelFunc

	var o DialOptions
	if opts != nil {
		o = *opts
	}
	if o.HTTPClient == nil {
		o.HTTPClient = http.DefaultClient
	}
	if o.HTTPClient.Timeout > 0 {
		ctx, cancel = context.WithTimeout(ctx, o.HTTPClient.Timeout)

		newClient := *o.HTTPClient
		newClient.Timeout = 0
		o.HTTPClient = &newClient
	}
	if o.HTTPHeader == nil {
		o.HTTPHeader = http.Header{}
	}
	newClient := *o.HTTPClient
	oldCheckRedirect := o.HTTPClient.CheckRedirect
	newClient.CheckRedirect = func(req *http.Request, via []*http.Request) error {
		switch req.URL.Scheme {
		case "ws":
			req.URL.Scheme = "http"
		case "wss":
			req.URL.Scheme = "https"
		}
		if oldCheckRedirect != nil {
			return oldCheckRedirect(req, via)
		}
		return nil
	}
	o.HTTPClient = &newClient

	return ctx, cancel, &o
}

// Dial performs a WebSocket handshake on url.
//
// The response is the WebSocket handshake response from the server.
// You never need to close resp.Body yourself.
//
// If an error occurs, the returned response may be non nil.
// However, you can only read the first 1024 bytes of the body.
//
// This function requires at least Go 1.12 as it uses a new feature
// in net/http to perform WebSocket handshakes.
// See docs on the HTTPClient option and https://github.com/golang/go/issues/26937#issuecomment-415855861
//
// URLs with http/https schemes will work and are interpreted as ws/wss.
func Dial(ctx context.Context, u string, opts *DialOptions) (*Conn, *http.Response, error) {
	return dial(ctx, u, opts, nil)
}

func dial(ctx context.Context, urls string, opts *DialOptions, rand io.Reader) (_ *Conn, _ *http.Response, err error) {
	defer errd.Wrap(&err, "failed to WebSocket dial")

	var cancel context.CancelFunc
	ctx, cancel, opts = opts.cloneWithDefaults(ctx)
	if cancel != nil {
		defer cancel()
	}

	secWebSocketKey, err := secWebSocketKey(rand)
	if err != nil {
		return nil, nil, fmt.Errorf("failed to generate Sec-WebSocket-Key: %w", err)
	}

	var copts *compressionOptions
	if opts.CompressionMode != CompressionDisabled {
		copts = opts.CompressionMode.opts()
	}

	resp, err := handshakeRequest(ctx, urls, opts, copts, secWebSocketKey)
	if err != nil {
		return nil, resp, err
	}
	respBody := resp.Body
	resp.Body = nil
	defer func() {
		if err != nil {
			// We read a bit of the body for easier debugging.
			r := io.LimitReader(respBody, 1024)

			timer := time.AfterFunc(time.Second*3, func() {
				respBody.Close()
			})
			defer timer.Stop()

			b, _ := io.ReadAll(r)
			respBody.Close()
			resp.Body = io.NopCloser(bytes.NewReader(b))
		}
	}()

	copts, err = verifyServerResponse(opts, copts, secWebSocketKey, resp)
	if err != nil {
		return nil, resp, err
	}

	rwc, ok := respBody.(io.ReadWriteCloser)
	if !ok {
		return nil, resp, fmt.Errorf("response body is not a io.ReadWriteCloser: %T", respBody)
	}

	return newConn(connConfig{
		subprotocol:    resp.Header.Get("Sec-WebSocket-Protocol"),
		rwc:            rwc,
		client:         true,
		copts:          copts,
		flateThreshold: opts.CompressionThreshold,
		onPingReceived: opts.OnPingReceived,
		onPongReceived: opts.OnPongReceived,
		br:             getBufioReader(rwc),
		bw:             getBufioWriter(rwc),
	}), resp, nil
}

func handshakeRequest(ctx context.Context, urls string, opts *DialOptions, copts *compressionOptions, secWebSocketKey string) (*http.Response, error) {
	u, err := url.Parse(urls)
	if err != nil {
		return nil, fmt.Errorf("failed to parse url: %w", err)
	}

	switch u.Scheme {
	case "ws":
		u.Scheme = "http"
	case "wss":
		u.Scheme = "https"
	case "http", "https":
	default:
		return nil, fmt.Errorf("unexpected url scheme: %q", u.Scheme)
	}

	req, err := http.NewRequestWithContext(ctx, "GET", u.String(), nil)
	if err != nil {
		return nil, fmt.Errorf("failed to create new http request: %w", err)
	}
	if len(opts.Host) > 0 {
		req.Host = opts.Host
	}
	req.Header = opts.HTTPHeader.Clone()
	req.Header.Set("Connection", "Upgrade")
	req.Header.Set("Upgrade", "websocket")
	req.Header.Set("Sec-WebSocket-Version", "13")
	req.Header.Set("Sec-WebSocket-Key", secWebSocketKey)
	if len(opts.Subprotocols) > 0 {
		req.Header.Set("Sec-WebSocket-Protocol", strings.Join(opts.Subprotocols, ","))
	}
	if copts != nil {
		req.Header.Set("Sec-WebSocket-Extensions", copts.String())
	}

	resp, err := opts.HTTPClient.Do(req)
	if err != nil {
		return nil, fmt.Errorf("failed to send handshake request: %w", err)
	}
	return resp, nil
}

func secWebSocketKey(rr io.Reader) (string, error) {
	if rr == nil {
		rr = randReader()
	}
	b := make([]byte, 16)
	_, err := io.ReadFull(rr, b)
	if err != nil {
		return "", fmt.Errorf("failed to read random data from rand.Reader: %w", err)
	}
	return base64.StdEncoding.EncodeToString(b), nil
}

func verifyServerResponse(opts *DialOptions, copts *compressionOptions, secWebSocketKey string, resp *http.Response) (*compressionOptions, error) {
	if resp.StatusCode != http.StatusSwitchingProtocols {
		return nil, fmt.Errorf("expected handshake response status code %v but got %v", http.StatusSwitchingProtocols, resp.StatusCode)
	}

	if !headerContainsTokenIgnoreCase(resp.Header, "Connection", "Upgrade") {
		return nil, fmt.Errorf("WebSocket protocol violation: Connection header %q does not contain Upgrade", resp.Header.Get("Connection"))
	}

	if !headerContainsTokenIgnoreCase(resp.Header, "Upgrade", "WebSocket") {
		return nil, fmt.Errorf("WebSocket protocol violation: Upgrade header %q does not contain websocket", resp.Header.Get("Upgrade"))
	}

	if resp.Header.Get("Sec-WebSocket-Accept") != secWebSocketAccept(secWebSocketKey) {
		return nil, fmt.Errorf("WebSocket protocol violation: invalid Sec-WebSocket-Accept %q, key %q",
			resp.Header.Get("Sec-WebSocket-Accept"),
			secWebSocketKey,
		)
	}

	err := verifySubprotocol(opts.Subprotocols, resp)
	if err != nil {
		return nil, err
	}

	return verifyServerExtensions(copts, resp.Header)
}

func verifySubprotocol(subprotos []string, resp *http.Response) error {
	proto := resp.Header.Get("Sec-WebSocket-Protocol")
	if proto == "" {
		return nil
	}

	for _, sp2 := range subprotos {
		if strings.EqualFold(sp2, proto) {
			return nil
		}
	}

	return fmt.Errorf("WebSocket protocol violation: unexpected Sec-WebSocket-Protocol from server: %q", proto)
}

func verifyServerExtensions(copts *compressionOptions, h http.Header) (*compressionOptions, error) {
	exts := websocketExtensions(h)
	if len(exts) == 0 {
		return nil, nil
	}

	ext := exts[0]
	if ext.name != "permessage-deflate" || len(exts) > 1 || copts == nil {
		return nil, fmt.Errorf("WebSocket protcol violation: unsupported extensions from server: %+v", exts[1:])
	}

	_copts := *copts
	copts = &_copts

	for _, p := range ext.params {
		switch p {
		case "client_no_context_takeover":
			copts.clientNoContextTakeover = true
			continue
		case "server_no_context_takeover":
			copts.serverNoContextTakeover = true
			continue
		}
		if strings.HasPrefix(p, "server_max_window_bits=") {
			// We can't adjust the deflate window, but decoding with a larger window is acceptable.
			continue
		}

		return nil, fmt.Errorf("unsupported permessage-deflate parameter: %q", p)
	}

	return copts, nil
}

var bufioReaderPool sync.Pool

func getBufioReader(r io.Reader) *bufio.Reader {
	br, ok := bufioReaderPool.Get().(*bufio.Reader)
	if !ok {
		return bufio.NewReader(r)
	}
	br.Reset(r)
	return br
}

func putBufioReader(br *bufio.Reader) {
	bufioReaderPool.Put(br)
}

var bufioWriterPool sync.Pool

func getBufioWriter(w io.Writer) *bufio.Writer {
	bw, ok := bufioWriterPool.Get().(*bufio.Writer)
	if !ok {
		return bufio.NewWriter(w)
	}
	bw.Reset(w)
	return bw
}

func putBufioWriter(bw *bufio.Writer) {
	bufioWriterPool.Put(bw)
}
