//go:build !js

package websocket

import (
	"context"
	"encoding/binary"
	"errors"
	"fmt"
	"net"
	"time"

	"github.com/coder/websocket/internal/errd"
)

// StatusCode represents a WebSocket status code.
// https://tools.ietf.org/html/rfc6455#section-7.4
type StatusCode int

// https://www.iana.org/assignments/websocket/websocket.xhtml#close-code-number
//
// These are only the status codes defined by the protocol.
//
// You can define custom codes in the 3000-4999 range.
// The 3000-3999 range is reserved for use by libraries, frameworks and applications.
// The 4000-4999 range is reserved for private use.
const (
	StatusNormalClosure   StatusCode = 1000
	StatusGoingAway       StatusCode = 1001
	StatusProtocolError   StatusCode = 1002
	StatusUnsupportedData StatusCode = 1003

	// 1004 is reserved and so unexported.
	statusReserved StatusCode = 1004

	// StatusNoStatusRcvd cannot be sent in a close message.
	// It is reserved for when a close message is received without
	// a status code.
	StatusNoStatusRcvd StatusCode = 1005

	// StatusAbnormalClosure is exported for use only with Wasm.
	// In non Wasm Go, the returned error will indicate whether the
	// connection was closed abnormally.
	StatusAbnormalClosure StatusCode = 1006

	StatusInvalidFramePayloadData StatusCode = 1007
	StatusPolicyViolation         StatusCode = 1008
	StatusMessageTooBig           StatusCode = 1009
	StatusMandatoryExtension      StatusCode = 1010
	StatusInternalError           StatusCode = 1011
	StatusServiceRestart          StatusCode = 1012
	StatusTryAgainLater           StatusCode = 1013
	StatusBadGateway              StatusCode = 1014

	// StatusTLSHandshake is only exported for use with Wasm.
	// In non Wasm Go, the returned error will indicate whether there was
	// a TLS handshake failure.
	StatusTLSHandshake StatusCode = 1015
)

// CloseError is returned when the connection is closed with a status and reason.
//
// Use Go 1.13's errors.As to check for this error.
// Also see the CloseStatus helper.
type CloseError struct {
	Code   StatusCode
	Reason string
}

func (ce CloseError) Error() string {
	return fmt.Sprintf("status = %v and reason = %q", ce.Code, ce.Reason)
}

// CloseStatus is a convenience wrapper around Go 1.13's errors.As to grab
// the status code from a CloseError.
//
// -1 will be returned if the passed error is nil or not a CloseError.
func CloseStatus(err error) StatusCode {
	var ce CloseError
	if errors.As(err, &ce) {
		return ce.Code
	}
	return -1
}

// Close performs the WebSocket close handshake with the given status code and reason.
//
// It will write a WebSocket close frame with a timeout of 5s and then wait 5s for
// the peer to send a close frame.
// All data messages received from the peer during the close handshake will be discarded.
//
// The connection can only be closed once. Additional calls to Close
// are no-ops.
//
// The maximum length of reason must be 125 bytes. Avoid sending a dynamic reason.
//
// Close will unblock all goroutines interacting with the connection once
// complete.
func (c *Conn) Close(code StatusCode, reason string) (err error) {
	defer errd.Wrap(&err, "failed to close WebSocket")

	if c.casClosing() {
		err = c.waitGoroutines()
		if err != nil {
			return err
		}
		return net.ErrClosed
	}
	defer func() {
		if errors.Is(err, net.ErrClosed) {
			err = nil
		}
	}()

	err = c.closeHandshake(code, reason)

	err2 := c.close()
	if err == nil && err2 != nil {
		err = err2
	}

	err2 = c.waitGoroutines()
	if err == nil && err2 != nil {
		err = err2
	}

	return err
}

// CloseNow closes the WebSocket connection without attempting a close handshake.
// Use when you do not want the overhead of the close handshake.
func (c *Conn) CloseNow() (err error) {
	defer errd.Wrap(&err, "failed to immediately close WebSocket")

	if c.casClosing() {
		err = c.waitGoroutines()
		if err != nil {
			return err
		}
		return net.ErrClosed
	}
	defer func() {
		if errors.Is(err, net.ErrClosed) {
			err = nil
		}
	}()

	err = c.close()

	err2 := c.waitGoroutines()
	if err == nil && err2 != nil {
		err = err2
	}
	return err
}

func (c *Conn) closeHandshake(code StatusCode, reason string) error {
	err := c.writeClose(code, reason)
	if err != nil {
		return err
	}

	err = c.waitCloseHandshake()
	if CloseStatus(err) != code {
		return err
	}
	return nil
}

func (c *Conn) writeClose(code StatusCode, reason string) error {
	ce := CloseError{
		Code:   code,
		Reason: reason,
	}

	var p []byte
	var err error
	if ce.Code != StatusNoStatusRcvd {
		p, err = ce.bytes()
		if err != nil {
			return err
		}
	}

	ctx, cancel := context.WithTimeout(context.Background(), time.Second*5)
	defer cancel()

	err = c.writeControl(ctx, opClose, p)
	// If the connection closed as we're writing we ignore the error as we might
	// have written the close frame, the peer responded and then someone else read it
	// and closed the connection.
	if err != nil && !errors.Is(err, net.ErrClosed) {
		return err
	}
	return nil
}

func (c *Conn) waitCloseHandshake() error {
	ctx, cancel := context.WithTimeout(context.Background(), time.Second*5)
	defer cancel()

	err := c.readMu.lock(ctx)
	if err != nil {
		return err
	}
	defer c.readMu.unlock()

	for i := int64(0); i < c.msgReader.payloadLength; i++ {
		_, err := c.br.ReadByte()
		if err != nil {
			return err
		}
	}

	for {
		h, err := c.readLoop(ctx)
		if err != nil {
			return err
		}

		for i := int64(0); i < h.payloadLength; i++ {
			_, err := c.br.ReadByte()
			if err != nil {
				return err
			}
		}
	}
}

func (c *Conn) waitGoroutines() error {
	t := time.NewTimer(time.Second * 15)
	defer t.Stop()

	c.closeReadMu.Lock()
	closeRead := c.closeReadCtx != nil
	c.closeReadMu.Unlock()
	if closeRead {
		select {
		case <-c.closeReadDone:
		case <-t.C:
			return errors.New("failed to wait for close read goroutine to exit")
		}
	}

	select {
	case <-c.closed:
	case <-t.C:
		return errors.New("failed to wait for connection to be closed")
	}

	return nil
}

func parseClosePayload(p []byte) (CloseError, error) {
	if len(p) == 0 {
		return CloseError{
			Code: StatusNoStatusRcvd,
		}, nil
	}

	if len(p) < 2 {
		return CloseError{}, fmt.Errorf("close payload %q too small, cannot even contain the 2 byte status code", p)
	}

	ce := CloseError{
		Code:   StatusCode(binary.BigEndian.Uint16(p)),
		Reason: string(p[2:]),
	}

	if !validWireCloseCode(ce.Code) {
		return CloseError{}, fmt.Errorf("invalid status code %v", ce.Code)
	}

	return ce, nil
}

// See http://www.iana.org/assignments/websocket/websocket.xhtml#close-code-number
// and https://tools.ietf.org/html/rfc6455#section-7.4.1
func validWireCloseCode(code StatusCode) bool {
	switch code {
	case statusReserved, StatusNoStatusRcvd, StatusAbnormalClosure, StatusTLSHandshake:
		return false
	}

	if code >= StatusNormalClosure && code <= StatusBadGateway {
		return true
	}
	if code >= 3000 && code <= 4999 {
		return true
	}

	return false
}

func (ce CloseError) bytes() ([]byte, error) {
	p, err := ce.bytesErr()
	if err != nil {
		err = fmt.Errorf("failed to marshal close frame: %w", err)
		ce = CloseError{
			Code: StatusInternalError,
		}
		p, _ = ce.bytesErr()
	}
	return p, err
}

const maxCloseReason = maxControlPayload - 2

func (ce CloseError) bytesErr() ([]byte, error) {
	if len(ce.Reason) > maxCloseReason {
		return nil, fmt.Errorf("reason string max is %v but got %q with length %v", maxCloseReason, ce.Reason, len(ce.Reason))
	}

	if !validWireCloseCode(ce.Code) {
		return nil, fmt.Errorf("status code %v cannot be set", ce.Code)
	}

	buf := make([]byte, 2+len(ce.Reason))
	binary.BigEndian.PutUint16(buf, uint16(ce.Code))
	copy(buf[2:], ce.Reason)
	return buf, nil
}

func (c *Conn) casClosing() bool {
	return c.closing.Swap(true)
}

func (c *Conn) isClosed() bool {
	select {
	case <-c.closed:
		return true
	default:
		return false
	}
}
