package bpool

import (
	"bytes"
	"sync"
)

var bpool = sync.Pool{
	New: func() any {
		return &bytes.Buffer{}
	},
}

// Get returns a buffer from the pool or creates a new one if
// the pool is empty.
func Get() *bytes.Buffer {
	b := bpool.Get()
	return b.(*bytes.Buffer)
}

// Put returns a buffer into the pool.
func Put(b *bytes.Buffer) {
	b.Reset()
	bpool.Put(b)
}
