package util

// WriterFunc is used to implement one off io.Writers.
type WriterFunc func(p []byte) (int, error)

func (f WriterFunc) Write(p []byte) (int, error) {
	return f(p)
}

// ReaderFunc is used to implement one off io.Readers.
type ReaderFunc func(p []byte) (int, error)

func (f ReaderFunc) Read(p []byte) (int, error) {
	return f(p)
}
