package xsync

import (
	"fmt"
	"runtime/debug"
)

// Go allows running a function in another goroutine
// and waiting for its error.
func Go(fn func() error) <-chan error {
	errs := make(chan error, 1)
	go func() {
		defer func() {
			r := recover()
			if r != nil {
				select {
				case errs <- fmt.Errorf("panic in go fn: %v, %s", r, debug.Stack()):
				default:
				}
			}
		}()
		errs <- fn()
	}()

	return errs
}
