package errd

import (
	"fmt"
)

// Wrap wraps err with fmt.Errorf if err is non nil.
// Intended for use with defer and a named error return.
// Inspired by https://github.com/golang/go/issues/32676.
func Wrap(err *error, f string, v ...any) {
	if *err != nil {
		*err = fmt.Errorf(f+": %w", append(v, *err)...)
	}
}
