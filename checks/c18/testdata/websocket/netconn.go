package websocket

import (
	"context"
	"fmt"
	"io"
	"math"
	"net"
	"sync/atomic"
	"time"
)

// NetConn converts a *websocket.Conn into a net.Conn.
//
// It's for tunneling arbitrary protocols over WebSockets.
// Few users of the library will need this but it's tricky to implement
// correctly and so provided in the library.
// See https://github.com/nhooyr/websocket/issues/100.
//
// Every Write to the net.Conn will correspond to a message write of
// the given type on *websocket.Conn.
//
// The passed ctx bounds the lifetime of the net.Conn. If cancelled,
// all reads and writes on the net.Conn will be cancelled.
//
// If a message is read that is not of the correct type, the connection
// will be closed with StatusUnsupportedData and an error will be returned.
//
// Close will close the *websocket.Conn with StatusNormalClosure.
//
// When a deadline is hit and there is an active read or write goroutine, the
// connection will be closed. This is different from most net.Conn implementations
// where only the reading/writing goroutines are interrupted but the connection
// is kept alive.
//
// The Addr methods will return the real addresses for connections obtained
// from websocket.Accept. But for connections obtained from websocket.Dial, a mock net.Addr
// will be returned that gives "websocket" for Network() and "websocket/unknown-addr" for
// String(). This is because websocket.Dial only exposes a io.ReadWriteCloser instead of the
// full net.Conn to us.
//
// When running as WASM, the Addr methods will always return the mock address described above.
//
// A received StatusNormalClosure or StatusGoingAway close frame will be translated to
// io.EOF when reading.
//
// Furthermore, the ReadLimit is set to -1 to disable it.
func NetConn(ctx context.Context, c *Conn, msgType MessageType) net.Conn {
	c.SetReadLimit(-1)

	nc := &netConn{
		c:       c,
		msgType: msgType,
		readMu:  newMu(c),
		writeMu: newMu(c),
	}

	nc.writeCtx, nc.writeCancel = context.WithCancel(ctx)
	nc.readCtx, nc.readCancel = context.WithCancel(ctx)

	nc.writeTimer = time.AfterFunc(math.MaxInt64, func() {
		if !nc.writeMu.tryLock() {
			// If the lock cannot be acquired, then there is an
			// active write goroutine and so we should cancel the context.
			nc.writeCancel()
			return
		}
		defer nc.writeMu.unlock()

		// Prevents future writes from writing until the deadline is reset.
		nc.writeExpired.Store(1)
	})
	if !nc.writeTimer.Stop() {
		<-nc.writeTimer.C
	}

	nc.readTimer = time.AfterFunc(math.MaxInt64, func() {
		if !nc.readMu.tryLock() {
			// If the lock cannot be acquired, then there is an
			// active read goroutine and so we should cancel the context.
			nc.readCancel()
			return
		}
		defer nc.readMu.unlock()

		// Prevents future reads from reading until the deadline is reset.
		nc.readExpired.Store(1)
	})
	if !nc.readTimer.Stop() {
		<-nc.readTimer.C
	}

	return nc
}

type netConn struct {
	c       *Conn
	msgType MessageType

	writeTimer   *time.Timer
	writeMu      *mu
	writeExpired atomic.Int64
	writeCtx     context.Context
	writeCancel  context.CancelFunc

	readTimer   *time.Timer
	readMu      *mu
	readExpired atomic.Int64
	readCtx     context.Context
	readCancel  context.CancelFunc
	readEOFed   bool
	reader      io.Reader
}

var _ net.Conn = &netConn{}

func (nc *netConn) Close() error {
	nc.writeTimer.Stop()
	nc.writeCancel()
	nc.readTimer.Stop()
	nc.readCancel()
	return nc.c.Close(StatusNormalClosure, "")
}

func (nc *netConn) Write(p []byte) (int, error) {
	nc.writeMu.forceLock()
	defer nc.writeMu.unlock()

	if nc.writeExpired.Load() == 1 {
		return 0, fmt.Errorf("failed to write: %w", context.DeadlineExceeded)
	}

	err := nc.c.Write(nc.writeCtx, nc.msgType, p)
	if err != nil {
		return 0, err
	}
	return len(p), nil
}

func (nc *netConn) Read(p []byte) (int, error) {
	nc.readMu.forceLock()
	defer nc.readMu.unlock()

	for {
		n, err := nc.read(p)
		if err != nil {
			return n, err
		}
		if n == 0 {
			continue
		}
		return n, nil
	}
}

func (nc *netConn) read(p []byte) (int, error) {
	if nc.readExpired.Load() == 1 {
		return 0, fmt.Errorf("failed to read: %w", context.DeadlineExceeded)
	}

	if nc.readEOFed {
		return 0, io.EOF
	}

	if nc.reader == nil {
		typ, r, err := nc.c.Reader(nc.readCtx)
		if err != nil {
			switch CloseStatus(err) {
			case StatusNormalClosure, StatusGoingAway:
				nc.readEOFed = true
				return 0, io.EOF
			}
			return 0, err
		}
		if typ != nc.msgType {
			err := fmt.Errorf("unexpected frame type read (expected %v): %v", nc.msgType, typ)
			nc.c.Close(StatusUnsupportedData, err.Error())
			return 0, err
		}
		nc.reader = r
	}

	n, err := nc.reader.Read(p)
	if err == io.EOF {
		nc.reader = nil
		err = nil
	}
	return n, err
}

type websocketAddr struct{}

func (a websocketAddr) Network() string {
	return "websocket"
}

func (a websocketAddr) String() string {
	return "websocket/unknown-addr"
}

func (nc *netConn) SetDeadline(t time.Time) error {
	nc.SetWriteDeadline(t)
	nc.SetReadDeadline(t)
	return nil
}

func (nc *netConn) SetWriteDeadline(t time.Time) error {
	nc.writeExpired.Store(0)
	if t.IsZero() {
		nc.writeTimer.Stop()
	} else {
		dur := time.Until(t)
		if dur <= 0 {
			dur = 1
		}
		nc.writeTimer.Reset(dur)
	}
	return nil
}

func (nc *netConn) SetReadDeadline(t time.Time) error {
	nc.readExpired.Store(0)
	if t.IsZero() {
		nc.readTimer.Stop()
	} else {
		dur := time.Until(t)
		if dur <= 0 {
			dur = 1
		}
		nc.readTimer.Reset(dur)
	}
	return nil
}
