//go:build !js

package websocket

import (
	"bufio"
	"context"
	"errors"
	"fmt"
	"io"
	"net"
	"strings"
	"sync/atomic"
	"time"

	"github.com/coder/websocket/internal/errd"
	"github.com/coder/websocket/internal/util"
)

// Reader reads from the connection until there is a WebSocket
// data message to be read. It will handle ping, pong and close frames as appropriate.
//
// It returns the type of the message and an io.Reader to read it.
// The passed context will also bound the reader.
// Ensure you read to EOF otherwise the connection will hang.
//
// Call CloseRead if you do not expect any data messages from the peer.
//
// Only one Reader may be open at a time.
//
// If you need a separate timeout on the Reader call and the Read itself,
// use time.AfterFunc to cancel the context passed in.
// See https://github.com/nhooyr/websocket/issues/87#issue-451703332
// Most users should not need this.
func (c *Conn) Reader(ctx context.Context) (MessageType, io.Reader, error) {
	return c.reader(ctx)
}

// Read is a convenience method around Reader to read a single message
// from the connection.
func (c *Conn) Read(ctx context.Context) (MessageType, []byte, error) {
	typ, r, err := c.Reader(ctx)
	if err != nil {
		return 0, nil, err
	}

	b, err := io.ReadAll(r)
	return typ, b, err
}

// CloseRead starts a goroutine to read from the connection until it is closed
// or a data message is received.
//
// Once CloseRead is called you cannot read any messages from the connection.
// The returned context will be cancelled when the connection is closed.
//
// If a data message is received, the connection will be closed with StatusPolicyViolation.
//
// Call CloseRead when you do not expect to read any more messages.
// Since it actively reads from the connection, it will ensure that ping, pong and close
// frames are responded to. This means c.Ping and c.Close will still work as expected.
//
// This function is idempotent.
func (c *Conn) CloseRead(ctx context.Context) context.Context {
	c.closeReadMu.Lock()
	ctx2 := c.closeReadCtx
	if ctx2 != nil {
		c.closeReadMu.Unlock()
		return ctx2
	}
	ctx, cancel := context.WithCancel(ctx)
	c.closeReadCtx = ctx
	c.closeReadDone = make(chan struct{})
	c.closeReadMu.Unlock()

	go func() {
		defer close(c.closeReadDone)
		defer cancel()
		defer c.close()
		_, _, err := c.Reader(ctx)
		if err == nil {
			c.Close(StatusPolicyViolation, "unexpected data message")
		}
	}()
	return ctx
}

// SetReadLimit sets the max number of bytes to read for a single message.
// It applies to the Reader and Read methods.
//
// By default, the connection has a message read limit of 32768 bytes.
//
// When the limit is hit, reads return an error wrapping ErrMessageTooBig and
// the connection is closed with StatusMessageTooBig.
//
// Set to -1 to disable.
func (c *Conn) SetReadLimit(n int64) {
	if n >= 0 {
		// We read one more byte than the limit in case
		// there is a fin frame that needs to be read.
		n++
	}

	c.msgReader.limitReader.limit.Store(n)
}

const defaultReadLimit = 32768

func newMsgReader(c *Conn) *msgReader {
	mr := &msgReader{
		c:   c,
		fin: true,
	}
	mr.readFunc = mr.read

	mr.limitReader = newLimitReader(c, mr.readFunc, defaultReadLimit+1)
	return mr
}

func (mr *msgReader) resetFlate() {
	if mr.flateContextTakeover() {
		if mr.dict == nil {
			mr.dict = &slidingWindow{}
		}
		mr.dict.init(32768)
	}
	if mr.flateBufio == nil {
		mr.flateBufio = getBufioReader(mr.readFunc)
	}

	if mr.flateContextTakeover() {
		mr.flateReader = getFlateReader(mr.flateBufio, mr.dict.buf)
	} else {
		mr.flateReader = getFlateReader(mr.flateBufio, nil)
	}
	mr.limitReader.r = mr.flateReader
	mr.flateTail.Reset(deflateMessageTail)
}

func (mr *msgReader) putFlateReader() {
	if mr.flateReader != nil {
		putFlateReader(mr.flateReader)
		mr.flateReader = nil
	}
}

func (mr *msgReader) close() {
	mr.c.readMu.forceLock()
	mr.putFlateReader()
	if mr.dict != nil {
		mr.dict.close()
		mr.dict = nil
	}
	if mr.flateBufio != nil {
		putBufioReader(mr.flateBufio)
	}

	if mr.c.client {
		putBufioReader(mr.c.br)
		mr.c.br = nil
	}
}

func (mr *msgReader) flateContextTakeover() bool {
	if mr.c.client {
		return !mr.c.copts.serverNoContextTakeover
	}
	return !mr.c.copts.clientNoContextTakeover
}

func (c *Conn) readRSV1Illegal(h header) bool {
	// If compression is disabled, rsv1 is illegal.
	if !c.flate() {
		return true
	}
	// rsv1 is only allowed on data frames beginning messages.
	if h.opcode != opText && h.opcode != opBinary {
		return true
	}
	return false
}

func (c *Conn) readLoop(ctx context.Context) (header, error) {
	for {
		h, err := c.readFrameHeader(ctx)
		if err != nil {
			return header{}, err
		}

		if h.rsv1 && c.readRSV1Illegal(h) || h.rsv2 || h.rsv3 {
			err := fmt.Errorf("received header with unexpected rsv bits set: %v:%v:%v", h.rsv1, h.rsv2, h.rsv3)
			c.writeError(StatusProtocolError, err)
			return header{}, err
		}

		if !c.client && !h.masked {
			return header{}, errors.New("received unmasked frame from client")
		}

		switch h.opcode {
		case opClose, opPing, opPong:
			err = c.handleControl(ctx, h)
			if err != nil {
				// Pass through CloseErrors when receiving a close frame.
				if h.opcode == opClose && CloseStatus(err) != -1 {
					return header{}, err
				}
				return header{}, fmt.Errorf("failed to handle control frame %v: %w", h.opcode, err)
			}
		case opContinuation, opText, opBinary:
			return h, nil
		default:
			err := fmt.Errorf("received unknown opcode %v", h.opcode)
			c.writeError(StatusProtocolError, err)
			return header{}, err
		}
	}
}

// prepareRead sets the readTimeout context and returns a done function
// to be called after the read is done. It also returns an error if the
// connection is closed. The reference to the error is used to assign
// an error depending on if the connection closed or the context timed
// out during use. Typically, the referenced error is a named return
// variable of the function calling this method.
func (c *Conn) prepareRead(ctx context.Context, err *error) (func(), error) {
	select {
	case <-c.closed:
		return nil, net.ErrClosed
	default:
	}
	c.setupReadTimeout(ctx)

	done := func() {
		c.clearReadTimeout()
		select {
		case <-c.closed:
			if *err != nil {
				*err = net.ErrClosed
			}
		default:
		}
		if *err != nil && ctx.Err() != nil {
			*err = ctx.Err()
		}
	}

	c.closeStateMu.Lock()
	closeReceivedErr := c.closeReceivedErr
	c.closeStateMu.Unlock()
	if closeReceivedErr != nil {
		defer done()
		return nil, closeReceivedErr
	}

	return done, nil
}

func (c *Conn) readFrameHeader(ctx context.Context) (_ header, err error) {
	readDone, err := c.prepareRead(ctx, &err)
	if err != nil {
		return header{}, err
	}
	defer readDone()

	h, err := readFrameHeader(c.br, c.readHeaderBuf[:])
	if err != nil {
		return header{}, err
	}

	return h, nil
}

func (c *Conn) readFramePayload(ctx context.Context, p []byte) (_ int, err error) {
	readDone, err := c.prepareRead(ctx, &err)
	if err != nil {
		return 0, err
	}
	defer readDone()

	n, err := io.ReadFull(c.br, p)
	if err != nil {
		return n, fmt.Errorf("failed to read frame payload: %w", err)
	}

	return n, nil
}

func (c *Conn) handleControl(ctx context.Context, h header) (err error) {
	if h.payloadLength < 0 || h.payloadLength > maxControlPayload {
		err := fmt.Errorf("received control frame payload with invalid length: %d", h.payloadLength)
		c.writeError(StatusProtocolError, err)
		return err
	}

	if !h.fin {
		err := errors.New("received fragmented control frame")
		c.writeError(StatusProtocolError, err)
		return err
	}

	ctx, cancel := context.WithTimeout(ctx, time.Second*5)
	defer cancel()

	b := c.readControlBuf[:h.payloadLength]
	_, err = c.readFramePayload(ctx, b)
	if err != nil {
		return err
	}

	if h.masked {
		mask(b, h.maskKey)
	}

	switch h.opcode {
	case opPing:
		if c.onPingReceived != nil {
			if !c.onPingReceived(ctx, b) {
				return nil
			}
		}
		return c.writeControl(ctx, opPong, b)
	case opPong:
		if c.onPongReceived != nil {
			c.onPongReceived(ctx, b)
		}
		c.activePingsMu.Lock()
		pong, ok := c.activePings[string(b)]
		c.activePingsMu.Unlock()
		if ok {
			select {
			case pong <- struct{}{}:
			default:
			}
		}
		return nil
	}

	// opClose

	ce, err := parseClosePayload(b)
	if err != nil {
		err = fmt.Errorf("received invalid close payload: %w", err)
		c.writeError(StatusProtocolError, err)
		return err
	}

	err = fmt.Errorf("received close frame: %w", ce)
	c.closeStateMu.Lock()
	c.closeReceivedErr = err
	closeSent := c.closeSentErr != nil
	c.closeStateMu.Unlock()

	// Only unlock readMu if this connection is being closed becaue
	// c.close will try to acquire the readMu lock. We unlock for
	// writeClose as well because it may also call c.close.
	if !closeSent {
		c.readMu.unlock()
		_ = c.writeClose(ce.Code, ce.Reason)
	}
	if !c.casClosing() {
		c.readMu.unlock()
		_ = c.close()
	}
	return err
}

func (c *Conn) reader(ctx context.Context) (_ MessageType, _ io.Reader, err error) {
	defer errd.Wrap(&err, "failed to get reader")

	err = c.readMu.lock(ctx)
	if err != nil {
		return 0, nil, err
	}
	defer c.readMu.unlock()

	if !c.msgReader.fin {
		return 0, nil, errors.New("previous message not read to completion")
	}

	h, err := c.readLoop(ctx)
	if err != nil {
		return 0, nil, err
	}

	if h.opcode == opContinuation {
		err := errors.New("received continuation frame without text or binary frame")
		c.writeError(StatusProtocolError, err)
		return 0, nil, err
	}

	c.msgReader.reset(ctx, h)

	return MessageType(h.opcode), c.msgReader, nil
}

type msgReader struct {
	c *Conn

	ctx         context.Context
	flate       bool
	flateReader io.Reader
	flateBufio  *bufio.Reader
	flateTail   strings.Reader
	limitReader *limitReader
	dict        *slidingWindow

	fin           bool
	payloadLength int64
	maskKey       uint32

	// util.ReaderFunc(mr.Read) to avoid continuous allocations.
	readFunc util.ReaderFunc
}

func (mr *msgReader) reset(ctx context.Context, h header) {
	mr.ctx = ctx
	mr.flate = h.rsv1
	mr.limitReader.reset(mr.readFunc)

	if mr.flate {
		mr.resetFlate()
	}

	mr.setFrame(h)
}

func (mr *msgReader) setFrame(h header) {
	mr.fin = h.fin
	mr.payloadLength = h.payloadLength
	mr.maskKey = h.maskKey
}

func (mr *msgReader) Read(p []byte) (n int, err error) {
	err = mr.c.readMu.lock(mr.ctx)
	if err != nil {
		return 0, fmt.Errorf("failed to read: %w", err)
	}
	defer mr.c.readMu.unlock()

	n, err = mr.limitReader.Read(p)
	if mr.flate && mr.flateContextTakeover() {
		p = p[:n]
		mr.dict.write(p)
	}
	if errors.Is(err, io.EOF) || errors.Is(err, io.ErrUnexpectedEOF) && mr.fin && mr.flate {
		mr.putFlateReader()
		return n, io.EOF
	}
	if err != nil {
		return n, fmt.Errorf("failed to read: %w", err)
	}
	return n, nil
}

func (mr *msgReader) read(p []byte) (int, error) {
	for {
		if mr.payloadLength == 0 {
			if mr.fin {
				if mr.flate {
					return mr.flateTail.Read(p)
				}
				return 0, io.EOF
			}

			h, err := mr.c.readLoop(mr.ctx)
			if err != nil {
				return 0, err
			}
			if h.opcode != opContinuation {
				err := errors.New("received new data message without finishing the previous message")
				mr.c.writeError(StatusProtocolError, err)
				return 0, err
			}
			mr.setFrame(h)

			continue
		}

		if int64(len(p)) > mr.payloadLength {
			p = p[:mr.payloadLength]
		}

		n, err := mr.c.readFramePayload(mr.ctx, p)
		if err != nil {
			return n, err
		}

		mr.payloadLength -= int64(n)

		if !mr.c.client {
			mr.maskKey = mask(p, mr.maskKey)
		}

		return n, nil
	}
}

type limitReader struct {
	c     *Conn
	r     io.Reader
	limit atomic.Int64
	n     int64
}

func newLimitReader(c *Conn, r io.Reader, limit int64) *limitReader {
	lr := &limitReader{
		c: c,
	}
	lr.limit.Store(limit)
	lr.reset(r)
	return lr
}

func (lr *limitReader) reset(r io.Reader) {
	lr.n = lr.limit.Load()
	lr.r = r
}

func (lr *limitReader) Read(p []byte) (int, error) {
	if lr.n < 0 {
		return lr.r.Read(p)
	}

	if lr.n == 0 {
		reason := fmt.Errorf("read limited at %d bytes", lr.limit.Load())
		lr.c.writeError(StatusMessageTooBig, reason)
		return 0, fmt.Errorf("%w: %v", ErrMessageTooBig, reason)
	}

	if int64(len(p)) > lr.n {
		p = p[:lr.n]
	}
	n, err := lr.r.Read(p)
	lr.n -= int64(n)
	if lr.n < 0 {
		lr.n = 0
	}
	return n, err
}
