//go:build !js

package websocket

import (
	"bytes"
	"context"
	"crypto/sha1"
	"encoding/base64"
	"errors"
	"fmt"
	"io"
	"log"
	"net/http"
	"net/textproto"
	"net/url"
	"path"
	"strings"

	"github.com/coder/websocket/internal/errd"
)

// AcceptOptions represents Accept's options.
type AcceptOptions struct {
	// Subprotocols lists the WebSocket subprotocols that Accept will negotiate with the client.
	// The empty subprotocol will always be negotiated as per RFC 6455. If you would like to
	// reject it, close the connection when c.Subprotocol() == "".
	Subprotocols []string

	// InsecureSkipVerify is used to disable Accept's origin verification behaviour.
	//
	// You probably want to use OriginPatterns instead.
	InsecureSkipVerify bool

	// OriginPatterns lists the host patterns for authorized origins.
	// The request host is always authorized.
	// Use this to enable cross origin WebSockets.
	//
	// i.e javascript running on example.com wants to access a WebSocket server at chat.example.com.
	// In such a case, example.com is the origin and chat.example.com is the request host.
	// One would set this field to []string{"example.com"} to authorize example.com to connect.
	//
	// Each pattern is matched case insensitively with path.Match (see
	// https://golang.org/pkg/path/#Match). By default, it is matched
	// against the request origin host. If the pattern contains a URI
	// scheme ("://"), it will be matched against "scheme://host".
	//
	// Please ensure you understand the ramifications of enabling this.
	// If used incorrectly your WebSocket server will be open to CSRF attacks.
	//
	// Do not use * as a pattern to allow any origin, prefer to use InsecureSkipVerify instead
	// to bring attention to the danger of such a setting.
	OriginPatterns []string

	// CompressionMode controls the compression mode.
	// Defaults to CompressionDisabled.
	//
	// See docs on CompressionMode for details.
	CompressionMode CompressionMode

	// CompressionThreshold controls the minimum size of a message before compression is applied.
	//
	// Defaults to 512 bytes for CompressionNoContextTakeover and 128 bytes
	// for CompressionContextTakeover.
	CompressionThreshold int

	// OnPingReceived is an optional callback invoked synchronously when a ping frame is received.
	//
	// The payload contains the application data of the ping frame.
	// If the callback returns false, the subsequent pong frame will not be sent.
	// To avoid blocking, any expensive processing should be performed asynchronously using a goroutine.
	OnPingReceived func(ctx context.Context, payload []byte) bool

	// OnPongReceived is an optional callback invoked synchronously when a pong frame is received.
	//
	// The payload contains the application data of the pong frame.
	// To avoid blocking, any expensive processing should be performed asynchronously using a goroutine.
	//
	// Unlike OnPingReceived, this callback does not return a value because a pong frame
	// is a response to a ping and does not trigger any further frame transmission.
	OnPongReceived func(ctx context.Context, payload []byte)
}

func (opts *AcceptOptions) cloneWithDefaults() *AcceptOptions {
	var o AcceptOptions
	if opts != nil {
		o = *opts
	}
	return &o
}

// Accept accepts a WebSocket handshake from a client and upgrades the
// the connection to a WebSocket.
//
// Accept will not allow cross origin requests by default.
// See the InsecureSkipVerify and OriginPatterns options to allow cross origin requests.
//
// Accept will write a response to w on all errors.
//
// Note that using the http.Request Context after Accept returns may lead to
// unexpected behavior (see http.Hijacker).
func Accept(w http.ResponseWriter, r *http.Request, opts *AcceptOptions) (*Conn, error) {
	return accept(w, r, opts)
}

func accept(w http.ResponseWriter, r *http.Request, opts *AcceptOptions) (_ *Conn, err error) {
	defer errd.Wrap(&err, "failed to accept WebSocket connection")

	errCode, err := verifyClientRequest(w, r)
	if err != nil {
		http.Error(w, err.Error(), errCode)
		return nil, err
	}

	opts = opts.cloneWithDefaults()
	if !opts.InsecureSkipVerify {
		err = authenticateOrigin(r, opts.OriginPatterns)
		if err != nil {
			if errors.Is(err, path.ErrBadPattern) {
				log.Printf("websocket: %v", err)
				err = errors.New(http.StatusText(http.StatusForbidden))
			}
			http.Error(w, err.Error(), http.StatusForbidden)
			return nil, err
		}
	}

	hj, ok := hijacker(w)
	if !ok {
		err = errors.New("http.ResponseWriter does not implement http.Hijacker")
		http.Error(w, http.StatusText(http.StatusNotImplemented), http.StatusNotImplemented)
		return nil, err
	}

	w.Header().Set("Upgrade", "websocket")
	w.Header().Set("Connection", "Upgrade")

	key := r.Header.Get("Sec-WebSocket-Key")
	w.Header().Set("Sec-WebSocket-Accept", secWebSocketAccept(key))

	subproto := selectSubprotocol(r, opts.Subprotocols)
	if subproto != "" {
		w.Header().Set("Sec-WebSocket-Protocol", subproto)
	}

	copts, ok := selectDeflate(websocketExtensions(r.Header), opts.CompressionMode)
	if ok {
		w.Header().Set("Sec-WebSocket-Extensions", copts.String())
	}

	w.WriteHeader(http.StatusSwitchingProtocols)
	// See https://github.com/nhooyr/websocket/issues/166
	if ginWriter, ok := w.(interface {
		WriteHeaderNow()
	}); ok {
		ginWriter.WriteHeaderNow()
	}

	netConn, brw, err := hj.Hijack()
	if err != nil {
		err = fmt.Errorf("failed to hijack connection: %w", err)
		http.Error(w, http.StatusText(http.StatusInternalServerError), http.StatusInternalServerError)
		return nil, err
	}

	// https://github.com/golang/go/issues/32314
	b, _ := brw.Reader.Peek(brw.Reader.Buffered())
	brw.Reader.Reset(io.MultiReader(bytes.NewReader(b), netConn))

	return newConn(connConfig{
		subprotocol:    w.Header().Get("Sec-WebSocket-Protocol"),
		rwc:            netConn,
		client:         false,
		copts:          copts,
		flateThreshold: opts.CompressionThreshold,
		onPingReceived: opts.OnPingReceived,
		onPongReceived: opts.OnPongReceived,

		br: brw.Reader,
		bw: brw.Writer,
	}), nil
}

func verifyClientRequest(w http.ResponseWriter, r *http.Request) (errCode int, _ error) {
	if !r.ProtoAtLeast(1, 1) {
		return http.StatusUpgradeRequired, fmt.Errorf("WebSocket protocol violation: handshake request must be at least HTTP/1.1: %q", r.Proto)
	}

	if !headerContainsTokenIgnoreCase(r.Header, "Connection", "Upgrade") {
		w.Header().Set("Connection", "Upgrade")
		w.Header().Set("Upgrade", "websocket")
		return http.StatusUpgradeRequired, fmt.Errorf("WebSocket protocol violation: Connection header %q does not contain Upgrade", r.Header.Get("Connection"))
	}

	if !headerContainsTokenIgnoreCase(r.Header, "Upgrade", "websocket") {
		w.Header().Set("Connection", "Upgrade")
		w.Header().Set("Upgrade", "websocket")
		return http.StatusUpgradeRequired, fmt.Errorf("WebSocket protocol violation: Upgrade header %q does not contain websocket", r.Header.Get("Upgrade"))
	}

	if r.Method != "GET" {
		return http.StatusMethodNotAllowed, fmt.Errorf("WebSocket protocol violation: handshake request method is not GET but %q", r.Method)
	}

	if r.Header.Get("Sec-WebSocket-Version") != "13" {
		w.Header().Set("Sec-WebSocket-Version", "13")
		return http.StatusBadRequest, fmt.Errorf("unsupported WebSocket protocol version (only 13 is supported): %q", r.Header.Get("Sec-WebSocket-Version"))
	}

	websocketSecKeys := r.Header.Values("Sec-WebSocket-Key")
	if len(websocketSecKeys) == 0 {
		return http.StatusBadRequest, errors.New("WebSocket protocol violation: missing Sec-WebSocket-Key")
	}

	if len(websocketSecKeys) > 1 {
		return http.StatusBadRequest, errors.New("WebSocket protocol violation: multiple Sec-WebSocket-Key headers")
	}

	// The RFC states to remove any leading or trailing whitespace.
	websocketSecKey := strings.TrimSpace(websocketSecKeys[0])
	if v, err := base64.StdEncoding.DecodeString(websocketSecKey); err != nil || len(v) != 16 {
		return http.StatusBadRequest, fmt.Errorf("WebSocket protocol violation: invalid Sec-WebSocket-Key %q, must be a 16 byte base64 encoded string", websocketSecKey)
	}

	return 0, nil
}

func authenticateOrigin(r *http.Request, originHosts []string) error {
	origin := r.Header.Get("Origin")
	if origin == "" {
		return nil
	}

	u, err := url.Parse(origin)
	if err != nil {
		return fmt.Errorf("failed to parse Origin header %q: %w", origin, err)
	}

	if strings.EqualFold(r.Host, u.Host) {
		return nil
	}

	for _, hostPattern := range originHosts {
		target := u.Host
		if strings.Contains(hostPattern, "://") {
			target = u.Scheme + "://" + u.Host
		}
		matched, err := match(hostPattern, target)
		if err != nil {
			return fmt.Errorf("failed to parse path pattern %q: %w", hostPattern, err)
		}
		if matched {
			return nil
		}
	}
	if u.Host == "" {
		return fmt.Errorf("request Origin %q is not a valid URL with a host", origin)
	}
	return fmt.Errorf("request Origin %q is not authorized for Host %q", u.Host, r.Host)
}

func match(pattern, s string) (bool, error) {
	return path.Match(strings.ToLower(pattern), strings.ToLower(s))
}

func selectSubprotocol(r *http.Request, subprotocols []string) string {
	cps := headerTokens(r.Header, "Sec-WebSocket-Protocol")
	for _, sp := range subprotocols {
		for _, cp := range cps {
			if strings.EqualFold(sp, cp) {
				return cp
			}
		}
	}
	return ""
}

func selectDeflate(extensions []websocketExtension, mode CompressionMode) (*compressionOptions, bool) {
	if mode == CompressionDisabled {
		return nil, false
	}
	for _, ext := range extensions {
		switch ext.name {
		// We used to implement x-webkit-deflate-frame too for Safari but Safari has bugs...
		// See https://github.com/nhooyr/websocket/issues/218
		case "permessage-deflate":
			copts, ok := acceptDeflate(ext, mode)
			if ok {
				return copts, true
			}
		}
	}
	return nil, false
}

func acceptDeflate(ext websocketExtension, mode CompressionMode) (*compressionOptions, bool) {
	copts := mode.opts()
	for _, p := range ext.params {
		switch p {
		case "client_no_context_takeover":
			copts.clientNoContextTakeover = true
			continue
		case "server_no_context_takeover":
			copts.serverNoContextTakeover = true
			continue
		case "client_max_window_bits",
			"server_max_window_bits=15":
			continue
		}

		if strings.HasPrefix(p, "client_max_window_bits=") {
			// We can't adjust the deflate window, but decoding with a larger window is acceptable.
			continue
		}
		return nil, false
	}
	return copts, true
}

func headerContainsTokenIgnoreCase(h http.Header, key, token string) bool {
	for _, t := range headerTokens(h, key) {
		if strings.EqualFold(t, token) {
			return true
		}
	}
	return false
}

type websocketExtension struct {
	name   string
	params []string
}

func websocketExtensions(h http.Header) []websocketExtension {
	var exts []websocketExtension
	extStrs := headerTokens(h, "Sec-WebSocket-Extensions")
	for _, extStr := range extStrs {
		if extStr == "" {
			continue
		}

		vals := strings.Split(extStr, ";")
		for i := range vals {
			vals[i] = strings.TrimSpace(vals[i])
		}

		e := websocketExtension{
			name:   vals[0],
			params: vals[1:],
		}

		exts = append(exts, e)
	}
	return exts
}

func headerTokens(h http.Header, key string) []string {
	key = textproto.CanonicalMIMEHeaderKey(key)
	var tokens []string
	for _, v := range h[key] {
		v = strings.TrimSpace(v)
		for _, t := range strings.Split(v, ",") {
			t = strings.TrimSpace(t)
			tokens = append(tokens, t)
		}
	}
	return tokens
}

var keyGUID = []byte("258EAFA5-E914-47DA-95CA-C5AB0DC85B11")

func secWebSocketAccept(secWebSocketKey string) string {
	h := sha1.New()
	h.Write([]byte(secWebSocketKey))
	h.Write(keyGUID)

	return base64.StdEncoding.EncodeToString(h.Sum(nil))
}
