package websocket

import (
	"errors"
)

// ErrMessageTooBig is returned when a message exceeds the read limit.
var ErrMessageTooBig = errors.New("websocket: message too big")
