#include "textflag.h"

// func maskAsm(b *byte, len int, key uint32)
TEXT ·maskAsm(SB), NOSPLIT, $0-28
	// AX = b
	// CX = len (left length)
	// SI = key (uint32)
	// DI = uint64(SI) | uint64(SI)<<32
	MOVQ b+0(FP), AX
	MOVQ len+8(FP), CX
	MOVL key+16(FP), SI

	// calculate the DI
	// DI = SI<<32 | SI
	MOVL SI, DI
	MOVQ DI, DX
	SHLQ $32, DI
	ORQ  DX, DI

	CMPQ  CX, $15
	JLE   less_than_16
	CMPQ  CX, $63
	JLE   less_than_64
	CMPQ  CX, $128
	JLE   sse
	TESTQ $31, AX
	JNZ   unaligned

unaligned_loop_1byte:
	XORB  SI, (AX)
	INCQ  AX
	DECQ  CX
	ROLL  $24, SI
	TESTQ $7, AX
	JNZ   unaligned_loop_1byte

	// calculate DI again since SI was modified
	// DI = SI<<32 | SI
	MOVL SI, DI
	MOVQ DI, DX
	SHLQ $32, DI
	ORQ  DX, DI

	TESTQ $31, AX
	JZ    sse

unaligned:
	TESTQ $7, AX               // AND $7 & len, if not zero jump to loop_1b.
	JNZ   unaligned_loop_1byte

unaligned_loop:
	// we don't need to check the CX since we know it's above 128
	XORQ  DI, (AX)
	ADDQ  $8, AX
	SUBQ  $8, CX
	TESTQ $31, AX
	JNZ   unaligned_loop
	JMP   sse

sse:
	CMPQ       CX, $0x40
	JL         less_than_64
	MOVQ       DI, X0
	PUNPCKLQDQ X0, X0

sse_loop:
	MOVOU 0*16(AX), X1
	MOVOU 1*16(AX), X2
	MOVOU 2*16(AX), X3
	MOVOU 3*16(AX), X4
	PXOR  X0, X1
	PXOR  X0, X2
	PXOR  X0, X3
	PXOR  X0, X4
	MOVOU X1, 0*16(AX)
	MOVOU X2, 1*16(AX)
	MOVOU X3, 2*16(AX)
	MOVOU X4, 3*16(AX)
	ADDQ  $0x40, AX
	SUBQ  $0x40, CX
	CMPQ  CX, $0x40
	JAE   sse_loop

less_than_64:
	TESTQ $32, CX
	JZ    less_than_32
	XORQ  DI, (AX)
	XORQ  DI, 8(AX)
	XORQ  DI, 16(AX)
	XORQ  DI, 24(AX)
	ADDQ  $32, AX

less_than_32:
	TESTQ $16, CX
	JZ    less_than_16
	XORQ  DI, (AX)
	XORQ  DI, 8(AX)
	ADDQ  $16, AX

less_than_16:
	TESTQ $8, CX
	JZ    less_than_8
	XORQ  DI, (AX)
	ADDQ  $8, AX

less_than_8:
	TESTQ $4, CX
	JZ    less_than_4
	XORL  SI, (AX)
	ADDQ  $4, AX

less_than_4:
	TESTQ $2, CX
	JZ    less_than_2
	XORW  SI, (AX)
	ROLL  $16, SI
	ADDQ  $2, AX

less_than_2:
	TESTQ $1, CX
	JZ    done
	XORB  SI, (AX)
	ROLL  $24, SI

done:
	MOVL SI, ret+24(FP)
	RET
