package websocket

import (
	"encoding/binary"
	"math/bits"
)

// maskGo applies the WebSocket masking algorithm to p
// with the given key.
// See https://tools.ietf.org/html/rfc6455#section-5.3
//
// The returned value is the correctly rotated key to
// to continue to mask/unmask the message.
//
// It is optimized for LittleEndian and expects the key
// to be in little endian.
//
// See https://github.com/golang/go/issues/31586
func maskGo(b []byte, key uint32) uint32 {
	if len(b) >= 8 {
		key64 := uint64(key)<<32 | uint64(key)

		// At some point in the future we can clean these unrolled loops up.
		// See https://github.com/golang/go/issues/31586#issuecomment-487436401

		// Then we xor until b is less than 128 bytes.
		for len(b) >= 128 {
			v := binary.LittleEndian.Uint64(b)
			binary.LittleEndian.PutUint64(b, v^key64)
			v = binary.LittleEndian.Uint64(b[8:16])
			binary.LittleEndian.PutUint64(b[8:16], v^key64)
			v = binary.LittleEndian.Uint64(b[16:24])
			binary.LittleEndian.PutUint64(b[16:24], v^key64)
			v = binary.LittleEndian.Uint64(b[24:32])
			binary.LittleEndian.PutUint64(b[24:32], v^key64)
			v = binary.LittleEndian.Uint64(b[32:40])
			binary.LittleEndian.PutUint64(b[32:40], v^key64)
			v = binary.LittleEndian.Uint64(b[40:48])
			binary.LittleEndian.PutUint64(b[40:48], v^key64)
			v = binary.LittleEndian.Uint64(b[48:56])
			binary.LittleEndian.PutUint64(b[48:56], v^key64)
			v = binary.LittleEndian.Uint64(b[56:64])
			binary.LittleEndian.PutUint64(b[56:64], v^key64)
			v = binary.LittleEndian.Uint64(b[64:72])
			binary.LittleEndian.PutUint64(b[64:72], v^key64)
			v = binary.LittleEndian.Uint64(b[72:80])
			binary.LittleEndian.PutUint64(b[72:80], v^key64)
			v = binary.LittleEndian.Uint64(b[80:88])
			binary.LittleEndian.PutUint64(b[80:88], v^key64)
			v = binary.LittleEndian.Uint64(b[88:96])
			binary.LittleEndian.PutUint64(b[88:96], v^key64)
			v = binary.LittleEndian.Uint64(b[96:104])
			binary.LittleEndian.PutUint64(b[96:104], v^key64)
			v = binary.LittleEndian.Uint64(b[104:112])
			binary.LittleEndian.PutUint64(b[104:112], v^key64)
			v = binary.LittleEndian.Uint64(b[112:120])
			binary.LittleEndian.PutUint64(b[112:120], v^key64)
			v = binary.LittleEndian.Uint64(b[120:128])
			binary.LittleEndian.PutUint64(b[120:128], v^key64)
			b = b[128:]
		}

		// Then we xor until b is less than 64 bytes.
		for len(b) >= 64 {
			v := binary.LittleEndian.Uint64(b)
			binary.LittleEndian.PutUint64(b, v^key64)
			v = binary.LittleEndian.Uint64(b[8:16])
			binary.LittleEndian.PutUint64(b[8:16], v^key64)
			v = binary.LittleEndian.Uint64(b[16:24])
			binary.LittleEndian.PutUint64(b[16:24], v^key64)
			v = binary.LittleEndian.Uint64(b[24:32])
			binary.LittleEndian.PutUint64(b[24:32], v^key64)
			v = binary.LittleEndian.Uint64(b[32:40])
			binary.LittleEndian.PutUint64(b[32:40], v^key64)
			v = binary.LittleEndian.Uint64(b[40:48])
			binary.LittleEndian.PutUint64(b[40:48], v^key64)
			v = binary.LittleEndian.Uint64(b[48:56])
			binary.LittleEndian.PutUint64(b[48:56], v^key64)
			v = binary.LittleEndian.Uint64(b[56:64])
			binary.LittleEndian.PutUint64(b[56:64], v^key64)
			b = b[64:]
		}

		// Then we xor until b is less than 32 bytes.
		for len(b) >= 32 {
			v := binary.LittleEndian.Uint64(b)
			binary.LittleEndian.PutUint64(b, v^key64)
			v = binary.LittleEndian.Uint64(b[8:16])
			binary.LittleEndian.PutUint64(b[8:16], v^key64)
			v = binary.LittleEndian.Uint64(b[16:24])
			binary.LittleEndian.PutUint64(b[16:24], v^key64)
			v = binary.LittleEndian.Uint64(b[24:32])
			binary.LittleEndian.PutUint64(b[24:32], v^key64)
			b = b[32:]
		}

		// Then we xor until b is less than 16 bytes.
		for len(b) >= 16 {
			v := binary.LittleEndian.Uint64(b)
			binary.LittleEndian.PutUint64(b, v^key64)
			v = binary.LittleEndian.Uint64(b[8:16])
			binary.LittleEndian.PutUint64(b[8:16], v^key64)
			b = b[16:]
		}

		// Then we xor until b is less than 8 bytes.
		for len(b) >= 8 {
			v := binary.LittleEndian.Uint64(b)
			binary.LittleEndian.PutUint64(b, v^key64)
			b = b[8:]
		}
	}

	// Then we xor until b is less than 4 bytes.
	for len(b) >= 4 {
		v := binary.LittleEndian.Uint32(b)
		binary.LittleEndian.PutUint32(b, v^key)
		b = b[4:]
	}

	// xor remaining bytes.
	for i := range b {
		b[i] ^= byte(key)
		key = bits.RotateLeft32(key, -8)
	}

	return key
}
