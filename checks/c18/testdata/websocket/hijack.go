//go:build !js

package websocket

import (
	"net/http"
)

type rwUnwrapper interface {
	Unwrap() http.ResponseWriter
}

// hijacker returns the Hijacker interface of the http.ResponseWriter.
// It follows the Unwrap method of the http.ResponseWriter if available,
// matching the behavior of http.ResponseController. If the Hijacker
// interface is not found, it returns false.
//
// Since the http.ResponseController is not available in Go 1.19, and
// does not support checking the presence of the Hijacker interface,
// this function is used to provide a consistent way to check for the
// Hijacker interface across Go versions.
func hijacker(rw http.ResponseWriter) (http.Hijacker, bool) {
	for {
		switch t := rw.(type) {
		case http.Hijacker:
			return t, true
		case rwUnwrapper:
			rw = t.Unwrap()
		default:
			return nil, false
		}
	}
}
