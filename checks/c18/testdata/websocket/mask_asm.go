//go:build amd64 || arm64

package websocket

func mask(b []byte, key uint32) uint32 {
	// TODO: Will enable in v1.9.0.
	return maskGo(b, key)
	/*
		if len(b) > 0 {
			return maskAsm(&b[0], len(b), key)
		}
		return key
	*/
}

// @nhooyr: I am not confident that the amd64 or the arm64 implementations of this
// function are perfect. There are almost certainly missing optimizations or
// opportunities for simplification. I'm confident there are no bugs though.
// For example, the arm64 implementation doesn't align memory like the amd64.
// Or the amd64 implementation could use AVX512 instead of just AVX2.
// The AVX2 code I had to disable anyway as it wasn't performing as expected.
// See https://github.com/nhooyr/websocket/pull/326#issuecomment-1771138049
//
//go:noescape
//lint:ignore U1000 disabled till v1.9.0
func maskAsm(b *byte, len int, key uint32) uint32
