#include "textflag.h"

// func maskAsm(b *byte, len int, key uint32)
TEXT ·maskAsm(SB), NOSPLIT, $0-28
	// R0 = b
	// R1 = len
	// R3 = key (uint32)
	// R2 = uint64(key)<<32 | uint64(key)
	MOVD  b_ptr+0(FP), R0
	MOVD  b_len+8(FP), R1
	MOVWU key+16(FP), R3
	MOVD  R3, R2
	ORR   R2<<32, R2, R2
	VDUP  R2, V0.D2
	CMP   $64, R1
	BLT   less_than_64

loop_64:
	VLD1   (R0), [V1.B16, V2.B16, V3.B16, V4.B16]
	VEOR   V1.B16, V0.B16, V1.B16
	VEOR   V2.B16, V0.B16, V2.B16
	VEOR   V3.B16, V0.B16, V3.B16
	VEOR   V4.B16, V0.B16, V4.B16
	VST1.P [V1.B16, V2.B16, V3.B16, V4.B16], 64(R0)
	SUBS   $64, R1
	CMP    $64, R1
	BGE    loop_64

less_than_64:
	CBZ    R1, end
	TBZ    $5, R1, less_than_32
	VLD1   (R0), [V1.B16, V2.B16]
	VEOR   V1.B16, V0.B16, V1.B16
	VEOR   V2.B16, V0.B16, V2.B16
	VST1.P [V1.B16, V2.B16], 32(R0)

less_than_32:
	TBZ   $4, R1, less_than_16
	LDP   (R0), (R11, R12)
	EOR   R11, R2, R11
	EOR   R12, R2, R12
	STP.P (R11, R12), 16(R0)

less_than_16:
	TBZ    $3, R1, less_than_8
	MOVD   (R0), R11
	EOR    R2, R11, R11
	MOVD.P R11, 8(R0)

less_than_8:
	TBZ     $2, R1, less_than_4
	MOVWU   (R0), R11
	EORW    R2, R11, R11
	MOVWU.P R11, 4(R0)

less_than_4:
	TBZ     $1, R1, less_than_2
	MOVHU   (R0), R11
	EORW    R3, R11, R11
	MOVHU.P R11, 2(R0)
	RORW    $16, R3

less_than_2:
	TBZ     $0, R1, end
	MOVBU   (R0), R11
	EORW    R3, R11, R11
	MOVBU.P R11, 1(R0)
	RORW    $8, R3

end:
	MOVWU R3, ret+24(FP)
	RET
