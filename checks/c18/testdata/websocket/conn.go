//go:build !js

package websocket

import (
	"bufio"
	"context"
	cryptorand "crypto/rand"
	"fmt"
	"io"
	"net"
	"runtime"
	"strconv"
	"sync"
	"sync/atomic"
)

// MessageType represents the type of a WebSocket message.
// See https://tools.ietf.org/html/rfc6455#section-5.6
type MessageType int

// MessageType constants.
const (
	// MessageText is for UTF-8 encoded text messages like JSON.
	MessageText MessageType = iota + 1
	// MessageBinary is for binary messages like protobufs.
	MessageBinary
)

// Conn represents a WebSocket connection.
// All methods may be called concurrently except for Reader and Read.
//
// You must always read from the connection. Otherwise control
// frames will not be handled. See Reader and CloseRead.
//
// Be sure to call Close on the connection when you
// are finished with it to release associated resources.
//
// On any error from any method, the connection is closed
// with an appropriate reason.
//
// This applies to context expirations as well unfortunately.
// See https://github.com/nhooyr/websocket/issues/242#issuecomment-633182220
type Conn struct {
	noCopy noCopy

	subprotocol    string
	rwc            io.ReadWriteCloser
	client         bool
	copts          *compressionOptions
	flateThreshold int
	br             *bufio.Reader
	bw             *bufio.Writer

	readTimeoutStop  atomic.Pointer[func() bool]
	writeTimeoutStop atomic.Pointer[func() bool]

	// Read state.
	readMu         *mu
	readHeaderBuf  [8]byte
	readControlBuf [maxControlPayload]byte
	msgReader      *msgReader

	// Write state.
	msgWriter      *msgWriter
	writeFrameMu   *mu
	writeBuf       []byte
	writeHeaderBuf [8]byte
	writeHeader    header

	// Close handshake state.
	closeStateMu     sync.RWMutex
	closeReceivedErr error
	closeSentErr     error

	// CloseRead state.
	closeReadMu   sync.Mutex
	closeReadCtx  context.Context
	closeReadDone chan struct{}

	closing atomic.Bool
	closeMu sync.Mutex // Protects following.
	closed  chan struct{}

	pingCounter    atomic.Int64
	activePingsMu  sync.Mutex
	activePings    map[string]chan<- struct{}
	onPingReceived func(context.Context, []byte) bool
	onPongReceived func(context.Context, []byte)
}

type connConfig struct {
	subprotocol    string
	rwc            io.ReadWriteCloser
	client         bool
	copts          *compressionOptions
	flateThreshold int
	onPingReceived func(context.Context, []byte) bool
	onPongReceived func(context.Context, []byte)

	br *bufio.Reader
	bw *bufio.Writer
}

func newConn(cfg connConfig) *Conn {
	c := &Conn{
		subprotocol:    cfg.subprotocol,
		rwc:            cfg.rwc,
		client:         cfg.client,
		copts:          cfg.copts,
		flateThreshold: cfg.flateThreshold,

		br: cfg.br,
		bw: cfg.bw,

		closed:         make(chan struct{}),
		activePings:    make(map[string]chan<- struct{}),
		onPingReceived: cfg.onPingReceived,
		onPongReceived: cfg.onPongReceived,
	}

	c.readMu = newMu(c)
	c.writeFrameMu = newMu(c)

	c.msgReader = newMsgReader(c)

	c.msgWriter = newMsgWriter(c)
	if c.client {
		c.writeBuf = extractBufioWriterBuf(c.bw, c.rwc)
	}

	if c.flate() && c.flateThreshold == 0 {
		c.flateThreshold = 128
		if !c.msgWriter.flateContextTakeover() {
			c.flateThreshold = 512
		}
	}

	runtime.SetFinalizer(c, func(c *Conn) {
		c.close()
	})

	return c
}

// Subprotocol returns the negotiated subprotocol.
// An empty string means the default protocol.
func (c *Conn) Subprotocol() string {
	return c.subprotocol
}

func (c *Conn) close() error {
	c.closeMu.Lock()
	defer c.closeMu.Unlock()

	if c.isClosed() {
		return net.ErrClosed
	}
	runtime.SetFinalizer(c, nil)
	close(c.closed)

	// Have to close after c.closed is closed to ensure any goroutine that wakes up
	// from the connection being closed also sees that c.closed is closed and returns
	// closeErr.
	err := c.rwc.Close()
	// With the close of rwc, these become safe to close.
	c.msgWriter.close()
	c.msgReader.close()
	return err
}

func (c *Conn) setupWriteTimeout(ctx context.Context) {
	stop := context.AfterFunc(ctx, func() {
		c.clearWriteTimeout()
		c.close()
	})
	swapTimeoutStop(&c.writeTimeoutStop, &stop)
}

func (c *Conn) clearWriteTimeout() {
	swapTimeoutStop(&c.writeTimeoutStop, nil)
}

func (c *Conn) setupReadTimeout(ctx context.Context) {
	stop := context.AfterFunc(ctx, func() {
		c.clearReadTimeout()
		c.close()
	})
	swapTimeoutStop(&c.readTimeoutStop, &stop)
}

func (c *Conn) clearReadTimeout() {
	swapTimeoutStop(&c.readTimeoutStop, nil)
}

func swapTimeoutStop(p *atomic.Pointer[func() bool], newStop *func() bool) {
	oldStop := p.Swap(newStop)
	if oldStop != nil {
		(*oldStop)()
	}
}

func (c *Conn) flate() bool {
	return c.copts != nil
}

// Ping sends a ping to the peer and waits for a pong.
// Use this to measure latency or ensure the peer is responsive.
// Ping must be called concurrently with Reader as it does
// not read from the connection but instead waits for a Reader call
// to read the pong.
//
// TCP Keepalives should suffice for most use cases.
func (c *Conn) Ping(ctx context.Context) error {
	p := c.pingCounter.Add(1)

	err := c.ping(ctx, strconv.FormatInt(p, 10))
	if err != nil {
		return fmt.Errorf("failed to ping: %w", err)
	}
	return nil
}

func (c *Conn) ping(ctx context.Context, p string) error {
	pong := make(chan struct{}, 1)

	c.activePingsMu.Lock()
	c.activePings[p] = pong
	c.activePingsMu.Unlock()

	defer func() {
		c.activePingsMu.Lock()
		delete(c.activePings, p)
		c.activePingsMu.Unlock()
	}()

	err := c.writeControl(ctx, opPing, []byte(p))
	if err != nil {
		return err
	}

	select {
	case <-c.closed:
		return net.ErrClosed
	case <-ctx.Done():
		return fmt.Errorf("failed to wait for pong: %w", ctx.Err())
	case <-pong:
		return nil
	}
}

type mu struct {
	c  *Conn
	ch chan struct{}
}

func newMu(c *Conn) *mu {
	return &mu{
		c:  c,
		ch: make(chan struct{}, 1),
	}
}

func (m *mu) forceLock() {
	m.ch <- struct{}{}
}

func (m *mu) tryLock() bool {
	select {
	case m.ch <- struct{}{}:
		return true
	default:
		return false
	}
}

// VerifSelect is set by the C18 verification harness only. This directory is a
// local copy of github.com/coder/websocket v1.8.14 (tests, examples and js files
// removed) that replaces the module for the build of /verif/checks/c18 only
// (testdata/go.mod.overlay). The changes against the original are: VerifSelect
// and the block at the top of (*mu).lock that uses it, and VerifRand /
// randReader() below (used in write.go and dial.go instead of rand.Reader).
//
// Go's select picks at random among ready cases. In (*mu).lock two cases can be
// ready at once with different effects: "ctx is done" (lock returns an error and
// nothing else happens) and "the lock is free" (lock succeeds although ctx is
// dead; the following write arms its context watchdog with the dead context,
// which closes the whole connection). Under the model checker that choice must
// belong to the explorer, so it is delegated: VerifSelect(site, 2) returns 0 for
// "context wins" and 1 for "lock wins". Every answer is a behaviour the
// unmodified select can show.
var VerifSelect func(site string, n int) int

// VerifRand, when set by the C18 verification harness, replaces crypto/rand as
// the source of frame masks and of the Sec-WebSocket-Key (write.go, dial.go:
// rand.Reader -> randReader()). The values are only echoed, never compared; the
// point is that no system call (a scheduling opportunity for the Go runtime)
// happens inside a step of the model checker.
var VerifRand io.Reader

func randReader() io.Reader {
	if r := VerifRand; r != nil {
		return r
	}
	return cryptorand.Reader
}

func (m *mu) lock(ctx context.Context) error {
	if h := VerifSelect; h != nil {
		select {
		case <-m.c.closed:
			// "closed" wins whatever else is ready: the unmodified code returns
			// net.ErrClosed in both orders (it re-checks after taking the lock)
			return net.ErrClosed
		default:
		}
		if ctx.Err() != nil {
			if len(m.ch) == 0 && h("websocket.mu.lock(ctx done, lock free)", 2) == 1 {
				select {
				case m.ch <- struct{}{}:
					select {
					case <-m.c.closed:
						m.unlock()
						return net.ErrClosed
					default:
					}
					return nil
				default:
				}
			}
			return fmt.Errorf("failed to acquire lock: %w", ctx.Err())
		}
	}
	select {
	case <-m.c.closed:
		return net.ErrClosed
	case <-ctx.Done():
		return fmt.Errorf("failed to acquire lock: %w", ctx.Err())
	case m.ch <- struct{}{}:
		// To make sure the connection is certainly alive.
		// As it's possible the send on m.ch was selected
		// over the receive on closed.
		select {
		case <-m.c.closed:
			// Make sure to release.
			m.unlock()
			return net.ErrClosed
		default:
		}
		return nil
	}
}

func (m *mu) unlock() {
	select {
	case <-m.ch:
	default:
	}
}

type noCopy struct{}

func (*noCopy) Lock() {}
