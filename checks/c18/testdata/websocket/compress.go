//go:build !js

package websocket

import (
	"compress/flate"
	"io"
	"sync"
)

// CompressionMode represents the modes available to the permessage-deflate extension.
// See https://tools.ietf.org/html/rfc7692
//
// Works in all modern browsers except Safari which does not implement the permessage-deflate extension.
//
// Compression is only used if the peer supports the mode selected.
type CompressionMode int

const (
	// CompressionDisabled disables the negotiation of the permessage-deflate extension.
	//
	// This is the default. Do not enable compression without benchmarking for your particular use case first.
	CompressionDisabled CompressionMode = iota

	// CompressionContextTakeover compresses each message greater than 128 bytes reusing the 32 KB sliding window from
	// previous messages. i.e compression context across messages is preserved.
	//
	// As most WebSocket protocols are text based and repetitive, this compression mode can be very efficient.
	//
	// The memory overhead is a fixed 32 KB sliding window, a fixed 1.2 MB flate.Writer and a sync.Pool of 40 KB flate.Reader's
	// that are used when reading and then returned.
	//
	// Thus, it uses more memory than CompressionNoContextTakeover but compresses more efficiently.
	//
	// If the peer does not support CompressionContextTakeover then we will fall back to CompressionNoContextTakeover.
	CompressionContextTakeover

	// CompressionNoContextTakeover compresses each message greater than 512 bytes. Each message is compressed with
	// a new 1.2 MB flate.Writer pulled from a sync.Pool. Each message is read with a 40 KB flate.Reader pulled from
	// a sync.Pool.
	//
	// This means less efficient compression as the sliding window from previous messages will not be used but the
	// memory overhead will be lower as there will be no fixed cost for the flate.Writer nor the 32 KB sliding window.
	// Especially if the connections are long lived and seldom written to.
	//
	// Thus, it uses less memory than CompressionContextTakeover but compresses less efficiently.
	//
	// If the peer does not support CompressionNoContextTakeover then we will fall back to CompressionDisabled.
	CompressionNoContextTakeover
)

func (m CompressionMode) opts() *compressionOptions {
	return &compressionOptions{
		clientNoContextTakeover: m == CompressionNoContextTakeover,
		serverNoContextTakeover: m == CompressionNoContextTakeover,
	}
}

type compressionOptions struct {
	clientNoContextTakeover bool
	serverNoContextTakeover bool
}

func (copts *compressionOptions) String() string {
	s := "permessage-deflate"
	if copts.clientNoContextTakeover {
		s += "; client_no_context_takeover"
	}
	if copts.serverNoContextTakeover {
		s += "; server_no_context_takeover"
	}
	return s
}

// These bytes are required to get flate.Reader to return.
// They are removed when sending to avoid the overhead as
// WebSocket framing tell's when the message has ended but then
// we need to add them back otherwise flate.Reader keeps
// trying to read more bytes.
const deflateMessageTail = "\x00\x00\xff\xff"

type trimLastFourBytesWriter struct {
	w    io.Writer
	tail []byte
}

func (tw *trimLastFourBytesWriter) reset() {
	if tw != nil && tw.tail != nil {
		tw.tail = tw.tail[:0]
	}
}

func (tw *trimLastFourBytesWriter) Write(p []byte) (int, error) {
	if tw.tail == nil {
		tw.tail = make([]byte, 0, 4)
	}

	extra := len(tw.tail) + len(p) - 4

	if extra <= 0 {
		tw.tail = append(tw.tail, p...)
		return len(p), nil
	}

	// Now we need to write as many extra bytes as we can from the previous tail.
	if extra > len(tw.tail) {
		extra = len(tw.tail)
	}
	if extra > 0 {
		_, err := tw.w.Write(tw.tail[:extra])
		if err != nil {
			return 0, err
		}

		// Shift remaining bytes in tail over.
		n := copy(tw.tail, tw.tail[extra:])
		tw.tail = tw.tail[:n]
	}

	// If p is less than or equal to 4 bytes,
	// all of it is is part of the tail.
	if len(p) <= 4 {
		tw.tail = append(tw.tail, p...)
		return len(p), nil
	}

	// Otherwise, only the last 4 bytes are.
	tw.tail = append(tw.tail, p[len(p)-4:]...)

	p = p[:len(p)-4]
	n, err := tw.w.Write(p)
	return n + 4, err
}

var flateReaderPool sync.Pool

func getFlateReader(r io.Reader, dict []byte) io.Reader {
	fr, ok := flateReaderPool.Get().(io.Reader)
	if !ok {
		return flate.NewReaderDict(r, dict)
	}
	fr.(flate.Resetter).Reset(r, dict)
	return fr
}

func putFlateReader(fr io.Reader) {
	flateReaderPool.Put(fr)
}

var flateWriterPool sync.Pool

func getFlateWriter(w io.Writer) *flate.Writer {
	fw, ok := flateWriterPool.Get().(*flate.Writer)
	if !ok {
		fw, _ = flate.NewWriter(w, flate.BestSpeed)
		return fw
	}
	fw.Reset(w)
	return fw
}

func putFlateWriter(w *flate.Writer) {
	flateWriterPool.Put(w)
}

type slidingWindow struct {
	buf []byte
}

var (
	swPoolMu sync.RWMutex
	swPool   = map[int]*sync.Pool{}
)

func slidingWindowPool(n int) *sync.Pool {
	swPoolMu.RLock()
	p, ok := swPool[n]
	swPoolMu.RUnlock()
	if ok {
		return p
	}

	p = &sync.Pool{}

	swPoolMu.Lock()
	swPool[n] = p
	swPoolMu.Unlock()

	return p
}

func (sw *slidingWindow) init(n int) {
	if sw.buf != nil {
		return
	}

	if n == 0 {
		n = 32768
	}

	p := slidingWindowPool(n)
	sw2, ok := p.Get().(*slidingWindow)
	if ok {
		*sw = *sw2
	} else {
		sw.buf = make([]byte, 0, n)
	}
}

func (sw *slidingWindow) close() {
	sw.buf = sw.buf[:0]
	swPoolMu.Lock()
	swPool[cap(sw.buf)].Put(sw)
	swPoolMu.Unlock()
}

func (sw *slidingWindow) write(p []byte) {
	if len(p) >= cap(sw.buf) {
		sw.buf = sw.buf[:cap(sw.buf)]
		p = p[len(p)-cap(sw.buf):]
		copy(sw.buf, p)
		return
	}

	left := cap(sw.buf) - len(sw.buf)
	if left < len(p) {
		// We need to shift spaceNeeded bytes from the end to make room for p at the end.
		spaceNeeded := len(p) - left
		copy(sw.buf, sw.buf[spaceNeeded:])
		sw.buf = sw.buf[:len(sw.buf)-spaceNeeded]
	}

	sw.buf = append(sw.buf, p...)
}
