//go:build !amd64 && !arm64 && !js

package websocket

func mask(b []byte, key uint32) uint32 {
	return maskGo(b, key)
}
