package c18

import "time"

func sub(name, opt string, script ...string) subSpec {
	return subSpec{Name: name, Opt: opt, Script: script}
}

func (s subSpec) stays() subSpec         { s.Stay = true; return s }
func (s subSpec) after(n string) subSpec { s.After = n; return s }
func (s subSpec) late() subSpec          { s.Late = true; return s }

// mkGroup builds a group from a base scenario in which nobody cancels (the twin)
// and one variant per listed subscriber index in which that subscriber has a
// canceller actor. A subscriber whose stream is open ended is marked stays() in
// the base: it stays subscribed unless it is the one that cancels.
func mkGroup(base scenario, weight int, cancellers ...int) *group {
	twin := base
	twin.Name = base.Name + "/twin"
	g := &group{Name: base.Name, Weight: weight, Twin: &twin}
	for _, ci := range cancellers {
		v := base
		v.Subs = append([]subSpec(nil), base.Subs...)
		v.Subs[ci].Cancel = true
		v.Subs[ci].Stay = false
		v.Name = base.Name + "/cancel-" + base.Subs[ci].Name
		v.Twin = g.Twin
		g.Variants = append(g.Variants, &v)
	}
	return g
}

func (g *group) big() *group { g.Big = true; return g }

// deadlines adds one variant per listed subscriber in which that subscriber's
// context ends by a deadline (d of virtual time after the start) instead of by
// a cancel() call.
func (g *group) deadlines(d time.Duration, subs ...int) *group {
	for _, ci := range subs {
		v := *g.Twin
		v.Subs = append([]subSpec(nil), g.Twin.Subs...)
		v.Subs[ci].Deadline = d
		v.Subs[ci].Stay = false
		v.Name = g.Name + "/deadline-" + v.Subs[ci].Name
		v.Twin = g.Twin
		g.Variants = append(g.Variants, &v)
	}
	return g
}

var (
	tickAck  = []time.Duration{6 * time.Second, 6 * time.Second}   // a late ack becomes possible, then the ack time-out passes
	tickIdle = []time.Duration{9 * time.Second}                    // the idle period passes
	tickPing = []time.Duration{11 * time.Second, 11 * time.Second} // a ping is sent, then its pong is overdue
)

func scenarioGroups(thorough bool) []*group {
	nn := []string{"next", "next"}
	n := []string{"next"}
	nnc := []string{"next", "next", "complete"}
	nc := []string{"next", "complete"}
	ne := []string{"next", "error"}
	ncn := []string{"next", "complete", "next"}
	var gs []*group
	add := func(g *group) { gs = append(gs, g) }

	// ---- two subscribers, WebSocket
	// equal option tuples (A, A2): one shared connection. A's stream is open ended, B's completes.
	add(mkGroup(scenario{Name: "W01-shared", Subs: []subSpec{sub("A", "A", nn...).stays(), sub("B", "A2", nnc...)}}, 90, 0, 1))
	add(mkGroup(scenario{Name: "W02-shared-idle", Idle: idleTimeout, Ticks: tickIdle, Subs: []subSpec{sub("A", "A", nn...).stays(), sub("B", "A2", nnc...)}}, 300, 0, 1))
	// B arrives once A's subscription is established (connection reuse from the pool)
	// (and A cancels only after its own subscription is established)
	add(mkGroup(scenario{Name: "W03-reuse", Subs: []subSpec{sub("A", "A", nn...).stays().late(), sub("B", "A2", nnc...).after("A")}}, 71, 0))
	add(mkGroup(scenario{Name: "W04-reuse-idle", Idle: idleTimeout, Ticks: tickIdle, Subs: []subSpec{sub("A", "A", nn...).stays().late(), sub("B", "A2", nnc...).after("A")}}, 227, 0).big())
	// the third tuple differs in exactly one component of the connection key
	add(mkGroup(scenario{Name: "W05-other-header", Subs: []subSpec{sub("A", "A", n...).stays(), sub("B", "Bh", nc...)}}, 113, 0).big())
	add(mkGroup(scenario{Name: "W06-other-init-payload", Subs: []subSpec{sub("A", "A", n...).stays(), sub("B", "Bi", nc...)}}, 113, 0).big())
	add(mkGroup(scenario{Name: "W07-other-subprotocol", Subs: []subSpec{sub("A", "A", n...).stays(), sub("B", "Bp", nc...)}}, 113, 0).big())
	// complete / error for one id ends only that one; frames after the terminal frame are dropped
	add(mkGroup(scenario{Name: "W08-error-ends-only-one", Subs: []subSpec{sub("A", "A", ne...), sub("B", "A2", nnc...)}}, 15))
	add(mkGroup(scenario{Name: "W09-complete-then-late-frame", Subs: []subSpec{sub("A", "A", ncn...), sub("B", "A2", nnc...)}}, 28))
	// upstream behaviours: late ack, no ack, refused upgrade, dropped connection, pings
	add(mkGroup(scenario{Name: "W10a-ack-in-its-own-step", Up: upSpec{Ack: "step"}, Subs: []subSpec{sub("A", "A", nn...).stays(), sub("B", "A2", nc...)}}, 33, 0, 1))
	add(mkGroup(scenario{Name: "W10-late-ack", Up: upSpec{Ack: "late"}, Ticks: tickAck, Subs: []subSpec{sub("A", "A", nn...).stays(), sub("B", "A2", nc...)}}, 17, 0, 1))
	add(mkGroup(scenario{Name: "W11-no-ack", Up: upSpec{Ack: "never"}, Ticks: tickAck, Subs: []subSpec{sub("A", "A", n...), sub("B", "A2", nc...)}}, 3, 0))
	add(mkGroup(scenario{Name: "W12-upgrade-refused", Up: upSpec{Refuse: true}, Subs: []subSpec{sub("A", "A", n...), sub("B", "A2", nc...)}}, 1, 0))
	add(mkGroup(scenario{Name: "W13-connection-dropped", Up: upSpec{Drop: 1}, Subs: []subSpec{sub("A", "A", nnc...), sub("B", "A2", nnc...)}}, 119, 0))
	add(mkGroup(scenario{Name: "W15-ping-unanswered", Ping: true, Up: upSpec{NoPong: true}, Ticks: tickPing, Subs: []subSpec{sub("A", "A", n...), sub("B", "A2", n...)}}, 176, 0))
	add(mkGroup(scenario{Name: "W16-reuse-ping-unanswered", Ping: true, Up: upSpec{NoPong: true}, Ticks: tickPing, Subs: []subSpec{sub("A", "A", n...).late(), sub("B", "A2", n...).after("A")}}, 222, 0).big())
	// a subscriber's context ends by DEADLINE (virtual time), not by cancel(): as dialler with a
	// waiter and as waiter, during the HTTP upgrade / after establishment (D01), during protocol
	// init with a delayed ack and a generous ack time-out (D02), as sole subscriber (D03)
	add(mkGroup(scenario{Name: "D01-deadline-shared", Ticks: []time.Duration{4 * time.Second}, Subs: []subSpec{sub("A", "A", n...).stays(), sub("B", "A2", nc...)}}, 60).deadlines(3*time.Second, 0, 1))
	add(mkGroup(scenario{Name: "D02-deadline-during-init", Up: upSpec{Ack: "late"}, AckTimeout: 100 * time.Second, Ticks: []time.Duration{4 * time.Second, 4 * time.Second}, Subs: []subSpec{sub("A", "A", n...).stays(), sub("B", "A2", nc...)}}, 40).deadlines(3*time.Second, 0, 1))
	add(mkGroup(scenario{Name: "D03-deadline-sole-subscriber", Up: upSpec{Ack: "late"}, AckTimeout: 100 * time.Second, Ticks: []time.Duration{4 * time.Second, 4 * time.Second}, Subs: []subSpec{sub("A", "A", nn...).stays()}}, 2).deadlines(3*time.Second, 0))
	// legacy graphql-ws on both
	add(mkGroup(scenario{Name: "W17-legacy-shared", Subs: []subSpec{sub("A", "L", nn...).stays(), sub("B", "L2", ne...)}}, 53, 0))

	// ---- two subscribers, SSE (one request per subscription)
	add(mkGroup(scenario{Name: "S01-sse", Subs: []subSpec{sub("A", "S", nn...).stays(), sub("B", "S2", nnc...)}}, 110, 0, 1))
	add(mkGroup(scenario{Name: "S02-sse-error-and-drop", Up: upSpec{Drop: 1}, Subs: []subSpec{sub("A", "S", nnc...), sub("B", "Sg", ne...)}}, 167, 1).big())
	add(mkGroup(scenario{Name: "S03-sse-refused", Up: upSpec{Refuse: true}, Subs: []subSpec{sub("A", "S", n...), sub("B", "S2", nc...)}}, 1, 0))

	if thorough {
		add(mkGroup(scenario{Name: "W14-ping-answered", Ping: true, Ticks: tickPing, Subs: []subSpec{sub("A", "A", n...).stays(), sub("B", "A2", nc...)}}, 406, 0).big())
		add(mkGroup(scenario{Name: "W18-other-endpoint", Subs: []subSpec{sub("A", "A", n...).stays(), sub("B", "Be", nc...)}}, 113, 0).big())
		add(mkGroup(scenario{Name: "M01-ws-and-sse", Subs: []subSpec{sub("A", "A", nn...).stays(), sub("B", "S", nnc...)}}, 158, 0, 1).big())
		// ---- three subscribers
		add(mkGroup(scenario{Name: "T01-two-shared-one-other", Subs: []subSpec{sub("A", "A", n...).stays(), sub("B", "A2", nc...), sub("C", "Bh", nc...)}}, 650, 0).big())
		add(mkGroup(scenario{Name: "T02-three-shared", Subs: []subSpec{sub("A", "A", n...).stays(), sub("B", "A2", nc...), sub("C", "A", nc...)}}, 380, 0).big())
		add(mkGroup(scenario{Name: "T03-three-shared-reuse", Subs: []subSpec{sub("A", "A", n...).stays().late(), sub("B", "A2", nc...).after("A"), sub("C", "A", nc...).after("A")}}, 456, 0).big())
	}
	return gs
}
