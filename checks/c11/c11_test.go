// Check C11: request de-duplication (inbound and subgraph single flight) is
// transparent and never wedges or crashes. Engine S: every interleaving (up to a
// preemption bound) of 2-3 concurrent ArenaResolveGraphQLResponse calls on the
// real, overlay-instrumented resolve package, with a gated fake data source and
// cancellation actors. See DESIGN.md section 3 C11.
package c11

import (
	"bytes"
	"context"
	"errors"
	"fmt"
	"net/http"
	"sort"
	"strings"
	"sync"
	"testing"
	"testing/synctest"
	"time"

	"github.com/wundergraph/graphql-go-tools/v2/pkg/ast"
	"github.com/wundergraph/graphql-go-tools/v2/pkg/engine/datasource/httpclient"
	"github.com/wundergraph/graphql-go-tools/v2/pkg/engine/resolve"

	"verif/internal/sched"
	"verif/internal/vk"
)

// ---- requests

// reqSpec describes one client request of a scenario.
type reqSpec struct {
	Name     string
	Op       string // operation identity (-> Request.ID and fetch input)
	Vars     string // variables identity (-> VariablesHash and fetch input)
	Hdr      string // forwarded headers identity (-> headers hash and header value)
	Mutation bool   // root operation type mutation
	SubFetch string // when set: the fetch input is this string (same subgraph request from different client operations)
	FetchMut bool   // the fetch itself is a mutation-typed fetch
	Cancel   bool   // a canceller actor cancels this client's context at some point
	NoDedup  bool   // DisableInboundRequestDeduplication (drives the subgraph-level single flight)
	BadWrite bool   // this client's response writer fails (broken pipe)
	DS       string // data source ID of the fetch ("" = sg1); every data source has the same display NAME
	Expire   bool   // this client's context ends by DEADLINE (context.DeadlineExceeded) at some point
	After    string // this client arrives only after that other client's call has returned (a history, not an overlap)
}

type scenario struct {
	Name     string
	Reqs     []reqSpec
	FailKeys map[string]bool // fetch inputs for which the data source always fails
	FailOnce map[string]bool // fetch inputs whose FIRST load fails (transient upstream failure), later ones succeed
	Status   map[string]int  // fetch inputs answered with this HTTP status and an unusable body
}

type hdrBuilder struct{ h string }

func (b hdrBuilder) HeadersForSubgraph(string) (http.Header, uint64) {
	if b.h == "" {
		return nil, 0
	}
	return http.Header{"X-H": []string{b.h}}, vk.Hash("hdr:" + b.h)
}
func (b hdrBuilder) HashAll() uint64 {
	if b.h == "" {
		return 0
	}
	return vk.Hash("hdr:" + b.h)
}

// fakeDS is the subgraph: the answer is a function of (input, forwarded header),
// so a response shared across different keys is visible in the bytes.
type fakeDS struct {
	s        *sched.Sched
	status   map[string]int
	fail     map[string]bool
	failOnce map[string]bool
	seen     map[string]int
	mu       sync.Mutex
	loads    map[string]int
	log      []string
}

func dsID(q reqSpec) string {
	if q.DS != "" {
		return q.DS
	}
	return "sg1"
}

// dsView is one data source (identified by its ID) of the shared fake upstream:
// the answer depends on the ID, so a response shared across data sources shows.
type dsView struct {
	d  *fakeDS
	id string
}

func (v *dsView) Load(ctx context.Context, headers http.Header, input []byte) ([]byte, error) {
	return v.d.load(ctx, v.id, headers, input)
}

func (v *dsView) LoadWithFiles(ctx context.Context, headers http.Header, input []byte, files []*httpclient.FileUpload) ([]byte, error) {
	return v.d.load(ctx, v.id, headers, input)
}

func fetchInput(q reqSpec) string {
	if q.SubFetch != "" {
		return q.SubFetch
	}
	return q.Op + "/" + q.Vars
}

func (d *fakeDS) Load(ctx context.Context, headers http.Header, input []byte) ([]byte, error) {
	return d.load(ctx, "sg1", headers, input)
}

func (d *fakeDS) load(ctx context.Context, id string, headers http.Header, input []byte) ([]byte, error) {
	in := string(input)
	key := in + "|" + headers.Get("X-H")
	if id != "sg1" {
		key = id + ":" + key
	}
	d.mu.Lock()
	d.loads[key]++
	d.mu.Unlock()
	if d.s != nil {
		// the upstream answers at a moment the scheduler chooses
		d.s.Point("ds:respond(" + key + ")")
	}
	if err := ctx.Err(); err != nil {
		return nil, err
	}
	if d.fail[in] {
		return nil, errors.New("upstream unavailable for " + in)
	}
	d.mu.Lock()
	if d.seen == nil {
		d.seen = map[string]int{}
	}
	d.seen[in]++
	nth := d.seen[in]
	d.mu.Unlock()
	if d.failOnce[in] && nth == 1 {
		return nil, errors.New("upstream briefly unavailable for " + in)
	}
	// give the HTTP response context a status code like the real client does
	if st, ok := d.status[in]; ok {
		if rc := httpclient.GetResponseContext(ctx); rc != nil {
			rc.StatusCode = st
			rc.Response = &http.Response{StatusCode: st, Header: http.Header{"X-Upstream": []string{"u1"}}}
		}
		return []byte("upstream broke"), nil
	}
	if rc := httpclient.GetResponseContext(ctx); rc != nil {
		rc.StatusCode = 200
	}
	return []byte(fmt.Sprintf(`{"data":{"value":%q}}`, "v("+key+")")), nil
}

func (d *fakeDS) LoadWithFiles(ctx context.Context, headers http.Header, input []byte, files []*httpclient.FileUpload) ([]byte, error) {
	return d.Load(ctx, headers, input)
}

// clientWriter is the client's response writer; a broken one fails every write.
type clientWriter struct {
	buf    bytes.Buffer
	broken bool
}

func (w *clientWriter) Write(p []byte) (int, error) {
	if w.broken {
		return 0, errors.New("write: broken pipe")
	}
	return w.buf.Write(p)
}

func planFor(q reqSpec, ds *fakeDS) *resolve.GraphQLResponse {
	opType := ast.OperationTypeQuery
	if q.Mutation {
		opType = ast.OperationTypeMutation
	}
	fetchType := ast.OperationTypeQuery
	if q.FetchMut {
		fetchType = ast.OperationTypeMutation
	}
	in := fetchInput(q)
	return &resolve.GraphQLResponse{
		Info: &resolve.GraphQLResponseInfo{OperationType: opType},
		Fetches: resolve.Single(&resolve.SingleFetch{
			FetchConfiguration: resolve.FetchConfiguration{
				DataSource:     &dsView{d: ds, id: dsID(q)},
				PostProcessing: resolve.PostProcessingConfiguration{SelectResponseDataPath: []string{"data"}, SelectResponseErrorsPath: []string{"errors"}},
			},
			InputTemplate: resolve.InputTemplate{Segments: []resolve.TemplateSegment{{SegmentType: resolve.StaticSegmentType, Data: []byte(in)}}},
			Info:          &resolve.FetchInfo{DataSourceID: dsID(q), DataSourceName: "accounts", OperationType: fetchType, RootFields: []resolve.GraphCoordinate{{TypeName: "Query", FieldName: "value"}}},
		}),
		Data: &resolve.Object{Fields: []*resolve.Field{{Name: []byte("value"), Value: &resolve.String{Path: []string{"value"}, Nullable: true}}}},
	}
}

func newCtx(parent context.Context, q reqSpec) *resolve.Context {
	c := resolve.NewContext(parent)
	c.Request.ID = vk.Hash("op:" + q.Op)
	c.VariablesHash = vk.Hash("vars:" + q.Vars)
	c.SubgraphHeadersBuilder = hdrBuilder{q.Hdr}
	c.ExecutionOptions.DisableInboundRequestDeduplication = q.NoDedup
	return c
}

// expCtx is a context that ends with context.DeadlineExceeded when expire() is
// called (the harness decides when the deadline "fires"). It implements the
// AfterFunc hook of package context, so contexts derived from it need no extra
// goroutine.
type expCtx struct {
	context.Context
	mu    sync.Mutex
	done  chan struct{}
	err   error
	after []func()
}

func newExpCtx() *expCtx { return &expCtx{Context: context.Background(), done: make(chan struct{})} }

func (c *expCtx) Done() <-chan struct{}       { return c.done }
func (c *expCtx) Deadline() (time.Time, bool) { return time.Unix(1, 0), true }
func (c *expCtx) Err() error {
	c.mu.Lock()
	defer c.mu.Unlock()
	return c.err
}
func (c *expCtx) AfterFunc(f func()) func() bool {
	c.mu.Lock()
	defer c.mu.Unlock()
	if c.err != nil {
		go f()
		return func() bool { return false }
	}
	c.after = append(c.after, f)
	i := len(c.after) - 1
	return func() bool {
		c.mu.Lock()
		defer c.mu.Unlock()
		if c.err != nil || c.after[i] == nil {
			return false
		}
		c.after[i] = nil
		return true
	}
}
func (c *expCtx) expire() {
	c.mu.Lock()
	if c.err != nil {
		c.mu.Unlock()
		return
	}
	c.err = context.DeadlineExceeded
	fs := c.after
	c.after = nil
	close(c.done)
	c.mu.Unlock()
	for _, f := range fs {
		if f != nil {
			f()
		}
	}
}

type outcome struct {
	returned bool
	bytes    string
	err      string
	dedup    bool
	panicked string
}

// solo computes the bytes a request gets on its own (fresh resolver, no
// scheduler): the reference of the property.
func solo(q reqSpec, sc scenario) outcome {
	rctx, cancel := context.WithCancel(context.Background())
	defer cancel()
	r := resolve.New(rctx, resolverOptions())
	ds := &fakeDS{fail: sc.FailKeys, failOnce: sc.FailOnce, status: sc.Status, loads: map[string]int{}}
	if q.After != "" {
		// arrives after the other client's call: the transient failure is over
		ds.seen = map[string]int{fetchInput(q): 1}
	}
	buf := &clientWriter{broken: q.BadWrite}
	_, err := r.ArenaResolveGraphQLResponse(newCtx(context.Background(), q), planFor(q, ds), buf)
	o := outcome{returned: true, bytes: buf.buf.String()}
	if err != nil {
		o.err = err.Error()
	}
	return o
}

func resolverOptions() resolve.ResolverOptions {
	return resolve.ResolverOptions{MaxConcurrency: 8, PropagateSubgraphStatusCodes: true, PropagateSubgraphErrors: true}
}

func scenarios(thorough bool) []scenario {
	a := func(name, op, vars, hdr string) reqSpec { return reqSpec{Name: name, Op: op, Vars: vars, Hdr: hdr} }
	sc := []scenario{
		{Name: "I1-two-identical", Reqs: []reqSpec{a("A", "q1", "v1", "h1"), a("B", "q1", "v1", "h1")}},
		{Name: "I3-different-variables", Reqs: []reqSpec{a("A", "q1", "v1", "h1"), a("B", "q1", "v2", "h1")}},
		{Name: "I4-different-headers", Reqs: []reqSpec{a("A", "q1", "v1", "h1"), a("B", "q1", "v1", "h2")}},
		{Name: "I11-leader-or-follower-deadline-expires", Reqs: []reqSpec{{Name: "A", Op: "q1", Vars: "v1", Hdr: "h1", Expire: true}, a("B", "q1", "v1", "h1")}},
		{Name: "I12-transient-failure-then-the-same-request-again", Reqs: []reqSpec{a("A", "q1", "v1", "h1"), {Name: "B", Op: "q1", Vars: "v1", Hdr: "h1", After: "A"}}, FailOnce: map[string]bool{"q1/v1": true}},
		{Name: "L9-transient-subgraph-failure-then-the-same-fetch-again", Reqs: []reqSpec{{Name: "A", Op: "q1", Vars: "v1", Hdr: "h1", SubFetch: "F1", NoDedup: true}, {Name: "B", Op: "q2", Vars: "v1", Hdr: "h1", SubFetch: "F1", NoDedup: true, After: "A"}}, FailOnce: map[string]bool{"F1": true}},
		{Name: "L10-subgraph-participant-deadline-expires", Reqs: []reqSpec{{Name: "A", Op: "q1", Vars: "v1", Hdr: "h1", SubFetch: "F1", NoDedup: true, Expire: true}, {Name: "B", Op: "q2", Vars: "v1", Hdr: "h1", SubFetch: "F1", NoDedup: true}}},
		{Name: "I10-different-operations", Reqs: []reqSpec{a("A", "q1", "v1", "h1"), a("B", "q2", "v1", "h1")}},
		{Name: "I5-mutation-twice", Reqs: []reqSpec{{Name: "A", Op: "m1", Vars: "v1", Hdr: "h1", Mutation: true, FetchMut: true}, {Name: "B", Op: "m1", Vars: "v1", Hdr: "h1", Mutation: true, FetchMut: true}}},
		{Name: "I6-upstream-fails", Reqs: []reqSpec{a("A", "q1", "v1", "h1"), a("B", "q1", "v1", "h1")}, FailKeys: map[string]bool{"q1/v1": true}},
		{Name: "I8-follower-or-leader-cancels", Reqs: []reqSpec{{Name: "A", Op: "q1", Vars: "v1", Hdr: "h1", Cancel: true}, a("B", "q1", "v1", "h1")}},
		{Name: "L1-same-subgraph-request", Reqs: []reqSpec{{Name: "A", Op: "q1", Vars: "v1", Hdr: "h1", SubFetch: "F1", NoDedup: true}, {Name: "B", Op: "q2", Vars: "v1", Hdr: "h1", SubFetch: "F1", NoDedup: true}}},
		{Name: "L2-same-input-different-headers", Reqs: []reqSpec{{Name: "A", Op: "q1", Vars: "v1", Hdr: "h1", SubFetch: "F1", NoDedup: true}, {Name: "B", Op: "q2", Vars: "v1", Hdr: "h2", SubFetch: "F1", NoDedup: true}}},
		{Name: "L3-query-fetch-and-mutation-fetch", Reqs: []reqSpec{{Name: "A", Op: "m1", Vars: "v1", Hdr: "h1", SubFetch: "F1", Mutation: true}, {Name: "B", Op: "m2", Vars: "v1", Hdr: "h1", SubFetch: "F1", Mutation: true, FetchMut: true}, {Name: "C", Op: "q3", Vars: "v1", Hdr: "h1", SubFetch: "F1", NoDedup: true}}},
		{Name: "L4-subgraph-leader-fails", Reqs: []reqSpec{{Name: "A", Op: "q1", Vars: "v1", Hdr: "h1", SubFetch: "F1", NoDedup: true}, {Name: "B", Op: "q2", Vars: "v1", Hdr: "h1", SubFetch: "F1", NoDedup: true}}, FailKeys: map[string]bool{"F1": true}},
		{Name: "I7-one-client-writer-broken", Reqs: []reqSpec{{Name: "A", Op: "q1", Vars: "v1", Hdr: "h1", BadWrite: true}, a("B", "q1", "v1", "h1")}},
		{Name: "L7-subgraph-answers-503", Reqs: []reqSpec{{Name: "A", Op: "q1", Vars: "v1", Hdr: "h1", SubFetch: "F1", NoDedup: true}, {Name: "B", Op: "q2", Vars: "v1", Hdr: "h1", SubFetch: "F1", NoDedup: true}}, Status: map[string]int{"F1": 503}},
		{Name: "L8-same-input-same-name-different-data-source", Reqs: []reqSpec{{Name: "A", Op: "q1", Vars: "v1", Hdr: "h1", SubFetch: "F1", NoDedup: true}, {Name: "B", Op: "q2", Vars: "v1", Hdr: "h1", SubFetch: "F1", NoDedup: true, DS: "sg2"}}},
		{Name: "L5-subgraph-participant-cancels", Reqs: []reqSpec{{Name: "A", Op: "q1", Vars: "v1", Hdr: "h1", SubFetch: "F1", NoDedup: true, Cancel: true}, {Name: "B", Op: "q2", Vars: "v1", Hdr: "h1", SubFetch: "F1", NoDedup: true}}},
	}
	if thorough {
		sc = append(sc,
			scenario{Name: "I2-three-identical", Reqs: []reqSpec{a("A", "q1", "v1", "h1"), a("B", "q1", "v1", "h1"), a("C", "q1", "v1", "h1")}},
			scenario{Name: "I9-three-one-cancels", Reqs: []reqSpec{{Name: "A", Op: "q1", Vars: "v1", Hdr: "h1", Cancel: true}, a("B", "q1", "v1", "h1"), a("C", "q1", "v1", "h1")}},
			scenario{Name: "L6-three-subgraph-one-cancels", Reqs: []reqSpec{{Name: "A", Op: "q1", Vars: "v1", Hdr: "h1", SubFetch: "F1", NoDedup: true, Cancel: true}, {Name: "B", Op: "q2", Vars: "v1", Hdr: "h1", SubFetch: "F1", NoDedup: true}, {Name: "C", Op: "q3", Vars: "v1", Hdr: "h1", SubFetch: "F1", NoDedup: true}}},
		)
	}
	// a client that goes away: its context is cancelled AND its writer is broken, so the leader can end
	// with an error that is not a context error while its context is already done
	sc = append(sc, scenario{Name: "I13-leader-disconnects-context-cancelled-and-writer-broken", Reqs: []reqSpec{{Name: "A", Op: "q1", Vars: "v1", Hdr: "h1", Cancel: true, BadWrite: true}, a("B", "q1", "v1", "h1")}})
	return sc
}

type instance struct {
	cancelRoot context.CancelFunc
	ds         *fakeDS
	mu         sync.Mutex
	out        map[string]*outcome
	cancelled  map[string]bool
}

func buildScenario(sc scenario, solos map[string]outcome) *sched.Scenario {
	var inst *instance
	return &sched.Scenario{
		Name: sc.Name,
		Body: func(s *sched.Sched) {
			rctx, cancel := context.WithCancel(context.Background())
			r := resolve.New(rctx, resolverOptions())
			in := &instance{cancelRoot: cancel, ds: &fakeDS{s: s, fail: sc.FailKeys, failOnce: sc.FailOnce, status: sc.Status, loads: map[string]int{}}, out: map[string]*outcome{}, cancelled: map[string]bool{}}
			inst = in
			for _, q := range sc.Reqs {
				q := q
				cctx, ccancel := context.WithCancel(context.Background())
				var ectx *expCtx
				if q.Expire {
					ectx = newExpCtx()
					cctx = ectx
				}
				o := &outcome{}
				in.out[q.Name] = o
				s.Go(q.Name, func() {
					defer func() {
						if p := recover(); p != nil {
							o.panicked = fmt.Sprint(p)
							panic(p)
						}
					}()
					if q.After != "" {
						s.PointWhen("after:"+q.After, func() bool {
							in.mu.Lock()
							defer in.mu.Unlock()
							return in.out[q.After].returned
						})
					}
					buf := &clientWriter{broken: q.BadWrite}
					info, err := r.ArenaResolveGraphQLResponse(newCtx(cctx, q), planFor(q, in.ds), buf)
					in.mu.Lock()
					o.returned = true
					o.bytes = buf.buf.String()
					if err != nil {
						o.err = err.Error()
					}
					if info != nil {
						o.dedup = info.ResolveDeduplicated
					}
					in.mu.Unlock()
				})
				if q.Expire {
					s.Go("expire"+q.Name, func() {
						in.mu.Lock()
						in.cancelled[q.Name] = true
						in.mu.Unlock()
						ectx.expire()
					})
				}
				if q.Cancel {
					s.Go("cancel"+q.Name, func() {
						in.mu.Lock()
						in.cancelled[q.Name] = true
						in.mu.Unlock()
						ccancel()
					})
				} else {
					_ = ccancel
				}
			}
		},
		Check: func(s *sched.Sched, x *sched.Exec) (string, []sched.Finding) {
			in := inst
			var fs []sched.Finding
			var key []string
			in.mu.Lock()
			defer in.mu.Unlock()
			if x.Horizon {
				fs = append(fs, sched.Finding{Clause: "every participant returns (no livelock)", Site: sc.Name, Detail: "step horizon reached"})
			}
			for _, q := range sc.Reqs {
				o := in.out[q.Name]
				want := solos[q.Name]
				cancelled := in.cancelled[q.Name]
				switch {
				case !o.returned && o.panicked == "":
					fs = append(fs, sched.Finding{Clause: "every participant returns (no goroutine blocked forever)", Site: "actor blocked", Detail: fmt.Sprintf("%s never returned; parked=%v", q.Name, x.Parked)})
					key = append(key, q.Name+":blocked")
				case o.panicked != "":
					key = append(key, q.Name+":panic")
				case o.err != "":
					key = append(key, q.Name+":err="+o.err)
					isCtx := strings.Contains(o.err, "context canceled") || strings.Contains(o.err, "context deadline exceeded")
					if isCtx && !cancelled {
						fs = append(fs, sched.Finding{Clause: "one client's disconnect never becomes another client's error", Site: "foreign cancellation as returned error", Detail: fmt.Sprintf("%s returned %q but its own context was never cancelled", q.Name, o.err)})
					} else if !isCtx && o.err != want.err {
						fs = append(fs, sched.Finding{Clause: "participant returns the shared result, an upstream failure it would also have hit alone, or its own cancellation", Site: "returned error", Detail: fmt.Sprintf("%s returned error %q, alone it gets err=%q bytes=%s", q.Name, o.err, want.err, want.bytes)})
					}
				default:
					if o.bytes == want.bytes {
						key = append(key, fmt.Sprintf("%s:ok(dedup=%v)", q.Name, o.dedup))
						break
					}
					key = append(key, q.Name+":bytes="+o.bytes)
					if cancelled {
						// its own cancellation may surface as a rendered error: allowed
						if strings.Contains(o.bytes, `"errors"`) {
							break
						}
					}
					otherCancelled := false
					for n, c := range in.cancelled {
						if c && n != q.Name {
							otherCancelled = true
						}
					}
					if otherCancelled && strings.Contains(o.bytes, `"errors"`) && !strings.Contains(want.bytes, `"errors"`) {
						fs = append(fs, sched.Finding{Clause: "one client's disconnect never becomes another client's error", Site: "foreign cancellation in rendered response", Detail: fmt.Sprintf("%s (never cancelled) received %s, alone it receives %s", q.Name, o.bytes, want.bytes)})
						break
					}
					fs = append(fs, sched.Finding{Clause: "every participant receives exactly the bytes it would have received on its own", Site: "wrong bytes", Detail: fmt.Sprintf("%s received %s, alone it receives %s", q.Name, o.bytes, want.bytes)})
				}
			}
			// sharing only between equal keys and only for query-typed work:
			// a mutation-typed fetch must reach the data source once per request
			in.ds.mu.Lock()
			loads := 0
			var lk []string
			for k, n := range in.ds.loads {
				loads += n
				lk = append(lk, fmt.Sprintf("%s=%d", k, n))
			}
			in.ds.mu.Unlock()
			sort.Strings(lk)
			nm := 0
			for _, q := range sc.Reqs {
				if q.FetchMut && in.out[q.Name].returned {
					nm++
				}
			}
			if nm > 0 {
				mutLoads := 0
				for _, q := range sc.Reqs {
					if q.FetchMut {
						mutLoads = in.ds.loads[fetchInput(q)+"|"+q.Hdr]
					}
				}
				nq := 0
				for _, q := range sc.Reqs {
					if !q.FetchMut && fetchInput(q) == fetchInput(sc.Reqs[len(sc.Reqs)-1]) {
						nq++
					}
				}
				_ = nq
				if mutLoads < nm {
					fs = append(fs, sched.Finding{Clause: "sharing never happens for mutations", Site: "data source loads", Detail: fmt.Sprintf("%d mutation fetches returned but the data source saw only %d loads (%v)", nm, mutLoads, lk)})
				}
			}
			if x.Deadlock {
				key = append(key, "deadlock")
			}
			key = append(key, "loads="+strings.Join(lk, ","))
			return strings.Join(key, " "), fs
		},
		Cleanup: func() {
			if inst != nil {
				inst.cancelRoot()
			}
		},
	}
}

func hasCancel(sc scenario) bool {
	for _, q := range sc.Reqs {
		if q.Cancel {
			return true
		}
	}
	return false
}

func level(name string) string {
	if strings.HasPrefix(name, "L") {
		return "subgraph single flight"
	}
	return "inbound single flight"
}

func TestCheck(t *testing.T) {
	run := vk.Start("C11", "model_checking")
	defer run.Finish()
	run.Rule("every schedule (preemption-bounded DFS over all sync/atomic/sync.Map/close/cancel points of the instrumented resolve package plus harness points) of each scenario; distinct = distinct (scenario, per-actor outcome, data-source load counts)")
	run.Assume("sequentially consistent interleavings of instrumented synchronisation operations; code between two points is atomic",
		"fake data source answers are a function of (fetch input, forwarded header); upstream failure is a function of the fetch input",
		"hash collisions of the xxhash based keys are not explored")
	bound := vk.Pick(run, 2, 4)
	run.Bound("preemption_bound", bound)
	synctest.Test(t, func(t *testing.T) {
		s := sched.New()
		install(s)
		for si, sc := range scenarios(run.Thorough()) {
			solos := map[string]outcome{}
			for _, q := range sc.Reqs {
				solos[q.Name] = solo(q, sc)
			}
			synctest.Wait()
			b := bound
			if len(sc.Reqs) > 2 && b > 2 {
				b = 2 // deeper bounds reach native selects with two ready cases (replay divergences)
			}
			if len(sc.Reqs) == 2 && hasCancel(sc) && b > 3 {
				b = 3
			}
			ex := &sched.Explorer{S: s, Bound: b, DevBound: 1, Shard: run.Shard(), NShards: run.NShards(), Expired: run.Expired}
			scn := buildScenario(sc, solos)
			first := true
			ex.OnExec = func(_ *sched.Scenario, x *sched.Exec, outcome string, fs []sched.Finding) {
				if run.Outcome(sc.Name + " " + outcome) {
					run.Sample(sc.Name, map[string]any{"scenario": sc.Name, "outcome": outcome, "schedule": x.Choices, "points": len(x.Points)})
				}
				for _, f := range fs {
					run.Violate(vk.Violation{Clause: f.Clause, Site: f.Site, Class: level(sc.Name), Detail: "scenario " + sc.Name + ": " + f.Detail + "\ntrace: " + strings.Join(x.Trace(), " > "),
						Input: map[string]any{"scenario": si, "name": sc.Name, "choices": x.Choices, "bound": b}})
				}
				first = false
			}
			if run.Replay != "" {
				var in struct {
					Scenario int   `json:"scenario"`
					Choices  []int `json:"choices"`
				}
				if err := run.ReplayInput(&in); err != nil {
					t.Fatal(err)
				}
				if in.Scenario != si {
					continue
				}
				for i := 0; i < 5; i++ {
					x := s.RunOne(in.Choices, nil, func() { scn.Body(s) })
					outc, fs := scn.Check(s, x)
					for _, p := range s.Panics {
						fs = append(fs, sched.Finding{Clause: "no panic", Site: "panic", Detail: p})
					}
					s.Finish()
					scn.Cleanup()
					synctest.Wait()
					fmt.Printf("replay %d: diverged=%q outcome=%s\n  trace: %s\n", i, x.Diverged, outc, strings.Join(x.Trace(), "\n         "))
					for _, f := range fs {
						fmt.Printf("  FAILED %s: %s\n", f.Clause, f.Detail)
						run.Violate(vk.Violation{Clause: f.Clause, Site: f.Site, Class: level(sc.Name), Detail: f.Detail})
					}
				}
				run.Eval(5)
				run.AddStates(1, 1, 5)
				continue
			}
			ex.Explore(scn)
			_ = first
			st := ex.Stats
			run.Eval(st.Executions)
			run.AddStates(st.States, st.Transitions, st.Executions)
			run.Count("divergences", st.Divergences)
			run.Count("deadlocks", st.Deadlocks)
			run.Count("executions:"+sc.Name, st.Executions)
			if st.Capped {
				run.Cap("scenario " + sc.Name + " stopped by the internal deadline")
			}
			if st.Divergences > 0 {
				run.Cap(fmt.Sprintf("%d replay divergences in %s (subtrees skipped)", st.Divergences, sc.Name))
			}
			run.Bound("max_points:"+sc.Name, st.MaxPoints)
		}
	})
}
