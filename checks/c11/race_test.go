//go:build verifrace

package c11

import (
	"fmt"
	"os"
	"strconv"
	"testing"
	"time"

	"verif/internal/sched"
)

// Free-running build: real sync (no overlay), no scheduler, race detector on.
func install(s *sched.Sched) {}

// TestRaceFree runs the actor bodies of every scenario as plain goroutines, many
// times, under the race detector. The explored schedules are sequentially
// consistent interleavings of synchronisation operations; this pass looks for
// what they cannot show: accesses that are not ordered by any of them.
func TestRaceFree(t *testing.T) {
	iters := 300
	if v, err := strconv.Atoi(os.Getenv("VERIF_RACE_ITERS")); err == nil && v > 0 {
		iters = v
	}
	scs := scenarios(true)
	runs, unfinished := 0, 0
	for _, sc := range scs {
		solos := map[string]outcome{}
		for _, q := range sc.Reqs {
			solos[q.Name] = solo(q, sc)
		}
		body := buildScenario(sc, solos)
		for i := 0; i < iters; i++ {
			s := sched.New() // never activated: free-running
			body.Body(s)
			if !s.WaitFree(10 * time.Second) {
				unfinished++
			}
			if body.Cleanup != nil {
				body.Cleanup()
			}
			runs++
		}
	}
	fmt.Printf("racefree: scenarios=%d iterations_each=%d runs=%d unfinished=%d\n", len(scs), iters, runs, unfinished)
}
