//go:build !verifrace

package c11

import (
	"github.com/wundergraph/graphql-go-tools/v2/pkg/vsync"

	"verif/internal/sched"
)

func install(s *sched.Sched) { vsync.Hook = s.Hook }
