// Check C15: argument values survive extraction and forwarding unchanged.
// Every value spelling x argument position x form (literal, variable, variable
// default, omitted, explicit null) x target (root field, entity field behind
// _entities) is sent through the real engine; the echo computed by the
// simulated subgraph from what it RECEIVED must equal the echo the reference
// executor computes from the client's document (gqlparser literal evaluation).
package c15

import (
	"regexp"
	"sort"
	"verif/internal/engineseam"

	"encoding/json"
	"fmt"
	"strings"
	"testing"

	"github.com/vektah/gqlparser/v2"
	gast "github.com/vektah/gqlparser/v2/ast"
	"github.com/vektah/gqlparser/v2/parser"

	"github.com/wundergraph/graphql-go-tools/execution/graphql"

	"verif/internal/fedlab"
	"verif/internal/refexec"
	"verif/internal/vk"
)

// spelling is one GraphQL literal together with the argument type families it fits.
type spelling struct {
	lit   string
	kind  string // string | int | float | bool | enum | null | id | json
	class string // structural class for fingerprints
}

func spellings(thorough bool) []spelling {
	s := []spelling{
		{`""`, "string", "empty string"},
		{`"plain"`, "string", "plain string"},
		{`"q\"q"`, "string", `escape \"`},
		{`"b\\b"`, "string", `escape \\`},
		{`"s\/s"`, "string", `escape \/`},
		{`"a\bb"`, "string", `escape \b`},
		{`"a\fb"`, "string", `escape \f`},
		{`"a\nb"`, "string", `escape \n`},
		{`"a\rb"`, "string", `escape \r`},
		{`"a\tb"`, "string", `escape \t`},
		{`"Aé"`, "string", `escape \uXXXX`},
		{`"😀"`, "string", "escaped surrogate pair"},
		{"\"a\tb\"", "string", "raw TAB in string"},
		{`"é"`, "string", "raw 2-byte UTF-8"},
		{`"😀"`, "string", "raw 4-byte UTF-8"},
		{`"{\"k\":1}"`, "string", "string that looks like JSON"},
		{`"$v"`, "string", "string that looks like a variable"},
		{`"""block"""`, "string", "block string"},
		{"\"\"\"\n    line1\n      line2\n    \"\"\"", "string", "block string with common indent"},
		{"\"\"\"\n\n  x\n\n\"\"\"", "string", "block string with blank lines"},
		{`"""a \""" b"""`, "string", `block string with \"""`},
		{"\"\"\"a\r\nb\"\"\"", "string", "block string with CRLF"},
		{`"""say "hi" """`, "string", "block string with lone quotes"},
		{`"""back\slash\n"""`, "string", "block string with backslashes"},
		{"\"\"\"\n    first\n  \n    second\n    \"\"\"", "string", "block string with a whitespace-only line shorter than the common indent"},
		{"\"\"\"\n    first\n\t\n      third\n\"\"\"", "string", "block string with a TAB-only line and deeper indent"},
		{"\"\"\"  lead\n    a\n   b   \n\"\"\"", "string", "block string with text on the first line and trailing spaces"},
		{`0`, "int", "zero"},
		{`-0`, "int", "minus zero"},
		{`7`, "int", "small int"},
		{`-2147483648`, "int", "min int32"},
		{`2147483647`, "int", "max int32"},
		{`1.0`, "float", "float with zero fraction"},
		{`1e10`, "float", "float with exponent"},
		{`1E-2`, "float", "float with negative exponent"},
		{`-0.0`, "float", "negative zero float"},
		{`3.14159265358979323846`, "float", "long mantissa"},
		{`9007199254740993`, "float", "int literal 2^53+1 for Float"},
		{`true`, "bool", "true"},
		{`false`, "bool", "false"},
		{`RED`, "enum", "enum value"},
		{`null`, "null", "null literal"},
		{`"abc"`, "id", "ID as string"},
		{`123`, "id", "ID as int"},
		{`1234567890123456789012345678901234567890`, "json", "40 digit int for custom scalar"},
		{`{k: 1, z: [true, null, "x"], o: {e: RED}}`, "json", "object literal for custom scalar"},
		{`[1, 2.5, "s"]`, "json", "list literal for custom scalar"},
		{`2147483648`, "json", "2^31 for custom scalar"},
	}
	if thorough {
		s = append(s, generatedSpellings(3, 4)...)
	} else {
		s = append(s, generatedSpellings(2, 3)...)
	}
	return s
}

// generatedSpellings: every quoted string of <= maxQuoted atoms (quick 2,
// thorough 3), every block string of <= maxBlock atoms (quick 3, thorough 4),
// every int / float of a small literal grammar. The
// class of a generated spelling is the SET of atom kinds it uses, so that one
// root cause gives a handful of fingerprints instead of one per string.
func generatedSpellings(maxQuoted, maxBlock int) []spelling {
	var out []spelling
	type atom struct{ text, kind string }
	gen := func(atoms []atom, maxLen int, render func(body string) string, label string) {
		var rec func(cur []int)
		rec = func(cur []int) {
			if len(cur) > 0 {
				var sb strings.Builder
				kinds := map[string]bool{}
				for _, i := range cur {
					sb.WriteString(atoms[i].text)
					kinds[atoms[i].kind] = true
				}
				var ks []string
				for k := range kinds {
					if k != "plain" {
						ks = append(ks, k)
					}
				}
				sort.Strings(ks)
				out = append(out, spelling{render(sb.String()), "string", label + " with {" + strings.Join(ks, ", ") + "}"})
			}
			if len(cur) == maxLen {
				return
			}
			for i := range atoms {
				rec(append(cur, i))
			}
		}
		rec(nil)
	}
	quoted := []atom{{"a", "plain"}, {" ", "space"}, {`\"`, `\"`}, {`\\`, `\\`}, {`\/`, `\/`}, {`\n`, `\n`}, {`\t`, `\t`}, {`\u00e9`, `\uXXXX`},
		{"\t", "raw TAB"}, {"é", "raw UTF-8"}, {"$", "$"}, {"{", "{"}}
	gen(quoted, maxQuoted, func(b string) string { return `"` + b + `"` }, "generated quoted string")
	block := []atom{{"a", "plain"}, {" ", "space"}, {"\n", "LF"}, {"\r", "CR"}, {`\"""`, `\"""`}, {`"`, "quote"}, {`\`, "backslash"}, {"\t", "TAB"}}
	gen(block, maxBlock, func(b string) string { return `"""` + b + `"""` }, "generated block string")
	for _, sign := range []string{"", "-"} {
		for _, ip := range []string{"0", "1", "12", "907"} {
			out = append(out, spelling{sign + ip, "int", "generated int"})
			for _, fr := range []string{"", ".0", ".5", ".250", ".000001"} {
				for _, ex := range []string{"", "e1", "E-2", "e+3", "e0", "E10"} {
					if fr == "" && ex == "" {
						continue
					}
					out = append(out, spelling{sign + ip + fr + ex, "float", "generated float (fraction " + fmt.Sprint(fr != "") + ", exponent " + fmt.Sprint(ex != "") + ")"})
				}
			}
		}
	}
	return out
}

// position wraps a literal of a given kind into an argument list of echo.
type position struct {
	name  string
	kinds []string
	wrap  func(x string) string    // argument text with the value at the position
	vtype func(kind string) string // declared type of a variable used AT the position
}

func positions() []position {
	scalarType := map[string]string{"string": "String", "int": "Int", "float": "Float", "bool": "Boolean", "enum": "Color", "id": "ID", "json": "J", "null": "String"}
	return []position{
		{name: "direct argument", kinds: []string{"string", "int", "float", "bool", "enum", "id", "json", "null"},
			wrap: func(x string) string { return "" }, vtype: func(k string) string { return scalarType[k] }},
		{name: "list element", kinds: []string{"string", "null"},
			wrap: func(x string) string { return `l: [` + x + `, "z"]` }, vtype: func(k string) string { return "String" }},
		{name: "nested list element", kinds: []string{"int", "null"},
			wrap: func(x string) string { return `ll: [[1, ` + x + `], []]` }, vtype: func(k string) string { return "Int" }},
		{name: "input object field", kinds: []string{"string", "int", "float", "enum", "json", "null"},
			wrap: func(x string) string { return "" }, vtype: func(k string) string { return scalarType[k] }},
		{name: "nested input object field", kinds: []string{"string", "int", "json", "null"},
			wrap: func(x string) string { return "" }, vtype: func(k string) string { return scalarType[k] }},
		{name: "list inside input object", kinds: []string{"string", "null"},
			wrap: func(x string) string { return `o: {l: [` + x + `]}` }, vtype: func(k string) string { return "String" }},
		{name: "input object in list", kinds: []string{"string", "int", "null"},
			wrap: func(x string) string { return "" }, vtype: func(k string) string { return scalarType[k] }},
		// a single value where a list is expected (input coercion wraps it), at the
		// top level, below an input object, and as an item of a list of lists that
		// follows a null item
		{name: "single value for a list", kinds: []string{"string", "null"},
			wrap: func(x string) string { return `l: ` + x }, vtype: func(k string) string { return "[String]" }},
		{name: "single value for a list inside input object", kinds: []string{"string", "null"},
			wrap: func(x string) string { return `o: {l: ` + x + `, s: "sib"}` }, vtype: func(k string) string { return "[String]" }},
		{name: "single value after a null item in a list of lists", kinds: []string{"int"},
			wrap: func(x string) string { return `ll: [null, ` + x + `, [3]]` }, vtype: func(k string) string { return "[Int]" }},
		{name: "single value for a list after a null item in a list of objects", kinds: []string{"string"},
			wrap: func(x string) string { return `lon: [{s: "first"}, null, {l: ` + x + `}]` }, vtype: func(k string) string { return "[String]" }},
		{name: "whole list as value", kinds: []string{"string"},
			wrap: func(x string) string { return "" }, vtype: func(k string) string { return "[String]" }},
		{name: "whole object as value", kinds: []string{"string", "int"},
			wrap: func(x string) string { return "" }, vtype: func(k string) string { return "In" }},
	}
}

// argsFor renders the argument list for (position, kind, value text).
func argsFor(pos, kind, x string) string {
	arg := map[string]string{"string": "s", "int": "i", "float": "f", "bool": "b", "enum": "e", "id": "id", "json": "j", "null": "s"}[kind]
	switch pos {
	case "direct argument":
		return arg + ": " + x
	case "input object field":
		return "o: {" + arg + ": " + x + "}"
	case "nested input object field":
		return "o: {n: {" + arg + ": " + x + "}, s: \"sib\"}"
	case "input object in list":
		return "lo: [{" + arg + ": " + x + "}, {s: \"second\"}]"
	case "whole list as value":
		return "l: " + x
	case "whole object as value":
		return "o: " + x
	}
	return ""
}

type tcase struct {
	query  string
	vars   map[string]any
	hasVar bool
	form   string
	pos    string
	sp     spelling
	target string
}

func buildCases(thorough bool) []tcase {
	var out []tcase
	for _, target := range []string{"root", "entity"} {
		field := func(args string) string {
			if target == "root" {
				return "{ echo(" + args + ") }"
			}
			return "{ thing { echo(" + args + ") } }"
		}
		// two aliased fields, so that two variables can both sit at a direct argument
		field2 := func(args1, args2 string) string {
			if target == "root" {
				return "{ x: echo(" + args1 + ") y: echo(" + args2 + ") }"
			}
			return "{ thing { x: echo(" + args1 + ") y: echo(" + args2 + ") } }"
		}
		for _, p := range positions() {
			for _, sp := range spellings(thorough) {
				ok := false
				for _, k := range p.kinds {
					if k == sp.kind {
						ok = true
					}
				}
				if !ok {
					continue
				}
				value := sp.lit
				switch p.name {
				case "whole list as value":
					value = "[" + sp.lit + ", null, " + sp.lit + "]"
				case "whole object as value":
					if sp.kind == "string" {
						value = "{s: " + sp.lit + ", l: [" + sp.lit + "]}"
					} else {
						value = "{i: " + sp.lit + ", n: {i: " + sp.lit + "}}"
					}
				}
				render := func(x string) string {
					if w := p.wrap(x); w != "" {
						return w
					}
					return argsFor(p.name, sp.kind, x)
				}
				vt := p.vtype(sp.kind)
				// literal
				out = append(out, tcase{query: "query Q " + field(render(value)), form: "literal", pos: p.name, sp: sp, target: target})
				// the same literal inside a NAMED FRAGMENT (inlined before extraction: the
				// value is copied between documents first)
				if target == "root" {
					out = append(out, tcase{query: "query Q { ...F } fragment F on Query { echo(" + render(value) + ") }", form: "literal in a named fragment", pos: p.name, sp: sp, target: target})
				} else {
					out = append(out, tcase{query: "query Q { thing { ...F } } fragment F on Thing { echo(" + render(value) + ") }", form: "literal in a named fragment", pos: p.name, sp: sp, target: target})
				}
				// the literal stays a literal when its list / input object also holds a
				// variable (nothing is extracted): the planner imports it into the
				// subgraph operation as it is
				if sp.kind == "string" && (p.name == "input object field" || p.name == "list element") {
					args := "o: {s: " + value + ", e: $w}"
					if p.name == "list element" {
						args = "l: [" + value + ", $w]"
					}
					wt := map[string]string{"input object field": "Color", "list element": "String"}[p.name]
					wv := map[string]any{"input object field": "RED", "list element": "w"}[p.name]
					out = append(out, tcase{query: "query Q($w: " + wt + ") " + field(args), form: "literal beside a variable", pos: p.name, sp: sp, target: target, vars: map[string]any{"w": wv}})
				}
				// variable carrying the same JSON value
				out = append(out, tcase{query: "query Q($v: " + vt + ") " + field(render("$v")), hasVar: true, form: "variable", pos: p.name, sp: sp, target: target, vars: map[string]any{"__literal": value, "__type": vt}})
				// variable with default
				if sp.kind != "null" {
					out = append(out, tcase{query: "query Q($v: " + vt + " = " + value + ") " + field(render("$v")), form: "variable default", pos: p.name, sp: sp, target: target})
				}
				// the executed operation is the SECOND one of the document; the first one
				// declares the same variable name with another default
				if sp.kind != "null" {
					other := `"first"`
					if sp.kind != "string" {
						other = value
					}
					first := "query P($v: " + vt + " = " + other + ") " + field(render("$v")) + " "
					if sp.kind != "string" {
						first = "query P { __typename } "
					}
					out = append(out, tcase{query: first + "query Q($v: " + vt + " = " + value + ") " + field(render("$v")), form: "variable default, second operation of the document", pos: p.name, sp: sp, target: target})
				}
				if sp.lit == `"plain"` || sp.lit == "7" {
					// omitted optional variable and explicit null variable
					out = append(out, tcase{query: "query Q($v: " + vt + ") " + field(render("$v")), form: "omitted variable", pos: p.name, sp: sp, target: target})
					out = append(out, tcase{query: "query Q($v: " + vt + ") " + field(render("$v")), form: "explicit null variable", pos: p.name, sp: sp, target: target, vars: map[string]any{"v": nil}})
					// an explicit null stays null even when the variable has a default
					out = append(out, tcase{query: "query Q($v: " + vt + " = " + value + ") " + field(render("$v")), form: "explicit null for a variable with a default", pos: p.name, sp: sp, target: target, vars: map[string]any{"v": nil}})
					// variable names that collide with the canonical names handed out by the mapper
					if !strings.HasPrefix(p.name, "whole") && sp.kind == "string" {
						out = append(out, tcase{query: "query Q($b: " + vt + ", $a: String) " + field(strings.ReplaceAll(render("$v"), "$v", "$b")+", s: $a"), form: "variables named b then a", pos: p.name, sp: sp, target: target, vars: map[string]any{"__named": "b", "a": "second"}, hasVar: true})
					}
					// a variable that keeps its name because it sits INSIDE a list / object
					// value, named like the canonical name the mapper hands to the other one
					if !strings.HasPrefix(p.name, "whole") && sp.kind == "string" {
						at := strings.ReplaceAll(render("$v"), "$v", "$a")
						out = append(out, tcase{query: "query Q($a: " + vt + ", $z: String) " + field(at+", s: $z"), form: "variables named a then z", pos: p.name, sp: sp, target: target, vars: map[string]any{"__named": "a", "__other": "z"}, hasVar: true})
						out = append(out, tcase{query: "query Q($z: String, $a: " + vt + ") " + field("s: $z, "+at), form: "variables named z then a", pos: p.name, sp: sp, target: target, vars: map[string]any{"__named": "a", "__other": "z"}, hasVar: true})
					}
					out = append(out, tcase{query: "query Q($v: " + vt + ", $w: String) " + field(render("$v")+", s: $w"), form: "two variables one omitted", pos: p.name, sp: sp, target: target, vars: map[string]any{"v": nil}})
					// colliding names in non-canonical order with ONE of them omitted: an
					// omitted variable stays omitted, it never takes the other one's value
					if !strings.HasPrefix(p.name, "whole") && sp.kind == "string" {
						q := "query Q($b: " + vt + ", $a: String) " + field2(strings.ReplaceAll(render("$v"), "$v", "$b"), "s: $a")
						out = append(out, tcase{query: q, form: "variables named b then a, both given", pos: p.name, sp: sp, target: target, vars: map[string]any{"__named": "b", "a": "second"}, hasVar: true})
						out = append(out, tcase{query: q, form: "variables named b then a, b omitted", pos: p.name, sp: sp, target: target, vars: map[string]any{"__named": "b", "__omit": "b", "a": "second"}, hasVar: true})
						out = append(out, tcase{query: q, form: "variables named b then a, a omitted", pos: p.name, sp: sp, target: target, vars: map[string]any{"__named": "b", "__omit": "a", "a": "second"}, hasVar: true})
					}
				}
			}
		}
		// two literals in ONE operation at positions of the same type, one being a
		// string whose content is the JSON spelling of the other (a non-string):
		// they are different values and must stay different variables
		twin := func(arg, x, y, class string) {
			for _, pair := range [][2]string{{x, y}, {y, x}} {
				body := "x: echo(" + arg + ": " + pair[0] + ") y: echo(" + arg + ": " + pair[1] + ")"
				q := "query Q { " + body + " }"
				if target == "entity" {
					q = "query Q { thing { " + body + " } }"
				}
				out = append(out, tcase{query: q, form: "literal pair", pos: "two fields", sp: spelling{pair[0], "json", class}, target: target})
			}
		}
		twin("j", "1", `"1"`, "twin literals: int and its spelling as a string (custom scalar)")
		twin("j", "true", `"true"`, "twin literals: boolean and its spelling as a string (custom scalar)")
		twin("j", "null", `"null"`, "twin literals: null and its spelling as a string (custom scalar)")
		twin("j", "1.5", `"1.5"`, "twin literals: float and its spelling as a string (custom scalar)")
		twin("j", "[1]", `"[1]"`, "twin literals: list and its spelling as a string (custom scalar)")
		twin("j", "{k: 1}", `"{\"k\":1}"`, "twin literals: object and its spelling as a string (custom scalar)")
		twin("id", "1", `"1"`, "twin literals: int and its spelling as a string (ID)")
		twin("id", "null", `"null"`, "twin literals: null and its spelling as a string (ID)")
		twin("s", "null", `"null"`, "twin literals: null and its spelling as a string (String)")
		twin("e", "null", "RED", "twin literals: null and an enum value")
	}
	return out
}

type fail struct{ clause, site, detail string }

var rejectPos = regexp.MustCompile(`^input:\d+:\d+: `)
var rejectQuoted = regexp.MustCompile(`"[^"]*"`)

// rejectKind: the reference parser's message without position and names.
func rejectKind(msg string) string {
	m := rejectQuoted.ReplaceAllString(rejectPos.ReplaceAllString(firstLine(msg), ""), "_")
	if len(m) > 70 {
		m = m[:70]
	}
	return m
}

// normalizedVariables runs the engine's normalization sequence and returns the
// variables object exposed afterwards.
func normalizedVariables(schema *graphql.Schema, q string, vars []byte) ([]byte, error) {
	req := &graphql.Request{Query: q, OperationName: "Q"}
	if len(vars) > 0 {
		req.Variables = vars
	}
	res, err := req.Normalize(schema, seamFirst...)
	if err != nil {
		return nil, err
	}
	if !res.Successful {
		return nil, res.Errors
	}
	if vr, err := req.ValidateForSchema(schema); err != nil {
		return nil, err
	} else if !vr.Valid {
		return nil, vr.Errors
	}
	res, err = req.Normalize(schema, seamSecond...)
	if err != nil {
		return nil, err
	}
	if !res.Successful {
		return nil, res.Errors
	}
	return req.Variables, nil
}

func TestCheck(t *testing.T) {
	run := vk.Start("C15", "exploration")
	defer run.Finish()
	run.Rule("value spellings (strings with every escape, raw TAB / multi-byte UTF-8, block strings; ints; floats; booleans; enum; null; ID; custom scalar incl. 40 digit ints, objects, lists) x argument position (direct, list element, nested list, input object field, nested object, list in object, object in list, whole list, whole object) x form (literal, variable with the same JSON value, variable default, omitted variable, explicit null variable) x target (root field, entity field behind _entities); plus GENERATED spellings: every quoted string of <= 2 (thorough 3) atoms from {a, space, \\\", \\\\, \\/, \\n, \\t, \\u00e9, raw TAB, raw UTF-8, $, {}, every block string of <= 3 (thorough 4) atoms from {a, space, LF, CR, \\\"\"\", quote, backslash, TAB}, ints and floats of a small literal grammar; distinct = distinct echoed values")
	run.Assume("gqlparser's lexer/parser is the reference for what a literal denotes; only documents gqlparser accepts are judged",
		"the simulated subgraph echoes the canonical form (exact decimals, code point sequences, absent vs null) of what it received")
	s := fedlab.SArgs()
	u := fedlab.SArgsUniverse(s)
	schema, err := gqlparser.LoadSchema(&gast.Source{Input: s.SDL()})
	if err != nil {
		t.Fatal(err)
	}
	gschema, err := graphql.NewSchemaFromString(s.SDL())
	if err != nil {
		t.Fatal(err)
	}
	layout := fedlab.ByType(s, 2, func(r fedlab.FieldRef) int {
		if r.Type == "Thing" {
			return 1
		}
		return 0
	}, "base")
	lab, err := fedlab.NewLab(layout, u, fedlab.LabOptions{})
	if err != nil {
		t.Fatal(err)
	}
	cases := buildCases(run.Thorough())
	run.Bound("cases", len(cases))
	var rin *struct {
		Query string          `json:"query"`
		Vars  json.RawMessage `json:"vars"`
	}
	if run.Replay != "" {
		rin = &struct {
			Query string          `json:"query"`
			Vars  json.RawMessage `json:"vars"`
		}{}
		if err := run.ReplayInput(rin); err != nil {
			t.Fatal(err)
		}
	}
	// a failure that also occurs with the plainest value at the same position
	// and form is a defect of the position/form, not of the spelling
	controlFails := map[string]bool{}
	isControl := func(c tcase) bool { return c.sp.lit == `"plain"` || c.sp.lit == "7" }
	ctlKey := func(c tcase) string { return c.pos + "|" + c.form + "|" + c.target }
	// controls first
	var ordered []tcase
	for _, c := range cases {
		if isControl(c) {
			ordered = append(ordered, c)
		}
	}
	for _, c := range cases {
		if !isControl(c) {
			ordered = append(ordered, c)
		}
	}
	cases = ordered
	for ci, c := range cases {
		if rin == nil && !isControl(c) && !run.Mine(int64(ci)) {
			continue
		}
		if strings.HasPrefix(c.sp.lit, `"""`) && !blockIsOneToken(c.sp.lit) {
			// the reference parser is lenient here: by the specification's lexer the
			// first unescaped """ ends the token, so this text is not ONE block string
			run.Count("not_judged_block_string_is_not_one_token", 1)
			continue
		}
		if strings.HasPrefix(c.sp.lit, `"""`) && !blockOraclesAgree(c.sp.lit) {
			// two-oracle rule: the reference parser and an independent implementation
			// of the specification's BlockStringValue() disagree on this spelling
			run.Count("oracle_split_block_string", 1)
			continue
		}
		doc, errs := gqlparser.LoadQuery(schema, c.query)
		if errs != nil {
			run.Count("not_judged_gqlparser_rejects", 1)
			run.Count("not_judged_gqlparser_rejects: "+rejectKind(errs.Error()), 1)
			if rin == nil {
				run.Sample("rejected-by-gqlparser", map[string]any{"query": c.query, "error": errs.Error()})
			}
			continue
		}
		// variables: the JSON value of the literal, computed by the reference parser
		vars := map[string]any{}
		if c.hasVar && c.vars["__named"] != nil {
			vdoc, verr := parser.ParseQuery(&gast.Source{Input: "query Q($x: " + "String" + " = " + c.sp.lit + ") { echo }"})
			if verr != nil || len(vdoc.Operations) == 0 {
				run.Count("not_judged_literal_not_constant", 1)
				continue
			}
			named, other := c.vars["__named"].(string), "a"
			if o, _ := c.vars["__other"].(string); o != "" {
				other = o
			}
			vars[named] = refexec.LitValue(vdoc.Operations[0].VariableDefinitions[0].DefaultValue)
			vars[other] = "second"
			if om, _ := c.vars["__omit"].(string); om != "" {
				delete(vars, om)
			}
		} else if c.hasVar {
			lit := c.vars["__literal"].(string)
			vdoc, verr := parser.ParseQuery(&gast.Source{Input: "query Q($x: " + c.vars["__type"].(string) + " = " + lit + ") { echo }"})
			if verr != nil || len(vdoc.Operations) == 0 || len(vdoc.Operations[0].VariableDefinitions) == 0 {
				run.Count("not_judged_literal_not_constant", 1)
				continue
			}
			vars["v"] = refexec.LitValue(vdoc.Operations[0].VariableDefinitions[0].DefaultValue)
		} else {
			for k, v := range c.vars {
				vars[k] = v
			}
		}
		var vj []byte
		if len(vars) > 0 {
			vj, _ = json.Marshal(vars)
		}
		if rin != nil && (rin.Query != c.query || refexec.Canon(vars) != canonRaw(rin.Vars)) {
			continue
		}
		if !(isControl(c) && run.Shard() != 0) {
			run.Eval(1)
		}
		var fails []fail
		// reference echo
		refVars := map[string]any{}
		if len(vj) > 0 {
			d := json.NewDecoder(strings.NewReader(string(vj)))
			d.UseNumber()
			d.Decode(&refVars)
		}
		ref := refexec.Execute(schema, doc, fedlab.Mono{U: u}, refexec.Options{OperationName: "Q", Variables: refVars, Root: fedlab.RootObj("Query")})
		out, reqs, eerr := lab.Exec(c.query, "Q", vj)
		class := c.sp.class + " / " + c.pos + " / " + c.form
		if eerr != nil {
			fails = append(fails, fail{"a spec-valid operation is executed", "engine rejects the operation", firstLine(eerr.Error())})
		} else {
			m, derr := refexec.DecodeObject(out)
			if derr != nil {
				fails = append(fails, fail{"the response is JSON", "response", string(out)})
			} else if refexec.Canon(m["data"]) != refexec.Canon(ref.Data) {
				fails = append(fails, fail{"the value received by the subgraph for the argument equals the value supplied", "argument value", fmt.Sprintf("echo of what the subgraph received: %s\necho of what the client supplied:     %s", refexec.Canon(m["data"]), refexec.Canon(ref.Data))})
			}
			for _, r := range reqs {
				for _, p := range r.Problems {
					fails = append(fails, fail{"the value reaches the subgraph as valid JSON in a valid subgraph operation", problemSite(p), p + "\nbody: " + r.RawBody})
				}
			}
		}
		nv, nerr := normalizedVariables(gschema, c.query, vj)
		if nerr == nil && len(nv) > 0 && !json.Valid(nv) {
			fails = append(fails, fail{"the variables object exposed after normalization is always valid JSON", "variables after normalization", fmt.Sprintf("%q", nv)})
		}
		if rin != nil {
			fmt.Printf("query %s\nvariables %s\ngateway %s\nreference %s\nnormalized variables %q\n", c.query, vj, out, ref.JSON(), nv)
			for _, r := range reqs {
				fmt.Printf("  -> %s %s\n", r.Host, r.RawBody)
			}
		}
		outcome := "ok"
		if len(fails) > 0 {
			outcome = "fail"
		}
		if run.Outcome(refexec.Canon(ref.Data) + outcome) {
			run.Sample(c.sp.kind+"/"+c.form, map[string]any{"query": c.query, "variables": vars, "echo": ref.Data, "outcome": outcome})
		}
		if isControl(c) {
			for _, fl := range fails {
				controlFails[ctlKey(c)+"|"+fl.clause] = true
			}
		}
		if isControl(c) && rin == nil && run.Shard() != 0 {
			continue // controls are evaluated by every shard but reported once
		}
		for _, fl := range fails {
			if rin != nil {
				fmt.Printf("FAILED %s [%s]\n%s\n", fl.clause, fl.site, fl.detail)
			}
			cls := classOf(c)
			if controlFails[ctlKey(c)+"|"+fl.clause] {
				pc := "inside a list or input object literal"
				if c.pos == "direct argument" || strings.HasPrefix(c.pos, "whole") {
					pc = c.pos
				}
				cls = "any value / " + c.form + " / " + pc
			}
			run.Violate(vk.Violation{Clause: fl.clause, Site: fl.site, Class: cls,
				Detail: fmt.Sprintf("case %s\nquery %s\nvariables %s\n%s", class, c.query, vj, fl.detail),
				Input:  map[string]any{"query": c.query, "vars": vars}})
		}
	}
}

// classOf: the spelling class and whether the value travels as literal or
// variable; position and target are deliberately not part of the fingerprint.
func classOf(c tcase) string {
	form := c.form
	if form == "variable default" {
		form = "literal"
	}
	return c.sp.class + " / " + form
}

func canonRaw(b json.RawMessage) string {
	if len(b) == 0 || string(b) == "null" {
		return refexec.Canon(map[string]any{})
	}
	s, _ := refexec.CanonJSON(b)
	return s
}

func firstLine(s string) string {
	if i := strings.IndexByte(s, '\n'); i >= 0 {
		return s[:i]
	}
	return s
}

func problemSite(p string) string {
	for _, k := range []string{"not JSON", "does not parse", "not valid for the subgraph schema"} {
		if strings.Contains(p, k) {
			return k
		}
	}
	return "other"
}

// The engine's admission sequence is read from the tree under test (see
// internal/engineseam) instead of being copied here.
var seam, seamFirst, seamSecond = engineseam.Must()

// blockIsOneToken: lexing lit by the specification (a BlockStringCharacter is
// any character except """ and \""", the first unescaped """ closes) consumes
// exactly the whole text.
func blockIsOneToken(lit string) bool {
	if len(lit) < 6 || !strings.HasPrefix(lit, `"""`) {
		return false
	}
	i := 3
	for i < len(lit) {
		if strings.HasPrefix(lit[i:], "\\\"\"\"") {
			i += 4
			continue
		}
		if strings.HasPrefix(lit[i:], `"""`) {
			return i+3 == len(lit)
		}
		i++
	}
	return false
}

// specBlockStringValue implements BlockStringValue() of the GraphQL
// specification (October 2021, section 2.9.4) on the raw text between the
// triple quotes.
func specBlockStringValue(raw string) string {
	raw = strings.ReplaceAll(raw, `\"""`, `"""`)
	raw = strings.ReplaceAll(raw, "\r\n", "\n")
	raw = strings.ReplaceAll(raw, "\r", "\n")
	lines := strings.Split(raw, "\n")
	common := -1
	for i, ln := range lines {
		if i == 0 {
			continue
		}
		indent := len(ln) - len(strings.TrimLeft(ln, " \t"))
		if indent < len(ln) && (common == -1 || indent < common) {
			common = indent
		}
	}
	if common > 0 {
		for i := 1; i < len(lines); i++ {
			if len(lines[i]) >= common {
				lines[i] = lines[i][common:]
			} else {
				lines[i] = ""
			}
		}
	}
	blank := func(s string) bool { return strings.TrimLeft(s, " \t") == "" }
	for len(lines) > 0 && blank(lines[0]) {
		lines = lines[1:]
	}
	for len(lines) > 0 && blank(lines[len(lines)-1]) {
		lines = lines[:len(lines)-1]
	}
	return strings.Join(lines, "\n")
}

var blockAgree = map[string]bool{}

func blockOraclesAgree(lit string) bool {
	if v, ok := blockAgree[lit]; ok {
		return v
	}
	ok := false
	if len(lit) >= 6 {
		want := specBlockStringValue(lit[3 : len(lit)-3])
		if d, err := parser.ParseQuery(&gast.Source{Input: "query Q($x: String = " + lit + ") { echo }"}); err == nil && len(d.Operations) == 1 && len(d.Operations[0].VariableDefinitions) == 1 {
			if got, _ := refexec.LitValue(d.Operations[0].VariableDefinitions[0].DefaultValue).(string); got == want {
				ok = true
			}
		}
	}
	blockAgree[lit] = ok
	return ok
}
