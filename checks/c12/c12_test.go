// Check C12: subscription delivery is ordered, exact, and stops at completion.
// Engine S on the real, overlay-instrumented resolve package; harness, scenarios
// and the R4s oracle (DESIGN.md appendix A.3) live in verif/internal/subharness,
// shared with C13. This check judges the C12 clauses only.
package c12

import (
	"testing"

	"verif/internal/subharness"
)

func TestCheck(t *testing.T) { subharness.RunWith(t, "C12", filterPart) }
