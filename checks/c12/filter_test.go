package c12

// Part E of C12: "one message per upstream event that passes its filter" for the
// REAL filter evaluation (resolve.SubscriptionFilter.SkipEvent), beyond the
// single-value IN of the scheduler scenarios. Bounded exhaustive, sequential:
// every filter tree of a small grammar (IN with 1-3 value templates out of
// variable / array-valued variable / static / two-segment templates; AND, OR, NOT,
// nesting depth <= 2) x variable assignment x event value, judged against a
// boring reference evaluation; a subset also end to end through the real
// Resolver delivery path (trigger fan-out -> evalFilter -> writer).
//
// Reference semantics (subscription_filter.go comments and tests): an IN leaf
// passes an event iff the event has the field and its value equals one of the
// values: a variable or static value must have the same JSON type and the same
// value, an array-valued variable stands for its elements, a template of several
// segments is compared byte-wise with the raw field value; AND / OR / NOT as
// usual (empty AND passes, empty OR does not).

import (
	"context"
	"encoding/json"
	"fmt"
	"io"
	"net/http"
	"sort"
	"strings"
	"sync"
	"testing/synctest"

	"github.com/cespare/xxhash/v2"
	"github.com/wundergraph/astjson"

	"github.com/wundergraph/graphql-go-tools/v2/pkg/engine/resolve"

	"verif/internal/vk"
)

const (
	clMust   = "each subscriber receives one message per upstream event that passes its filter"
	clMay    = "a subscriber only receives events its own upstream emitted after it subscribed and that pass its filter"
	fClass   = "subscription filter evaluation"
	fScen    = "E-filter"
	fieldID  = "id"
	fieldAlt = "k" // always 1 in every event
)

// ---- values

type jval struct {
	typ string // string number boolean null
	raw string // string content / literal text
}

func parseScalar(js string) jval {
	var v any
	d := json.NewDecoder(strings.NewReader(js))
	d.UseNumber()
	if err := d.Decode(&v); err != nil {
		panic("filter menu: " + js)
	}
	switch x := v.(type) {
	case string:
		return jval{"string", x}
	case json.Number:
		return jval{"number", x.String()}
	case bool:
		return jval{"boolean", fmt.Sprint(x)}
	case nil:
		return jval{"null", "null"}
	}
	panic("filter menu: not a scalar " + js)
}

// ---- value templates (atoms)

type atom struct {
	kind   string   // var | array | static | multi
	name   string   // label
	vars   []string // variable names (var, array: one; multi: several)
	static string   // JSON text of a static value
}

var (
	atA   = atom{kind: "var", name: "$a", vars: []string{"a"}}
	atB   = atom{kind: "var", name: "$b", vars: []string{"b"}}
	atArr = atom{kind: "array", name: "$arr", vars: []string{"arr"}}
	atS1  = atom{kind: "static", name: "1", static: `1`}
	atSx  = atom{kind: "static", name: `"x"`, static: `"x"`}
	atSy  = atom{kind: "static", name: `"y"`, static: `"y"`}
	atM   = atom{kind: "multi", name: "$a$b", vars: []string{"a", "b"}}
	atoms = []atom{atA, atB, atArr, atS1, atSx, atSy, atM}
)

func (a atom) template() resolve.InputTemplate {
	vs := func(name string) resolve.TemplateSegment {
		return resolve.TemplateSegment{SegmentType: resolve.VariableSegmentType, VariableKind: resolve.ContextVariableKind,
			VariableSourcePath: []string{name}, Renderer: resolve.NewPlainVariableRenderer()}
	}
	switch a.kind {
	case "static":
		return resolve.InputTemplate{Segments: []resolve.TemplateSegment{{SegmentType: resolve.StaticSegmentType, Data: []byte(a.static)}}}
	case "multi":
		var t resolve.InputTemplate
		for _, v := range a.vars {
			t.Segments = append(t.Segments, vs(v))
		}
		return t
	}
	return resolve.InputTemplate{Segments: []resolve.TemplateSegment{vs(a.vars[0])}}
}

// assignment of the variables: JSON text per variable
type assignment struct {
	name string
	vars map[string]string // a, b scalars; arr array
}

func (as assignment) json() string {
	return fmt.Sprintf(`{"a":%s,"b":%s,"arr":%s}`, as.vars["a"], as.vars["b"], as.vars["arr"])
}

func assignments() []assignment {
	mk := func(a, b, arr string) assignment {
		return assignment{name: fmt.Sprintf("a=%s b=%s arr=%s", a, b, arr), vars: map[string]string{"a": a, "b": b, "arr": arr}}
	}
	return []assignment{
		mk(`1`, `2`, `[1,2]`),
		mk(`"x"`, `"y"`, `["x","y"]`),
		mk(`1`, `"x"`, `[1,"x"]`),
		mk(`"x"`, `1`, `["y",2]`),
		mk(`2`, `1`, `[2]`),
	}
}

// rendering of an atom under the plain renderer (strings without quotes)
func (a atom) plain(as assignment) string {
	var b strings.Builder
	for _, v := range a.vars {
		js := as.vars[v]
		if strings.HasPrefix(js, "[") {
			b.WriteString(js)
		} else {
			b.WriteString(parseScalar(js).raw)
		}
	}
	if a.kind == "static" {
		return a.static
	}
	return b.String()
}

// elems: the typed values an atom stands for (not for multi)
func (a atom) elems(as assignment) []jval {
	switch a.kind {
	case "static":
		return []jval{parseScalar(a.static)}
	case "var":
		return []jval{parseScalar(as.vars[a.vars[0]])}
	case "array":
		var raw []json.RawMessage
		_ = json.Unmarshal([]byte(as.vars[a.vars[0]]), &raw)
		var out []jval
		for _, r := range raw {
			out = append(out, parseScalar(string(r)))
		}
		return out
	}
	return nil
}

func (a atom) matches(ev jval, as assignment) bool {
	if a.kind == "multi" {
		return ev.raw == a.plain(as)
	}
	for _, e := range a.elems(as) {
		if e == ev {
			return true
		}
	}
	return false
}

// ---- events

type event struct {
	name    string
	present bool
	val     jval
	js      string
}

func events() []event {
	var out []event
	for _, js := range []string{`1`, `2`, `12`, `"x"`, `"y"`, `"xy"`, `"1"`, `null`, `true`} {
		out = append(out, event{name: js, present: true, val: parseScalar(js), js: js})
	}
	out = append(out, event{name: "(field missing)"})
	return out
}

func (e event) payload(n int) string {
	if !e.present {
		return fmt.Sprintf(`{"data":{"k":1,"n":%d}}`, n)
	}
	return fmt.Sprintf(`{"data":{"id":%s,"k":1,"n":%d}}`, e.js, n)
}

// ---- filter trees

type ftree struct {
	op    string // in and or not
	field string
	vals  []atom
	kids  []*ftree
}

func in(field string, vals ...atom) *ftree { return &ftree{op: "in", field: field, vals: vals} }
func and(k ...*ftree) *ftree               { return &ftree{op: "and", kids: k} }
func or(k ...*ftree) *ftree                { return &ftree{op: "or", kids: k} }
func not(k *ftree) *ftree                  { return &ftree{op: "not", kids: []*ftree{k}} }

func (t *ftree) String() string {
	switch t.op {
	case "in":
		var n []string
		for _, v := range t.vals {
			n = append(n, v.name)
		}
		return fmt.Sprintf("IN(%s; %s)", t.field, strings.Join(n, ", "))
	case "not":
		return "NOT(" + t.kids[0].String() + ")"
	}
	var n []string
	for _, k := range t.kids {
		n = append(n, k.String())
	}
	return strings.ToUpper(t.op) + "(" + strings.Join(n, ", ") + ")"
}

func (t *ftree) build() *resolve.SubscriptionFilter {
	switch t.op {
	case "in":
		f := &resolve.SubscriptionFieldFilter{FieldPath: []string{"data", t.field}}
		for _, v := range t.vals {
			f.Values = append(f.Values, v.template())
		}
		return &resolve.SubscriptionFilter{In: f}
	case "not":
		return &resolve.SubscriptionFilter{Not: t.kids[0].build()}
	}
	kids := []resolve.SubscriptionFilter{}
	for _, k := range t.kids {
		kids = append(kids, *k.build())
	}
	if t.op == "and" {
		return &resolve.SubscriptionFilter{And: kids}
	}
	return &resolve.SubscriptionFilter{Or: kids}
}

// passes is the reference evaluation.
func (t *ftree) passes(e event, as assignment) bool {
	switch t.op {
	case "in":
		ev, present := e.val, e.present
		if t.field == fieldAlt {
			ev, present = jval{"number", "1"}, true
		}
		if !present {
			return false
		}
		for _, v := range t.vals {
			if v.matches(ev, as) {
				return true
			}
		}
		return false
	case "not":
		return !t.kids[0].passes(e, as)
	case "and":
		for _, k := range t.kids {
			if !k.passes(e, as) {
				return false
			}
		}
		return true
	}
	for _, k := range t.kids {
		if k.passes(e, as) {
			return true
		}
	}
	return false
}

func (t *ftree) leaves() []*ftree {
	if t.op == "in" {
		return []*ftree{t}
	}
	var out []*ftree
	for _, k := range t.kids {
		out = append(out, k.leaves()...)
	}
	return out
}

func trees() []*ftree {
	var out []*ftree
	// every IN over 1..3 distinct value templates, in every order
	n := len(atoms)
	for i := 0; i < n; i++ {
		out = append(out, in(fieldID, atoms[i]))
		for j := 0; j < n; j++ {
			if j == i {
				continue
			}
			out = append(out, in(fieldID, atoms[i], atoms[j]))
			for k := 0; k < n; k++ {
				if k == i || k == j {
					continue
				}
				out = append(out, in(fieldID, atoms[i], atoms[j], atoms[k]))
			}
		}
	}
	ls := func() []*ftree {
		return []*ftree{in(fieldID, atA), in(fieldID, atB), in(fieldID, atA, atB), in(fieldID, atSx, atSy), in(fieldAlt, atS1), in(fieldAlt, atom{kind: "static", name: "2", static: `2`})}
	}
	out = append(out, and(), or())
	for i := range ls() {
		out = append(out, not(ls()[i]))
		for j := range ls() {
			out = append(out, and(ls()[i], ls()[j]), or(ls()[i], ls()[j]))
		}
	}
	sub := func() []*ftree { l := ls(); return []*ftree{l[0], l[2], l[3], l[5]} }
	for i := range sub() {
		for j := range sub() {
			out = append(out, not(and(sub()[i], sub()[j])), not(or(sub()[i], sub()[j])), and(sub()[i], not(sub()[j])), or(sub()[i], not(sub()[j])))
			for k := range sub() {
				out = append(out, and(sub()[i], or(sub()[j], sub()[k])), or(sub()[i], and(sub()[j], sub()[k])))
			}
		}
	}
	return out
}

// ---- evaluation through the real code

func filterCtx(as assignment) *resolve.Context {
	c := resolve.NewContext(context.Background())
	c.Variables = astjson.MustParseBytes([]byte(as.json()))
	return c
}

type fFinding struct{ clause, site, detail string }

// classify names the structural class of a wrong verdict of one IN leaf.
func classify(leaf *ftree, e event, as assignment, delivered bool) (clause, site, shrunk string) {
	ev := e.val
	if leaf.field == fieldAlt {
		ev = jval{"number", "1"}
	}
	if !delivered {
		// dropped although some value matches: shrink the leaf with the REAL code (drop
		// values while the event is still dropped and still passes by the reference), then
		// name what stands before the matching value
		vals := append([]atom(nil), leaf.vals...)
		for i := 0; i < len(vals); {
			cand := append(append([]atom(nil), vals[:i]...), vals[i+1:]...)
			l := in(leaf.field, cand...)
			if d, err := evalDirect(l, as, e); len(cand) > 0 && err == nil && !d && l.passes(e, as) {
				vals = cand
			} else {
				i++
			}
		}
		m := -1
		for i, v := range vals {
			if v.matches(ev, as) {
				m = i
				break
			}
		}
		switch {
		case m < 0:
			return clMust, "IN drops an event that passes", in(leaf.field, vals...).String()
		case m == 0:
			return clMust, fmt.Sprintf("IN drops an event that equals its first value (%s template, %s event value)", vals[0].kind, ev.typ), in(leaf.field, vals...).String()
		}
		other := false
		for _, p := range vals[:m] {
			for _, el := range p.elems(as) {
				if el.typ != ev.typ {
					other = true
				}
			}
		}
		if other {
			return clMust, "IN drops an event that equals a later value when an earlier value has another JSON type", in(leaf.field, vals...).String()
		}
		return clMust, fmt.Sprintf("IN drops an event that equals a later value when an earlier value of the same JSON type does not match (%s event value)", ev.typ), in(leaf.field, vals...).String()
	}
	// delivered although no value matches
	concat := ""
	for i, v := range leaf.vals {
		concat += v.plain(as)
		if i > 0 && e.present && concat == ev.raw {
			return clMay, "IN passes an event that equals the concatenation of the renderings of its first values", leaf.String()
		}
	}
	return clMay, fmt.Sprintf("IN passes an event that equals none of its values (%s event value)", ev.typ), leaf.String()
}

func evalDirect(t *ftree, as assignment, e event) (delivered bool, err error) {
	skip, err := t.build().SkipEvent(filterCtx(as), []byte(e.payload(0)))
	return !skip, err
}

// judge compares one verdict with the reference; a wrong verdict of a tree is
// attributed to the leaf that is wrong on the same input, if there is one.
func judge(t *ftree, as assignment, e event, delivered bool, err error, how string) []fFinding {
	what := fmt.Sprintf("%s: filter %s, variables %s, event field %s", how, t, as.json(), e.name)
	if err != nil {
		return []fFinding{{clMust, "filter evaluation returns an error", fmt.Sprintf("%s: error %v", what, err)}}
	}
	want := t.passes(e, as)
	if delivered == want {
		return nil
	}
	verdict := map[bool]string{true: "delivered", false: "dropped"}
	for _, leaf := range t.leaves() {
		ld, lerr := evalDirect(leaf, as, e)
		if lerr == nil && ld != leaf.passes(e, as) {
			cl, site, shrunk := classify(leaf, e, as, ld)
			return []fFinding{{cl, site, fmt.Sprintf("%s: %s, the reference says %s (leaf %s is %s; shrunk with the real code to %s)", what, verdict[delivered], verdict[want], leaf, verdict[ld], shrunk)}}
		}
	}
	cl := clMust
	if delivered {
		cl = clMay
	}
	shape := t.op
	if len(t.kids) > 0 && t.kids[len(t.kids)-1].op != "in" {
		shape += " over " + t.kids[len(t.kids)-1].op
	}
	return []fFinding{{cl, "connective " + strings.ToUpper(shape) + " combines correct leaves wrongly", fmt.Sprintf("%s: %s, the reference says %s", what, verdict[delivered], verdict[want])}}
}

// ---- end to end: one subscriber with the filter, the source emits every event

type e2eSource struct {
	mu sync.Mutex
	up resolve.SubscriptionUpdater
}

func (s *e2eSource) HashTriggerInput(input []byte, xxh *xxhash.Digest) error {
	_, err := xxh.Write(input)
	return err
}
func (s *e2eSource) Start(ctx *resolve.Context, h http.Header, input []byte, up resolve.SubscriptionUpdater) error {
	s.mu.Lock()
	s.up = up
	s.mu.Unlock()
	return nil
}

type e2eWriter struct {
	mu   sync.Mutex
	buf  []byte
	msgs []string
}

func (w *e2eWriter) Write(p []byte) (int, error) {
	w.mu.Lock()
	w.buf = append(w.buf, p...)
	w.mu.Unlock()
	return len(p), nil
}
func (w *e2eWriter) Flush() error {
	w.mu.Lock()
	w.msgs = append(w.msgs, string(w.buf))
	w.buf = nil
	w.mu.Unlock()
	return nil
}
func (w *e2eWriter) Complete()        {}
func (w *e2eWriter) Heartbeat() error { return nil }
func (w *e2eWriter) Error([]byte)     {}

type e2eErr struct{}

func (e2eErr) WriteError(ctx *resolve.Context, err error, res *resolve.GraphQLResponse, w io.Writer) {
	_, _ = w.Write([]byte("ERR:" + err.Error()))
	if f, ok := w.(interface{ Flush() error }); ok {
		_ = f.Flush()
	}
}

// evalE2E returns, per event index, whether it was delivered to the subscriber.
func evalE2E(t *ftree, as assignment, evs []event) ([]bool, string) {
	got, problem := evalE2EShared(t, []assignment{as}, evs)
	if got == nil {
		return nil, problem
	}
	return got[0], problem
}

// evalE2EShared subscribes one subscriber per assignment on ONE trigger; all of them
// use the SAME plan object (a cached plan), hence one *SubscriptionFilter, each with its
// own variables. Returns delivered[subscriber][event].
func evalE2EShared(t *ftree, ass []assignment, evs []event) ([][]bool, string) {
	rctx, cancel := context.WithCancel(context.Background())
	defer cancel()
	r := resolve.New(rctx, resolve.ResolverOptions{MaxConcurrency: 8, AsyncErrorWriter: e2eErr{}})
	src := &e2eSource{}
	plan := &resolve.GraphQLSubscription{
		Trigger: resolve.GraphQLSubscriptionTrigger{Source: src, SourceName: "sg",
			InputTemplate:  resolve.InputTemplate{Segments: []resolve.TemplateSegment{{SegmentType: resolve.StaticSegmentType, Data: []byte(`{"in":"f"}`)}}},
			PostProcessing: resolve.PostProcessingConfiguration{SelectResponseDataPath: []string{"data"}, SelectResponseErrorsPath: []string{"errors"}}},
		Response: &resolve.GraphQLResponse{Data: &resolve.Object{Fields: []*resolve.Field{{Name: []byte("n"), Value: &resolve.Integer{Path: []string{"n"}}}}},
			Fetches: resolve.Sequence(), Info: &resolve.GraphQLResponseInfo{}},
		Filter: t.build(),
	}
	var ws []*e2eWriter
	for i, as := range ass {
		w := &e2eWriter{}
		ws = append(ws, w)
		id := resolve.SubscriptionIdentifier{ConnectionID: resolve.ConnectionID(i + 1), SubscriptionID: 1}
		if err := r.AsyncResolveGraphQLSubscription(filterCtx(as), plan, w, id); err != nil {
			return nil, "subscribe: " + err.Error()
		}
		synctest.Wait()
	}
	src.mu.Lock()
	up := src.up
	src.mu.Unlock()
	if up == nil {
		return nil, "upstream not started"
	}
	for i, e := range evs {
		up.Update([]byte(e.payload(i)))
		synctest.Wait()
	}
	for i := range ass {
		_ = r.UnsubscribeSubscription(resolve.SubscriptionIdentifier{ConnectionID: resolve.ConnectionID(i + 1), SubscriptionID: 1})
	}
	cancel()
	synctest.Wait()
	problem := ""
	out := make([][]bool, len(ass))
	for si, w := range ws {
		got := make([]bool, len(evs))
		for _, m := range w.msgs {
			var n int
			if _, err := fmt.Sscanf(m, `{"data":{"n":%d}}`, &n); err != nil || n < 0 || n >= len(evs) {
				problem = "unexpected message " + m
				continue
			}
			if got[n] {
				problem = fmt.Sprintf("event %d delivered twice", n)
			}
			got[n] = true
		}
		out[si] = got
	}
	return out, problem
}

func e2eTrees() []*ftree {
	return []*ftree{in(fieldID, atA), in(fieldID, atB), in(fieldID, atA, atB), in(fieldID, atB, atA), in(fieldID, atArr), in(fieldID, atSx, atSy),
		in(fieldID, atA, atB, atM), in(fieldID, atS1, atA, atB), not(in(fieldID, atA, atB)), and(in(fieldID, atA, atB), in(fieldAlt, atS1)), or(in(fieldID, atA), in(fieldID, atSx, atSy))}
}

// filterPart is part E of C12.
func filterPart(run *vk.Run, expired func() bool) {
	ts, as, evs := trees(), assignments(), events()
	e2e := e2eTrees()
	run.Bound("E:filter_trees", len(ts))
	run.Bound("E:variable_assignments", len(as))
	run.Bound("E:event_values", len(evs))
	run.Bound("E:end_to_end_filter_trees", len(e2e))
	confirmed := map[string]bool{}
	record := func(f fFinding, input map[string]any, again func() []fFinding) {
		for n := 0; n < 5 && !confirmed[f.clause+f.site]; n++ { // obligation (c), once per fingerprint
			hit := false
			for _, g := range again() {
				if g.clause == f.clause && g.site == f.site {
					hit = true
				}
			}
			if !hit {
				run.Count("unstable_violation_not_recorded", 1)
				return
			}
		}
		confirmed[f.clause+f.site] = true
		run.Violate(vk.Violation{Clause: f.clause, Site: f.site, Class: fClass, Detail: "part E (real SubscriptionFilter.SkipEvent against the reference evaluation): " + f.detail, Input: input})
	}
	shared := []*ftree{in(fieldID, atA), in(fieldID, atA, atB), not(in(fieldID, atA)), in(fieldID, atArr)}
	groups := [][]int{{0, 1, 4}, {4, 1, 0}, {0, 4}, {4, 0}, {1, 3}}
	sharedFindings := func(ti, gi int) []fFinding {
		g := groups[gi]

		var ga []assignment
		for _, i := range g {
			ga = append(ga, as[i])
		}
		got, problem := evalE2EShared(shared[ti], ga, evs)
		var fs []fFinding
		if problem != "" || got == nil {
			fs = append(fs, fFinding{clMust, "end to end delivery problem", fmt.Sprintf("shared filter %s: %s", shared[ti], problem)})
		}
		for si := range got {
			for j := range got[si] {
				want := shared[ti].passes(evs[j], ga[si])
				if got[si][j] == want {
					continue
				}
				// right for the subscriber alone, wrong next to the others: the verdict is not its own
				if alone, _ := evalDirect(shared[ti], ga[si], evs[j]); alone == want {
					cl, v := clMust, "dropped"
					if got[si][j] {
						cl, v = clMay, "delivered"
					}
					fs = append(fs, fFinding{cl, "subscribers sharing one filter object with different variables: an event is " + v + " by another subscriber's verdict",
						fmt.Sprintf("filter %s shared by %d subscribers on one trigger; subscriber #%d with variables %s: event field %s is %s, alone (and by the reference) it is not", shared[ti], len(ga), si+1, ga[si].json(), evs[j].name, v)})
				} else {
					fs = append(fs, judge(shared[ti], ga[si], evs[j], got[si][j], nil, "end to end, shared filter")...)
				}
			}
		}
		return fs
	}
	if run.Replay != "" {
		var inp struct {
			Scenario            string `json:"scenario"`
			Tree, Assign, Event int
			E2E                 bool `json:"e2e"`
			Shared              bool `json:"shared"`
		}
		if err := run.ReplayInput(&inp); err != nil || inp.Scenario != fScen {
			return
		}
		for i := 0; i < 5; i++ {
			var fs []fFinding
			if inp.Shared {
				fs = sharedFindings(inp.Tree, inp.Assign)
				fmt.Printf("replay %d: shared filter %s, subscriber group %v: %d findings\n", i, shared[inp.Tree], groups[inp.Assign], len(fs))
			} else if inp.E2E {
				got, problem := evalE2E(e2e[inp.Tree], as[inp.Assign], evs)
				fmt.Printf("replay %d: end to end %s, %s: delivered %v %s\n", i, e2e[inp.Tree], as[inp.Assign].json(), got, problem)
				for j := range got {
					fs = append(fs, judge(e2e[inp.Tree], as[inp.Assign], evs[j], got[j], nil, "end to end")...)
				}
			} else {
				d, err := evalDirect(ts[inp.Tree], as[inp.Assign], evs[inp.Event])
				fmt.Printf("replay %d: %s, %s, event %s: delivered=%v err=%v\n", i, ts[inp.Tree], as[inp.Assign].json(), evs[inp.Event].name, d, err)
				fs = judge(ts[inp.Tree], as[inp.Assign], evs[inp.Event], d, err, "SkipEvent")
			}
			for _, f := range fs {
				fmt.Printf("  FAILED [%s] site=%q\n    %s\n", f.clause, f.site, f.detail)
				run.Violate(vk.Violation{Clause: f.clause, Site: f.site, Class: fClass, Detail: f.detail})
			}
		}
		run.Eval(5)
		return
	}
	classes := map[string]int64{}
	for ti, t := range ts {
		if !run.Mine(int64(ti)) {
			continue
		}
		if expired() {
			run.Cap("part E stopped by the internal deadline")
			return
		}
		for ai, a := range as {
			for ei, e := range evs {
				d, err := evalDirect(t, a, e)
				run.Eval(1)
				want := t.passes(e, a)
				shape := "IN with 1 value"
				switch {
				case t.op == "in" && len(t.vals) > 1:
					shape = "IN with several values"
				case t.op != "in":
					shape = "connective"
				}
				cls := fmt.Sprintf("%s: reference %v, real %v", shape, map[bool]string{true: "passes", false: "drops"}[want], map[bool]string{true: "passes", false: "drops"}[d])
				classes[cls]++
				run.Outcome(fScen + " " + t.op + fmt.Sprint(len(t.vals), len(t.kids)) + " " + cls)
				ti, ai, ei := ti, ai, ei
				for _, f := range judge(t, a, e, d, err, "SkipEvent") {
					record(f, map[string]any{"scenario": fScen, "tree": ti, "assign": ai, "event": ei}, func() []fFinding {
						d, err := evalDirect(ts[ti], as[ai], evs[ei])
						return judge(ts[ti], as[ai], evs[ei], d, err, "SkipEvent")
					})
				}
			}
		}
	}
	for ti, t := range e2e {
		for ai, a := range as {
			if !run.Mine(int64(ti*len(as) + ai)) {
				continue
			}
			if expired() {
				run.Cap("part E stopped by the internal deadline")
				return
			}
			ti, ai := ti, ai
			all := func() []fFinding {
				got, problem := evalE2E(e2e[ti], as[ai], evs)
				var fs []fFinding
				if problem != "" || got == nil {
					fs = append(fs, fFinding{clMust, "end to end delivery problem", fmt.Sprintf("filter %s, variables %s: %s", e2e[ti], as[ai].json(), problem)})
				}
				for j := range got {
					fs = append(fs, judge(e2e[ti], as[ai], evs[j], got[j], nil, "end to end through the Resolver")...)
				}
				return fs
			}
			run.Eval(int64(len(evs)))
			run.Count("E:end_to_end_runs", 1)
			_ = t
			_ = a
			for _, f := range all() {
				record(f, map[string]any{"scenario": fScen, "tree": ti, "assign": ai, "e2e": true}, all)
			}
		}
	}
	// several subscribers on ONE trigger sharing ONE filter object, each with its own
	// variables: every subscriber must get exactly what ITS variables select
	run.Bound("E:shared_filter_cases(trees x subscriber groups)", len(shared)*len(groups))
	for ti := range shared {
		for gi, g := range groups {
			if !run.Mine(int64(ti*len(groups) + gi)) {
				continue
			}
			ti, gi := ti, gi
			all := func() []fFinding { return sharedFindings(ti, gi) }
			run.Eval(int64(len(evs) * len(g)))
			run.Count("E:shared_filter_runs", 1)
			for _, f := range all() {
				record(f, map[string]any{"scenario": fScen, "tree": ti, "assign": gi, "shared": true}, all)
			}
		}
	}
	var ks []string
	for k := range classes {
		ks = append(ks, k)
	}
	sort.Strings(ks)
	for _, k := range ks {
		run.Count("E:"+k, classes[k])
	}
}
