#!/bin/bash
# Run once after a fresh restore (offline): build the driver and the
# instrumenter and warm the Go build cache by building every check binary.
cd "$(dirname "$0")" || exit 2
. ./env.sh
set -e
mkdir -p .build/bin evidence replays
"$GO125" build -o .build/bin/vcheck ./cmd/vcheck
"$GO125" build -o .build/bin/instrument ./cmd/instrument
set +e
ids=$(cat accepted.txt)
fail=0
# builds share one cache; run a few in parallel
printf '%s\n' $ids | xargs -P 4 -I{} sh -c '.build/bin/vcheck {} --build-only >/dev/null 2>.build/setup-{}.log || { echo "setup: build of {} failed" >&2; cat .build/setup-{}.log >&2; exit 1; }' || fail=1
exit $fail
