# Sourced by every script: offline Go toolchain that matches /repo (go1.25.0).
export VERIF_ROOT="${VERIF_ROOT:-/verif}"
export GO125=/root/go/pkg/mod/golang.org/toolchain@v0.0.1-go1.25.0.linux-amd64/bin/go
export GOTOOLCHAIN=local GOFLAGS=-mod=mod GOPROXY=off GOSUMDB=off GOWORK=off
export GOCACHE="${GOCACHE:-/root/.cache/go-build}"
export PATH="$(dirname $GO125):$PATH"
