// Package vsync is the scheduler-visible replacement of package sync that the
// build overlay substitutes into the instrumented packages (DESIGN.md 2.1/2.2).
// With Hook == nil every type behaves like its sync counterpart (mutexes spin
// with Gosched on contention), so set-up and tear-down phases work unscheduled.
package vsync

import (
	"fmt"
	"iter"
	"runtime"
	"sort"
	"sync"
)

// Hook parks the calling goroutine until the scheduler grants it; ready reports
// (without side effects) whether the operation could complete now.
var Hook func(kind string, obj any, ready func() bool)

// MapDesc, when set, decides per site whether a map is ranged in descending
// instead of ascending key order.
var MapDesc func(site string) bool

func yes() bool { return true }

func hook(kind string, obj any, ready func() bool) {
	if h := Hook; h != nil {
		h(kind, obj, ready)
		return
	}
	for !ready() {
		runtime.Gosched()
	}
}

// Point is an always-enabled schedule point inserted by the instrumenter.
func Point(kind string) { hook(kind, nil, yes) }

type Locker = sync.Locker
type Cond = sync.Cond

func NewCond(l Locker) *Cond { return sync.NewCond(l) }

// ---- Mutex (modelled: a parked locker is enabled iff the mutex is free)

type Mutex struct {
	real sync.Mutex
	held bool
}

func (m *Mutex) free() bool { m.real.Lock(); defer m.real.Unlock(); return !m.held }
func (m *Mutex) try() bool {
	m.real.Lock()
	defer m.real.Unlock()
	if m.held {
		return false
	}
	m.held = true
	return true
}
func (m *Mutex) Lock() {
	for {
		hook("Mutex.Lock", m, m.free)
		if m.try() {
			return
		}
	}
}
func (m *Mutex) Unlock() {
	m.real.Lock()
	if !m.held {
		m.real.Unlock()
		panic("sync: unlock of unlocked mutex")
	}
	m.held = false
	m.real.Unlock()
}
func (m *Mutex) TryLock() bool { hook("Mutex.TryLock", m, yes); return m.try() }

type RWMutex struct {
	real    sync.Mutex
	writer  bool
	readers int
}

func (m *RWMutex) freeW() bool {
	m.real.Lock()
	defer m.real.Unlock()
	return !m.writer && m.readers == 0
}
func (m *RWMutex) freeR() bool { m.real.Lock(); defer m.real.Unlock(); return !m.writer }
func (m *RWMutex) tryW() bool {
	m.real.Lock()
	defer m.real.Unlock()
	if m.writer || m.readers > 0 {
		return false
	}
	m.writer = true
	return true
}
func (m *RWMutex) tryR() bool {
	m.real.Lock()
	defer m.real.Unlock()
	if m.writer {
		return false
	}
	m.readers++
	return true
}
func (m *RWMutex) Lock() {
	for {
		hook("RWMutex.Lock", m, m.freeW)
		if m.tryW() {
			return
		}
	}
}
func (m *RWMutex) RLock() {
	for {
		hook("RWMutex.RLock", m, m.freeR)
		if m.tryR() {
			return
		}
	}
}
func (m *RWMutex) Unlock()         { m.real.Lock(); m.writer = false; m.real.Unlock() }
func (m *RWMutex) RUnlock()        { m.real.Lock(); m.readers--; m.real.Unlock() }
func (m *RWMutex) TryLock() bool   { hook("RWMutex.TryLock", m, yes); return m.tryW() }
func (m *RWMutex) TryRLock() bool  { hook("RWMutex.TryRLock", m, yes); return m.tryR() }
func (m *RWMutex) RLocker() Locker { return (*rlocker)(m) }

type rlocker RWMutex

func (r *rlocker) Lock()   { (*RWMutex)(r).RLock() }
func (r *rlocker) Unlock() { (*RWMutex)(r).RUnlock() }

// ---- Once (modelled with the modelled mutex so a second caller is a disabled
// thread, not a goroutine blocked on a real mutex)

type Once struct {
	mu   Mutex
	done bool
}

func (o *Once) Do(f func()) {
	o.mu.Lock()
	defer o.mu.Unlock()
	if o.done {
		return
	}
	defer func() { o.done = true }()
	f()
}

func OnceFunc(f func()) func() {
	var o Once
	return func() { o.Do(f) }
}

func OnceValue[T any](f func() T) func() T {
	var o Once
	var v T
	return func() T { o.Do(func() { v = f() }); return v }
}

func OnceValues[T1, T2 any](f func() (T1, T2)) func() (T1, T2) {
	var o Once
	var v1 T1
	var v2 T2
	return func() (T1, T2) { o.Do(func() { v1, v2 = f() }); return v1, v2 }
}

// ---- Map: every method is a schedule point

type Map struct{ m sync.Map }

func (m *Map) Load(k any) (any, bool) { hook("Map.Load", m, yes); return m.m.Load(k) }
func (m *Map) Store(k, v any)         { hook("Map.Store", m, yes); m.m.Store(k, v) }
func (m *Map) Delete(k any)           { hook("Map.Delete", m, yes); m.m.Delete(k) }
func (m *Map) Clear()                 { hook("Map.Clear", m, yes); m.m.Clear() }
func (m *Map) LoadOrStore(k, v any) (any, bool) {
	hook("Map.LoadOrStore", m, yes)
	return m.m.LoadOrStore(k, v)
}
func (m *Map) LoadAndDelete(k any) (any, bool) {
	hook("Map.LoadAndDelete", m, yes)
	return m.m.LoadAndDelete(k)
}
func (m *Map) Swap(k, v any) (any, bool) { hook("Map.Swap", m, yes); return m.m.Swap(k, v) }
func (m *Map) CompareAndSwap(k, o, n any) bool {
	hook("Map.CompareAndSwap", m, yes)
	return m.m.CompareAndSwap(k, o, n)
}
func (m *Map) CompareAndDelete(k, o any) bool {
	hook("Map.CompareAndDelete", m, yes)
	return m.m.CompareAndDelete(k, o)
}
func (m *Map) Range(f func(k, v any) bool) {
	hook("Map.Range", m, yes)
	// deterministic order
	type kv struct{ k, v any }
	var all []kv
	m.m.Range(func(k, v any) bool { all = append(all, kv{k, v}); return true })
	sort.SliceStable(all, func(i, j int) bool { return keyLess(all[i].k, all[j].k) })
	for _, e := range all {
		if !f(e.k, e.v) {
			return
		}
	}
}

// ---- Pool: stateless, so nothing flows from one execution into the next

type Pool struct {
	New func() any
}

func (p *Pool) Get() any {
	if p.New != nil {
		return p.New()
	}
	return nil
}
func (p *Pool) Put(any) {}

// ---- WaitGroup: Add/Done are points, Wait blocks natively (durably)

type WaitGroup struct{ wg sync.WaitGroup }

func (w *WaitGroup) Add(n int) { hook("WaitGroup.Add", w, yes); w.wg.Add(n) }
func (w *WaitGroup) Done()     { hook("WaitGroup.Done", w, yes); w.wg.Done() }
func (w *WaitGroup) Wait()     { hook("WaitGroup.Wait", w, yes); w.wg.Wait() }
func (w *WaitGroup) Go(f func()) {
	w.Add(1)
	go func() {
		defer w.Done()
		f()
	}()
}

// ---- deterministic, controllable map iteration

func keyLess(a, b any) bool {
	switch x := a.(type) {
	case string:
		if y, ok := b.(string); ok {
			return x < y
		}
	case int:
		if y, ok := b.(int); ok {
			return x < y
		}
	case int64:
		if y, ok := b.(int64); ok {
			return x < y
		}
	case uint64:
		if y, ok := b.(uint64); ok {
			return x < y
		}
	case uint32:
		if y, ok := b.(uint32); ok {
			return x < y
		}
	case int32:
		if y, ok := b.(int32); ok {
			return x < y
		}
	}
	return fmt.Sprintf("%#v", a) < fmt.Sprintf("%#v", b)
}

// RangeMap iterates a snapshot of the keys in ascending order (descending when
// MapDesc(site) says so), skipping keys deleted meanwhile, like the built-in.
func RangeMap[M ~map[K]V, K comparable, V any](m M, site string) iter.Seq2[K, V] {
	return func(yield func(K, V) bool) {
		if len(m) == 0 {
			return
		}
		keys := make([]K, 0, len(m))
		for k := range m {
			keys = append(keys, k)
		}
		if len(keys) > 1 {
			sort.SliceStable(keys, func(i, j int) bool { return keyLess(keys[i], keys[j]) })
			if d := MapDesc; d != nil && d(site) {
				for i, j := 0, len(keys)-1; i < j; i, j = i+1, j-1 {
					keys[i], keys[j] = keys[j], keys[i]
				}
			}
		}
		for _, k := range keys {
			v, ok := m[k]
			if !ok {
				continue
			}
			if !yield(k, v) {
				return
			}
		}
	}
}
