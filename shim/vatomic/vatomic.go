// Package vatomic replaces sync/atomic in the instrumented packages: every
// operation is a schedule point followed by the real atomic operation.
package vatomic

import (
	"sync/atomic"
	"unsafe"

	"github.com/wundergraph/graphql-go-tools/v2/pkg/vsync"
)

func yes() bool { return true }
func pt(kind string, obj any) {
	if h := vsync.Hook; h != nil {
		h(kind, obj, yes)
	}
}

type Bool struct{ v atomic.Bool }

func (b *Bool) Load() bool                    { pt("Bool.Load", b); return b.v.Load() }
func (b *Bool) Store(x bool)                  { pt("Bool.Store", b); b.v.Store(x) }
func (b *Bool) Swap(x bool) bool              { pt("Bool.Swap", b); return b.v.Swap(x) }
func (b *Bool) CompareAndSwap(o, n bool) bool { pt("Bool.CAS", b); return b.v.CompareAndSwap(o, n) }

type Int32 struct{ v atomic.Int32 }

func (b *Int32) Load() int32                    { pt("Int32.Load", b); return b.v.Load() }
func (b *Int32) Store(x int32)                  { pt("Int32.Store", b); b.v.Store(x) }
func (b *Int32) Add(x int32) int32              { pt("Int32.Add", b); return b.v.Add(x) }
func (b *Int32) Swap(x int32) int32             { pt("Int32.Swap", b); return b.v.Swap(x) }
func (b *Int32) CompareAndSwap(o, n int32) bool { pt("Int32.CAS", b); return b.v.CompareAndSwap(o, n) }
func (b *Int32) And(x int32) int32              { pt("Int32.And", b); return b.v.And(x) }
func (b *Int32) Or(x int32) int32               { pt("Int32.Or", b); return b.v.Or(x) }

type Int64 struct{ v atomic.Int64 }

func (b *Int64) Load() int64                    { pt("Int64.Load", b); return b.v.Load() }
func (b *Int64) Store(x int64)                  { pt("Int64.Store", b); b.v.Store(x) }
func (b *Int64) Add(x int64) int64              { pt("Int64.Add", b); return b.v.Add(x) }
func (b *Int64) Swap(x int64) int64             { pt("Int64.Swap", b); return b.v.Swap(x) }
func (b *Int64) CompareAndSwap(o, n int64) bool { pt("Int64.CAS", b); return b.v.CompareAndSwap(o, n) }
func (b *Int64) And(x int64) int64              { pt("Int64.And", b); return b.v.And(x) }
func (b *Int64) Or(x int64) int64               { pt("Int64.Or", b); return b.v.Or(x) }

type Uint32 struct{ v atomic.Uint32 }

func (b *Uint32) Load() uint32         { pt("Uint32.Load", b); return b.v.Load() }
func (b *Uint32) Store(x uint32)       { pt("Uint32.Store", b); b.v.Store(x) }
func (b *Uint32) Add(x uint32) uint32  { pt("Uint32.Add", b); return b.v.Add(x) }
func (b *Uint32) Swap(x uint32) uint32 { pt("Uint32.Swap", b); return b.v.Swap(x) }
func (b *Uint32) CompareAndSwap(o, n uint32) bool {
	pt("Uint32.CAS", b)
	return b.v.CompareAndSwap(o, n)
}
func (b *Uint32) And(x uint32) uint32 { pt("Uint32.And", b); return b.v.And(x) }
func (b *Uint32) Or(x uint32) uint32  { pt("Uint32.Or", b); return b.v.Or(x) }

type Uint64 struct{ v atomic.Uint64 }

func (b *Uint64) Load() uint64         { pt("Uint64.Load", b); return b.v.Load() }
func (b *Uint64) Store(x uint64)       { pt("Uint64.Store", b); b.v.Store(x) }
func (b *Uint64) Add(x uint64) uint64  { pt("Uint64.Add", b); return b.v.Add(x) }
func (b *Uint64) Swap(x uint64) uint64 { pt("Uint64.Swap", b); return b.v.Swap(x) }
func (b *Uint64) CompareAndSwap(o, n uint64) bool {
	pt("Uint64.CAS", b)
	return b.v.CompareAndSwap(o, n)
}
func (b *Uint64) And(x uint64) uint64 { pt("Uint64.And", b); return b.v.And(x) }
func (b *Uint64) Or(x uint64) uint64  { pt("Uint64.Or", b); return b.v.Or(x) }

type Uintptr struct{ v atomic.Uintptr }

func (b *Uintptr) Load() uintptr          { pt("Uintptr.Load", b); return b.v.Load() }
func (b *Uintptr) Store(x uintptr)        { pt("Uintptr.Store", b); b.v.Store(x) }
func (b *Uintptr) Add(x uintptr) uintptr  { pt("Uintptr.Add", b); return b.v.Add(x) }
func (b *Uintptr) Swap(x uintptr) uintptr { pt("Uintptr.Swap", b); return b.v.Swap(x) }
func (b *Uintptr) CompareAndSwap(o, n uintptr) bool {
	pt("Uintptr.CAS", b)
	return b.v.CompareAndSwap(o, n)
}

type Pointer[T any] struct{ v atomic.Pointer[T] }

func (b *Pointer[T]) Load() *T     { pt("Pointer.Load", b); return b.v.Load() }
func (b *Pointer[T]) Store(x *T)   { pt("Pointer.Store", b); b.v.Store(x) }
func (b *Pointer[T]) Swap(x *T) *T { pt("Pointer.Swap", b); return b.v.Swap(x) }
func (b *Pointer[T]) CompareAndSwap(o, n *T) bool {
	pt("Pointer.CAS", b)
	return b.v.CompareAndSwap(o, n)
}

type Value struct{ v atomic.Value }

func (b *Value) Load() any                    { pt("Value.Load", b); return b.v.Load() }
func (b *Value) Store(x any)                  { pt("Value.Store", b); b.v.Store(x) }
func (b *Value) Swap(x any) any               { pt("Value.Swap", b); return b.v.Swap(x) }
func (b *Value) CompareAndSwap(o, n any) bool { pt("Value.CAS", b); return b.v.CompareAndSwap(o, n) }

func AddInt32(a *int32, d int32) int32      { pt("AddInt32", a); return atomic.AddInt32(a, d) }
func AddInt64(a *int64, d int64) int64      { pt("AddInt64", a); return atomic.AddInt64(a, d) }
func AddUint32(a *uint32, d uint32) uint32  { pt("AddUint32", a); return atomic.AddUint32(a, d) }
func AddUint64(a *uint64, d uint64) uint64  { pt("AddUint64", a); return atomic.AddUint64(a, d) }
func LoadInt32(a *int32) int32              { pt("LoadInt32", a); return atomic.LoadInt32(a) }
func LoadInt64(a *int64) int64              { pt("LoadInt64", a); return atomic.LoadInt64(a) }
func LoadUint32(a *uint32) uint32           { pt("LoadUint32", a); return atomic.LoadUint32(a) }
func LoadUint64(a *uint64) uint64           { pt("LoadUint64", a); return atomic.LoadUint64(a) }
func StoreInt32(a *int32, v int32)          { pt("StoreInt32", a); atomic.StoreInt32(a, v) }
func StoreInt64(a *int64, v int64)          { pt("StoreInt64", a); atomic.StoreInt64(a, v) }
func StoreUint32(a *uint32, v uint32)       { pt("StoreUint32", a); atomic.StoreUint32(a, v) }
func StoreUint64(a *uint64, v uint64)       { pt("StoreUint64", a); atomic.StoreUint64(a, v) }
func SwapInt32(a *int32, v int32) int32     { pt("SwapInt32", a); return atomic.SwapInt32(a, v) }
func SwapInt64(a *int64, v int64) int64     { pt("SwapInt64", a); return atomic.SwapInt64(a, v) }
func SwapUint32(a *uint32, v uint32) uint32 { pt("SwapUint32", a); return atomic.SwapUint32(a, v) }
func SwapUint64(a *uint64, v uint64) uint64 { pt("SwapUint64", a); return atomic.SwapUint64(a, v) }
func CompareAndSwapInt32(a *int32, o, n int32) bool {
	pt("CASInt32", a)
	return atomic.CompareAndSwapInt32(a, o, n)
}
func CompareAndSwapInt64(a *int64, o, n int64) bool {
	pt("CASInt64", a)
	return atomic.CompareAndSwapInt64(a, o, n)
}
func CompareAndSwapUint32(a *uint32, o, n uint32) bool {
	pt("CASUint32", a)
	return atomic.CompareAndSwapUint32(a, o, n)
}
func CompareAndSwapUint64(a *uint64, o, n uint64) bool {
	pt("CASUint64", a)
	return atomic.CompareAndSwapUint64(a, o, n)
}
func LoadPointer(a *unsafe.Pointer) unsafe.Pointer {
	pt("LoadPointer", a)
	return atomic.LoadPointer(a)
}
func StorePointer(a *unsafe.Pointer, v unsafe.Pointer) {
	pt("StorePointer", a)
	atomic.StorePointer(a, v)
}
