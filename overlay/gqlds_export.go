package graphql_datasource

// Added to package graphql_datasource by the build overlay of check C13
// (declarations only): the real SubscriptionSource (HashTriggerInput, Start)
// around a client supplied by the harness.

// VerifNewSubscriptionSource builds the production SubscriptionSource with the given client.
func VerifNewSubscriptionSource(client GraphQLSubscriptionClient) *SubscriptionSource {
	return &SubscriptionSource{client: client}
}
