package engine

import (
	"time"

	"github.com/wundergraph/graphql-go-tools/v2/pkg/caching"
	"github.com/wundergraph/graphql-go-tools/v2/pkg/engine/plan"
	"github.com/wundergraph/graphql-go-tools/v2/pkg/engine/postprocess"
	"github.com/wundergraph/graphql-go-tools/v2/pkg/engine/resolve"
)

// Added by the verification overlay (declarations only).

// VerifWithResponseCache attaches an entity cache to one execution.
func VerifWithResponseCache(cache caching.Cache, ttl time.Duration, onErr func(error)) ExecutionOptions {
	return func(ctx *internalExecutionContext) {
		ctx.resolveContext.SetResponseCache(cache, ttl, onErr)
	}
}

// VerifPlannerConfig exposes the planner configuration for option toggling.
func (e *Configuration) VerifPlannerConfig() *plan.Configuration { return &e.plannerConfig }

// VerifAddPostProcessorOptions appends post processor options (e.g. switching
// single fetch de-duplication off) to an engine.
func (e *ExecutionEngine) VerifAddPostProcessorOptions(opts ...postprocess.ProcessorOption) {
	e.postProcessorOptions = append(e.postProcessorOptions, opts...)
}

// VerifWithRateLimiter switches pre-fetch rate limiting on for one execution.
func VerifWithRateLimiter(l resolve.RateLimiter) ExecutionOptions {
	return func(ctx *internalExecutionContext) {
		ctx.resolveContext.SetRateLimiter(l)
		ctx.resolveContext.RateLimitOptions.Enable = true
	}
}
