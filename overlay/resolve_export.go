package resolve

// Added to package resolve by the build overlay of checks C12/C13 (declarations
// only). All readers work WITHOUT taking Resolver.mu / trigger.mu: the caller is
// a harness thread under the cooperative scheduler, i.e. the only running
// goroutine, and no map operation is ever interrupted at a schedule point.

// VerifSub describes one subscription that is currently registered in a trigger.
type VerifSub struct {
	ID        SubscriptionIdentifier
	Writer    SubscriptionResponseWriter
	Completed <-chan struct{}
	// Updater is the updater of the trigger the subscription is attached to; the
	// same value is handed to SubscriptionDataSource.Start, so its identity names
	// the upstream start a subscriber belongs to.
	Updater SubscriptionUpdater
}

// VerifSubscriptions lists the subscriptions found in the triggers' own maps.
func (r *Resolver) VerifSubscriptions() []VerifSub {
	var out []VerifSub
	for _, trig := range r.triggers {
		for _, s := range trig.subscriptions {
			out = append(out, VerifSub{ID: s.id, Writer: s.writer, Completed: s.completed, Updater: trig.updater})
		}
	}
	return out
}

// VerifRegistry is the size of every registry structure.
type VerifRegistry struct {
	Triggers      int // len(r.triggers)
	TriggerSubs   int // sum of len(trigger.subscriptions)
	ByID          int // len(r.subscriptionsByID)
	Connections   int // len(r.subscriptionsByConnection)
	ByConnection  int // sum of the per-connection maps
	ShutdownFlag  bool
	TriggerIDs    []uint64
	Subscriptions []SubscriptionIdentifier
	// Updaters: the updater of every registered trigger (identity of the trigger).
	Updaters []SubscriptionUpdater
}

func (r *Resolver) VerifRegistry() VerifRegistry {
	v := VerifRegistry{Triggers: len(r.triggers), ByID: len(r.subscriptionsByID), Connections: len(r.subscriptionsByConnection), ShutdownFlag: r.shutdown}
	for id, trig := range r.triggers {
		v.TriggerSubs += len(trig.subscriptions)
		v.TriggerIDs = append(v.TriggerIDs, id)
		v.Updaters = append(v.Updaters, trig.updater)
	}
	for _, m := range r.subscriptionsByConnection {
		v.ByConnection += len(m)
	}
	for id := range r.subscriptionsByID {
		v.Subscriptions = append(v.Subscriptions, id)
	}
	return v
}

// VerifSetConnectionIDBase resets the process-wide counter behind
// NewConnectionID so that every execution of a scenario sees the same ids
// (the ids order map iteration, hence schedules).
func VerifSetConnectionIDBase(n int64) { connectionIDCounter.Store(n) }
