// vcheck is the driver of every check: it (re)generates the build overlay from
// the current /repo tree when the check needs one, builds the check's test
// binary, fans shards out over processes, merges the shard results, applies the
// committed known-findings file, writes evidence/<id>.json and prints
// VIOLATION / KNOWN-FINDING lines.
//
// exit 0: property held on everything explored (known findings are listed)
// exit 1: at least one violation that known_findings/<id>.json does not list
// exit 2: infrastructure failure (build failed, shard crashed outside the code
//
//	under test, vacuous exploration) - never a verdict
package main

import (
	"bytes"
	"encoding/json"
	"fmt"
	"os"
	"os/exec"
	"path/filepath"
	"regexp"
	"sort"
	"strconv"
	"strings"
	"sync"
	"time"

	"verif/internal/vk"
)

type overlayCfg struct {
	Sync     []string          `json:"sync"`     // packages (relative to /repo) whose sync / sync/atomic imports are redirected to the shims
	MapOrder []string          `json:"maporder"` // packages whose map range loops are made deterministic/controllable
	Add      map[string]string `json:"add"`      // /repo-relative path -> /verif-relative source file (added, declarations only)
}

type checkCfg struct {
	Pkg              string         `json:"pkg"`
	Level            string         `json:"level"`
	Overlay          *overlayCfg    `json:"overlay"`
	Shards           map[string]int `json:"shards"`
	DeadlineS        map[string]int `json:"deadline_s"`
	GoMaxProcs       int            `json:"gomaxprocs"`
	CrashIsViolation bool           `json:"crash_is_violation"`
	Race             bool           `json:"race"`
	Tags             string         `json:"tags"`
	MinDistinct      int            `json:"min_distinct"`
	// RacePass: a free-running side pass of the same actor bodies (real sync, no
	// scheduler, -race): the cooperative scheduler's hand-offs are happens-before
	// edges that blind the race detector, so unsynchronised accesses are looked
	// for separately. Not the deciding step; runs in the thorough tier (or with
	// VERIF_RACE_PASS=1).
	RacePass *racePassCfg `json:"race_pass"`
}

type racePassCfg struct {
	Tags     string `json:"tags"`      // build tags of the free-running build (no sync overlay)
	Run      string `json:"run"`       // test function, e.g. TestRaceFree
	TimeoutS int    `json:"timeout_s"` // hard limit
}

type knownFinding struct {
	Fingerprint string `json:"fingerprint"`
	Clause      string `json:"clause"`
	Site        string `json:"site"`
	Class       string `json:"class"`
	What        string `json:"what"`
	Status      string `json:"status"` // "known" or "fixed"
	Commit      string `json:"commit,omitempty"`
	Hypothesis  string `json:"hypothesis,omitempty"`
	Replay      string `json:"replay,omitempty"`
}

type knownFile struct {
	Property string         `json:"property"`
	Findings []knownFinding `json:"findings"`
}

var root = "/verif"
var repo = "/repo"

func die(code int, format string, a ...any) {
	fmt.Fprintf(os.Stderr, "vcheck: "+format+"\n", a...)
	os.Exit(code)
}

func goBin() string {
	if g := os.Getenv("GO125"); g != "" {
		return g
	}
	return "/root/go/pkg/mod/golang.org/toolchain@v0.0.1-go1.25.0.linux-amd64/bin/go"
}

func goEnv() []string {
	env := os.Environ()
	env = append(env, "GOTOOLCHAIN=local", "GOFLAGS=-mod=mod", "GOPROXY=off", "GOSUMDB=off", "GOWORK=off")
	return env
}

func main() {
	if r := os.Getenv("VERIF_ROOT"); r != "" {
		root = r
	}
	if r := os.Getenv("VERIF_REPO"); r != "" {
		repo = r
	}
	args := os.Args[1:]
	if len(args) < 1 {
		die(2, "usage: vcheck <property-id> [quick|thorough] [--replay file] [--build-only]")
	}
	id := strings.ToUpper(args[0])
	tier := os.Getenv("VERIF_TIER")
	replay := ""
	buildOnly := false
	for i := 1; i < len(args); i++ {
		switch args[i] {
		case "quick", "thorough":
			tier = args[i]
		case "--replay":
			i++
			if i < len(args) {
				replay = args[i]
			}
		case "--build-only":
			buildOnly = true
		}
	}
	if tier == "" {
		tier = "quick"
	}
	seed, _ := strconv.Atoi(os.Getenv("VERIF_SEED"))

	cfg, ok := loadCfg(id)
	if !ok {
		die(2, "unknown property %s (no checks/%s/check.json)", id, strings.ToLower(id))
	}
	if extra := os.Getenv("VERIF_EXTRA_OVERLAY"); extra != "" {
		// mutation testing without touching /repo: {"<repo-relative path>": "<absolute file>"}
		b, err := os.ReadFile(extra)
		if err != nil {
			die(2, "VERIF_EXTRA_OVERLAY: %v", err)
		}
		var m map[string]string
		if err := json.Unmarshal(b, &m); err != nil {
			die(2, "VERIF_EXTRA_OVERLAY: %v", err)
		}
		if cfg.Overlay == nil {
			cfg.Overlay = &overlayCfg{}
		}
		if cfg.Overlay.Add == nil {
			cfg.Overlay.Add = map[string]string{}
		}
		for k, v := range m {
			cfg.Overlay.Add[k] = v
		}
	}
	t0 := time.Now()
	buildDir := filepath.Join(root, ".build")
	os.MkdirAll(filepath.Join(buildDir, "bin"), 0o755)

	// 1. overlay
	overlayFile := ""
	if cfg.Overlay != nil {
		overlayFile = filepath.Join(buildDir, "overlay", id, "overlay.json")
		spec, _ := json.Marshal(cfg.Overlay)
		cmd := exec.Command(filepath.Join(buildDir, "bin", "instrument"), "-repo", repo, "-root", root, "-out", filepath.Dir(overlayFile), "-spec", string(spec))
		cmd.Env = goEnv()
		out, err := cmd.CombinedOutput()
		if err != nil {
			fmt.Fprintf(os.Stderr, "%s\n", out)
			die(2, "INFRA overlay generation failed for %s: %v (the working tree may not compile)", id, err)
		}
	}

	// 2. build
	bin := filepath.Join(buildDir, "bin", strings.ToLower(id)+".test")
	bargs := []string{"test", "-c", "-vet=off", "-o", bin}
	if overlayFile != "" {
		bargs = append(bargs, "-overlay", overlayFile)
	}
	if cfg.Tags != "" {
		bargs = append(bargs, "-tags", cfg.Tags)
	}
	if cfg.Race {
		bargs = append(bargs, "-race")
	}
	bargs = append(bargs, cfg.Pkg)
	cmd := exec.Command(goBin(), bargs...)
	cmd.Dir = root
	cmd.Env = goEnv()
	if out, err := cmd.CombinedOutput(); err != nil {
		fmt.Fprintf(os.Stderr, "%s\n", out)
		die(2, "INFRA build failed for %s: %v", id, err)
	}
	if buildOnly {
		fmt.Printf("built %s in %.1fs\n", bin, time.Since(t0).Seconds())
		return
	}

	// 3. run shards
	nsh := cfg.Shards[tier]
	if nsh <= 0 {
		nsh = 1
	}
	if replay != "" {
		nsh = 1
	}
	outDir := filepath.Join(buildDir, "out", id)
	os.RemoveAll(outDir)
	os.MkdirAll(outDir, 0o755)
	deadline := cfg.DeadlineS[tier]
	gmp := cfg.GoMaxProcs
	type shardOut struct {
		res    *vk.Result
		stderr string
		err    error
	}
	outs := make([]shardOut, nsh)
	var wg sync.WaitGroup
	sem := make(chan struct{}, 16)
	for s := 0; s < nsh; s++ {
		wg.Add(1)
		go func(s int) {
			defer wg.Done()
			sem <- struct{}{}
			defer func() { <-sem }()
			of := filepath.Join(outDir, fmt.Sprintf("shard-%d.json", s))
			c := exec.Command(bin, "-test.run", "^TestCheck$", "-test.timeout", "0", "-test.v")
			c.Dir = filepath.Join(root, cfg.Pkg)
			env := append(os.Environ(),
				"VERIF_TIER="+tier, "VERIF_SHARD="+strconv.Itoa(s), "VERIF_NSHARDS="+strconv.Itoa(nsh),
				"VERIF_SEED="+strconv.Itoa(seed), "VERIF_OUT="+of, "VERIF_DEADLINE_S="+strconv.Itoa(deadline),
				"VERIF_ROOT="+root, "VERIF_REPO="+repo, "GODEBUG=asyncpreemptoff=1")
			if gmp > 0 {
				env = append(env, "GOMAXPROCS="+strconv.Itoa(gmp))
			}
			if replay != "" {
				abs, _ := filepath.Abs(replay)
				env = append(env, "VERIF_REPLAY="+abs)
			}
			c.Env = env
			var eb bytes.Buffer
			c.Stdout = &eb
			c.Stderr = &eb
			// hard limit: a shard that wedges (e.g. the code under test hangs outside a
			// bubble) must not hang the driver; it is reported as an infrastructure failure
			limit := time.Duration(deadline*3+300) * time.Second
			if deadline == 0 {
				limit = 2 * time.Hour
			}
			var err error
			if serr := c.Start(); serr != nil {
				err = serr
			} else {
				done := make(chan error, 1)
				go func() { done <- c.Wait() }()
				select {
				case err = <-done:
				case <-time.After(limit):
					c.Process.Kill()
					err = fmt.Errorf("shard killed after %s (hard limit)", limit)
					<-done
				}
			}
			outs[s].stderr = eb.String()
			outs[s].err = err
			if b, rerr := os.ReadFile(of); rerr == nil {
				var r vk.Result
				if json.Unmarshal(b, &r) == nil {
					outs[s].res = &r
				}
			}
		}(s)
	}
	wg.Wait()

	if replay != "" {
		fmt.Print(outs[0].stderr)
		if outs[0].res != nil && len(outs[0].res.Violations) > 0 {
			for _, v := range outs[0].res.Violations {
				fmt.Printf("REPLAY reproduces: clause=%q site=%q class=%q\n  %s\n", v.Clause, v.Site, v.Class, v.Detail)
			}
			os.Exit(1)
		}
		if outs[0].res == nil {
			die(2, "replay produced no result")
		}
		fmt.Println("REPLAY: no violation")
		return
	}

	// 4. merge
	merged := vk.Result{Property: id, Tier: tier, Level: cfg.Level, Exhaustive: true, Bounds: map[string]any{}, Counters: map[string]int64{}}
	distinct := map[uint64]struct{}{}
	viol := map[string]*vk.Violation{}
	capSet := map[string]bool{}
	var crashes []string
	unexplainedAbnormal := 0
	for s, o := range outs {
		// a shard that ended abnormally (non-zero exit: a panic in the code under test
		// unwinds through the recorder's deferred Finish, which still writes a PARTIAL
		// result) is a crash even when a result file exists; what it found is merged
		abnormal := o.err != nil
		if o.res == nil || abnormal {
			crashes = append(crashes, fmt.Sprintf("shard %d: %v\n%s", s, o.err, tail(o.stderr, 6000)))
			explained := false
			if cfg.CrashIsViolation {
				if v := crashViolation(id, o.stderr); v != nil {
					fp := v.Fingerprint()
					if _, ok := viol[fp]; !ok {
						viol[fp] = v
					}
					explained = true
				}
			}
			if o.res == nil {
				continue
			}
			merged.Exhaustive = false
			capSet[fmt.Sprintf("a shard ended abnormally after %d evaluations", o.res.Evaluations)] = true
			if !explained {
				unexplainedAbnormal++
				fmt.Fprintf(os.Stderr, "vcheck: shard %d ended abnormally: %v\n%s\n", s, o.err, tail(o.stderr, 6000))
			}
		}
		r := o.res
		merged.Evaluations += r.Evaluations
		merged.States += r.States
		merged.Transitions += r.Transitions
		merged.Traces += r.Traces
		for _, h := range r.Distinct {
			distinct[h] = struct{}{}
		}
		if len(merged.Samples) < 16 {
			merged.Samples = append(merged.Samples, r.Samples...)
		}
		if !r.Exhaustive {
			merged.Exhaustive = false
		}
		for _, c := range r.Caps {
			capSet[c] = true
		}
		if merged.Rule == "" {
			merged.Rule = r.Rule
		}
		if len(merged.Assumptions) == 0 {
			merged.Assumptions = r.Assumptions
		}
		for k, v := range r.Bounds {
			merged.Bounds[k] = v
		}
		for k, v := range r.Counters {
			merged.Counters[k] += v
		}
		for _, n := range r.Notes {
			if len(merged.Notes) < 40 {
				merged.Notes = append(merged.Notes, n)
			}
		}
		for i := range r.Violations {
			v := r.Violations[i]
			fp := v.Fingerprint()
			if old, ok := viol[fp]; ok {
				old.Count += v.Count
			} else {
				viol[fp] = &v
			}
		}
	}
	infra := false
	if len(crashes) > 0 {
		// a crash that was not turned into a violation is an infrastructure failure
		unexplained := unexplainedAbnormal
		for s, o := range outs {
			if o.res == nil && !(cfg.CrashIsViolation && crashViolation(id, o.stderr) != nil) {
				unexplained++
				fmt.Fprintf(os.Stderr, "vcheck: shard %d produced no result: %v\n%s\n", s, o.err, tail(o.stderr, 6000))
			}
		}
		if unexplained > 0 {
			infra = true
		}
	}
	for c := range capSet {
		merged.Caps = append(merged.Caps, c)
	}
	sort.Strings(merged.Caps)
	if len(merged.Samples) > 16 {
		merged.Samples = merged.Samples[:16]
	}

	// 5. known findings
	var kf knownFile
	if b, err := os.ReadFile(filepath.Join(root, "known_findings", id+".json")); err == nil {
		if err := json.Unmarshal(b, &kf); err != nil {
			die(2, "parse known_findings/%s.json: %v", id, err)
		}
	}
	known := map[string]knownFinding{}
	for _, f := range kf.Findings {
		fp := f.Fingerprint
		if f.Clause != "" || f.Site != "" || f.Class != "" {
			fp = vk.Violation{Property: id, Clause: f.Clause, Site: f.Site, Class: f.Class}.Fingerprint()
		}
		if f.Status == "known" {
			known[fp] = f
		}
	}
	fps := make([]string, 0, len(viol))
	for fp := range viol {
		fps = append(fps, fp)
	}
	sort.Strings(fps)
	newViol := 0
	knownSeen := 0
	replayDir := filepath.Join(root, "replays", id)
	var violSummaries []map[string]any
	for _, fp := range fps {
		v := viol[fp]
		sum := map[string]any{"fingerprint": fp, "clause": v.Clause, "site": v.Site, "class": v.Class, "count": v.Count, "detail": clip(v.Detail, 400)}
		if f, ok := known[fp]; ok {
			knownSeen++
			fmt.Printf("KNOWN-FINDING: property=%s %s [fp=%s cases=%d]\n", id, f.What, fp, v.Count)
			sum["known"] = true
			violSummaries = append(violSummaries, sum)
			continue
		}
		newViol++
		os.MkdirAll(replayDir, 0o755)
		path := filepath.Join(replayDir, fp+".json")
		rb, _ := json.MarshalIndent(map[string]any{"property": id, "fingerprint": fp, "tier": tier, "violation": v, "input": v.Input}, "", " ")
		os.WriteFile(path, rb, 0o644)
		if v.Repro != "" {
			os.WriteFile(filepath.Join(replayDir, fp+"_test.go.txt"), []byte(v.Repro), 0o644)
		}
		fmt.Printf("VIOLATION property=%s replay=%s\n", id, path)
		fmt.Printf("  clause: %s\n  site: %s\n  class: %s\n  cases: %d\n  detail: %s\n", v.Clause, v.Site, v.Class, v.Count, clip(v.Detail, 1500))
		sum["known"] = false
		sum["replay"] = path
		violSummaries = append(violSummaries, sum)
	}

	// 5b. free-running -race side pass
	var racePass map[string]any
	if cfg.RacePass != nil && replay == "" && (tier == "thorough" || os.Getenv("VERIF_RACE_PASS") != "") {
		racePass = runRacePass(id, cfg, buildDir)
		if n, _ := racePass["race_reports"].(int); n > 0 {
			v := vk.Violation{Property: id, Clause: "no data race in the free-running pass of the same actor bodies", Site: fmt.Sprint(racePass["first_report_site"]), Class: "data race", Detail: fmt.Sprint(racePass["first_report"]), Count: int64(n)}
			fp := v.Fingerprint()
			if _, isKnown := known[fp]; !isKnown {
				path := filepath.Join(root, "replays", id, fp+".json")
				os.MkdirAll(filepath.Dir(path), 0o755)
				b, _ := json.MarshalIndent(map[string]any{"property": id, "fingerprint": fp, "tier": tier, "violation": v, "input": map[string]any{"race_pass": cfg.RacePass.Run}}, "", " ")
				os.WriteFile(path, b, 0o644)
				fmt.Printf("VIOLATION property=%s replay=%s\n  clause: %s\n  site: %s\n  detail: %s\n", id, path, v.Clause, v.Site, clip(v.Detail, 1500))
				newViol++
			}
		}
	}

	// 6. evidence
	wall := time.Since(t0).Seconds()
	cov := map[string]any{
		"evaluations":         merged.Evaluations,
		"distinct_nontrivial": len(distinct),
		"rule":                merged.Rule,
		"samples":             merged.Samples,
		"exhaustive":          merged.Exhaustive && !infra,
		"bounds":              merged.Bounds,
		"counters":            merged.Counters,
		"caps_hit":            merged.Caps,
		"shards":              nsh,
		"notes":               merged.Notes,
		"violation_summaries": violSummaries,
		"known_findings_seen": knownSeen,
	}
	if racePass != nil {
		cov["race_pass"] = racePass
	}
	if cfg.Level == "model_checking" {
		cov["states"] = merged.States
		cov["transitions"] = merged.Transitions
		cov["traces_validated_against_impl"] = merged.Traces
	}
	ev := map[string]any{
		"property_id": id, "tier": tier, "seed": seed, "level": cfg.Level,
		"coverage": cov, "assumptions": merged.Assumptions, "wall_s": wall, "violations": newViol,
	}
	eb, _ := json.MarshalIndent(ev, "", " ")
	// a run against replaced repository files (VERIF_EXTRA_OVERLAY: mutation demos,
	// seeded changes, candidate fixes) says nothing about /repo's tree: its
	// evidence goes to the scratch directory, evidence/ only ever describes /repo
	evDir := filepath.Join(root, "evidence")
	if os.Getenv("VERIF_EXTRA_OVERLAY") != "" {
		evDir = filepath.Join(root, ".build", "evidence-overlay")
	}
	os.MkdirAll(evDir, 0o755)
	if !infra || newViol > 0 {
		os.WriteFile(filepath.Join(evDir, id+".json"), eb, 0o644)
	}
	fmt.Printf("check %s tier=%s shards=%d evaluations=%d distinct=%d states=%d transitions=%d exhaustive=%v caps=%v known=%d new_violations=%d wall=%.1fs\n",
		id, tier, nsh, merged.Evaluations, len(distinct), merged.States, merged.Transitions, merged.Exhaustive, merged.Caps, knownSeen, newViol, wall)
	if len(merged.Counters) > 0 {
		cb, _ := json.Marshal(merged.Counters)
		fmt.Printf("  counters: %s\n", cb)
	}
	if newViol > 0 {
		os.Exit(1)
	}
	if infra {
		die(2, "INFRA %d shard(s) crashed", len(crashes))
	}
	minD := cfg.MinDistinct
	if minD == 0 {
		minD = 2
	}
	if len(distinct) < minD || merged.Evaluations == 0 {
		die(2, "INFRA vacuous exploration: evaluations=%d distinct=%d", merged.Evaluations, len(distinct))
	}
	// A run that claims to be exhaustive but evaluated less than half of what the
	// same tier evaluates on the tree the baselines were recorded on explored
	// something else than it says (e.g. a change made most cases "not applicable"):
	// that is not a verdict. baselines.json is committed and never written here.
	if merged.Exhaustive && os.Getenv("VERIF_ONLY_FAMILY") == "" {
		if bb, err := os.ReadFile(filepath.Join(root, "baselines.json")); err == nil {
			var bl map[string]map[string]int64
			if json.Unmarshal(bb, &bl) == nil {
				if want := bl[id][tier]; want > 0 && merged.Evaluations*2 < want {
					die(2, "INFRA vacuous exploration: %d evaluations, the %s tier evaluates about %d", merged.Evaluations, tier, want)
				}
			}
		}
	}
}

// runRacePass builds the check package once more without the sync overlay, with
// the race detector and the configured tags, and runs the free-running test.
func runRacePass(id string, cfg checkCfg, buildDir string) map[string]any {
	out := map[string]any{"ran": false}
	bin := filepath.Join(buildDir, "bin", strings.ToLower(id)+".race.test")
	bargs := []string{"test", "-c", "-vet=off", "-race", "-o", bin}
	if cfg.RacePass.Tags != "" {
		bargs = append(bargs, "-tags", cfg.RacePass.Tags)
	}
	// added / replaced files (accessors, VERIF_EXTRA_OVERLAY) without the sync rewriting
	if cfg.Overlay != nil && len(cfg.Overlay.Add) > 0 {
		rep := map[string]string{}
		for k, v := range cfg.Overlay.Add {
			if !filepath.IsAbs(v) {
				v = filepath.Join(root, v)
			}
			rep[filepath.Join(repo, k)] = v
		}
		b, _ := json.Marshal(map[string]any{"Replace": rep})
		of := filepath.Join(buildDir, "overlay", id, "race-overlay.json")
		os.MkdirAll(filepath.Dir(of), 0o755)
		os.WriteFile(of, b, 0o644)
		bargs = append(bargs, "-overlay", of)
	}
	bargs = append(bargs, cfg.Pkg)
	cmd := exec.Command(goBin(), bargs...)
	cmd.Dir = root
	cmd.Env = goEnv()
	if b, err := cmd.CombinedOutput(); err != nil {
		out["error"] = "build failed: " + clip(string(b), 800)
		fmt.Fprintf(os.Stderr, "vcheck: race pass build failed: %v\n%s\n", err, b)
		return out
	}
	limit := time.Duration(cfg.RacePass.TimeoutS) * time.Second
	if limit == 0 {
		limit = 5 * time.Minute
	}
	c := exec.Command(bin, "-test.run", "^"+cfg.RacePass.Run+"$", "-test.count=1", "-test.v")
	c.Dir = filepath.Join(root, cfg.Pkg)
	c.Env = append(goEnv(), "GORACE=halt_on_error=0")
	var eb bytes.Buffer
	c.Stdout, c.Stderr = &eb, &eb
	t0 := time.Now()
	if err := c.Start(); err != nil {
		out["error"] = err.Error()
		return out
	}
	done := make(chan error, 1)
	go func() { done <- c.Wait() }()
	var werr error
	select {
	case werr = <-done:
	case <-time.After(limit):
		c.Process.Kill()
		<-done
		out["error"] = "killed after the hard limit"
	}
	txt := eb.String()
	n := strings.Count(txt, "WARNING: DATA RACE")
	out["ran"] = true
	out["race_reports"] = n
	out["wall_s"] = time.Since(t0).Seconds()
	for _, ln := range strings.Split(txt, "\n") {
		if strings.HasPrefix(ln, "racefree:") {
			out["summary"] = strings.TrimSpace(strings.TrimPrefix(ln, "racefree:"))
		}
	}
	if n > 0 {
		i := strings.Index(txt, "WARNING: DATA RACE")
		rep := txt[i:]
		if j := strings.Index(rep, "=================="); j > 0 {
			rep = rep[:j]
		}
		out["first_report"] = clip(rep, 3000)
		site := "unknown"
		for _, ln := range strings.Split(rep, "\n") {
			if strings.Contains(ln, "graphql-go-tools") && strings.Contains(ln, "(") {
				site = strings.TrimSpace(ln)
				break
			}
		}
		out["first_report_site"] = site
	} else if werr != nil && out["error"] == nil {
		out["error"] = "the free-running test failed without a race report: " + clip(tail(txt, 1200), 1200)
	}
	return out
}

// loadCfg reads checks/<id>/check.json (member "driver").
func loadCfg(id string) (checkCfg, bool) {
	var f struct {
		Driver checkCfg `json:"driver"`
	}
	b, err := os.ReadFile(filepath.Join(root, "checks", strings.ToLower(id), "check.json"))
	if err != nil {
		return checkCfg{}, false
	}
	if err := json.Unmarshal(b, &f); err != nil {
		die(2, "parse checks/%s/check.json: %v", strings.ToLower(id), err)
	}
	if f.Driver.Pkg == "" {
		f.Driver.Pkg = "./checks/" + strings.ToLower(id)
	}
	return f.Driver, true
}

func tail(s string, n int) string {
	if len(s) > n {
		return "..." + s[len(s)-n:]
	}
	return s
}

func clip(s string, n int) string {
	if len(s) > n {
		return s[:n] + "..."
	}
	return s
}

var frameRe = regexp.MustCompile(`(?m)^(github\.com/wundergraph/graphql-go-tools/[^\s(]+(?:\([^)]*\))?[^\s(]*)\(`)

// crashViolation turns a Go crash (panic / fatal error) whose stack passes
// through the code under test into a violation of the "never crashes" clause.
func crashViolation(id, stderr string) *vk.Violation {
	idx := strings.Index(stderr, "fatal error:")
	if j := strings.Index(stderr, "panic:"); j >= 0 && (idx < 0 || j < idx) {
		idx = j
	}
	if idx < 0 {
		return nil
	}
	rest := stderr[idx:]
	line := rest
	if k := strings.IndexByte(rest, '\n'); k >= 0 {
		line = rest[:k]
	}
	m := frameRe.FindStringSubmatch(rest)
	if m == nil {
		return nil
	}
	return &vk.Violation{Property: id, Clause: "process must not crash", Site: m[1], Class: clip(line, 80),
		Detail: tail(rest, 3000), Input: map[string]any{"crash": clip(rest, 3000)}, Count: 1}
}
