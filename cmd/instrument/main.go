// instrument generates a `go build -overlay` file from the CURRENT /repo
// working tree. Nothing under /repo is modified.
//
// Rules (DESIGN.md 2.1), all applied as text edits that keep line numbers:
//  1. in "sync" packages: import "sync" / "sync/atomic" -> shim packages
//     vsync / vatomic (virtual packages under /repo/v2/pkg added by the overlay)
//  3. in "sync" packages: a schedule point before every close(ch) statement,
//     every send statement outside a select clause, and every call statement
//     whose callee name contains "cancel"
//  4. in "maporder" packages: `range m` over a map -> `range vsync.RangeMap(m, site)`
//     (deterministic, explorer-controlled order); needs go/types
//  5. added files (declarations only)
package main

import (
	"crypto/sha256"
	"encoding/hex"
	"encoding/json"
	"flag"
	"fmt"
	"go/ast"
	"go/build"
	"go/importer"
	"go/parser"
	"go/token"
	"go/types"
	"io"
	"os"
	"os/exec"
	"path/filepath"
	"regexp"
	"sort"
	"strings"
)

type spec struct {
	Sync     []string          `json:"sync"`
	MapOrder []string          `json:"maporder"`
	Add      map[string]string `json:"add"`
}

const shimImport = "github.com/wundergraph/graphql-go-tools/v2/pkg/vsync"
const atomImport = "github.com/wundergraph/graphql-go-tools/v2/pkg/vatomic"

type edit struct {
	off int
	del int
	ins string
}

var cancelRe = regexp.MustCompile(`(?i)cancel`)

// overrideSrc maps a repo file to the file whose content replaces it.
var overrideSrc = map[string]string{}

func readSrc(path string) ([]byte, error) {
	if o, ok := overrideSrc[path]; ok {
		return os.ReadFile(o)
	}
	return os.ReadFile(path)
}

func fatal(format string, a ...any) {
	fmt.Fprintf(os.Stderr, "instrument: "+format+"\n", a...)
	os.Exit(1)
}

func goFiles(dir string) []string {
	ctx := build.Default
	ctx.GOROOT = os.Getenv("GOROOT_OVERRIDE")
	if ctx.GOROOT == "" {
		ctx.GOROOT = build.Default.GOROOT
	}
	p, err := ctx.ImportDir(dir, 0)
	if err != nil {
		if _, ok := err.(*build.NoGoError); ok {
			return nil
		}
		// fall back to every non-test .go file
		m, _ := filepath.Glob(filepath.Join(dir, "*.go"))
		var out []string
		for _, f := range m {
			if !strings.HasSuffix(f, "_test.go") {
				out = append(out, filepath.Base(f))
			}
		}
		return out
	}
	return p.GoFiles
}

func main() {
	repo := flag.String("repo", "/repo", "")
	root := flag.String("root", "/verif", "")
	out := flag.String("out", "", "")
	specS := flag.String("spec", "{}", "")
	flag.Parse()
	var sp spec
	if err := json.Unmarshal([]byte(*specS), &sp); err != nil {
		fatal("spec: %v", err)
	}
	if err := os.MkdirAll(*out, 0o755); err != nil {
		fatal("%v", err)
	}
	replace := map[string]string{}
	for rel, src := range sp.Add {
		if !filepath.IsAbs(src) {
			src = filepath.Join(*root, src)
		}
		overrideSrc[filepath.Join(*repo, rel)] = src
	}

	// shim packages
	replace[filepath.Join(*repo, "v2/pkg/vsync/vsync.go")] = filepath.Join(*root, "shim/vsync/vsync.go")
	replace[filepath.Join(*repo, "v2/pkg/vatomic/vatomic.go")] = filepath.Join(*root, "shim/vatomic/vatomic.go")

	syncSet := map[string]bool{}
	for _, p := range sp.Sync {
		syncSet[p] = true
	}
	mapSet := map[string]bool{}
	for _, p := range sp.MapOrder {
		mapSet[p] = true
	}
	all := map[string]bool{}
	for p := range syncSet {
		all[p] = true
	}
	for p := range mapSet {
		all[p] = true
	}
	pkgs := make([]string, 0, len(all))
	for p := range all {
		pkgs = append(pkgs, p)
	}
	sort.Strings(pkgs)

	// type information for map ranges (cached by a hash of the package's sources)
	mapSites := map[string][]mapSite{} // file -> sites
	if len(mapSet) > 0 {
		var need []string
		for _, p := range pkgs {
			if !mapSet[p] {
				continue
			}
			dir := filepath.Join(*repo, p)
			h := hashDir(dir)
			cacheFile := filepath.Join(*out, "..", "_mapsites_"+strings.ReplaceAll(p, "/", "_")+"_"+h+".json")
			if b, err := os.ReadFile(cacheFile); err == nil {
				var cached map[string][]mapSite
				if json.Unmarshal(b, &cached) == nil {
					for f, s := range cached {
						mapSites[f] = s
					}
					continue
				}
			}
			need = append(need, p)
		}
		if len(need) > 0 {
			exports := exportData(*root, *repo, need)
			for _, p := range need {
				dir := filepath.Join(*repo, p)
				sites := findMapRanges(dir, p, exports)
				h := hashDir(dir)
				cacheFile := filepath.Join(*out, "..", "_mapsites_"+strings.ReplaceAll(p, "/", "_")+"_"+h+".json")
				b, _ := json.Marshal(sites)
				os.WriteFile(cacheFile, b, 0o644)
				for f, s := range sites {
					mapSites[f] = s
				}
			}
		}
	}

	override := map[string]string{}
	for k, v := range overrideSrc {
		override[k] = v
	}
	nPoints, nImports, nRanges := 0, 0, 0
	for _, p := range pkgs {
		dir := filepath.Join(*repo, p)
		for _, name := range goFiles(dir) {
			path := filepath.Join(dir, name)
			src, err := readSrc(path)
			if err != nil {
				fatal("%v", err)
			}
			fset := token.NewFileSet()
			f, err := parser.ParseFile(fset, path, src, parser.ParseComments)
			if err != nil {
				fatal("parse %s: %v", path, err)
			}
			var edits []edit
			needShim := false
			if syncSet[p] {
				for _, im := range f.Imports {
					ip := strings.Trim(im.Path.Value, "`\"")
					var np, nm string
					switch ip {
					case "sync":
						np, nm = shimImport, "sync"
					case "sync/atomic":
						np, nm = atomImport, "atomic"
					default:
						continue
					}
					off := fset.Position(im.Path.Pos()).Offset
					ins := `"` + np + `"`
					if im.Name == nil {
						ins = nm + " " + ins
					}
					edits = append(edits, edit{off: off, del: len(im.Path.Value), ins: ins})
					nImports++
				}
				// schedule points before close / send / cancel statements
				var visitList func(list []ast.Stmt)
				addPoint := func(st ast.Stmt, kind string) {
					off := fset.Position(st.Pos()).Offset
					edits = append(edits, edit{off: off, ins: "vsyncP__.Point(\"" + kind + "\"); "})
					needShim = true
					nPoints++
					if kind == "close" || kind == "send" {
						// and one AFTER the statement: the threads it wakes may run before
						// the publisher's following (unsynchronised) statements
						end := fset.Position(st.End()).Offset
						edits = append(edits, edit{off: end, ins: "; vsyncP__.Point(\"after-" + kind + "\")"})
						nPoints++
					}
				}
				visitList = func(list []ast.Stmt) {
					for _, st := range list {
						switch s := st.(type) {
						case *ast.ExprStmt:
							if call, ok := s.X.(*ast.CallExpr); ok {
								switch fn := call.Fun.(type) {
								case *ast.Ident:
									if fn.Name == "close" && len(call.Args) == 1 {
										addPoint(st, "close")
									} else if cancelRe.MatchString(fn.Name) {
										addPoint(st, "cancel")
									}
								case *ast.SelectorExpr:
									if cancelRe.MatchString(fn.Sel.Name) {
										addPoint(st, "cancel")
									}
								}
							}
						case *ast.SendStmt:
							addPoint(st, "send")
						}
					}
				}
				ast.Inspect(f, func(n ast.Node) bool {
					switch b := n.(type) {
					case *ast.BlockStmt:
						visitList(b.List)
					case *ast.CaseClause:
						visitList(b.Body)
					case *ast.CommClause:
						visitList(b.Body)
					}
					return true
				})
			}
			if mapSet[p] {
				for _, ms := range mapSites[path] {
					edits = append(edits, edit{off: ms.Start, ins: "vsyncP__.RangeMap("})
					edits = append(edits, edit{off: ms.End, ins: fmt.Sprintf(", %q)", ms.Site)})
					needShim = true
					nRanges++
				}
			}
			if len(edits) == 0 {
				continue
			}
			delete(override, path)
			if needShim {
				// same line as the package clause: keeps line numbers
				off := fset.Position(f.Name.End()).Offset
				edits = append(edits, edit{off: off, ins: `; import vsyncP__ "` + shimImport + `"`})
			}
			sort.SliceStable(edits, func(i, j int) bool { return edits[i].off > edits[j].off })
			res := src
			for _, e := range edits {
				res = append(append(append([]byte{}, res[:e.off]...), []byte(e.ins)...), res[e.off+e.del:]...)
			}
			op := filepath.Join(*out, strings.ReplaceAll(p, "/", "_")+"__"+name)
			if old, err := os.ReadFile(op); err != nil || string(old) != string(res) {
				if err := os.WriteFile(op, res, 0o644); err != nil {
					fatal("%v", err)
				}
			}
			replace[path] = op
		}
	}
	for path, src := range override {
		replace[path] = src
	}
	b, _ := json.MarshalIndent(map[string]any{"Replace": replace}, "", " ")
	of := filepath.Join(*out, "overlay.json")
	if old, err := os.ReadFile(of); err != nil || string(old) != string(b) {
		if err := os.WriteFile(of, b, 0o644); err != nil {
			fatal("%v", err)
		}
	}
	fmt.Printf("instrument: %d files, %d imports redirected, %d points, %d map ranges\n", len(replace), nImports, nPoints, nRanges)
}

type mapSite struct {
	Start int    `json:"start"`
	End   int    `json:"end"`
	Site  string `json:"site"`
}

func hashDir(dir string) string {
	h := sha256.New()
	for _, n := range goFiles(dir) {
		b, err := readSrc(filepath.Join(dir, n))
		if err != nil {
			continue
		}
		io.WriteString(h, n)
		h.Write(b)
	}
	return hex.EncodeToString(h.Sum(nil))[:16]
}

func goBin() string {
	if g := os.Getenv("GO125"); g != "" {
		return g
	}
	return "/root/go/pkg/mod/golang.org/toolchain@v0.0.1-go1.25.0.linux-amd64/bin/go"
}

// exportData asks the go command for compiler export data of every dependency
// of the given packages.
func exportData(root, repo string, pkgs []string) map[string]string {
	args := []string{"list", "-export", "-deps", "-f", "{{.ImportPath}}\t{{.Export}}"}
	for _, p := range pkgs {
		ip := ""
		switch {
		case strings.HasPrefix(p, "v2/"):
			ip = "github.com/wundergraph/graphql-go-tools/v2/" + strings.TrimPrefix(p, "v2/")
		case strings.HasPrefix(p, "execution/"):
			ip = "github.com/wundergraph/graphql-go-tools/execution/" + strings.TrimPrefix(p, "execution/")
		default:
			fatal("unknown module for %s", p)
		}
		args = append(args, ip)
	}
	cmd := exec.Command(goBin(), args...)
	cmd.Dir = root
	cmd.Stderr = os.Stderr
	outb, err := cmd.Output()
	if err != nil {
		fatal("go list -export: %v", err)
	}
	m := map[string]string{}
	for _, ln := range strings.Split(string(outb), "\n") {
		parts := strings.Split(ln, "\t")
		if len(parts) == 2 && parts[1] != "" {
			m[parts[0]] = parts[1]
		}
	}
	return m
}

func findMapRanges(dir, rel string, exports map[string]string) map[string][]mapSite {
	fset := token.NewFileSet()
	var files []*ast.File
	for _, n := range goFiles(dir) {
		src, err := readSrc(filepath.Join(dir, n))
		if err != nil {
			fatal("read: %v", err)
		}
		f, err := parser.ParseFile(fset, filepath.Join(dir, n), src, 0)
		if err != nil {
			fatal("parse: %v", err)
		}
		files = append(files, f)
	}
	lookup := func(path string) (io.ReadCloser, error) {
		if e, ok := exports[path]; ok {
			return os.Open(e)
		}
		return nil, fmt.Errorf("no export data for %s", path)
	}
	info := &types.Info{Types: map[ast.Expr]types.TypeAndValue{}}
	conf := types.Config{Importer: importer.ForCompiler(fset, "gc", lookup), Error: func(err error) {}}
	conf.Check(rel, fset, files, info)
	out := map[string][]mapSite{}
	for _, f := range files {
		ast.Inspect(f, func(n ast.Node) bool {
			rs, ok := n.(*ast.RangeStmt)
			if !ok {
				return true
			}
			tv, ok := info.Types[rs.X]
			if !ok || tv.Type == nil {
				return true
			}
			if _, isMap := tv.Type.Underlying().(*types.Map); !isMap {
				return true
			}
			ps, pe := fset.Position(rs.X.Pos()), fset.Position(rs.X.End())
			out[ps.Filename] = append(out[ps.Filename], mapSite{Start: ps.Offset, End: pe.Offset,
				Site: fmt.Sprintf("%s/%s:%d", rel, filepath.Base(ps.Filename), ps.Line)})
			return true
		})
	}
	return out
}
